/-
  Model/Sleep.lean — src/fiber_event_native.c (fiber_sleep, fiber_event_wake_sleepers,
  waiter_insert, waiter_remove_less_than, the timer branch of fiber_poll_events_internal) and
  the sleep shims of src/fiber_io.c (sleep, usleep, nanosleep) — property C09.

  PART 1 — the sleepers tree ("a tree of linked lists") as an inductive type and the two tree
  functions transcribed as pure functions:

      void waiter_insert(waiter_el_t** tree, waiter_el_t* node) {
        if (!*tree) { *tree = node; return; }
        while (1) {
          if (node->wake_time < (*tree)->wake_time)       tree = &(*tree)->left;
          else if (node->wake_time == (*tree)->wake_time) { node->next = (*tree)->next;
                                                            (*tree)->next = node; break; }
          else                                            tree = &(*tree)->right;
          if (!*tree) { *tree = node; break; } } }

      waiter_el_t* waiter_remove_less_than(waiter_el_t** tree, const uint64_t wake_time) {
        while (*tree) {
          if ((*tree)->left)                          tree = &(*tree)->left;
          else if (wake_time > (*tree)->wake_time)  { ret = *tree; *tree = (*tree)->right; return ret; }
          else                                        return NULL; }
        return NULL; }

  PART 2 — the protocol.  Virtual time `now` in microseconds; the periodic timer (period
  `P` µs) whose expiration counter `pending` is read-and-reset by whoever reads the timer fd;
  `timer_trigger_count` (`ttc`); the ticket spinlock `sleep_spinlock`; the sleepers tree; any
  number of fibers (`Nat → Pc`) that sleep and any number of fibers that poll.  One step =
  one access to a registered cell (in the order the C code performs them), one API note of the
  harness, or one of the three notes of harness/wrap_sleep.c (`node`, `resumed`, `timer`).

  The model is parameterised by the three decisions in which the code as found and the
  candidate fixes differ (`Variant`):

    nextFirst : fiber_event_wake_sleepers reads `to_wake->next` BEFORE it makes the fiber
                runnable (as found: after `fiber_manager_schedule` — F-C09a)
    drains    : the timer is read under sleep_spinlock, by the poller AND by fiber_sleep, which
                both run the wake pass (as found: the poller reads the timer before it takes
                the lock and fiber_sleep uses whatever `timer_trigger_count` holds — F-C09b)
    widen     : `(uint64_t)seconds * 1000` and nanosleep splits tv_sec > UINT32_MAX into several
                fiber_sleep calls (as found: 32-bit multiplication, tv_sec truncated — F-C09c)

      fiber_sleep(seconds, useconds):
        sleep_ms = seconds * 1000 + useconds / 1000 + 1;      // number of TICKS
        waiter_el_t wake_info = {};                           // on the fiber's own stack
        lock(&sleep_spinlock);
        [drains: wake pass]
        wake_info.wake_time = timer_trigger_count + sleep_ms;
        waiter_insert(&sleepers, &wake_info);
        wake_info.waiter = this_fiber;  this_fiber->state = WAITING;
        manager->spinlock_to_unlock = &sleep_spinlock;        // released by the SUCCESSOR fiber
        fiber_manager_yield(manager);                         // parked

      wake pass (fiber_event_wake_sleepers):
        [as found: k = read(timer) happened before]  lock;  [drains: k = read(timer)]
        timer_trigger_count += k;
        while ((to_wake = waiter_remove_less_than(&sleepers, timer_trigger_count)))
          do { f = to_wake->waiter;  [nextFirst: to_wake = to_wake->next;]
               f->state = READY; fiber_manager_schedule(manager, f);
               [as found: to_wake = to_wake->next;] } while (to_wake);
        unlock;

  Accesses of the two tree functions to the registered cells (`root`, a node's `wake_time`,
  `left`, `right`, `next`) are validated against the abstract tree: every read must return what
  the tree says; the single link / unlink write is remembered (`pend`) and reconciled with the
  result of the pure function at the commit point (the `node` note for an insertion, the first
  read of `->waiter` for a removal).  So every protocol run also checks the pure functions.
-/
import LibfiberVerif.Core.Sys
import LibfiberVerif.Core.Event
import LibfiberVerif.Driver

namespace LibfiberVerif.Sleep

/-! ## Part 1 — the tree -/

/-- `node id wake_time chain left right`; `chain` = the ids reachable through `next`, in
    `next` order (all with the same wake_time as the head). -/
inductive Tree
  | nil
  | node (id wt : Nat) (chain : List Nat) (l r : Tree)
  deriving Repr, DecidableEq, Inhabited

namespace Tree

/-- one tree node with its chain, as (id, wake_time) pairs in wake order -/
def group (i w : Nat) (c : List Nat) : List (Nat × Nat) := (i, w) :: c.map (fun j => (j, w))

/-- in-order traversal: (id, wake_time), every element of the tree exactly once -/
def toList : Tree → List (Nat × Nat)
  | nil => []
  | node i w c l r => toList l ++ group i w c ++ toList r

def size : Tree → Nat
  | nil => 0
  | node _ _ _ l r => size l + 1 + size r

def rootId : Tree → Nat
  | nil => 0
  | node i _ _ _ _ => i

/-- binary-search-tree order on wake times (equal wake times share one tree node) -/
def Ordered : Tree → Prop
  | nil => True
  | node _ w _ l r => Ordered l ∧ Ordered r ∧ (∀ x ∈ toList l, x.2 < w) ∧ (∀ x ∈ toList r, w < x.2)

end Tree

open Tree

/-- `waiter_insert` -/
def insert : Tree → Nat → Nat → Tree
  | .nil, id, wt => .node id wt [] .nil .nil
  | .node i w c l r, id, wt =>
    if wt < w then .node i w c (insert l id wt) r
    else if wt = w then .node i w (id :: c) l r
    else .node i w c l (insert r id wt)

/-- `waiter_remove_less_than`: the removed tree node (id, wake_time, chain) and the new tree -/
def removeLt : Tree → Nat → Option ((Nat × Nat × List Nat) × Tree)
  | .nil, _ => none
  | .node i w c .nil r, now => if w < now then some ((i, w, c), r) else none
  | .node i w c (.node i' w' c' l' r') r, now =>
    match removeLt (.node i' w' c' l' r') now with
    | none => none
    | some (x, l2) => some (x, .node i w c l2 r)

/-- `while ((to_wake = waiter_remove_less_than(&sleepers, now))) do … while (to_wake)`:
    everything that is woken, in wake order, and the tree that is left -/
def drainN : Nat → Tree → Nat → List (Nat × Nat) × Tree
  | 0, t, _ => ([], t)
  | n + 1, t, now =>
    match removeLt t now with
    | none => ([], t)
    | some ((i, w, c), t') =>
      let r := drainN n t' now
      (group i w c ++ r.1, r.2)

def drainAll (t : Tree) (now : Nat) : List (Nat × Nat) × Tree := drainN (size t) t now

/-- the cell contents of a node as the C code sees them (0 = NULL) -/
structure Cell where
  wt : Nat
  next : Nat
  left : Nat
  right : Nat
  deriving Repr, DecidableEq, Inhabited

def chainCell (w : Nat) : List Nat → Nat → Option Cell
  | [], _ => none
  | c :: cs, n => if n = c then some ⟨w, cs.head?.getD 0, 0, 0⟩ else chainCell w cs n

def lookup : Tree → Nat → Option Cell
  | .nil, _ => none
  | .node i w c l r, n =>
    if n = i then some ⟨w, c.head?.getD 0, rootId l, rootId r⟩
    else match chainCell w c n with
      | some x => some x
      | none => match lookup l n with
        | some x => some x
        | none => lookup r n

/-- the pointer cells a tree function may write -/
inductive Loc
  | root
  | left (n : Nat)
  | right (n : Nat)
  | next (n : Nat)
  deriving Repr, DecidableEq, Inhabited

def cellVal (t : Tree) : Loc → Option Nat
  | .root => some (rootId t)
  | .left n => (lookup t n).map (·.left)
  | .right n => (lookup t n).map (·.right)
  | .next n => (lookup t n).map (·.next)

/-- the one write seen during a traversal stored `x` into `loc`: that is what `loc` holds in
    the tree computed by the pure function -/
def pendOk (t : Tree) : Option (Loc × Nat) → Bool
  | none => false
  | some (loc, x) => cellVal t loc == some x

/-! ## Part 2 — the protocol -/

structure Variant where
  nextFirst : Bool
  drains : Bool
  widen : Bool
  /-- timer period in microseconds (FIBER_TIME_RESOLUTION_MS * 1000) -/
  period : Nat
  deriving Repr, DecidableEq, Inhabited

def M32 : Nat := 4294967296
def U32MAX : Nat := 4294967295
def WAITING : Nat := 3
def READY : Nat := 2

/-- `sleep_ms`: the number of timer ticks fiber_sleep adds to timer_trigger_count -/
def ticks (v : Variant) (sec usec : Nat) : Nat :=
  if v.widen then sec * 1000 + usec / 1000 + 1 else (sec * 1000 + usec / 1000 + 1) % M32

/-- which API was called: fiber_sleep(a, b) / usleep(a) / sleep(a) / nanosleep({a, b}) -/
inductive Kind
  | fs | us | sl | ns
  deriving Repr, DecidableEq, Inhabited

/-- the (seconds, useconds) arguments of the fiber_sleep calls one API call makes -/
def plan (v : Variant) : Kind → Nat → Nat → List (Nat × Nat)
  | .fs, a, b => [(a % M32, b % M32)]
  | .us, a, _ => [((a % M32) / 1000000, (a % M32) % 1000000)]
  | .sl, a, _ => [(a % M32, 0)]
  | .ns, a, b =>
    if v.widen then
      List.replicate ((a - 1) / U32MAX) (U32MAX, 0) ++ [(a - ((a - 1) / U32MAX) * U32MAX, b / 1000 + 1)]
    else [(a % M32, (b / 1000 + 1) % M32)]

/-- requested duration in microseconds (nanoseconds rounded up) -/
def reqUs : Kind → Nat → Nat → Nat
  | .fs, a, b => a * 1000000 + b
  | .us, a, _ => a
  | .sl, a, _ => a * 1000000
  | .ns, a, b => a * 1000000 + (b + 999) / 1000

/-- what the C types allow: 32-bit arguments of fiber_sleep / usleep / sleep; nanosleep's own
    contract tv_nsec < 10^9 (tv_sec is a 64-bit time_t: any value) -/
def argsOk : Kind → Nat → Nat → Bool
  | .fs, a, b => decide (a < M32) && decide (b < M32)
  | .us, a, _ => decide (a < M32)
  | .sl, a, _ => decide (a < M32)
  | .ns, _, b => decide (b < 1000000000)

/-- microseconds the protocol guarantees for a list of fiber_sleep calls -/
def guaranteed (v : Variant) : List (Nat × Nat) → Nat
  | [] => 0
  | (s, u) :: rest => v.period * ticks v s u + guaranteed v rest

/-- who runs the wake pass / takes the lock: a sleeper inside fiber_sleep or a poller -/
inductive Role
  | sl | wk
  deriving Repr, DecidableEq, Inhabited

inductive Pc
  | idle
  /-- sleeper: API called (or previous fiber_sleep of the same call resumed), not yet at the lock -/
  | called
  /-- poller (as found): read `k > 0` expirations from the timer, not yet at the lock -/
  | polled (k : Nat)
  /-- `fetch_add(&users)` returned `my` -/
  | spin (r : Role) (k my : Nat)
  /-- owns sleep_spinlock -/
  | locked (r : Role) (k : Nat)
  /-- (drains) read `k` from the timer under the lock; next: `r ttc` -/
  | addR (r : Role) (k : Nat)
  /-- read `ttc = v`; next: `w ttc (v + k)` -/
  | addW (r : Role) (k v : Nat)
  /-- loop head of the wake pass: next is `r ttc` (argument of waiter_remove_less_than) -/
  | loopHead (r : Role)
  /-- inside waiter_remove_less_than -/
  | removing (r : Role)
  /-- `f = to_wake->waiter` read for node `n` -/
  | gotNode (r : Role) (n : Nat)
  /-- (nextFirst) `to_wake->next = x` read; next: make `n` READY -/
  | gotNext (r : Role) (n x : Nat)
  /-- (as found) `n` made READY and scheduled; next: read `to_wake->next` from `n`'s stack -/
  | sched (r : Role) (n : Nat)
  /-- `to_wake = x ≠ NULL`; next: `x->waiter` -/
  | needNode (r : Role) (x : Nat)
  /-- poller: wake pass finished, `ld ticket` of the unlock done -/
  | wDone
  /-- sleeper: read ttc, inside waiter_insert -/
  | inserting
  /-- sleeper: node is in the tree (`node` note) -/
  | inserted
  /-- sleeper: `wake_info.waiter = this_fiber` written -/
  | owner
  /-- sleeper: `state = WAITING` written, switched out, the lock not yet released by the successor -/
  | parkedL
  /-- sleeper: asleep, lock released: may be woken -/
  | parked
  /-- sleeper: made READY by a wake pass (exactly once), not yet running -/
  | woken
  /-- sleeper: resumed from the last fiber_sleep of the API call; next: `ret sleep` -/
  | done
  deriving Repr, DecidableEq, Inhabited

/-- pcs in which the actor owns sleep_spinlock -/
def Pc.holds : Pc → Bool
  | .locked .. | .addR .. | .addW .. | .loopHead .. | .removing .. | .gotNode .. | .gotNext ..
  | .sched .. | .needNode .. | .wDone | .inserting | .inserted | .owner | .parkedL => true
  | _ => false

/-- expirations read from the timer that the actor still has to add to `ttc` -/
def Pc.carry : Pc → Nat
  | .polled k | .spin _ k _ | .locked _ k | .addR _ k | .addW _ k _ => k
  | _ => 0

inductive Ev
  | tick (d k : Nat)
  | callSleep (f : Nat) (kind : Kind) (a b t : Nat)
  | retSleep (f t : Nat)
  | resumed (f : Nat)
  | nodeNote (f wt : Nat)
  | timerRead (g k : Nat)
  | lockFadd (g old : Nat)
  | lockLd (g t : Nat)
  | unlockLd (h t : Nat)
  | unlockSt (h t : Nat)
  | rTtc (g x : Nat) (inSleep : Bool)
  | wTtc (g x : Nat)
  | rRoot (g x : Nat)
  | wRoot (g x : Nat)
  | rWt (g n x : Nat)
  | rLeft (g n x : Nat)
  | wLeft (g n x : Nat)
  | rRight (g n x : Nat)
  | wRight (g n x : Nat)
  | rNext (g n x : Nat)
  | wNext (g n x : Nat)
  | rWaiter (g n x : Nat)
  | wWaiter (g n x : Nat)
  | wState (g f x : Nat)
  /-- ghost (never in a log): as found, the waker reads `next` from the stack frame of a fiber
      that has already been resumed; the frame is dead or reused, the value is arbitrary -/
  | staleNext (g x : Nat)
  deriving Repr, DecidableEq, Inhabited

structure St where
  /-- virtual time, microseconds -/
  now : Nat
  /-- timer expirations not yet read (the timerfd counter) -/
  pending : Nat
  /-- ghost: expirations read from the timer and not yet added to `ttc`: (actor, count) -/
  fl : List (Nat × Nat)
  ttc : Nat
  users : Nat
  ticket : Nat
  /-- ghost: owner of sleep_spinlock -/
  holder : Option Nat
  /-- unlock in progress: (fiber performing it, ticket value it read) -/
  unl : Option (Nat × Nat)
  tree : Tree
  /-- the nodes of the group removed from the tree that have not been made READY yet (head =
      the node the wake pass is working on), and the group's wake time -/
  cur : List Nat
  curW : Nat
  pend : Option (Loc × Nat)
  pc : Nat → Pc
  /-- remaining fiber_sleep(sec, usec) calls of the API call in progress (head = current) -/
  segs : Nat → List (Nat × Nat)
  /-- ghost: virtual time of `call sleep`; requested µs; µs accounted for by completed
      fiber_sleep calls; time the current fiber_sleep call began; ttc it read; its wake_time -/
  start : Nat → Nat
  req : Nat → Nat
  /-- ghost: `guaranteed v (plan …)` of the API call in progress -/
  guar : Nat → Nat
  /-- ghost: the arithmetic of the call in progress lost part of the request (32-bit overflow) -/
  ovf : Nat → Bool
  credit : Nat → Nat
  segStart : Nat → Nat
  base : Nat → Nat
  wake : Nat → Nat
  /-- ghost: the `ttc` read by fiber_sleep was behind the expirations that had already
      happened when the call was made -/
  stale : Nat → Bool
  /-- ghost: the waker read a node after its fiber had been made runnable -/
  badRead : Bool
  /-- ghost: fibers dropped from a wake chain (never woken) -/
  lost : List Nat
  /-- ghost counters: how often fiber `f` parked / was made READY by a wake pass / resumed -/
  nPark : Nat → Nat
  nWake : Nat → Nat
  nRes : Nat → Nat

def init : St :=
  { now := 0, pending := 0, fl := [], ttc := 0, users := 0, ticket := 0, holder := none, unl := none,
    tree := .nil, cur := [], curW := 0, pend := none, pc := fun _ => .idle, segs := fun _ => [],
    start := fun _ => 0, req := fun _ => 0, guar := fun _ => 0, ovf := fun _ => false, credit := fun _ => 0, segStart := fun _ => 0,
    base := fun _ => 0, wake := fun _ => 0, stale := fun _ => false, badRead := false, lost := [],
    nPark := fun _ => 0, nWake := fun _ => 0, nRes := fun _ => 0 }

/-- is the actor inside one of the two tree functions (reads are checked against the tree)? -/
def Pc.traversing : Pc → Bool
  | .removing _ | .inserting => true
  | _ => false

/-- after the `next` pointer `y` has been obtained: end of chain or next node -/
def afterNext (r : Role) (y : Nat) : Pc := if y = 0 then .loopHead r else .needNode r y

def step (v : Variant) (s : St) : Ev → Option St
  | .tick d k =>
    if k = (s.now + d) / v.period - s.now / v.period then
      some { s with now := s.now + d, pending := s.pending + k }
    else none
  | .callSleep f kind a b t =>
    -- fiber id 0 is the main fiber (the clock); 0 also stands for NULL in the node cells
    if s.pc f = .idle ∧ t = s.now ∧ f ≠ 0 ∧ argsOk kind a b = true then
      some { s with pc := upd s.pc f .called, segs := upd s.segs f (plan v kind a b),
                    start := upd s.start f s.now, req := upd s.req f (reqUs kind a b),
                    guar := upd s.guar f (guaranteed v (plan v kind a b)),
                    ovf := upd s.ovf f (decide (guaranteed v (plan v kind a b) < reqUs kind a b)),
                    credit := upd s.credit f 0, segStart := upd s.segStart f s.now,
                    stale := upd s.stale f false }
    else none
  | .lockFadd g old =>
    if old = s.users then
      match s.pc g with
      | .called => some { s with users := old + 1, pc := upd s.pc g (.spin .sl 0 old) }
      | .polled k => some { s with users := old + 1, pc := upd s.pc g (.spin .wk k old) }
      | .idle => if v.drains then some { s with users := old + 1, pc := upd s.pc g (.spin .wk 0 old) } else none
      | _ => none
    else none
  | .lockLd g t =>
    match s.pc g with
    | .spin r k my =>
      if t = s.ticket then
        if t = my then
          -- mutual exclusion of the ticket lock is C18's theorem (composition assumption)
          if s.holder = none then some { s with holder := some g, pc := upd s.pc g (.locked r k) } else none
        else some s
      else none
    | _ => none
  | .timerRead g k =>
    if k = s.pending then
      if v.drains then
        match s.pc g with
        | .locked r 0 => some { s with pending := 0, fl := (g, k) :: s.fl, pc := upd s.pc g (.addR r k) }
        | _ => none
      else
        match s.pc g with
        | .idle =>
          if k = 0 then some s      -- EAGAIN: nothing to do
          else some { s with pending := 0, fl := (g, k) :: s.fl, pc := upd s.pc g (.polled k) }
        | _ => none
    else none
  | .rTtc g x inSleep =>
    if x = s.ttc then
      match s.pc g with
      | .locked r k =>
        if v.drains then none
        else match r with
          | .wk => if inSleep then none else some { s with pc := upd s.pc g (.addW .wk k x) }
          | .sl =>
            if inSleep then
              some { s with pc := upd s.pc g .inserting, base := upd s.base g x, pend := none,
                            stale := upd s.stale g (s.stale g || decide (x < s.segStart g / v.period)) }
            else none
      | .addR r k => if inSleep then none else some { s with pc := upd s.pc g (.addW r k x) }
      | .loopHead r => if inSleep then none else some { s with pc := upd s.pc g (.removing r), pend := none }
      | .removing r =>
        -- the wake pass inside fiber_sleep is over: waiter_remove_less_than returned NULL
        if inSleep ∧ r = .sl ∧ removeLt s.tree s.ttc = none ∧ s.pend = none then
          some { s with pc := upd s.pc g .inserting, base := upd s.base g x, pend := none,
                        stale := upd s.stale g (s.stale g || decide (x < s.segStart g / v.period)) }
        else none
      | _ => none
    else none
  | .wTtc g x =>
    match s.pc g with
    | .addW r k y =>
      if x = y + k then some { s with ttc := x, fl := s.fl.erase (g, k), pc := upd s.pc g (.loopHead r) }
      else none
    | _ => none
  | .rRoot g x => if (s.pc g).traversing ∧ x = rootId s.tree then some s else none
  | .rWt g n x =>
    if (s.pc g).traversing ∧ (lookup s.tree n).map (·.wt) = some x then some s else none
  | .rLeft g n x =>
    if (s.pc g).traversing ∧ (lookup s.tree n).map (·.left) = some x then some s else none
  | .rRight g n x =>
    if (s.pc g).traversing ∧ (lookup s.tree n).map (·.right) = some x then some s else none
  | .wRoot g x =>
    if (s.pc g).traversing ∧ s.pend = none then some { s with pend := some (.root, x) } else none
  | .wLeft g n x =>
    if (s.pc g).traversing ∧ s.pend = none then some { s with pend := some (.left n, x) } else none
  | .wRight g n x =>
    if s.pc g = .inserting ∧ s.pend = none then some { s with pend := some (.right n, x) } else none
  | .wNext g n x =>
    if s.pc g = .inserting ∧ s.pend = none then some { s with pend := some (.next n, x) } else none
  | .nodeNote f wt =>
    match s.pc f, s.segs f with
    | .inserting, (sec, usec) :: _ =>
      let t' := insert s.tree f wt
      if wt = s.base f + ticks v sec usec ∧ pendOk t' s.pend ∧ (s.pend.map (·.2)) = some f ∧ f ≠ 0 then
        some { s with tree := t', wake := upd s.wake f wt, pend := none, pc := upd s.pc f .inserted }
      else none
    | _, _ => none
  | .wWaiter g n x =>
    if s.pc g = .inserted ∧ n = g ∧ x = g then some { s with pc := upd s.pc g .owner } else none
  | .wState g f x =>
    if x = WAITING then
      if s.pc g = .owner ∧ f = g then
        some { s with pc := upd s.pc g .parkedL, nPark := upd s.nPark g (s.nPark g + 1) }
      else none
    else if x = READY then
      match s.pc g with
      | .gotNext r n y =>
        if v.nextFirst ∧ n = f ∧ s.pc f = .parked ∧ s.cur.head? = some f ∧ y = s.cur.tail.head?.getD 0 then
          some { s with cur := s.cur.tail, pc := upd (upd s.pc f .woken) g (afterNext r y),
                        nWake := upd s.nWake f (s.nWake f + 1) }
        else none
      | .gotNode r n =>
        if ¬ v.nextFirst ∧ n = f ∧ s.pc f = .parked ∧ s.cur.head? = some f then
          some { s with cur := s.cur.tail, pc := upd (upd s.pc f .woken) g (.sched r n),
                        nWake := upd s.nWake f (s.nWake f + 1) }
        else none
      | _ => none
    else none
  | .unlockLd h t =>
    if t = s.ticket ∧ s.unl = none then
      match s.holder with
      | some o =>
        if o = h then
          -- the poller's own unlock: the wake pass is over, waiter_remove_less_than returned NULL
          if s.pc h = .removing .wk ∧ removeLt s.tree s.ttc = none ∧ s.pend = none then
            some { s with unl := some (h, t), pc := upd s.pc h .wDone }
          else none
        else if s.pc o = .parkedL then some { s with unl := some (h, t) }   -- on behalf of the parked fiber
        else none
      | none => none
    else none
  | .unlockSt h t =>
    match s.unl, s.holder with
    | some (h', t0), some o =>
      if h' = h ∧ t = t0 + 1 then
        match s.pc o with
        | .parkedL => some { s with ticket := t, holder := none, unl := none, pc := upd s.pc o .parked }
        | .wDone => some { s with ticket := t, holder := none, unl := none, pc := upd s.pc o .idle }
        | _ => none
      else none
    | _, _ => none
  | .rWaiter g n x =>
    match s.pc g with
    | .removing r =>
      match removeLt s.tree s.ttc with
      | some ((i, w, c), t') =>
        if n = i ∧ x = n ∧ pendOk t' s.pend then
          some { s with tree := t', cur := i :: c, curW := w, pend := none, pc := upd s.pc g (.gotNode r n),
                        badRead := s.badRead || decide (s.pc n ≠ .parked) }
        else none
      | none => none
    | .needNode r y =>
      if n = y ∧ s.cur.head? = some y ∧ x = n then
        some { s with pc := upd s.pc g (.gotNode r n), badRead := s.badRead || decide (s.pc n ≠ .parked) }
      else none
    | _ => none
  | .rNext g n x =>
    match s.pc g with
    | .inserting => if (lookup s.tree n).map (·.next) = some x then some s else none
    | .gotNode r m =>
      if v.nextFirst ∧ n = m ∧ s.cur.head? = some n ∧ x = s.cur.tail.head?.getD 0 then
        some { s with pc := upd s.pc g (.gotNext r n x), badRead := s.badRead || decide (s.pc n ≠ .parked) }
      else none
    | .sched r m =>
      if n = m then
        if s.pc m = .woken then
          -- made runnable but not yet resumed: its frame is still intact
          if x = s.cur.head?.getD 0 then
            some { s with badRead := true, pc := upd s.pc g (afterNext r x) }
          else none
        else
          -- the fiber has been resumed: dead / reused frame, arbitrary value
          if x = 0 then
            some { s with badRead := true, lost := s.lost ++ s.cur, cur := [], pc := upd s.pc g (.loopHead r) }
          else if x = s.cur.head?.getD 0 then
            some { s with badRead := true, pc := upd s.pc g (afterNext r x) }
          else none
      else none
    | _ => none
  | .staleNext g x =>
    match s.pc g with
    | .sched r m =>
      if s.pc m ≠ .woken then
        if x = 0 then
          some { s with badRead := true, lost := s.lost ++ s.cur, cur := [], pc := upd s.pc g (.loopHead r) }
        else if x = s.cur.head?.getD 0 then
          some { s with badRead := true, pc := upd s.pc g (afterNext r x) }
        else none
      else none
    | _ => none
  | .resumed f =>
    match s.pc f, s.segs f with
    | .woken, (sec, usec) :: rest =>
      some { s with pc := upd s.pc f (if rest = [] then .done else .called), segs := upd s.segs f rest,
                    credit := upd s.credit f (s.credit f + v.period * ticks v sec usec),
                    segStart := upd s.segStart f s.now, nRes := upd s.nRes f (s.nRes f + 1) }
    | _, _ => none
  | .retSleep f t =>
    if s.pc f = .done ∧ t = s.now then some { s with pc := upd s.pc f .idle } else none

def sys (v : Variant) : Sys St Ev := { init := init, step := step v }

/-! ### log decoding -/

def fiberOfPtr (s : String) : Option Nat :=
  if s = "0" then some 0
  else if s.startsWith "@F" then (s.drop 2).toString.toNat?
  else none

def splitCell (c : String) : Option (String × String) :=
  match c.splitOn "." with
  | [a, b] => some (a, b)
  | _ => none

/-- `W17` ↦ 17 -/
def cellNode (a : String) : Option Nat :=
  if a.startsWith "W" then (a.drop 1).toString.toNat? else none
def cellFiber (a : String) : Option Nat :=
  if a.startsWith "F" then (a.drop 1).toString.toNat? else none

def schedulerFuncs : List String :=
  ["fiber_manager_yield", "fiber_scheduler_next", "fiber_manager_switch_to",
   "fiber_manager_do_maintenance", "fiber_mark_completed", "fiber_destroy",
   "fiber_scheduler_schedule", "fiber_scheduler_load_balance", "fiber_scheduler_steal",
   "fiber_join", "fiber_tryjoin", "fiber_detach", "fiber_manager_thread_func"]

def kindOf (s : String) : Option Kind :=
  if s = "s" then some .fs else if s = "u" then some .us else if s = "S" then some .sl
  else if s = "n" then some .ns else none

/-- pointer values have already been translated to node ids (see `translate`) -/
def ofRaw (r : RawEv) : Option (Option Ev) :=
  let g := r.fiber
  if schedulerFuncs.contains r.func then some none else
  match r.kind, r.args with
  | "note", ["tick", d, k] => do let d ← d.toNat?; let k ← k.toNat?; pure (some (.tick d k))
  | "note", ["call", "sleep", kd, a, b, t] => do
      let kd ← kindOf kd; let a ← a.toNat?; let b ← b.toNat?; let t ← t.toNat?
      pure (some (.callSleep g kd a b t))
  | "note", ["ret", "sleep", t] => t.toNat?.map (fun t => some (.retSleep g t))
  | "note", ["resumed"] => some (some (.resumed g))
  | "note", ["node", _, wt] => wt.toNat?.map (fun wt => some (.nodeNote g wt))
  | "note", ["timer", k] => k.toNat?.map (fun k => some (.timerRead g k))
  | "note", _ => some none
  | "fadd", ["lk+4/4", old, "1", _] => old.toNat?.map (fun o => some (.lockFadd g o))
  | "ld", ["lk/4", t, _] =>
      if r.func = "fiber_spinlock_lock" then t.toNat?.map (fun t => some (.lockLd g t))
      else if r.func = "fiber_spinlock_unlock" then t.toNat?.map (fun t => some (.unlockLd g t))
      else none
  | "st", ["lk/4", t, _] => t.toNat?.map (fun t => some (.unlockSt g t))
  | "r", ["ttc", x] => x.toNat?.map (fun x => some (.rTtc g x (r.func = "fiber_sleep")))
  | "w", ["ttc", x] => x.toNat?.map (fun x => some (.wTtc g x))
  | "r", ["root", x] => x.toNat?.map (fun x => some (.rRoot g x))
  | "w", ["root", x] => x.toNat?.map (fun x => some (.wRoot g x))
  | k, [c, x] =>
    match splitCell c with
    | some (a, "state") => do
        let f ← cellFiber a; let x ← x.toNat?
        if k = "w" then pure (some (.wState g f x)) else none
    | some (a, "wake_time") => do
        let n ← cellNode a; let x ← x.toNat?
        if k = "r" then pure (some (.rWt g n x)) else none
    | some (a, "left") => do
        let n ← cellNode a; let x ← x.toNat?
        if k = "r" then pure (some (.rLeft g n x)) else if k = "w" then pure (some (.wLeft g n x)) else none
    | some (a, "right") => do
        let n ← cellNode a; let x ← x.toNat?
        if k = "r" then pure (some (.rRight g n x)) else if k = "w" then pure (some (.wRight g n x)) else none
    | some (a, "next") => do
        let n ← cellNode a; let x ← x.toNat?
        if k = "r" then pure (some (.rNext g n x)) else if k = "w" then pure (some (.wNext g n x)) else none
    | some (a, "waiter") => do
        let n ← cellNode a; let x ← fiberOfPtr x
        if k = "r" then pure (some (.rWaiter g n x)) else if k = "w" then pure (some (.wWaiter g n x)) else none
    | _ => if k = "switch" ∨ k = "fcreate" ∨ k = "fdestroy" ∨ k = "rqpush" ∨ k = "rqpop" ∨ k = "rqsteal" ∨ k = "relax" then some none else none
  | "switch", _ => some none
  | "fcreate", _ => some none
  | "fdestroy", _ => some none
  | "rqpush", _ => some none
  | "rqpop", _ => some none
  | "rqsteal", _ => some none
  | "relax", _ => some none
  | "fence", _ => some none
  | _, _ => none

/-- node addresses: every `note node <addr> <wake_time>` of fiber `f` maps `<addr>` to `f`
    (a stack address belongs to one fiber for the whole run) -/
def addrMap (lines : List String) : List (String × Nat) :=
  lines.filterMap (fun l => match parseLine l with
    | some r => match r.kind, r.args with
      | "note", ["node", a, _] => some (a, r.fiber)
      | _, _ => none
    | none => none)

def isPtrCell (c : String) : Bool :=
  c = "root" || c.endsWith ".next" || c.endsWith ".left" || c.endsWith ".right"

/-- an address that is no node of this run (wild pointer) -/
def WILD : Nat := 4000000000

/-- rewrite the pointer value of an access to a pointer cell into a node id -/
def translate (m : List (String × Nat)) (l : String) : String :=
  match parseLine l with
  | some r =>
    match r.kind, r.args with
    | k, [c, x] =>
      if (k = "r" ∨ k = "w") ∧ isPtrCell c then
        let id := if x = "0" then 0 else match m.lookup x with
          | some f => f
          | none => WILD
        s!"{r.tid} {r.fiber} {r.func} {k} {c} {id}"
      else l
    | _, _ => l
  | none => l

/-! ### monitor: the API-level clauses of C09 on the notes (plus the wake order of the
    wake pass for the stale-node check).  Flags definite violations only. -/

structure MonSt where
  v : Variant
  now : Nat := 0
  /-- open API calls: fiber ↦ (kind, a, b, start, resumes seen) -/
  open_ : List (Nat × (Kind × Nat × Nat × Nat × Nat)) := []
  /-- (as found) wakers that made `f` READY and have not yet read `f`'s `next`: (waker, f) -/
  awaiting : List (Nat × Nat) := []
  /-- fibers woken and not yet resumed -/
  ready : List Nat := []
  /-- the first stale read seen (the mechanism; reported together with its API-level consequence) -/
  staleMsg : Option String := none

def monStep (m : MonSt) (e : Ev) : Except String MonSt :=
  match e with
  | .tick d _ => pure { m with now := m.now + d }
  | .callSleep f kd a b t =>
    if (m.open_.lookup f).isSome then throw s!"double_resume fiber {f} calls sleep while its previous sleep has not returned"
    else pure { m with open_ := (f, (kd, a, b, t, 0)) :: m.open_ }
  | .wState g f x =>
    if x = READY then
      if m.ready.contains f then throw s!"double_resume fiber {f} made READY twice by the wake pass"
      else pure { m with ready := f :: m.ready,
                         awaiting := if m.v.nextFirst then m.awaiting else (g, f) :: m.awaiting }
    else pure m
  | .rNext g n _ => pure { m with awaiting := m.awaiting.filter (· ≠ (g, n)) }
  | .resumed f =>
    match m.open_.lookup f with
    | none => throw s!"double_resume fiber {f} resumed from fiber_sleep without an open sleep call"
    | some (kd, a, b, t, k) =>
      if ¬ m.ready.contains f then throw s!"double_resume fiber {f} resumed although no wake pass made it READY (second resume of one wake-up)"
      else
        let m := match m.awaiting.find? (·.2 = f), m.staleMsg with
          | some (g, _), none => { m with staleMsg := some s!"stale_node_read fiber {f} resumed (on another kernel thread) before waker {g} read to_wake->next from {f}'s stack frame" }
          | _, _ => m
        pure { m with ready := m.ready.filter (· ≠ f), awaiting := m.awaiting.filter (·.2 ≠ f),
                      open_ := (f, (kd, a, b, t, k + 1)) :: m.open_.filter (·.1 ≠ f) }
  | .retSleep f t =>
    match m.open_.lookup f with
    | none => throw s!"double_resume fiber {f} returned from a sleep it did not call"
    | some (kd, a, b, t0, k) =>
      let need := reqUs kd a b
      let asFound : Variant := { m.v with widen := false }
      let fixedV : Variant := { m.v with widen := true }
      if k ≠ (plan m.v kd a b).length then
        throw s!"double_resume fiber {f} was resumed {k} times during one call that makes {(plan m.v kd a b).length} fiber_sleep call(s)"
      else if t - t0 < need then
        if ¬ m.v.widen ∧ guaranteed asFound (plan asFound kd a b) < guaranteed fixedV (plan fixedV kd a b) then
          throw s!"overflow_short_sleep fiber {f} requested {need} us, resumed after {t - t0} us (32-bit overflow of seconds*1000 / truncated tv_sec)"
        else throw s!"early_wake fiber {f} requested {need} us, resumed after {t - t0} us of virtual time"
      else pure { m with open_ := m.open_.filter (·.1 ≠ f) }
  | _ => pure m

def monitor (v : Variant) (evs : List Ev) (rawNotes : List (List String)) : Option String :=
  let withStale (m : MonSt) (msg : String) : String :=
    match m.staleMsg with
    | some st => msg ++ "; " ++ st
    | none => msg
  let rec go (m : MonSt) : List Ev → Option String
    | [] =>
      if rawNotes.any (fun n => n.head? = some "lost") then
        let ids := (rawNotes.find? (fun n => n.head? = some "lost")).map (·.drop 1) |>.getD []
        some (withStale m s!"lost_sleeper fibers {ids} are parked in fiber_sleep while sleep_spinlock is free although they are not in the sleepers tree (or overdue in it): nothing can wake them any more")
      else if rawNotes.any (fun n => n.head? = some "starved") then
        some (withStale m "others_starved a runnable fiber made no progress while other fibers slept")
      else m.staleMsg
    | e :: es => match monStep m e with
      | .error msg => some (withStale m msg)
      | .ok m' => go m' es
  go { v := v } evs

/-! ### differential test of the pure functions against the real ones (`sleep diff …`) -/

def driveTree (lines : List String) : IO UInt32 := do
  let notes := lines.filterMap (fun l => match parseLine l with
    | some r => if r.kind = "note" then some r.args else none
    | none => none)
  let rec go (t : Tree) (n : Nat) : List (List String) → Nat × Option String
    | [] => (n, none)
    | ("ins" :: id :: wt :: _) :: rest =>
      match id.toNat?, wt.toNat? with
      | some id, some wt => go (insert t id wt) (n + 1) rest
      | _, _ => (n, some "bad ins")
    | ("rem" :: now :: ids) :: rest =>
      match now.toNat?, removeLt t (now.toNat?.getD 0) with
      | some _, some ((i, _, c), t') =>
        if (i :: c).map toString = ids then go t' (n + 1) rest
        else (n, some s!"waiter_remove_less_than returned chain {ids}, the pure function {i :: c}")
      | _, _ => (n, some s!"waiter_remove_less_than returned {ids}, the pure function nothing")
    | ("remend" :: now :: _) :: rest =>
      match removeLt t (now.toNat?.getD 0) with
      | none => go t (n + 1) rest
      | some ((i, _, _), _) => (n, some s!"waiter_remove_less_than returned NULL, the pure function node {i}")
    | _ :: rest => go t n rest
  match go .nil 0 notes with
  | (n, none) => IO.println s!"VALIDATE OK model=SleepTree events={n}"; IO.println "MONITOR OK"; return 0
  | (n, some why) =>
    IO.println s!"VALIDATE DIVERGE model=SleepTree event={n} why=\"{why}\" line=\"\""
    IO.println "MONITOR OK"; return 1

def parseFlags (s : String) : Option (Bool × Bool × Bool) :=
  match s.toList with
  | [a, b, c] => some (a = '1', b = '1', c = '1')
  | _ => none

def drive (lines : List String) : IO UInt32 := do
  match initArgs lines with
  | ["sleeptree"] => driveTree lines
  | ["sleep", _, _, flags, period] =>
    match parseFlags flags, period.toNat? with
    | some (nf, dr, wd), some p =>
      let v : Variant := { nextFirst := nf, drains := dr, widen := wd, period := p }
      let body := lines.filter (fun l => !isInit l)
      let m := addrMap body
      let body := body.map (translate m)
      let res := validateP (sys v) ofRaw body
      let raws := body.filterMap parseLine
      let evs := raws.filterMap (fun r => (ofRaw r).join)
      let notes := raws.filterMap (fun r => if r.kind = "note" then some r.args else none)
      report "Sleep" res (monitor v evs notes)
    | _, _ => IO.println "VALIDATE DIVERGE bad init"; return 1
  | _ => IO.println "VALIDATE DIVERGE missing init"; return 1

end LibfiberVerif.Sleep
