/-
  Model/Mpsc.lean — include/mpsc_fifo.h (property C15, part `mpsc`), and the shared core
  that `Model/Spsc.lean` (include/spsc_fifo.h) and `Model/Mpscr.lean`
  (include/mpsc_relaxed_fifo.h) instantiate with `Kind.spsc`.

  One model step = one access to a shared cell (`head`, `tail`, a node's `next` / `data`)
  in exactly the order the C code performs them, plus the API call/return notes of the
  harness and the two client accesses that belong to the API contract (the client stores the
  payload into `node->data` before pushing; it reads `node->data` of the node trypop handed
  back).  Any number of producer threads (`Nat → Pc`), unbounded operation counts, nodes are
  numbers (`0` = NULL) and circulate: trypop returns the OLD stub node, which the client may
  push again.

  C code being modelled (mpsc_fifo.h):
      push(f, n):   n->next = NULL;  prev = xchg(&f->tail, n);  prev->next = n;
      trypop(f):    h = f->head;  x = h->next;
                    if (x) { f->head = x;  h->data = x->data;  return h; }  return NULL;
      peek(f, data): h = f->head;  x = h->next;
                    if (x) { *data = x->data;  return 1; }  return 0;
                    (consumer side only: it reads `head`, which only the consumer writes; `*data`
                    is the caller's local.  mpsc_fifo.h only — spsc_fifo.h and
                    mpsc_relaxed_fifo.h have no peek, so `step` accepts `call peek` for
                    `Kind.mpsc` alone.)
  (spsc_fifo.h — `Kind.spsc`; the xchg is a load followed by a store, there is one producer):
      push(f, n):   store(&n->next, NULL);  prev = load(&f->tail);  store(&f->tail, n);
                    store(&prev->next, n);
      trypop(f):    h = load(&f->head);  x = load(&h->next);
                    if (x) { store(&f->head, x);  h->data = x->data;  return h; }  return NULL;

  Client obligations (mpsc_fifo.h: "the FIFO owns new_node after pushing", single consumer;
  spsc_fifo.h: additionally a single producer) are explicit: `step` REJECTS
    * a second `trypop` / `peek` while a `trypop` or `peek` is in progress (single consumer:
      the consumer side runs one operation at a time),
    * (`Kind.spsc`) a second `push` while one is in progress (single producer),
    * a push of a node that is in the queue, is being pushed by another thread, or is still
      inside the trypop that hands it out (node ownership),
    * a push of NULL data or of a value that was pushed before (payloads are distinct
      non-zero tokens, which is what makes "exactly once" / "FIFO" observable).
  The harnesses never violate these.

  Ghost state: `q` = the nodes currently owned by the queue, from the stub (`head`) to the
  most recently published node, in publication (tail xchg / tail store) order; `pushed` =
  payloads in publication order; `popped` = payloads in the order successful trypops
  returned them; `called` / `returned` = payloads whose push was invoked / has returned;
  `holder n` = the producer thread that currently uses node `n` for a push;
  `peeked` = one entry `(i, v)` per peek that returned a payload: `v` = the payload it
  reported, `i` = the number of successful trypops that had returned before it (so "the next
  successful trypop after that peek" is the one that fills `popped[i]`).
-/
import LibfiberVerif.Core.Sys
import LibfiberVerif.Core.Event
import LibfiberVerif.Driver

namespace LibfiberVerif.Mpsc

inductive Kind | mpsc | spsc
  deriving Repr, DecidableEq, Inhabited

/-- program counter of a producer thread -/
inductive Pc
  | idle
  | called (v : Nat)
  /-- the client stored the payload into its node -/
  | haveNode (v n : Nat)
  /-- `n->next = NULL` done -/
  | cleared (v n : Nat)
  /-- (spsc only) `prev = load(tail)` done -/
  | gotTail (v n p : Nat)
  /-- `tail` now points to `n`; the link `p->next = n` is still missing -/
  | xchgd (v n p : Nat)
  | linked (v : Nat)
  deriving Repr, DecidableEq, Inhabited

/-- program counter of the consumer -/
inductive CPc
  | idle
  | called
  | gotHead (h : Nat)
  | gotNext (h x : Nat)
  /-- `head = x` done; `h` is the old stub, now owned by this trypop -/
  | moved (h x : Nat)
  | gotData (h x d : Nat)
  | wrote (h d : Nat)
  /-- the client read the payload out of the returned node -/
  | readBack (h d : Nat)
  /-- `mpsc_fifo_peek` called -/
  | pkCalled
  | pkGotHead (h : Nat)
  | pkGotNext (h x : Nat)
  /-- `*data = x->data` done (the read of `x->data` is the shared access) -/
  | pkGotData (h x d : Nat)
  deriving Repr, DecidableEq, Inhabited

/-- the node a trypop in progress has taken out of the queue -/
def CPc.node : CPc → Nat
  | .moved h _ => h
  | .gotData h _ _ => h
  | .wrote h _ => h
  | .readBack h _ => h
  | _ => 0

inductive Ev
  | callPush (t v : Nat)
  | wrDataClient (t n v : Nat)
  | wrNext (t n x : Nat)
  | xchgTail (t old new : Nat)
  | ldTail (t x : Nat)
  | stTail (t x : Nat)
  | retPush (t r : Nat)
  | callPop (t : Nat)
  | rdHead (t x : Nat)
  | rdNext (t n x : Nat)
  | wrHead (t x : Nat)
  | rdDataPop (t n x : Nat)
  | wrDataPop (t n x : Nat)
  | rdDataClient (t n x : Nat)
  | retPop (t v : Nat)
  | callPeek (t : Nat)
  | rdDataPeek (t n x : Nat)
  | retPeek (t v : Nat)
  deriving Repr, DecidableEq, Inhabited

structure St where
  head : Nat
  tail : Nat
  next : Nat → Nat
  data : Nat → Nat
  pc : Nat → Pc
  cpc : CPc
  /-- thread running the trypop in progress -/
  ct : Nat
  /-- (spsc) thread running the push in progress -/
  pusher : Option Nat
  q : List Nat
  pushed : List Nat
  popped : List Nat
  called : List Nat
  returned : List Nat
  holder : Nat → Option Nat
  peeked : List (Nat × Nat)

/-- `stub` is the node `*_fifo_init` allocated. -/
def init (stub : Nat) : St :=
  { head := stub, tail := stub, next := fun _ => 0, data := fun _ => 0,
    pc := fun _ => .idle, cpc := .idle, ct := 0, pusher := none,
    q := [stub], pushed := [], popped := [], called := [], returned := [],
    holder := fun _ => none, peeked := [] }

/-- the publication step: `xchg(&tail, n)` resp. `store(&tail, n)` -/
def publish (s : St) (t v n p : Nat) : St :=
  { s with tail := n, q := s.q ++ [n], pushed := s.pushed ++ [v],
           pc := upd s.pc t (.xchgd v n p) }

def step (k : Kind) (s : St) : Ev → Option St
  | .callPush t v =>
    if s.pc t = .idle ∧ v ≠ 0 ∧ v ∉ s.called ∧ (s.cpc = .idle ∨ s.ct ≠ t)
        ∧ (k = .spsc → s.pusher = none) then
      some { s with pc := upd s.pc t (.called v), called := s.called ++ [v],
                    pusher := if k = .spsc then some t else s.pusher }
    else none
  | .wrDataClient t n x =>
    match s.pc t with
    | .called v =>
      if x = v ∧ n ≠ 0 ∧ n ∉ s.q ∧ s.holder n = none ∧ s.cpc.node ≠ n then
        some { s with data := upd s.data n v, holder := upd s.holder n (some t),
                      pc := upd s.pc t (.haveNode v n) }
      else none
    | _ => none
  | .wrNext t n x =>
    match s.pc t with
    | .haveNode v m =>
      if n = m ∧ x = 0 then some { s with next := upd s.next n 0, pc := upd s.pc t (.cleared v n) }
      else none
    | .xchgd v m p =>
      if n = p ∧ x = m then
        some { s with next := upd s.next p m, holder := upd s.holder m none,
                      pc := upd s.pc t (.linked v) }
      else none
    | _ => none
  | .xchgTail t old new =>
    match s.pc t with
    | .cleared v n =>
      if k = .mpsc ∧ old = s.tail ∧ new = n then some (publish s t v n old) else none
    | _ => none
  | .ldTail t x =>
    match s.pc t with
    | .cleared v n =>
      if k = .spsc ∧ x = s.tail then some { s with pc := upd s.pc t (.gotTail v n x) } else none
    | _ => none
  | .stTail t x =>
    match s.pc t with
    | .gotTail v n p => if x = n then some (publish s t v n p) else none
    | _ => none
  | .retPush t r =>
    match s.pc t with
    | .linked v =>
      if r = 1 then
        some { s with pc := upd s.pc t .idle, returned := s.returned ++ [v],
                      pusher := if k = .spsc then none else s.pusher }
      else none
    | _ => none
  | .callPop t =>
    if s.cpc = .idle ∧ s.pc t = .idle then some { s with cpc := .called, ct := t } else none
  | .rdHead t x =>
    match s.cpc with
    | .called => if t = s.ct ∧ x = s.head then some { s with cpc := .gotHead x } else none
    | .pkCalled => if t = s.ct ∧ x = s.head then some { s with cpc := .pkGotHead x } else none
    | _ => none
  | .rdNext t n x =>
    match s.cpc with
    | .gotHead h =>
      if t = s.ct ∧ n = h ∧ x = s.next h then some { s with cpc := .gotNext h x } else none
    | .pkGotHead h =>
      if t = s.ct ∧ n = h ∧ x = s.next h then some { s with cpc := .pkGotNext h x } else none
    | _ => none
  | .wrHead t x =>
    match s.cpc with
    | .gotNext h y =>
      if t = s.ct ∧ y ≠ 0 ∧ x = y then
        some { s with head := x, q := s.q.drop 1, cpc := .moved h x }
      else none
    | _ => none
  | .rdDataPop t n d =>
    match s.cpc with
    | .moved h x =>
      if t = s.ct ∧ n = x ∧ d = s.data x then some { s with cpc := .gotData h x d } else none
    | _ => none
  | .wrDataPop t n d =>
    match s.cpc with
    | .gotData h _ d' =>
      if t = s.ct ∧ n = h ∧ d = d' then some { s with data := upd s.data h d, cpc := .wrote h d }
      else none
    | _ => none
  | .rdDataClient t n d =>
    match s.cpc with
    | .wrote h _ =>
      if t = s.ct ∧ n = h ∧ d = s.data h then some { s with cpc := .readBack h d } else none
    | _ => none
  | .retPop t v =>
    match s.cpc with
    | .gotNext _ y =>
      if t = s.ct ∧ y = 0 ∧ v = 0 then some { s with cpc := .idle } else none
    | .readBack _ d =>
      if t = s.ct ∧ v = d then some { s with cpc := .idle, popped := s.popped ++ [d] } else none
    | _ => none
  | .callPeek t =>
    if k = .mpsc ∧ s.cpc = .idle ∧ s.pc t = .idle then some { s with cpc := .pkCalled, ct := t }
    else none
  | .rdDataPeek t n d =>
    match s.cpc with
    | .pkGotNext h x =>
      if t = s.ct ∧ x ≠ 0 ∧ n = x ∧ d = s.data x then some { s with cpc := .pkGotData h x d }
      else none
    | _ => none
  | .retPeek t v =>
    match s.cpc with
    | .pkGotNext _ x =>
      if t = s.ct ∧ x = 0 ∧ v = 0 then some { s with cpc := .idle } else none
    | .pkGotData _ _ d =>
      if t = s.ct ∧ v = d then
        some { s with cpc := .idle, peeked := s.peeked ++ [(s.popped.length, d)] }
      else none
    | _ => none

def sys (k : Kind) (stub : Nat) : Sys St Ev := { init := init stub, step := step k }

/-! ### log-line decoding (shared by the three harnesses) -/

/-- `@n7` ↦ 7, `0` ↦ 0 (NULL) -/
def nodeOfVal (s : String) : Option Nat :=
  match parseVal s with
  | some (.int 0) => some 0
  | some (.ptr name 0) =>
    if name.startsWith "n" then
      match (name.drop 1).toString.toNat? with
      | some k => if k = 0 then none else some k
      | none => none
    else none
  | _ => none

/-- `n7.next` ↦ (7, "next") -/
def nodeCell (c : String) : Option (Nat × String) :=
  match c.splitOn "." with
  | [n, f] =>
    if n.startsWith "n" then
      match (n.drop 1).toString.toNat? with
      | some k => if k = 0 then none else some (k, f)
      | none => none
    else none
  | _ => none

def isTrypop (func : String) : Bool := (func.splitOn "trypop").length > 1
def isPeek (func : String) : Bool := (func.splitOn "fifo_peek").length > 1

/-- API notes common to the queue harnesses -/
def noteEv (t : Nat) : List String → Option Ev
  | ["call", "push", v] => v.toNat?.map (Ev.callPush t)
  | ["ret", "push", v] => v.toNat?.map (Ev.retPush t)
  | ["call", "pop"] => some (Ev.callPop t)
  | ["ret", "pop", v] => v.toNat?.map (Ev.retPop t)
  | ["call", "peek"] => some (Ev.callPeek t)
  | ["ret", "peek", v] => v.toNat?.map (Ev.retPeek t)
  | _ => none

/-- plain accesses to `n<k>.data` (both queues) -/
def dataEv (r : RawEv) : Option Ev :=
  match r.kind, r.args with
  | "w", [c, x] => do
    let (n, f) ← nodeCell c
    let x ← x.toNat?
    if f = "data" then pure (if isTrypop r.func then Ev.wrDataPop r.tid n x else Ev.wrDataClient r.tid n x)
    else none
  | "r", [c, x] => do
    let (n, f) ← nodeCell c
    let x ← x.toNat?
    if f = "data" then
      pure (if isTrypop r.func then Ev.rdDataPop r.tid n x
            else if isPeek r.func then Ev.rdDataPeek r.tid n x else Ev.rdDataClient r.tid n x)
    else none
  | _, _ => none

/-- mpsc_fifo.h: `head` and `next` are plain (volatile) accesses, `tail` is exchanged. -/
def ofRaw (r : RawEv) : Option Ev :=
  let t := r.tid
  match r.kind, r.args with
  | "note", a => noteEv t a
  | "xchg", ["tail", old, new, _] => do
    let o ← nodeOfVal old; let n ← nodeOfVal new; pure (Ev.xchgTail t o n)
  | "r", ["head", x] => (nodeOfVal x).map (Ev.rdHead t)
  | "w", ["head", x] => (nodeOfVal x).map (Ev.wrHead t)
  | "r", [c, x] =>
    match nodeCell c with
    | some (n, "next") => (nodeOfVal x).map (Ev.rdNext t n)
    | _ => dataEv r
  | "w", [c, x] =>
    match nodeCell c with
    | some (n, "next") => (nodeOfVal x).map (Ev.wrNext t n)
    | _ => dataEv r
  | _, _ => none

/-! ### API-level oracle for peek (the generic queue monitor ignores the peek notes)

    One consumer: its peeks and pops are sequential.  After a peek reported payload `w`,
    every further peek before the next pop must report `w` again (in particular not "empty"),
    and the next pop must return `w`.  A peek never reports a payload that was not handed to
    push before, nor one a pop has already returned. -/

structure PeekAcc where
  /-- payload reported by a peek since the last pop returned -/
  pend : Option Nat := none
  called : List Nat := []
  popped : List Nat := []
  bad : Option String := none

def peekStep (a : PeekAcc) (r : RawEv) : PeekAcc :=
  if a.bad.isSome || r.kind ≠ "note" then a else
  match r.args with
  | ["call", "push", v] => { a with called := v.toNat?.getD 0 :: a.called }
  | ["ret", "peek", v] =>
    let v := v.toNat?.getD 0
    match a.pend with
    | some w =>
      if v = w then a
      else { a with bad := some s!"peekUnstable: peek reported {w}, a later peek reported {v}, no pop in between" }
    | none =>
      if v = 0 then a
      else if !a.called.contains v then
        { a with bad := some s!"peekInvented: peek reported {v} which was not pushed before" }
      else if a.popped.contains v then
        { a with bad := some s!"peekStale: peek reported {v} which a pop had already returned" }
      else { a with pend := some v }
  | ["ret", "pop", v] =>
    let v := v.toNat?.getD 0
    let a' := { a with pend := none, popped := if v = 0 then a.popped else v :: a.popped }
    match a.pend with
    | some w =>
      if v = w then a'
      else { a with bad := some s!"peekMismatch: peek reported {w} but the consumer's next pop returned {v}" }
    | none => a'
  | _ => a

def peekMonitor (lines : List String) : Option String :=
  ((lines.filterMap parseLine).foldl peekStep {}).bad

/-- `verifdrv Mpsc <log>`; the harness names the initial stub `n1`.
    Monitor: strict (real-time) FIFO; an empty report is judged only when no push overlaps
    the pop (a pop may report empty while an earlier push sits between its xchg and its
    link, even though a later push has already completed). -/
def drive (lines : List String) : IO UInt32 := do
  match initArgs lines with
  | ["mpsc"] =>
    let body := lines.filter (fun l => !isInit l)
    let v := validate (sys .mpsc 1) ofRaw body
    let mon := queueMonitor { disc := .fifo, capacity := 0, drained := true, failOnlyAlone := true } body
    let mon := match mon with
      | some m => some m
      | none => peekMonitor body
    report "Mpsc" v mon
  | _ => IO.println "VALIDATE DIVERGE missing init"; return 1

end LibfiberVerif.Mpsc
