/-
  Model/Wsd.lean — src/work_stealing_deque.c + include/work_stealing_deque.h
  (the run-queue half of property C02): the Chase–Lev work-stealing deque as written.

  One model step = one access to a shared cell (`top`, `bottom`, `underlying_array`, a data
  slot of some array generation) in exactly the order the C code performs them, plus the
  API call/return events the harness logs.  One owner (thread 0: `push_bottom`,
  `pop_bottom` — the client contract, enforced by `step`), any number of thieves
  (`Nat → Pc`, `steal`), unbounded operation counts, unbounded growth.
  `top`/`bottom` are `Int` (64-bit wrap-around is not modelled: 2^63 pushes are
  unreachable).  Array generation `g` has `2^(k0+g)` slots; generations are never freed or
  overwritten after a growth (the C code leaks them on purpose), so a slow thief can still
  read the one it holds.  The element copy of `wsd_circular_array_grow` is modelled one
  access at a time (read old slot, write new slot), the new generation becomes visible to
  thieves at the `underlying_array` store.

  C code being modelled:

    push_bottom(d, p):  b = load_acq(bottom); t = load_acq(top); a = d->underlying_array;
                        if (b - t >= a->size - 1) {              // grow
                          na = new array of twice the size (zeroed by the harness allocator);
                          for (i = t; i < b; ++i) na[i & nmask] = a[i & mask];
                          d->underlying_array = a = na; }
                        a[b & mask] = p;  store_rel(bottom, b + 1);
    pop_bottom(d):      b = load_acq(bottom) - 1; a = d->underlying_array;
                        store_SEQ_CST(bottom, b);  t = load_SEQ_CST(top);
                        if (b - t < 0) { store_rel(bottom, t); return EMPTY; }
                        ret = a[b & mask];  if (b - t > 0) return ret;
                        if (!CAS(top, t, t + 1)) { store_rel(bottom, t + 1); return ABORT; }
                        store_rel(bottom, t + 1); return ret;
    steal(d):           t = load_acq(top); b = load_acq(bottom); a = d->underlying_array;
                        if (b - t <= 0) return EMPTY;
                        ret = a[t & mask];  if (!CAS(top, t, t + 1)) return ABORT;  return ret;

  Memory orders are part of the log (`mo<N>`, TSan numbering: 0 relaxed, 2 acquire,
  3 release, 5 seq_cst).  The model REQUIRES seq_cst on pop_bottom's `bottom` store and on
  the `top` load that follows it: that store→load order is exactly what the algorithm needs
  on x86-TSO (everything else is acquire/release, which TSO gives for free; the theorems are
  about sequentially consistent interleavings, see DESIGN.md §3).
-/
import LibfiberVerif.Core.Sys
import LibfiberVerif.Core.Event
import LibfiberVerif.Driver

namespace LibfiberVerif.Wsd

/-- what `pop_bottom` / `steal` hand back -/
inductive Res
  | empty
  | abort
  | val (x : Int)
  deriving Repr, DecidableEq, Inhabited

/-- `WSD_EMPTY = (void*)-1`, `WSD_ABORT = (void*)-2` -/
def Res.toInt : Res → Int
  | .empty => -1
  | .abort => -2
  | .val x => x

/-- the value handed to the caller, if any -/
def Res.vals : Res → List Int
  | .val x => [x]
  | _ => []

/-- ghost bookkeeping at a `ret` event: thread `t` has handed back what it took -/
def Res.settle (r : Res) (t : Nat) (owed : List (Nat × Int)) : List (Nat × Int) :=
  match r with
  | .val x => owed.erase (t, x)
  | _ => owed

inductive Pc
  | idle
  -- push_bottom (owner)
  | pushCalled (v : Int)
  | pushGotB (v b : Int)
  | pushGotT (v b t : Int)
  /-- growing from generation `g`: about to read old slot of index `i` -/
  | pushCopy (v b t : Int) (g : Nat) (i : Int)
  /-- growing: about to write `x` to the new generation's slot of index `i` -/
  | pushCopyW (v b t : Int) (g : Nat) (i x : Int)
  /-- copy complete: about to publish generation `g + 1` -/
  | pushPublish (v b t : Int) (g : Nat)
  /-- about to write `v` to slot `b` of generation `g` -/
  | pushPut (v b : Int) (g : Nat)
  /-- about to store `bottom := b + 1` -/
  | pushWritten (v b : Int)
  | pushDone
  -- pop_bottom (owner)
  | popCalled
  | popGotB (b : Int)
  | popGotArr (b : Int) (g : Nat)
  /-- `bottom := b` stored; about to load `top` -/
  | popStored (b : Int) (g : Nat)
  /-- saw `b < t`: about to store `bottom := t` and return EMPTY -/
  | popEmpty (t : Int)
  /-- saw `t ≤ b`: about to read slot `b` -/
  | popTake (b : Int) (g : Nat) (t : Int)
  /-- last element (`t = b`): about to CAS `top` -/
  | popRead (b t x : Int)
  /-- CAS done (won: `r = val x`, lost: `r = abort`): about to store `bottom := t + 1` -/
  | popCased (t : Int) (r : Res)
  | popDone (r : Res)
  -- steal (thieves)
  | stealCalled
  | stealGotT (t : Int)
  | stealGotB (t b : Int)
  /-- saw `t < b` and holds generation `g`: about to read slot `t` -/
  | stealGotArr (t : Int) (g : Nat)
  | stealRead (t : Int) (g : Nat) (x : Int)
  | stealDone (r : Res)
  deriving Repr, DecidableEq, Inhabited

inductive Ev
  | callPush (t : Nat) (v : Int)
  | retPush (t : Nat)
  | callPop (t : Nat)
  | retPop (t : Nat) (r : Int)
  | callSteal (t : Nat)
  | retSteal (t : Nat) (r : Int)
  | ldBottom (t : Nat) (x : Int) (mo : Nat)
  | stBottom (t : Nat) (x : Int) (mo : Nat)
  | ldTop (t : Nat) (x : Int) (mo : Nat)
  | casTop (t : Nat) (found exp des : Int) (ok : Bool) (mo : Nat)
  | ldArr (t : Nat) (g : Nat) (mo : Nat)
  | stArr (t : Nat) (g : Nat) (mo : Nat)
  | rdSlot (t : Nat) (g : Nat) (i x : Int)
  | wrSlot (t : Nat) (g : Nat) (i x : Int)
  deriving Repr, DecidableEq, Inhabited

structure St where
  /-- log2 of the size of generation 0 -/
  k0 : Nat
  top : Int
  bottom : Int
  /-- the published generation -/
  arr : Nat
  /-- `slot g i`: data slot `i` of generation `g` (0 until written) -/
  slot : Nat → Int → Int
  pc : Nat → Pc
  /-- ghost: upper end of the logical contents `[top, hb)`.  Equals `bottom` except while the
      owner's `pop_bottom` has lowered `bottom` but not yet decided the fate of that element. -/
  hb : Int
  /-- ghost: values in the order their `push_bottom` published them (`bottom := b + 1`) -/
  pushed : List Int
  /-- ghost: values in the order they were taken (CAS on `top` won, or `pop_bottom` saw `t < b`) -/
  taken : List Int
  /-- ghost: (thread, value) for every value that has been taken but not yet handed back by the
      `ret` event of the operation that took it -/
  owed : List (Nat × Int)
  /-- ghost: values in the order `pop_bottom` / `steal` calls returned them to their callers -/
  returned : List Int
  /-- ghost, per operation: reset by the thread's own load of `top`, set when ANOTHER thread's
      CAS on `top` succeeds -/
  raced : Nat → Bool
  /-- ghost, per operation: sampled at the load that decides EMPTY (steal: load of `bottom`;
      pop_bottom: load of `top`): the deque was logically empty, or (steal only) the owner was
      inside the window of `pop_bottom` in which `bottom` is lowered -/
  wit : Nat → Bool

def sz (k : Nat) : Int := 2 ^ k

/-- `i & size_minus_one` for a power-of-two size (two's complement ⇒ mathematical mod) -/
def idx (k : Nat) (i : Int) : Int := i % sz k

def setSlot (sl : Nat → Int → Int) (g : Nat) (i x : Int) : Nat → Int → Int :=
  fun g' i' => if g' = g ∧ i' = i then x else sl g' i'

/-- value stored for logical index `i` in generation `g` -/
def St.at (s : St) (g : Nat) (i : Int) : Int := s.slot g (idx (s.k0 + g) i)

/-- the owner is inside the part of `pop_bottom` between its store that lowers `bottom` and
    its last store to `bottom` -/
def Pc.popWindow : Pc → Bool
  | .popStored .. | .popEmpty .. | .popTake .. | .popRead .. | .popCased .. => true
  | _ => false

def init (k0 : Nat) : St :=
  { k0 := k0, top := 0, bottom := 0, arr := 0, slot := fun _ _ => 0, pc := fun _ => .idle,
    hb := 0, pushed := [], taken := [], owed := [], returned := [], raced := fun _ => false, wit := fun _ => false }

/-- acquire or stronger (loads) -/
def acq (mo : Nat) : Bool := mo == 2 || mo == 5
/-- release or stronger (stores) -/
def rel (mo : Nat) : Bool := mo == 3 || mo == 5

def step (s : St) : Ev → Option St
  | .callPush t v =>
    if t = 0 ∧ s.pc t = .idle ∧ 0 < v then some { s with pc := upd s.pc t (.pushCalled v) } else none
  | .callPop t =>
    if t = 0 ∧ s.pc t = .idle then some { s with pc := upd s.pc t .popCalled } else none
  | .callSteal t =>
    if t ≠ 0 ∧ s.pc t = .idle then some { s with pc := upd s.pc t .stealCalled } else none
  | .ldBottom t x mo =>
    match s.pc t with
    | .pushCalled v =>
      if x = s.bottom ∧ acq mo then some { s with pc := upd s.pc t (.pushGotB v x) } else none
    | .popCalled =>
      if x = s.bottom ∧ acq mo then some { s with pc := upd s.pc t (.popGotB (x - 1)) } else none
    | .stealGotT tt =>
      if x = s.bottom ∧ acq mo then
        some { s with pc := upd s.pc t (.stealGotB tt x),
                      wit := upd s.wit t (decide (s.hb ≤ s.top) || (s.pc 0).popWindow) }
      else none
    | _ => none
  | .ldTop t x mo =>
    match s.pc t with
    | .pushGotB v b =>
      if x = s.top ∧ acq mo then
        some { s with pc := upd s.pc t (.pushGotT v b x), raced := upd s.raced t false }
      else none
    | .popStored b g =>
      if x = s.top ∧ mo = 5 then
        if b < x then
          some { s with pc := upd s.pc t (.popEmpty x), raced := upd s.raced t false,
                        wit := upd s.wit t (decide (s.hb ≤ s.top)) }
        else if x < b then
          -- more than one element: the owner takes element `b` without a CAS
          some { s with pc := upd s.pc t (.popTake b g x), raced := upd s.raced t false,
                        hb := b, taken := s.taken ++ [s.at g b], owed := s.owed ++ [(t, s.at g b)] }
        else some { s with pc := upd s.pc t (.popTake b g x), raced := upd s.raced t false }
      else none
    | .stealCalled =>
      if x = s.top ∧ acq mo then
        some { s with pc := upd s.pc t (.stealGotT x), raced := upd s.raced t false }
      else none
    | _ => none
  | .ldArr t g mo =>
    match s.pc t with
    | .pushGotT v b tt =>
      if g = s.arr ∧ acq mo then
        if sz (s.k0 + g) - 1 ≤ b - tt then
          if tt < b then some { s with pc := upd s.pc t (.pushCopy v b tt g tt) }
          else some { s with pc := upd s.pc t (.pushPublish v b tt g) }
        else some { s with pc := upd s.pc t (.pushPut v b g) }
      else none
    | .popGotB b =>
      if g = s.arr ∧ acq mo then some { s with pc := upd s.pc t (.popGotArr b g) } else none
    | .stealGotB tt b =>
      if g = s.arr ∧ acq mo then
        if b ≤ tt then some { s with pc := upd s.pc t (.stealDone .empty) }
        else some { s with pc := upd s.pc t (.stealGotArr tt g) }
      else none
    | _ => none
  | .rdSlot t g i x =>
    match s.pc t with
    | .pushCopy v b tt g' j =>
      if g = g' ∧ i = idx (s.k0 + g) j ∧ x = s.slot g i then
        some { s with pc := upd s.pc t (.pushCopyW v b tt g' j x) }
      else none
    | .popTake b g' tt =>
      if g = g' ∧ i = idx (s.k0 + g) b ∧ x = s.slot g i then
        if tt < b then some { s with pc := upd s.pc t (.popDone (.val x)) }
        else some { s with pc := upd s.pc t (.popRead b tt x) }
      else none
    | .stealGotArr tt g' =>
      if g = g' ∧ i = idx (s.k0 + g) tt ∧ x = s.slot g i then
        some { s with pc := upd s.pc t (.stealRead tt g' x) }
      else none
    | _ => none
  | .wrSlot t g i x =>
    match s.pc t with
    | .pushCopyW v b tt g' j y =>
      if g = g' + 1 ∧ i = idx (s.k0 + g) j ∧ x = y then
        if j + 1 < b then
          some { s with slot := setSlot s.slot g i x, pc := upd s.pc t (.pushCopy v b tt g' (j + 1)) }
        else some { s with slot := setSlot s.slot g i x, pc := upd s.pc t (.pushPublish v b tt g') }
      else none
    | .pushPut v b g' =>
      if g = g' ∧ i = idx (s.k0 + g) b ∧ x = v then
        some { s with slot := setSlot s.slot g i x, pc := upd s.pc t (.pushWritten v b) }
      else none
    | _ => none
  | .stArr t g mo =>
    match s.pc t with
    | .pushPublish v b _ g' =>
      if g = g' + 1 ∧ rel mo then some { s with arr := g, pc := upd s.pc t (.pushPut v b g) }
      else none
    | _ => none
  | .stBottom t x mo =>
    match s.pc t with
    | .pushWritten v b =>
      if x = b + 1 ∧ rel mo then
        some { s with bottom := x, hb := x, pushed := s.pushed ++ [v], pc := upd s.pc t .pushDone }
      else none
    | .popGotArr b g =>
      -- the seq_cst store
      if x = b ∧ mo = 5 then some { s with bottom := x, pc := upd s.pc t (.popStored b g) } else none
    | .popEmpty tt =>
      if x = tt ∧ rel mo then some { s with bottom := x, pc := upd s.pc t (.popDone .empty) }
      else none
    | .popCased tt r =>
      if x = tt + 1 ∧ rel mo then some { s with bottom := x, pc := upd s.pc t (.popDone r) }
      else none
    | _ => none
  | .casTop t found exp des ok mo =>
    match s.pc t with
    | .popRead _ tt x =>
      if found = s.top ∧ exp = tt ∧ des = tt + 1 ∧ ok = decide (found = exp) ∧ mo = 5 then
        if ok then
          some { s with top := des, taken := s.taken ++ [x], owed := s.owed ++ [(t, x)],
                        raced := fun w => if w = t then s.raced w else true,
                        pc := upd s.pc t (.popCased tt (.val x)) }
        else some { s with pc := upd s.pc t (.popCased tt .abort) }
      else none
    | .stealRead tt _ x =>
      if found = s.top ∧ exp = tt ∧ des = tt + 1 ∧ ok = decide (found = exp) ∧ mo = 5 then
        if ok then
          some { s with top := des, taken := s.taken ++ [x], owed := s.owed ++ [(t, x)],
                        raced := fun w => if w = t then s.raced w else true,
                        pc := upd s.pc t (.stealDone (.val x)) }
        else some { s with pc := upd s.pc t (.stealDone .abort) }
      else none
    | _ => none
  | .retPush t =>
    match s.pc t with
    | .pushDone => some { s with pc := upd s.pc t .idle }
    | _ => none
  | .retPop t r =>
    match s.pc t with
    | .popDone r' =>
      if r = r'.toInt then
        some { s with pc := upd s.pc t .idle, returned := s.returned ++ r'.vals,
                      owed := r'.settle t s.owed }
      else none
    | _ => none
  | .retSteal t r =>
    match s.pc t with
    | .stealDone r' =>
      if r = r'.toInt then
        some { s with pc := upd s.pc t .idle, returned := s.returned ++ r'.vals,
                      owed := r'.settle t s.owed }
      else none
    | _ => none

def sys (k0 : Nat) : Sys St Ev := { init := init k0, step := step }

/-! ### log-line decoding -/

/-- `a<g>_<i>` -/
def slotCell (cell : String) : Option (Nat × Int) :=
  if cell.startsWith "a" then
    match ((cell.drop 1).toString.splitOn "_") with
    | [g, i] => do let g ← g.toNat?; let i ← i.toNat?; pure (g, (i : Int))
    | _ => none
  else none

/-- `@arr<g>` -/
def arrVal (v : String) : Option Nat :=
  if v.startsWith "@arr" then (v.drop 4).toString.toNat? else none

def moOf (m : String) : Option Nat :=
  if m.startsWith "mo" then (m.drop 2).toString.toNat? else none

def ofRaw (r : RawEv) : Option Ev :=
  let t := r.tid
  match r.kind, r.args with
  | "note", ["call", "push", v] => v.toInt?.map (Ev.callPush t)
  | "note", ["ret", "push", _] => some (Ev.retPush t)
  | "note", ["call", "pop"] => some (Ev.callPop t)
  | "note", ["ret", "pop", v] => v.toInt?.map (Ev.retPop t)
  | "note", ["call", "steal"] => some (Ev.callSteal t)
  | "note", ["ret", "steal", v] => v.toInt?.map (Ev.retSteal t)
  | "ld", ["bottom", x, m] => do let x ← x.toInt?; let m ← moOf m; pure (Ev.ldBottom t x m)
  | "st", ["bottom", x, m] => do let x ← x.toInt?; let m ← moOf m; pure (Ev.stBottom t x m)
  | "ld", ["top", x, m] => do let x ← x.toInt?; let m ← moOf m; pure (Ev.ldTop t x m)
  | "ld", ["underlying_array", g, m] => do let g ← arrVal g; let m ← moOf m; pure (Ev.ldArr t g m)
  | "st", ["underlying_array", g, m] => do let g ← arrVal g; let m ← moOf m; pure (Ev.stArr t g m)
  | "cas", ["top", f, e, d, ok, m] => do
    let f ← f.toInt?; let e ← e.toInt?; let d ← d.toInt?; let m ← moOf m
    let ok ← (if ok = "1" then some true else if ok = "0" then some false else none)
    pure (Ev.casTop t f e d ok m)
  | "r", [c, x] => do let (g, i) ← slotCell c; let x ← x.toInt?; pure (Ev.rdSlot t g i x)
  | "w", [c, x] => do let (g, i) ← slotCell c; let x ← x.toInt?; pure (Ev.wrSlot t g i x)
  | _, _ => none

/-! ### API-level monitor

  The generic container monitor (`Core/QueueHist.lean`, discipline `bag`): nothing invented,
  nothing returned twice, nothing lost after the owner's final drain, and EMPTY judged only
  for operations that overlapped no other operation.  `pop_bottom` and `steal` are both
  "pop" for that monitor.  An ABORT is neither a value nor EMPTY: the operation is left out
  of the bag history, and checked separately — an operation that overlapped no other
  operation must not ABORT (`Wsd.abort_only_on_race`). -/

def noteOfRaw (r : RawEv) : Option QueueHist.Note :=
  if r.kind ≠ "note" then none else
  match r.args with
  | ["call", "push", v] => v.toNat?.map (QueueHist.Note.callPush r.tid)
  | ["ret", "push", v] => v.toNat?.map (QueueHist.Note.retPush r.tid)
  | ["call", "pop"] => some (QueueHist.Note.callPop r.tid)
  | ["call", "steal"] => some (QueueHist.Note.callPop r.tid)
  | ["ret", _, v] =>
    match v.toInt? with
    | some (-1) => some (QueueHist.Note.retPop r.tid 0)
    | some (Int.ofNat (n + 1)) => some (QueueHist.Note.retPop r.tid (n + 1))
    | _ => none      -- ABORT (and anything unexpected): no bag-level response
  | _ => none

/-- (thread, call position, return position, result) of every operation in the log -/
def spans (rs : List RawEv) : List (Nat × Nat × Nat × String) :=
  let rec go (pos : Nat) (pend : List (Nat × Nat)) (acc : List (Nat × Nat × Nat × String)) :
      List RawEv → List (Nat × Nat × Nat × String)
    | [] => acc
    | r :: rest =>
      if r.kind ≠ "note" then go pos pend acc rest else
      match r.args with
      | "call" :: _ => go (pos + 1) ((r.tid, pos) :: pend.filter (fun p => p.1 ≠ r.tid)) acc rest
      | ["ret", _, v] =>
        match pend.find? (fun p => p.1 = r.tid) with
        | some (_, c) => go (pos + 1) (pend.filter (fun p => p.1 ≠ r.tid)) ((r.tid, c, pos, v) :: acc) rest
        | none => go (pos + 1) pend acc rest
      | _ => go pos pend acc rest
  go 0 [] [] rs

def abortMonitor (lines : List String) : Option String :=
  let ops := spans (lines.filterMap parseLine)
  match ops.find? (fun o => o.2.2.2 = "-2" &&
      ops.all (fun p => p.2.1 = o.2.1 || p.2.2.1 < o.2.1 || o.2.2.1 < p.2.1)) with
  | some o => some s!"abortAlone: thread {o.1} got ABORT at {o.2.1} although no other operation overlapped it"
  | none => none

/-- `verifdrv Wsd <log>`: the `note init wsd <k0>` line gives the initial log2 size. -/
def drive (lines : List String) : IO UInt32 := do
  match initArgs lines with
  | "wsd" :: n :: rest =>
    match n.toNat? with
    | some k0 =>
      -- the harness may start `top = bottom = base` (a long-lived run queue: the indices only
      -- ever grow); `base` is a multiple of every array size, so slot indices are unchanged and
      -- the model, which counts from 0, sees the logged index values rebased
      let base : Int := ((rest.head?.bind String.toNat?).getD 0 : Nat)
      let rebase (r : RawEv) : Option Ev :=
        match ofRaw r with
        | some (.ldBottom t x m) => some (.ldBottom t (x - base) m)
        | some (.stBottom t x m) => some (.stBottom t (x - base) m)
        | some (.ldTop t x m) => some (.ldTop t (x - base) m)
        | some (.casTop t f e d ok m) => some (.casTop t (f - base) (e - base) (d - base) ok m)
        | x => x
      let body := lines.filter (fun l => !isInit l)
      let v := validate (sys k0) rebase body
      let notes := body.filterMap (fun l => (parseLine l).bind noteOfRaw)
      let mon := QueueHist.check { disc := .bag, drained := true, checkEmpty := true, failOnlyAlone := true }
        (QueueHist.opsOf notes)
      let mon := match mon with
        | some m => some m
        | none => abortMonitor body
      report "Wsd" v mon
    | none => IO.println "VALIDATE DIVERGE bad init"; return 1
  | _ => IO.println "VALIDATE DIVERGE missing init"; return 1

end LibfiberVerif.Wsd
