/-
  Model/Mutex.lean — src/fiber_mutex.c on top of fiber_manager_wait_in_mpsc_queue /
  fiber_manager_wake_from_mpsc_queue (src/fiber_manager.c) and include/mpsc_fifo.h
  (property C03).

  Actors are FIBERS (the `fiber` column of the log), any number of them (`Nat → Pc`), on any
  number of kernel threads: the kernel thread does not matter to this model.  One model step
  = one access to a cell of the mutex (`counter`, the waiter queue's `head`/`tail`, a node's
  `next`/`data`, a fiber's `mpsc_fifo_node` / `state` field as touched by the wait / wake
  functions), in exactly the order the C code performs them, plus the harness's API notes.
  Scheduler traffic on `state` (fiber_manager_yield, fiber_scheduler_next,
  fiber_manager_switch_to, fiber_manager_do_maintenance) is the runtime model's business
  (C01/C02) and is skipped here: a parked fiber simply takes no step until it is handed the
  mutex, and `ret lock` is accepted only from a fiber that was handed it.

  C code:
    lock:    old = fetch_sub(&counter, 1);  if (old - 1 == 0) return;      // acquired
             wait_in_mpsc_queue: this->state = SAVING; node = this->mpsc_fifo_node;
               node->data = this; this->mpsc_fifo_node = NULL;
               mpsc_fifo_push: node->next = NULL; prev = xchg(&tail, node); prev->next = node;
               fiber_manager_yield   (parks; resumes after a waker scheduled us)
    trylock: CAS(&counter, 1, 0)
    unlock:  old = fetch_add(&counter, 1);  if (old + 1 != 1) {
               wake_from_mpsc_queue(count = 1): do {
                 mpsc_fifo_trypop: h = head; x = h->next; if (x) { head = x; h->data = x->data; out = h }
                 if (out) { f = out->data; f->mpsc_fifo_node = out;
                            if (f->state == WAITING) f->state = READY; schedule(f); ++woken }
                 else { yield }
               } while (woken < 1);  fiber_yield(); }

  The waiter queue is kept abstractly as the ghost list `order` of (node, fiber) pairs in
  `xchg(&tail)` order with a `linked` flag each and the number `hd` of pairs already popped;
  the concrete values of `head`, `tail`, `next` are DERIVED from it and checked against
  every logged access (so the abstraction is validated on every run; that it is the right
  abstraction of mpsc_fifo.h for any interleaving is C15's theorem `Mpsc.pop_is_next_in_order`).

  Ghost state and guards that are ASSUMPTIONS about the environment (each is checked on every
  validated trace; none changes which accesses of the mutex code the model accepts):
    * `owner`: set at the acquire points (uncontended fetch_sub, successful CAS, the waker's
      `head := next` on behalf of the popped waiter), cleared by the release fetch_add.
    * `waking`: set by the pop (`w head`), cleared by the waker's last access to the woken
      fiber's `state` word (right before `fiber_manager_schedule`).  `ret lock` of a parked
      fiber requires `owner = some f ∧ waking = false`: a parked fiber runs only after it was
      scheduled (runtime property, C01).  Without this guard the model would let the woken
      fiber unlock — and pop — while its waker is still inside `mpsc_fifo_trypop`.
    * client grammar of the harness: `cs enter` only when not already inside, `cs exit` only
      when inside, `call unlock` only by the owner and after `cs exit`.
    * `data` / `seen`: the harness's protected plain cell `shared` (read at `cs enter`,
      written `+1` at `cs exit`, whose note carries the value written): a lost update or a
      stale read makes the trace diverge from the model.
-/
import LibfiberVerif.Core.Sys
import LibfiberVerif.Core.Event
import LibfiberVerif.Driver

namespace LibfiberVerif.Mutex

/-- fiber states (include/fiber.h) -/
def WAITING : Nat := 3
def READY : Nat := 2
def SAVING : Nat := 5

inductive Pc
  | idle
  | lockCalled
  | lockDec (old : Int)                 -- fetch_sub done, contended: about to wait
  | waitSaving                           -- state := SAVING written
  | waitGotNode (n : Nat)                -- read own mpsc_fifo_node
  | waitWroteData (n : Nat)              -- node->data := self
  | waitClearedNode (n : Nat)            -- own mpsc_fifo_node := NULL
  | pushCleared (n : Nat)                -- node->next := NULL
  | pushXchgd (n p i : Nat)              -- prev = xchg(tail, node); our entry is order[i]
  | parked                               -- prev->next := node done; waiting to be handed the mutex
  | acquired                             -- about to return from lock
  | tryCalled
  | tryDone (r : Bool)
  | held                                 -- between `ret lock`/`ret trylock 1` and `call unlock`
  | unlockCalled
  | wakeLoop                             -- fetch_add saw waiters: must pop one
  | popGotHead (h : Nat)
  | popGotNext (h x : Nat)
  | popMoved (h x : Nat)                 -- head := x
  | popGotData (h x g : Nat)             -- read x->data = fiber g
  | popWrote (h g : Nat)                 -- h->data := g ; `h` is the node handed out
  | wakeGotFiber (h g : Nat)             -- re-read out->data
  | wakeGaveNode (h g : Nat)             -- g->mpsc_fifo_node := out
  | wakeReadState (g st : Nat)           -- read g->state
  | unlockDone
  deriving Repr, DecidableEq, Inhabited

inductive Ev
  | callLock (f : Nat) | retLock (f : Nat)
  | callTry (f : Nat) | retTry (f : Nat) (r : Bool)
  | callUnlock (f : Nat) | retUnlock (f : Nat)
  | csEnter (f : Nat) | csExit (f : Nat) (v : Nat)
  | fsub (f : Nat) (old : Int)
  | fadd (f : Nat) (old : Int)
  | casCounter (f : Nat) (found : Int) (ok : Bool)
  | wState (f g v : Nat)
  | rState (f g v : Nat)
  | rNode (f g n : Nat)
  | wNode (f g n : Nat)
  | wData (f n g : Nat)
  | rData (f n g : Nat)
  | wNext (f n x : Nat)
  | xchgTail (f old new : Nat)
  | rHead (f n : Nat)
  | rNext (f n x : Nat)
  | wHead (f n : Nat)
  deriving Repr, DecidableEq, Inhabited

structure St where
  counter : Int
  stub : Nat
  /-- ghost: (node, fiber) in `xchg(&tail)` order -/
  order : List (Nat × Nat)
  /-- ghost: `linked i` = the `prev->next = node` write of `order[i]` has happened -/
  linked : Nat → Bool
  /-- number of entries of `order` already popped -/
  hd : Nat
  /-- the node most recently handed out by trypop is the old stub; `headNode` is the current stub -/
  headNode : Nat
  fnode : Nat → Nat
  ndata : Nat → Nat
  pc : Nat → Pc
  /-- ghost: the fiber that owns the mutex (a handed-off waiter owns it from the pop on) -/
  owner : Option Nat
  /-- ghost: fibers inside the harness's critical section -/
  inCs : List Nat
  /-- ghost: a waker has popped a waiter (`w head`) and has not yet finished waking it (its last
      access to the waiter's `state` word, after which it calls `fiber_manager_schedule`).  A
      handed-off waiter resumes only after that (guard of `retLock` from `parked`): the runtime
      runs a parked fiber only after it was scheduled (C01), validated on every trace. -/
  waking : Bool
  /-- the harness's protected cell `shared` (plain, non-atomic; read at `cs enter`, written at
      `cs exit`, with a yield in between) -/
  data : Nat
  /-- the value of `shared` fiber `f` read when it entered the critical section -/
  seen : Nat → Nat

def tailNode (s : St) : Nat :=
  match s.order.getLast? with
  | some (n, _) => n
  | none => s.stub

/-- `next` field of the current stub as the consumer sees it -/
def headNext (s : St) : Nat :=
  match s.order[s.hd]? with
  | some (n, _) => if s.linked s.hd then n else 0
  | none => 0

def init (stub : Nat) (nodeOf : Nat → Nat) : St :=
  { counter := 1, stub := stub, order := [], linked := fun _ => false, hd := 0, headNode := stub,
    fnode := nodeOf, ndata := fun _ => 0, pc := fun _ => .idle, owner := none, inCs := [],
    waking := false, data := 0, seen := fun _ => 0 }

def step (s : St) : Ev → Option St
  | .callLock f => if s.pc f = .idle then some { s with pc := upd s.pc f .lockCalled } else none
  | .fsub f old =>
    match s.pc f with
    | .lockCalled =>
      if old = s.counter then
        if old = 1 then
          some { s with counter := old - 1, owner := some f, pc := upd s.pc f .acquired }
        else some { s with counter := old - 1, pc := upd s.pc f (.lockDec old) }
      else none
    | _ => none
  | .wState f g v =>
    match s.pc f with
    | .lockDec _ => if g = f ∧ v = SAVING then some { s with pc := upd s.pc f .waitSaving } else none
    | .wakeReadState g' st =>
      if g = g' ∧ st = WAITING ∧ v = READY then
        some { s with waking := false, pc := upd s.pc f .unlockDone }
      else none
    | _ => none
  | .rNode f g n =>
    match s.pc f with
    | .waitSaving => if g = f ∧ n = s.fnode f ∧ n ≠ 0 then some { s with pc := upd s.pc f (.waitGotNode n) } else none
    | _ => none
  | .wData f n g =>
    match s.pc f with
    | .waitGotNode m => if n = m ∧ g = f then some { s with ndata := upd s.ndata n f, pc := upd s.pc f (.waitWroteData n) } else none
    | .popGotData h _ g' => if n = h ∧ g = g' then some { s with ndata := upd s.ndata h g, pc := upd s.pc f (.popWrote h g) } else none
    | _ => none
  | .wNode f g n =>
    match s.pc f with
    | .waitWroteData m => if g = f ∧ n = 0 then some { s with fnode := upd s.fnode f 0, pc := upd s.pc f (.waitClearedNode m) } else none
    | .wakeGotFiber h g' => if g = g' ∧ n = h then some { s with fnode := upd s.fnode g h, pc := upd s.pc f (.wakeGaveNode h g) } else none
    | _ => none
  | .wNext f n x =>
    match s.pc f with
    | .waitClearedNode m => if n = m ∧ x = 0 then some { s with pc := upd s.pc f (.pushCleared m) } else none
    | .pushXchgd m p i =>
      if n = p ∧ x = m then some { s with linked := upd s.linked i true, pc := upd s.pc f .parked }
      else none
    | _ => none
  | .xchgTail f old new =>
    match s.pc f with
    | .pushCleared m =>
      if new = m ∧ old = tailNode s then
        some { s with order := s.order ++ [(m, f)], pc := upd s.pc f (.pushXchgd m old s.order.length) }
      else none
    | _ => none
  | .retLock f =>
    match s.pc f with
    | .acquired => some { s with pc := upd s.pc f .held }
    | .parked =>
      if s.owner = some f ∧ s.waking = false then some { s with pc := upd s.pc f .held } else none
    | _ => none
  | .callTry f => if s.pc f = .idle then some { s with pc := upd s.pc f .tryCalled } else none
  | .casCounter f found ok =>
    match s.pc f with
    | .tryCalled =>
      if found = s.counter ∧ ok = decide (found = 1) then
        if ok then some { s with counter := 0, owner := some f, pc := upd s.pc f (.tryDone true) }
        else some { s with pc := upd s.pc f (.tryDone false) }
      else none
    | _ => none
  | .retTry f r =>
    match s.pc f with
    | .tryDone r' => if r = r' then some { s with pc := upd s.pc f (if r then .held else .idle) } else none
    | _ => none
  | .csEnter f =>
    -- `v = shared` (plain read; not logged, kept in `seen`)
    if s.pc f = .held ∧ f ∉ s.inCs then
      some { s with inCs := f :: s.inCs, seen := upd s.seen f s.data }
    else none
  | .csExit f v =>
    -- `shared = v + 1`: the note carries the value written
    if s.pc f = .held ∧ f ∈ s.inCs ∧ v = s.seen f + 1 then
      some { s with inCs := s.inCs.filter (· ≠ f), data := v }
    else none
  | .callUnlock f =>
    -- client grammar: unlock by the owner, after its critical section ended
    if s.pc f = .held ∧ s.owner = some f ∧ f ∉ s.inCs then some { s with pc := upd s.pc f .unlockCalled } else none
  | .fadd f old =>
    match s.pc f with
    | .unlockCalled =>
      if old = s.counter then
        if old + 1 = 1 then some { s with counter := old + 1, owner := none, pc := upd s.pc f .unlockDone }
        else some { s with counter := old + 1, owner := none, pc := upd s.pc f .wakeLoop }
      else none
    | _ => none
  | .rHead f n =>
    match s.pc f with
    | .wakeLoop => if n = s.headNode then some { s with pc := upd s.pc f (.popGotHead n) } else none
    | _ => none
  | .rNext f n x =>
    match s.pc f with
    | .popGotHead h =>
      if n = h ∧ x = headNext s then
        if x = 0 then some { s with pc := upd s.pc f .wakeLoop }       -- trypop failed: yield and retry
        else some { s with pc := upd s.pc f (.popGotNext h x) }
      else none
    | _ => none
  | .wHead f n =>
    match s.pc f with
    | .popGotNext h x =>
      if n = x then
        match s.order[s.hd]? with
        | some (_, g) =>
          -- the pop takes effect: the oldest announced waiter becomes the owner
          some { s with headNode := x, hd := s.hd + 1, owner := some g, waking := true,
                        pc := upd s.pc f (.popMoved h x) }
        | none => none
      else none
    | _ => none
  | .rData f n g =>
    match s.pc f with
    | .popMoved h x => if n = x ∧ g = s.ndata x ∧ g ≠ 0 then some { s with pc := upd s.pc f (.popGotData h x g) } else none
    | .popWrote h g' => if n = h ∧ g = g' then some { s with pc := upd s.pc f (.wakeGotFiber h g) } else none
    | _ => none
  | .rState f g v =>
    match s.pc f with
    | .wakeGaveNode _ g' =>
      if g = g' ∧ (v = WAITING ∨ v = SAVING) then
        if v = WAITING then some { s with pc := upd s.pc f (.wakeReadState g v) }
        else some { s with waking := false, pc := upd s.pc f .unlockDone }   -- still SAVING: scheduled as is
      else none
    | _ => none
  | .retUnlock f =>
    match s.pc f with
    | .unlockDone => some { s with pc := upd s.pc f .idle }
    | _ => none

def sys (stub : Nat) (nodeOf : Nat → Nat) : Sys St Ev := { init := init stub nodeOf, step := step }

/-! ### log decoding -/

/-- `@S` ↦ 1, `@N<k>` ↦ k+2, `0` ↦ 0 -/
def nodeId (s : String) : Option Nat :=
  if s = "0" then some 0
  else if s = "@S" then some 1
  else if s.startsWith "@N" then (s.drop 2).toString.toNat?.map (· + 2)
  else none

def fiberId (s : String) : Option Nat :=
  if s.startsWith "@F" then (s.drop 2).toString.toNat? else none

/-- `F16.state` ↦ (16, "state") ; `N16.next` ↦ node 18, "next"; `S.next` ↦ node 1 -/
def splitCell (c : String) : Option (String × String) :=
  match c.splitOn "." with
  | [a, b] => some (a, b)
  | _ => none

def cellNode (a : String) : Option Nat := nodeId ("@" ++ a)
def cellFiber (a : String) : Option Nat := fiberId ("@" ++ a)

def schedulerFuncs : List String :=
  ["fiber_manager_yield", "fiber_scheduler_next", "fiber_manager_switch_to",
   "fiber_manager_do_maintenance", "fiber_mark_completed", "fiber_destroy"]

def ofRaw (r : RawEv) : Option (Option Ev) :=
  let f := r.fiber
  if schedulerFuncs.contains r.func then some none else
  match r.kind, r.args with
  | "note", ["call", "lock"] => some (some (.callLock f))
  | "note", ["ret", "lock"] => some (some (.retLock f))
  | "note", ["call", "trylock"] => some (some (.callTry f))
  | "note", ["ret", "trylock", v] => some (some (.retTry f (v = "1")))
  | "note", ["call", "unlock"] => some (some (.callUnlock f))
  | "note", ["ret", "unlock"] => some (some (.retUnlock f))
  | "note", "cs" :: "enter" :: _ => some (some (.csEnter f))
  | "note", ["cs", "exit", _, v] => v.toNat?.map (fun v => some (.csExit f v))
  | "note", _ => some none
  | "fsub", ["counter", old, "1", _] => (parseInt32 old).map (fun o => some (.fsub f o))
  | "fadd", ["counter", old, "1", _] => (parseInt32 old).map (fun o => some (.fadd f o))
  | "cas", ["counter", found, "1", "0", ok, _] => (parseInt32 found).map (fun o => some (.casCounter f o (ok = "1")))
  | "xchg", ["tail", old, new, _] => do
      let o ← nodeId old; let n ← nodeId new; pure (some (.xchgTail f o n))
  | "r", ["head", n] => (nodeId n).map (fun n => some (.rHead f n))
  | "w", ["head", n] => (nodeId n).map (fun n => some (.wHead f n))
  | k, [c, v] =>
    match splitCell c with
    | some (a, "state") => do
        let g ← cellFiber a; let v ← v.toNat?
        if k = "w" then pure (some (.wState f g v)) else if k = "r" then pure (some (.rState f g v)) else none
    | some (a, "node") => do
        let g ← cellFiber a; let n ← nodeId v
        if k = "w" then pure (some (.wNode f g n)) else if k = "r" then pure (some (.rNode f g n)) else none
    | some (a, "next") => do
        let n ← cellNode a; let x ← nodeId v
        if k = "w" then pure (some (.wNext f n x)) else if k = "r" then pure (some (.rNext f n x)) else none
    | some (a, "data") => do
        let n ← cellNode a
        let g ← (if v = "0" then some 0 else fiberId v)
        if k = "w" then pure (some (.wData f n g)) else if k = "r" then pure (some (.rData f n g)) else none
    | _ => if k = "switch" ∨ k = "fcreate" ∨ k = "fdestroy" then some none else none
  | "switch", _ => some none
  | "fcreate", _ => some none
  | "fdestroy", _ => some none
  | _, _ => none
where
  /-- the counter is a 32-bit int printed as unsigned -/
  parseInt32 (s : String) : Option Int :=
    s.toNat?.map (fun n => if n ≥ 2147483648 then (n : Int) - 4294967296 else (n : Int))

/-! ### monitor on the API notes: occupancy of the critical section -/

def monitor (evs : List Ev) : Option String :=
  let rec go (inside : List Nat) : List Ev → Option String
    | [] => none
    | .csEnter f :: es => if inside ≠ [] then some s!"mutual exclusion: fiber {f} entered while {inside} inside" else go (f :: inside) es
    | .csExit f _ :: es => go (inside.filter (· ≠ f)) es
    | _ :: es => go inside es
  go [] evs

def drive (lines : List String) : IO UInt32 := do
  let body := lines.filter (fun l => !isInit l)
  -- every fiber F<k> starts out owning node N<k>
  let v := validateP (sys 1 (fun k => k + 2)) ofRaw body
  let evs := body.filterMap (fun l => (parseLine l).bind (fun r => (ofRaw r).join))
  report "Mutex" v (monitor evs)

end LibfiberVerif.Mutex
