/-
  Model/MultiSignal.lean — fiber_multi_signal_t of include/fiber_signal.h (the multi-signal
  clause of property C20; the wake hand-shake is the one of C11).

  The signal is the pair (counter, head) updated ONLY by `compare_and_swap2` (cmpxchg16b,
  logged as `cas2` through rt/shim.h); `head` is NULL, RAISED, or the top node of an intrusive
  LIFO list of waiting fibers (each fiber's own `mpsc_fifo_node`, linked through `next`).

  C code (one model step per shared access, in program order):
    wait:   this->scratch = NULL; node = this->mpsc_fifo_node; node->data = this;
            loop: c = load(counter); h = load(head);               // torn snapshot possible
              if (h == RAISED) { if (CAS2((c,h) → (c+1, NULL))) return; }          // consume
              else { node->next = h;
                     if (CAS2((c,h) → (c+1, node))) {                            // listed
                       this->state = WAITING; set_wait_location = &scratch (READY_TO_WAKE);
                       yield; this->scratch = NULL; return; } }
              cpu_relax();
    raise:  loop: c = load(counter); h = load(head);
              if (h == NULL || h == RAISED) { if (CAS2((c,h) → (c+1, RAISED))) return 0; }  // latch / coalesce
              else { x = h->next;                                    // h may be stale!
                     if (CAS2((c,h) → (c+1, x))) {                               // released h
                       g = h->data; g->mpsc_fifo_node = h;
                       while (g->scratch != READY_TO_WAKE) cpu_relax();
                       g->state = READY; schedule(g); return 1; } }
              cpu_relax();
    raise_strict: as raise without the latch branch (spins until it released a waiter).

  Ghost state: `stack` = the fibers' nodes currently listed (top first); `updates` = number of
  successful CAS2s; `parks`/`wakes` per fiber.  Node N<k> is fiber F<k>'s node and is named k.

  On top (harness/multisignal.c): a token counter (`take` / `publish`), or the strict mode.
-/
import LibfiberVerif.Core.Sys
import LibfiberVerif.Core.Event
import LibfiberVerif.Driver
import LibfiberVerif.Model.Signal

namespace LibfiberVerif.MultiSignal

/-- contents of `head` (and of a node's `next`) -/
inductive H
  | nil
  | raised
  | node (n : Nat)
  deriving Repr, DecidableEq, Inhabited

inductive Pc
  | idle
  | waitCalled
  | wClr                              -- scratch := NULL
  | wGotNode (n : Nat)                -- read own mpsc_fifo_node
  | wLoop (n : Nat)                   -- node->data := self done; top of the loop
  | wLdC (n c : Nat)
  | wLdH (n c : Nat) (h : H)
  | wNext (n c : Nat) (h : H)         -- node->next := h
  | wListed                           -- CAS2 pushed the node
  | parking                           -- state := WAITING
  | parked                            -- successor wrote scratch := READY_TO_WAKE
  | waitDone                          -- consumed RAISED, or resumed and cleared scratch
  | rLoop                               -- (whether it is raise or raise_strict: `St.strict`)
  | rLdC (c : Nat)
  | rLdH (c : Nat) (h : H)
  | rNext (c n : Nat) (x : H)           -- read h->next = x
  | rPopped (n : Nat)                   -- CAS2 released node n
  | rGotData (n g : Nat)
  | rGaveNode (g : Nat)
  | rReady (g : Nat)
  | rDone (r : Bool)
  deriving Repr, DecidableEq, Inhabited

inductive Ev
  | callWait (f : Nat) | retWait (f : Nat)
  | callRaise (f : Nat) (strict : Bool) | retRaise (f : Nat) (strict : Bool) (r : Bool)
  | clrScratch (f : Nat)
  | rNode (f g n : Nat)
  | wData (f n g : Nat)
  | ldC (f c : Nat)
  | ldH (f : Nat) (h : H)
  | wNext (f n : Nat) (h : H)
  | rNext (f n : Nat) (h : H)
  | cas2 (f ec : Nat) (eh : H) (nc : Nat) (nh : H) (ok : Bool)
  | wStateWaiting (f : Nat)
  | setWait (g f : Nat)
  | rData (f n g : Nat)
  | wNode (f g n : Nat)
  | rScratch (f g : Nat) (ready : Bool)
  | wStateReady (f g : Nat)
  -- harness: tokens
  | callTake (f : Nat) | took (f : Nat) | retTake (f : Nat) | callPublish (f : Nat)
  | ldTokens (f v : Nat)
  | casTokens (f found exp new : Nat) (ok : Bool)
  | faddTokens (f old : Nat)
  | peekHead (f : Nat) (h : H)              -- harness op `s`: polls `head` before raise_strict
  deriving Repr, DecidableEq, Inhabited

/-- harness-level pc (which harness operation the fiber is in) -/
inductive TPc
  | idle
  | takeLoop                -- try_take: about to load tokens
  | takeSaw (v : Nat)       -- loaded / CAS-observed v
  | takeWaiting
  | tookIt                  -- CAS took a token; `took` note next
  | tookNoted               -- about to re-load tokens (baton passing)
  | tookSaw (v : Nat)
  | tookRaising             -- baton raise in progress
  | takeEnd                 -- `ret take` next
  | pubCalled | published | raising | waiting
  deriving Repr, DecidableEq, Inhabited

structure St where
  counter : Nat
  head : H
  next : Nat → H
  ndata : Nat → Nat
  fnode : Nat → Nat
  scratch : Nat → Bool
  pc : Nat → Pc
  /-- is the raise a fiber is executing `fiber_multi_signal_raise_strict`? -/
  strict : Nat → Bool
  /-- ghost: nodes listed, top first -/
  stack : List Nat
  /-- ghost: number of successful CAS2s -/
  updates : Nat
  parks : Nat → Nat
  wakes : Nat → Nat
  /-- ghost: `waker n = some g` — raiser g has popped node n and not yet woken its fiber -/
  waker : Nat → Option Nat
  /-- ghost: raises latched (NULL→RAISED), coalesced (RAISED→RAISED), consumed, released -/
  latched : Nat
  coalesced : Nat
  consumed : Nat
  released : Nat
  tokens : Nat
  tk : Nat → TPc

def init (nodeOf : Nat → Nat) : St :=
  { counter := 0, head := .nil, next := fun _ => .nil, ndata := fun _ => 0, fnode := nodeOf,
    scratch := fun _ => false, pc := fun _ => .idle, strict := fun _ => false, stack := [], updates := 0,
    parks := fun _ => 0, wakes := fun _ => 0, waker := fun _ => none, latched := 0, coalesced := 0, consumed := 0,
    released := 0, tokens := 0, tk := fun _ => .idle }

/-- the CAS2 itself: succeeds iff both words are as expected -/
def casOk (s : St) (ec : Nat) (eh : H) : Bool := decide (s.counter = ec ∧ s.head = eh)

def step (s : St) : Ev → Option St
  -- ---------------------------------------------------------------- wait
  | .callWait f =>
    if s.pc f = .idle ∧ (s.tk f = .takeSaw 0 ∨ s.tk f = .idle) then
      some { s with pc := upd s.pc f .waitCalled,
                    tk := upd s.tk f (if s.tk f = .idle then .waiting else .takeWaiting) }
    else none
  | .clrScratch f =>
    match s.pc f with
    | .waitCalled => some { s with scratch := upd s.scratch f false, pc := upd s.pc f .wClr }
    | .parked =>
      if s.wakes f = s.parks f then
        some { s with scratch := upd s.scratch f false, pc := upd s.pc f .waitDone }
      else none
    | _ => none
  | .rNode f g n =>
    match s.pc f with
    | .wClr => if g = f ∧ n = s.fnode f ∧ n ≠ 0 then some { s with pc := upd s.pc f (.wGotNode n) } else none
    | _ => none
  | .wData f n g =>
    match s.pc f with
    | .wGotNode m => if n = m ∧ g = f then some { s with ndata := upd s.ndata n f, pc := upd s.pc f (.wLoop n) } else none
    | _ => none
  | .ldC f c =>
    match s.pc f with
    | .wLoop n => if c = s.counter then some { s with pc := upd s.pc f (.wLdC n c) } else none
    | .rLoop => if c = s.counter then some { s with pc := upd s.pc f (.rLdC c) } else none
    | _ => none
  | .ldH f h =>
    match s.pc f with
    | .wLdC n c => if h = s.head then some { s with pc := upd s.pc f (.wLdH n c h) } else none
    | .rLdC c =>
      if h = s.head then
        match h, s.strict f with
        | .node _, _ => some { s with pc := upd s.pc f (.rLdH c h) }
        | _, false => some { s with pc := upd s.pc f (.rLdH c h) }
        | _, true => some { s with pc := upd s.pc f .rLoop }      -- strict: nobody to wake, spin
      else none
    | _ => none
  | .wNext f n h =>
    match s.pc f with
    | .wLdH m c h' =>
      if n = m ∧ h = h' ∧ h ≠ .raised then some { s with next := upd s.next n h, pc := upd s.pc f (.wNext m c h) }
      else none
    | _ => none
  | .rNext f n x =>
    match s.pc f with
    | .rLdH c (.node m) =>
      if n = m ∧ x = s.next m then some { s with pc := upd s.pc f (.rNext c m x) } else none
    | _ => none
  | .cas2 f ec eh nc nh ok =>
    if ok ≠ casOk s ec eh ∨ nc ≠ ec + 1 then none else
    match s.pc f with
    | .wLdH n c .raised =>
      -- consume the latched raise
      if ec = c ∧ eh = .raised ∧ nh = .nil then
        if ok then some { s with counter := nc, head := .nil, updates := s.updates + 1, consumed := s.consumed + 1,
                                 pc := upd s.pc f .waitDone }
        else some { s with pc := upd s.pc f (.wLoop n) }
      else none
    | .wNext n c h =>
      if ec = c ∧ eh = h ∧ nh = .node n then
        if ok then some { s with counter := nc, head := .node n, updates := s.updates + 1, stack := n :: s.stack,
                                 parks := upd s.parks f (s.parks f + 1), pc := upd s.pc f .wListed }
        else some { s with pc := upd s.pc f (.wLoop n) }
      else none
    | .rLdH c h =>
      -- latch (NULL → RAISED) or coalesce (RAISED → RAISED); never for a node, never strict
      if s.strict f = false ∧ ec = c ∧ eh = h ∧ (h = .nil ∨ h = .raised) ∧ nh = .raised then
        if ok then some { s with counter := nc, head := .raised, updates := s.updates + 1,
                                 latched := s.latched + (if h = .nil then 1 else 0),
                                 coalesced := s.coalesced + (if h = .raised then 1 else 0),
                                 pc := upd s.pc f (.rDone false) }
        else some { s with pc := upd s.pc f .rLoop }
      else none
    | .rNext c n x =>
      if ec = c ∧ eh = .node n ∧ nh = x then
        if ok then some { s with counter := nc, head := x, updates := s.updates + 1, stack := s.stack.drop 1,
                                 released := s.released + 1, waker := upd s.waker n (some f),
                                 pc := upd s.pc f (.rPopped n) }
        else some { s with pc := upd s.pc f .rLoop }
      else none
    | _ => none
  | .wStateWaiting f =>
    match s.pc f with
    | .wListed => some { s with pc := upd s.pc f .parking }
    | _ => none
  | .setWait _ f =>
    match s.pc f with
    | .parking => some { s with scratch := upd s.scratch f true, pc := upd s.pc f .parked }
    | _ => none
  | .retWait f =>
    match s.pc f with
    | .waitDone =>
      match s.tk f with
      | .takeWaiting => some { s with pc := upd s.pc f .idle, tk := upd s.tk f .takeLoop }
      | .waiting => some { s with pc := upd s.pc f .idle, tk := upd s.tk f .idle }
      | _ => none
    | _ => none
  -- ---------------------------------------------------------------- raise / raise_strict
  | .callRaise f st =>
    if s.pc f = .idle then
      match s.tk f with
      | .idle => some { s with pc := upd s.pc f .rLoop, strict := upd s.strict f st, tk := upd s.tk f .raising }
      | .published =>
        if st then none else some { s with pc := upd s.pc f .rLoop, strict := upd s.strict f st, tk := upd s.tk f .raising }
      | .tookSaw v =>
        if st ∨ v = 0 then none
        else some { s with pc := upd s.pc f .rLoop, strict := upd s.strict f st, tk := upd s.tk f .tookRaising }
      | _ => none
    else none
  | .rData f n g =>
    match s.pc f with
    | .rPopped m => if n = m ∧ g = s.ndata m ∧ g ≠ 0 then some { s with pc := upd s.pc f (.rGotData m g) } else none
    | _ => none
  | .wNode f g n =>
    match s.pc f with
    | .rGotData m g' => if g = g' ∧ n = m then some { s with fnode := upd s.fnode g n, pc := upd s.pc f (.rGaveNode g) } else none
    | _ => none
  | .rScratch f g ready =>
    match s.pc f with
    | .rGaveNode g' =>
      if g = g' ∧ ready = s.scratch g then
        if ready then some { s with pc := upd s.pc f (.rReady g) } else some s
      else none
    | _ => none
  | .wStateReady f g =>
    match s.pc f with
    | .rReady g' =>
      if g = g' then some { s with wakes := upd s.wakes g (s.wakes g + 1), waker := upd s.waker g none,
                                   pc := upd s.pc f (.rDone true) } else none
    | _ => none
  | .retRaise f st r =>
    match s.pc f with
    | .rDone r' =>
      if st = s.strict f ∧ r = r' then
        match s.tk f with
        | .raising => some { s with pc := upd s.pc f .idle, tk := upd s.tk f .idle }
        | .tookRaising => some { s with pc := upd s.pc f .idle, tk := upd s.tk f .takeEnd }
        | _ => none
      else none
    | _ => none
  -- ---------------------------------------------------------------- token harness
  | .callTake f => if s.tk f = .idle ∧ s.pc f = .idle then some { s with tk := upd s.tk f .takeLoop } else none
  | .ldTokens f v =>
    if v ≠ s.tokens then none else
    match s.tk f with
    | .takeLoop => some { s with tk := upd s.tk f (.takeSaw v) }
    | .tookNoted => some { s with tk := upd s.tk f (if v = 0 then .takeEnd else .tookSaw v) }
    | _ => none
  | .casTokens f found exp new ok =>
    match s.tk f with
    | .takeSaw v =>
      if 0 < v ∧ exp = v ∧ new = v - 1 ∧ found = s.tokens ∧ ok = decide (found = exp) then
        if ok then some { s with tokens := new, tk := upd s.tk f .tookIt }
        else some { s with tk := upd s.tk f (.takeSaw found) }
      else none
    | _ => none
  | .took f =>
    match s.tk f with
    | .tookIt => some { s with tk := upd s.tk f .tookNoted }
    | _ => none
  | .retTake f =>
    match s.tk f with
    | .takeEnd => some { s with tk := upd s.tk f .idle }
    | _ => none
  | .callPublish f => if s.tk f = .idle ∧ s.pc f = .idle then some { s with tk := upd s.tk f .pubCalled } else none
  | .faddTokens f old =>
    match s.tk f with
    | .pubCalled => if old = s.tokens then some { s with tokens := old + 1, tk := upd s.tk f .published } else none
    | _ => none

  | .peekHead f h =>
    if s.pc f = .idle ∧ s.tk f = .idle ∧ h = s.head then some s else none

def sys (nodeOf : Nat → Nat) : Sys St Ev := { init := init nodeOf, step := step }

/-! ### log decoding -/

open Signal (fiberId cellFiber splitCell schedulerFuncs skipKinds)

/-- `0` ↦ nil, `-1` ↦ raised, `@N16` ↦ node 16 -/
def hOf (s : String) : Option H :=
  if s = "0" then some .nil else if s = "-1" then some .raised
  else if s.startsWith "@N" then (s.drop 2).toString.toNat?.map .node else none

def nodeOfCell (c field : String) : Option Nat :=
  match splitCell c with
  | some (a, b) => if b = field ∧ a.startsWith "N" then (a.drop 1).toString.toNat? else none
  | none => none

def msFuncs : List String :=
  ["fiber_multi_signal_wait", "fiber_multi_signal_raise", "fiber_multi_signal_raise_strict"]

def ofRaw (r : RawEv) : Option (Option Ev) :=
  let f := r.fiber
  if r.func = "fiber_manager_do_maintenance" ∧ r.kind = "w" then
    match r.args with
    | [c, "-1"] =>
      match cellFiber c "scratch" with
      | some g => some (some (.setWait f g))
      | none => some none
    | _ => some none
  else if msFuncs.contains r.func then
    let isWait := r.func = "fiber_multi_signal_wait"
    match r.kind, r.args with
    | "ld", ["ms/8", c, _] => c.toNat?.map (fun c => some (.ldC f c))
    | "ld", ["ms+8/8", h, _] => (hOf h).map (fun h => some (.ldH f h))
    | "cas2", ["ms", ec, eh, nc, nh, ok] => do
        let ec ← ec.toNat?; let eh ← hOf eh; let nc ← nc.toNat?; let nh ← hOf nh
        pure (some (.cas2 f ec eh nc nh (ok = "1")))
    | "w", [c, v] =>
      match cellFiber c "scratch", cellFiber c "state", cellFiber c "node", nodeOfCell c "data", nodeOfCell c "next" with
      | some g, _, _, _, _ => if g = f ∧ v = "0" ∧ isWait then some (some (.clrScratch f)) else none
      | _, some g, _, _, _ =>
        if isWait then (if g = f ∧ v = "3" then some (some (.wStateWaiting f)) else none)
        else if v = "2" then some (some (.wStateReady f g)) else none
      | _, _, some g, _, _ => if isWait then none else (hOf v).bind fun
          | .node n => some (some (.wNode f g n))
          | _ => none
      | _, _, _, some n, _ => (fiberId v).map (fun g => some (.wData f n g))
      | _, _, _, _, some n => (hOf v).map (fun h => some (.wNext f n h))
      | _, _, _, _, _ => none
    | "r", [c, v] =>
      match cellFiber c "scratch", cellFiber c "node", nodeOfCell c "data", nodeOfCell c "next" with
      | some g, _, _, _ =>
        if isWait then none else
        if v = "-1" then some (some (.rScratch f g true)) else if v = "0" then some (some (.rScratch f g false)) else none
      | _, some g, _, _ => (hOf v).bind fun
          | .node n => some (some (.rNode f g n))
          | _ => none
      | _, _, some n, _ => (fiberId v).map (fun g => some (.rData f n g))
      | _, _, _, some n => (hOf v).map (fun h => some (.rNext f n h))
      | _, _, _, _ => none
    | _, _ => none
  -- a finished (joinable, never joined) harness fiber parks in fiber_manager_set_and_wait: runtime business
  else if schedulerFuncs.contains r.func || r.func = "fiber_manager_set_and_wait" || skipKinds.contains r.kind then some none else
  match r.kind, r.args with
  | "note", ["call", "take"] => some (some (.callTake f))
  | "note", ["took"] => some (some (.took f))
  | "note", ["ret", "take"] => some (some (.retTake f))
  | "note", ["call", "publish"] => some (some (.callPublish f))
  | "note", ["call", "wait"] => some (some (.callWait f))
  | "note", ["ret", "wait"] => some (some (.retWait f))
  | "note", ["call", "raise"] => some (some (.callRaise f false))
  | "note", ["ret", "raise", v] => some (some (.retRaise f false (v = "1")))
  | "note", ["call", "strict"] => some (some (.callRaise f true))
  | "note", ["ret", "strict"] => some (some (.retRaise f true true))
  | "note", _ => some none
  | "ld", ["tokens", v, _] => v.toNat?.map (fun v => some (.ldTokens f v))
  | "ld", ["ms+8/8", h, _] => (hOf h).map (fun h => some (.peekHead f h))
  | "cas", ["tokens", found, exp, new, ok, _] => do
      let a ← found.toNat?; let b ← exp.toNat?; let c ← new.toNat?
      pure (some (.casTokens f a b c (ok = "1")))
  | "fadd", ["tokens", old, "1", _] => old.toNat?.map (fun v => some (.faddTokens f v))
  | _, _ => none

/-! ### API-level monitor (definite violations only)
  * every released waiter was waiting: #(raises that returned 1, strict included) ≤ #(call wait)
    at every prefix, and at the end every such release corresponds to a returned wait …
  * a wait returns only through a raise: #(ret wait) ≤ #(call raise) at every prefix;
  * no fiber returns from a wait it did not call (double resume). -/
def monitor (evs : List Ev) : Option String :=
  let rec go (cw rw cr r1 : Nat) (waiting : List Nat) : List Ev → Option String
    | [] => none
    | .callWait f :: es => go (cw + 1) rw cr r1 (f :: waiting) es
    | .retWait f :: es =>
      if !waiting.contains f then some s!"fiber {f} returned from a wait it was not in"
      else if rw + 1 > cr then some s!"wait of fiber {f} returned although no raise had been called for it"
      else go cw (rw + 1) cr r1 (waiting.erase f) es
    | .callRaise _ _ :: es => go cw rw (cr + 1) r1 waiting es
    | .retRaise f _ true :: es =>
      if r1 + 1 > cw then some s!"raise of fiber {f} reports a release but no wait was pending"
      else go cw rw cr (r1 + 1) waiting es
    | _ :: es => go cw rw cr r1 waiting es
  go 0 0 0 0 [] evs

def drive (lines : List String) : IO UInt32 := do
  let body := lines.filter (fun l => !isInit l)
  let v := validateP (sys (fun k => k)) ofRaw body
  let evs := body.filterMap (fun l => (parseLine l).bind (fun r => (ofRaw r).join))
  report "MultiSignal" v (monitor evs)

end LibfiberVerif.MultiSignal
