/-
  Model/RingW.lean — include/lockfree_ring_buffer.h with `high` / `low` as the `uint64_t` they
  are (property C16, 64-bit wrap-around of the counters).

  `Model/Ring.lean` keeps `high` and `low` as unbounded naturals.  This machine performs exactly
  the C code's arithmetic and comparisons on 64-bit values: every counter value in a shared
  cell, in a program counter (a local variable of the C function) and in an event is a number
  below `M = 2^64`;

      high + 1, low + 1                     (x + 1) mod 2^64                      `wadd1`
      high - low                            (high + 2^64 - low) mod 2^64          `wsub`
      high & power_of_2_mod                 `Ring.idx` (bitwise and), on the 64-bit value
      trypush:  high - low < size           unsigned `<` on the 64-bit DIFFERENCE
      trypop:   high > low                  unsigned `>` on the two 64-bit VALUES   (`gt`)
      push:     high - low >= size          unsigned `>=` on the 64-bit difference
      pop:      high <= low                 unsigned `<=` on the two 64-bit values  (`¬ gt`)
      size:     (int64_t)(high - low) >= 0 ? high - low : 0     sign bit of the difference
      CAS:      compares two 64-bit values for equality

  The machine starts with `high = low = base mod 2^64` for an arbitrary `base` (a ring that has
  been used for a long time), all slots NULL.  Same steps, same events, same program counters
  and same decoding as `Model/Ring.lean` (`Ring.Pc`, `Ring.Ev` are reused; their counter
  components hold 64-bit values here).

  `fx : Bool` selects how `trypop` and `pop` compare `high` with `low`:
    * `false` — the code as it is: the direct comparisons `high > low` / `high <= low`;
    * `true`  — the candidate repair (docs/fix-C16.diff): the sign of the difference,
      `(int64_t)(high - low) > 0` / `<= 0`, as `lockfree_ring_buffer_size` already does.
  `Proof/RingW.lean` proves that this machine refines `Model/Ring.lean` step by step (for
  `fx = false` only until `high` crosses 2^64: after that `high > low` is false with items in
  the buffer — finding F-C16, `Props/C16Wrap.lean`).

  Ghost fields (write-only, no guard reads them): `pushed`, `popped`, `arg`, `active`, `wit` as
  in `Model/Ring.lean`; `hi0 t` / `lo0 t` = the number of pushes / pops that had taken effect
  when thread `t`'s current call began (used to state "no call overlaps 2^63 successful
  operations").  Core Lean only (the driver links this file).
-/
import LibfiberVerif.Model.Ring

namespace LibfiberVerif.RingW
open Ring (Pc Ev Wrap idx)

/-- 2^64 (a literal, so that `omega` can reason about `% M`) -/
abbrev M : Nat := 18446744073709551616
/-- 2^63 -/
abbrev H63 : Nat := 9223372036854775808

/-- `x + 1` in `uint64_t` -/
def wadd1 (x : Nat) : Nat := (x + 1) % M
/-- `a - b` in `uint64_t` (for `a, b < 2^64`) -/
def wsub (a b : Nat) : Nat := (a + M - b) % M
/-- `(int64_t)d > 0` for a 64-bit pattern `d` -/
def spos (d : Nat) : Bool := decide (0 < d) && decide (d < H63)
/-- how `trypop` / `pop` decide "`high` is ahead of `low`" -/
def gt (fx : Bool) (h l : Nat) : Bool := if fx then spos (wsub h l) else decide (l < h)
/-- `(int64_t)d >= 0 ? d : 0` -/
def sclamp (d : Nat) : Nat := if d < H63 then d else 0

structure St where
  size : Nat
  /-- `rb->high`, a 64-bit value -/
  high : Nat
  /-- `rb->low`, a 64-bit value -/
  low : Nat
  buf : Nat → Nat
  pc : Nat → Pc
  wrap : Nat → Wrap
  /-- ghost: values in the order their `high` CAS succeeded -/
  pushed : List Nat
  /-- ghost: values in the order their `low` CAS succeeded -/
  popped : List Nat
  /-- ghost: the argument of thread `t`'s current / most recent `trypush` call -/
  arg : Nat → Nat
  /-- ghost: the threads that are inside a call -/
  active : List Nat
  /-- ghost, per call: `justNow · t` held at some instant since thread `t`'s current call began -/
  wit : Nat → Bool
  /-- ghost: `pushed.length` at thread `t`'s latest `call` event -/
  hi0 : Nat → Nat
  /-- ghost: `popped.length` at thread `t`'s latest `call` event -/
  lo0 : Nat → Nat

def init (size base : Nat) : St :=
  { size := size, high := base % M, low := base % M, buf := fun _ => 0, pc := fun _ => .idle,
    wrap := fun _ => .no, pushed := [], popped := [], arg := fun _ => 0, active := [],
    wit := fun _ => false, hi0 := fun _ => 0, lo0 := fun _ => 0 }

/-- the attempt of thread `t` has failed (trypush would return 0) -/
def pushFailed (s : St) (t : Nat) : Bool :=
  match s.pc t with
  | .pushDone r => r == 0
  | .pushReadSlot _ l h x => x != 0 || !decide (wsub h l < s.size)
  | _ => false

/-- the attempt of thread `t` has failed (trypop would return NULL) -/
def popFailed (fx : Bool) (s : St) (t : Nat) : Bool :=
  match s.pc t with
  | .popDone x => x == 0
  | .popReadSlot h l y => y == 0 || !gt fx h l
  | _ => false

/-- ghost predicate sampled after every event: some thread other than `t` is inside a call, or
    `t` is pushing and the buffer is full, or `t` is popping and the buffer is empty (full /
    empty by the 64-bit difference `high - low`). -/
def justNow (s : St) (t : Nat) : Bool :=
  s.active.any (fun u => u != t)
    || ((s.pc t).pushing && decide (s.size ≤ wsub s.high s.low))
    || ((s.pc t).popping && decide (s.high = s.low))

/-- ghost bookkeeping of a `call` event of thread `t` -/
def called (s : St) (t : Nat) (p : Pc) : St :=
  { s with pc := upd s.pc t p, active := t :: s.active, wit := upd s.wit t false,
           hi0 := upd s.hi0 t s.pushed.length, lo0 := upd s.lo0 t s.popped.length }

/-- ghost bookkeeping of a `ret` event of thread `t` -/
def returned (s : St) (t : Nat) : St :=
  { s with pc := upd s.pc t .idle, active := s.active.filter (fun u => u != t) }

/-- the C code on 64-bit counters: one shared access per event -/
def core (fx : Bool) (s : St) : Ev → Option St
  | .callPush t v =>
    if s.pc t = .idle ∧ v ≠ 0 then some { called s t (.pushCalled v) with arg := upd s.arg t v }
    else none
  | .ldLow t x =>
    match s.pc t with
    | .pushCalled v =>
      if x = s.low then some { s with pc := upd s.pc t (.pushGotLow v x) } else none
    | .popGotHigh h =>
      if x = s.low then some { s with pc := upd s.pc t (.popGotLow h x) } else none
    | _ => none
  | .ldHigh t x =>
    match s.pc t with
    | .pushGotLow v l =>
      if x = s.high then some { s with pc := upd s.pc t (.pushGotHigh v l x) } else none
    | .popCalled =>
      if x = s.high then some { s with pc := upd s.pc t (.popGotHigh x) } else none
    | _ => none
  | .rdBuf t i x =>
    match s.pc t with
    | .pushGotHigh v l h =>
      if i = idx s.size h ∧ x = s.buf i then some { s with pc := upd s.pc t (.pushReadSlot v l h x) }
      else none
    | .popGotLow h l =>
      if i = idx s.size l ∧ x = s.buf i then some { s with pc := upd s.pc t (.popReadSlot h l x) }
      else none
    | _ => none
  | .casHigh t found exp des ok =>
    match s.pc t with
    | .pushReadSlot v l h x =>
      -- `!rb->buffer[index] && high - low < rb->size && CAS(&rb->high, &high, high + 1)`
      if x = 0 ∧ wsub h l < s.size ∧ found = s.high ∧ exp = h ∧ des = wadd1 h ∧ ok = decide (found = exp) then
        if ok then
          some { s with high := des, pushed := s.pushed ++ [v], pc := upd s.pc t (.pushClaimed v h) }
        else some { s with pc := upd s.pc t (.pushDone 0) }
      else none
    | _ => none
  | .wrBuf t i x =>
    match s.pc t with
    | .pushClaimed v h =>
      if i = idx s.size h ∧ x = v then
        some { s with buf := upd s.buf i x, pc := upd s.pc t (.pushDone 1) }
      else none
    | .popClaimed l v =>
      if i = idx s.size l ∧ x = 0 then
        some { s with buf := upd s.buf i 0, pc := upd s.pc t (.popDone v) }
      else none
    | _ => none
  | .retPush t r =>
    match s.pc t with
    | .pushDone r' =>
      if r = r' ∧ s.wrap t = .no then some (returned s t) else none
    | .pushReadSlot _ l h x =>
      if (x ≠ 0 ∨ ¬ (wsub h l < s.size)) ∧ r = 0 ∧ s.wrap t = .no then some (returned s t) else none
    | _ => none
  | .callPop t =>
    if s.pc t = .idle then some (called s t .popCalled) else none
  | .casLow t found exp des ok =>
    match s.pc t with
    | .popReadSlot h l x =>
      -- `ret && high > low && CAS(&rb->low, &low, low + 1)`
      if x ≠ 0 ∧ gt fx h l = true ∧ found = s.low ∧ exp = l ∧ des = wadd1 l ∧ ok = decide (found = exp) then
        if ok then
          some { s with low := des, popped := s.popped ++ [x], pc := upd s.pc t (.popClaimed l x) }
        else some { s with pc := upd s.pc t (.popDone 0) }
      else none
    | _ => none
  | .retPop t x =>
    match s.pc t with
    | .popDone x' =>
      if x = x' ∧ s.wrap t = .no then some (returned s t) else none
    | .popReadSlot h l y =>
      if (y = 0 ∨ gt fx h l = false) ∧ x = 0 ∧ s.wrap t = .no then some (returned s t) else none
    | _ => none
  | .callBPush t v =>
    if s.pc t = .idle ∧ v ≠ 0 then
      some { called s t (.pushCalled v) with wrap := upd s.wrap t (.push v) }
    else none
  | .callBPop t =>
    if s.pc t = .idle then some { called s t .popCalled with wrap := upd s.wrap t .pop } else none
  | .callSize t =>
    if s.pc t = .idle then some (called s t .sizeCalled) else none
  | .wLdHigh t x =>
    match s.wrap t with
    | .push v =>
      if pushFailed s t = true ∧ x = s.high then some { s with pc := upd s.pc t (.bpushGotHigh v x) }
      else none
    | .pop =>
      if popFailed fx s t = true ∧ x = s.high then some { s with pc := upd s.pc t (.bpopGotHigh x) }
      else none
    | .no =>
      if s.pc t = .sizeCalled ∧ x = s.high then some { s with pc := upd s.pc t (.sizeGotHigh x s.low) }
      else none
  | .wLdLow t x =>
    match s.pc t with
    | .bpushGotHigh v h =>
      if x = s.low then
        -- `if (rb->high - rb->low >= rb->size) cpu_relax();` — one unsigned 64-bit difference
        if s.size ≤ wsub h x then some { s with pc := upd s.pc t (.bpushFull v) }
        else some { s with pc := upd s.pc t (.pushCalled v) }
      else none
    | .bpopGotHigh h =>
      if x = s.low then
        -- `if (rb->high <= rb->low) cpu_relax();`
        if gt fx h x = false then some { s with pc := upd s.pc t .bpopEmpty }
        else some { s with pc := upd s.pc t .popCalled }
      else none
    | .sizeGotHigh h g =>
      if x = s.low then some { s with pc := upd s.pc t (.sizeGotBoth h x g s.high) } else none
    | _ => none
  | .relax t =>
    match s.pc t with
    | .bpushFull v => some { s with pc := upd s.pc t (.pushCalled v) }
    | .bpopEmpty => some { s with pc := upd s.pc t .popCalled }
    | _ => none
  | .retBPush t r =>
    match s.pc t with
    | .pushDone r' =>
      if r' = 1 ∧ r = 1 ∧ (s.wrap t).isPush = true then
        some { returned s t with wrap := upd s.wrap t .no }
      else none
    | _ => none
  | .retBPop t x =>
    match s.pc t with
    | .popDone x' =>
      if x = x' ∧ x ≠ 0 ∧ (s.wrap t).isPop = true then
        some { returned s t with wrap := upd s.wrap t .no }
      else none
    | _ => none
  | .retSize t n =>
    match s.pc t with
    | .sizeGotBoth h l _ _ =>
      -- `const int64_t size = high - low; return size >= 0 ? size : 0;`
      if n = sclamp (wsub h l) then some (returned s t) else none
    | _ => none

/-- ghost bookkeeping only (never read by `core`) -/
def observe (s : St) : St := { s with wit := fun t => s.wit t || justNow s t }

def step (fx : Bool) (s : St) (e : Ev) : Option St := (core fx s e).map observe

/-- capacity `size`, counters starting at `base mod 2^64`; `fx = false` is the code as it is -/
def sys (fx : Bool) (size base : Nat) : Sys St Ev := { init := init size base, step := step fx }

/-! ### log-line decoding

The runtime prints a 64-bit value `v ≥ 2^64 - 2^32` as the negative number `v - 2^64`
(rt/vrt.c `fmtval`); everything else as an unsigned decimal.  Counter values are turned back
into the 64-bit pattern, everything else is decoded by `Ring.ofRaw`. -/

def u64OfString (a : String) : String :=
  if a.startsWith "-" then
    match (a.drop 1).toString.toNat? with
    | some n => if 0 < n ∧ n ≤ M then toString (M - n) else a
    | none => a
  else a

def ofRaw (r : RawEv) : Option Ev :=
  let known := match r.kind, r.args with
    | "ld", [c, x, _] => (c = "high" || c = "low") && (match (u64OfString x).toNat? with | some x => x < M | none => false)
    | "cas", [c, f, e, d, _, _] => (c = "high" || c = "low") &&
        [f, e, d].all (fun x => match (u64OfString x).toNat? with | some x => x < M | none => false)
    | _, _ => true
  if known then
    Ring.ofRaw (if r.kind = "ld" || r.kind = "cas" then { r with args := r.args.map u64OfString } else r)
  else none

/-- `verifdrv Ring <log>`: `note init ring <size> [<base> [<cmp>]]` gives the capacity, the
    starting value of both counters (default 0) and how the SOURCE compares the counters in
    trypop / pop (`asis` = raw values, `signed` = sign of the difference; read from the header
    on every run by extract/ring_extract.py, default `asis`).  The log is validated against the
    64-bit machine of that variant started at `base`; a log with `base = 0` is validated against
    the unbounded model `Ring.sys` as well.  The API-level monitors do not depend on `base`. -/
def drive (lines : List String) : IO UInt32 := do
  let go (size base : Nat) (fx : Bool) : IO UInt32 := do
    let body := lines.filter (fun l => !isInit l)
    let vW := validate (sys fx size base) ofRaw body
    let v := if base = 0 ∧ vW.2.isNone then validate (Ring.sys size) Ring.ofRaw body else vW
    let mon := queueMonitor { disc := .fifo, capacity := size, drained := true, failOnlyAlone := true }
      (body.map Ring.monitorView)
    report (if base = 0 then "Ring" else "RingW") v (mon <|> Ring.sizeMonitor size body)
  let bad : IO UInt32 := do IO.println "VALIDATE DIVERGE bad init"; return 1
  match initArgs lines with
  | ["ring", n] =>
    match n.toNat? with
    | some size => go size 0 false
    | none => bad
  | ["ring", n, b] =>
    match n.toNat?, b.toNat? with
    | some size, some base => go size base false
    | _, _ => bad
  | ["ring", n, b, v] =>
    match n.toNat?, b.toNat?, v with
    | some size, some base, "asis" => go size base false
    | some size, some base, "signed" => go size base true
    | _, _, _ => bad
  | _ => bad

end LibfiberVerif.RingW
