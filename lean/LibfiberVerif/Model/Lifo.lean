/-
  Model/Lifo.lean — include/mpmc_lifo.h (property C20, part lifo).

  One model step = one access to a shared cell, exactly in the order the C code performs
  them, plus the API call/return notes of the harness.  Shared cells: the 16-byte
  (counter, head) pair — read as TWO separate loads (torn snapshots are in the model) and
  written only by the double-word CAS — and every node's `next` and `data`.
  Any number of threads (`Nat → Pc`), any number of nodes (`Nat`-indexed, 0 = NULL),
  unbounded operation counts.  Wrap-around of the 64-bit counter is not modelled.

  C code being modelled (push):
      while (1) {
        snapshot.counter = load(lifo->counter);  snapshot.head = load(lifo->head);
        node->next = snapshot.head;
        temp = (snapshot.counter + 1, node);
        if (compare_and_swap2(lifo, snapshot, temp)) return; }
  (pop):
      while (1) {
        snapshot.counter = load(lifo->counter);  snapshot.head = load(lifo->head);
        if (!snapshot.head) return NULL;
        temp = (snapshot.counter + 1, snapshot.head->next);     // plain read of a node that may
        if (compare_and_swap2(lifo, snapshot, temp))            // meanwhile have been popped,
          return snapshot.head; }                               // reused and pushed again

  Client obligation (encoded in `step`, so a trace that breaks it is rejected): a thread
  pushes only a non-NULL node it owns.  Ownership ghost: node `n` is initially owned by
  thread `own0 n`; a successful push CAS2 gives it to the container (`owner n = none`), a
  successful pop CAS2 gives it to the popping thread.  The owner may write `data`/`next`
  of its node; a popper reads `next` of WHATEVER node its head snapshot names, owned by
  anybody — the model returns the current contents of that cell.
-/
import LibfiberVerif.Core.Sys
import LibfiberVerif.Core.Event
import LibfiberVerif.Driver
import LibfiberVerif.Model.NodeList

namespace LibfiberVerif.Lifo
open NodeList

inductive Pc
  | idle
  | pushCalled (v : Nat)
  /-- data written; (re)start of the retry loop -/
  | pushReady (n : Nat)
  | pushGotCounter (n c : Nat)
  | pushGotHead (n c h : Nat)
  | pushWroteNext (n c h : Nat)
  | pushDone
  /-- (re)start of the retry loop -/
  | popCalled
  | popGotCounter (c : Nat)
  | popGotHead (c h : Nat)
  | popGotNext (c h x : Nat)
  /-- CAS2 succeeded, the thread owns `h` -/
  | popWon (h : Nat)
  | popDone (v : Nat)
  deriving Repr, DecidableEq, Inhabited

inductive Ev
  | callPush (t v : Nat)
  | wrData (t n v : Nat)
  | ldCounter (t c : Nat)
  | ldHead (t h : Nat)
  | wrNext (t n h : Nat)
  | rdNext (t n x : Nat)
  /-- `compare_and_swap2(&lifo, (el, eh), (nl, nh))` returned `ok` -/
  | cas2 (t el eh nl nh : Nat) (ok : Bool)
  | retPush (t : Nat)
  | callPop (t : Nat)
  | rdData (t n v : Nat)
  | retPop (t v : Nat)
  deriving Repr, DecidableEq, Inhabited

structure St where
  counter : Nat
  head : Nat
  next : Nat → Nat
  data : Nat → Nat
  pc : Nat → Pc
  /-- ghost: `some t` = node privately owned by thread `t`, `none` = in the container -/
  owner : Nat → Option Nat
  /-- ghost: the abstract stack (nodes, top first); push CAS2 conses, pop CAS2 removes the top -/
  stk : List Nat
  /-- ghost: linearisation, one entry per successful CAS2 / per NULL head load of a pop -/
  lin : List StackOp

def init (own0 : Nat → Nat) : St :=
  { counter := 0, head := 0, next := fun _ => 0, data := fun _ => 0, pc := fun _ => .idle,
    owner := fun n => some (own0 n), stk := [], lin := [] }

def step (s : St) : Ev → Option St
  | .callPush t v =>
    if s.pc t = .idle ∧ v ≠ 0 then some { s with pc := upd s.pc t (.pushCalled v) } else none
  | .wrData t n v =>
    match s.pc t with
    | .pushCalled v' =>
      -- client obligation: the pushed node is non-NULL and owned by the pusher
      if v = v' ∧ n ≠ 0 ∧ s.owner n = some t then
        some { s with data := upd s.data n v, pc := upd s.pc t (.pushReady n) }
      else none
    | _ => none
  | .ldCounter t c =>
    match s.pc t with
    | .pushReady n =>
      if c = s.counter then some { s with pc := upd s.pc t (.pushGotCounter n c) } else none
    | .popCalled =>
      if c = s.counter then some { s with pc := upd s.pc t (.popGotCounter c) } else none
    | _ => none
  | .ldHead t h =>
    match s.pc t with
    | .pushGotCounter n c =>
      if h = s.head then some { s with pc := upd s.pc t (.pushGotHead n c h) } else none
    | .popGotCounter c =>
      if h = s.head then
        if h = 0 then some { s with lin := s.lin ++ [.popEmpty], pc := upd s.pc t (.popDone 0) }
        else some { s with pc := upd s.pc t (.popGotHead c h) }
      else none
    | _ => none
  | .wrNext t n h =>
    match s.pc t with
    | .pushGotHead n' c h' =>
      if n = n' ∧ h = h' then
        some { s with next := upd s.next n h, pc := upd s.pc t (.pushWroteNext n c h) }
      else none
    | _ => none
  | .rdNext t n x =>
    match s.pc t with
    | .popGotHead c h =>
      if n = h ∧ x = s.next h then some { s with pc := upd s.pc t (.popGotNext c h x) } else none
    | _ => none
  | .cas2 t el eh nl nh ok =>
    match s.pc t with
    | .pushWroteNext n c h =>
      if el = c ∧ eh = h ∧ nl = c + 1 ∧ nh = n ∧ ok = decide (s.counter = c ∧ s.head = h) then
        if ok then
          some { s with counter := nl, head := nh, owner := upd s.owner n none,
                        stk := n :: s.stk, lin := s.lin ++ [.push n (s.data n)],
                        pc := upd s.pc t .pushDone }
        else some { s with pc := upd s.pc t (.pushReady n) }
      else none
    | .popGotNext c h x =>
      if el = c ∧ eh = h ∧ nl = c + 1 ∧ nh = x ∧ ok = decide (s.counter = c ∧ s.head = h) then
        if ok then
          some { s with counter := nl, head := nh, owner := upd s.owner h (some t),
                        stk := s.stk.tail, lin := s.lin ++ [.pop h (s.data h)],
                        pc := upd s.pc t (.popWon h) }
        else some { s with pc := upd s.pc t .popCalled }
      else none
    | _ => none
  | .retPush t =>
    if s.pc t = .pushDone then some { s with pc := upd s.pc t .idle } else none
  | .callPop t =>
    if s.pc t = .idle then some { s with pc := upd s.pc t .popCalled } else none
  | .rdData t n v =>
    match s.pc t with
    | .popWon h =>
      if n = h ∧ v = s.data h then some { s with pc := upd s.pc t (.popDone v) } else none
    | _ => none
  | .retPop t v =>
    match s.pc t with
    | .popDone v' => if v = v' then some { s with pc := upd s.pc t .idle } else none
    | _ => none

def sys (own0 : Nat → Nat) : Sys St Ev := { init := init own0, step := step }

/-! ### log-line decoding -/

def ofRaw (r : RawEv) : Option Ev :=
  let t := r.tid
  match r.kind, r.args with
  | "note", ["call", "push", v] => v.toNat?.map (Ev.callPush t)
  | "note", ["ret", "push", _] => some (Ev.retPush t)
  | "note", ["call", "pop"] => some (Ev.callPop t)
  | "note", ["ret", "pop", v] => v.toNat?.map (Ev.retPop t)
  | "ld", ["hd/8", c, _] => c.toNat?.map (Ev.ldCounter t)
  | "ld", ["hd+8/8", h, _] => (nodeOfVal h).map (Ev.ldHead t)
  | "w", [c, x] =>
    match cellIndex "next" c, cellIndex "data" c with
    | some n, _ => (nodeOfVal x).map (Ev.wrNext t n)
    | _, some n => x.toNat?.map (Ev.wrData t n)
    | _, _ => none
  | "r", [c, x] =>
    match cellIndex "next" c, cellIndex "data" c with
    | some n, _ => (nodeOfVal x).map (Ev.rdNext t n)
    | _, some n => x.toNat?.map (Ev.rdData t n)
    | _, _ => none
  | "cas2", ["hd", el, eh, nl, nh, ok] => do
    let el ← el.toNat?; let eh ← nodeOfVal eh; let nl ← nl.toNat?; let nh ← nodeOfVal nh
    let ok ← boolOfStr ok
    pure (Ev.cas2 t el eh nl nh ok)
  | _, _ => none

/-- `verifdrv Lifo <log>`: `note init lifo <owner of n1> <owner of n2> …`. -/
def drive (lines : List String) : IO UInt32 := do
  match initArgs lines with
  | "lifo" :: owners =>
    match ownersOf 1 owners with
    | some own0 =>
      let body := lines.filter (fun l => !isInit l)
      let v := validate (sys own0) ofRaw body
      let mon := queueMonitor { disc := .lifo, capacity := 0, drained := true } body
      report "Lifo" v mon
    | none => IO.println "VALIDATE DIVERGE bad init"; return 1
  | _ => IO.println "VALIDATE DIVERGE missing init"; return 1

end LibfiberVerif.Lifo
