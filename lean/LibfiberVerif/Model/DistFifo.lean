/-
  Model/DistFifo.lean — include/dist_fifo.h (property C20, part distfifo): one distinguished
  pusher (wait-free, plain stores), many poppers ((counter, node) head pair advanced by a
  double-word CAS).

  One model step = one logged access, exactly in program order, INCLUDING the two compiler
  barriers (`write_barrier` = `fence 2`, `load_load_barrier` = `fence 3`): the model only
  accepts them where the algorithm needs them (after the new node is terminated / between
  the counter read and the node read), so a source change that moves or drops one breaks
  the correspondence.
  Shared cells: the 16-byte (counter, node) pair — read by two PLAIN reads (torn snapshots
  are in the model) — every node's `next` and `data`, and the pusher-private `tail`.
  Any number of threads and nodes, unbounded operation counts; counter wrap not modelled.

  C code being modelled (push, only ever called by the distinguished thread):
      tail = fifo->tail;  new_node->next = NULL;  write_barrier();
      tail->next = new_node;                       // linearisation point
      fifo->tail = new_node;
  (trypop):
      old.counter = fifo->head.counter;  load_load_barrier();  old.node = fifo->head.node;
      prev_head = old.node;  prev_head_next = prev_head->next;   // plain reads of a node that may
      if (prev_head_next) {                                      // have been popped, reused and
        data = prev_head_next->data;                             // pushed again meanwhile
        new = (old.counter + 1, prev_head_next);
        if (!compare_and_swap2(&fifo->head, old, new)) return RETRY;
        prev_head->data = data;  return prev_head; }             // the OLD stub carries the data out
      return EMPTY;

  Client obligations (encoded in `step`: a trace that breaks them is rejected):
    * single pusher: only thread `pusher` calls push;
    * the pushed node is non-NULL and owned by the pusher (ownership ghost: initially
      `own0`, a popper owns the node its successful CAS2 unlinked, `give` hands a node from
      its owner to the pusher);
    * nodes stay readable for ever (dist_fifo.h, assumption 1): stale reads return the
      current contents of the cell.
-/
import LibfiberVerif.Core.Sys
import LibfiberVerif.Core.Event
import LibfiberVerif.Driver
import LibfiberVerif.Model.NodeList

namespace LibfiberVerif.DistFifo
open NodeList

inductive Pc
  | idle
  | pushCalled (v : Nat)
  | pushReady (n : Nat)
  | pushGotTail (n tl : Nat)
  | pushZeroed (n tl : Nat)
  | pushFenced (n tl : Nat)
  | pushLinked (n : Nat)
  | pushDone
  | popCalled
  | popGotCounter (c : Nat)
  | popFenced (c : Nat)
  | popGotNode (c h : Nat)
  | popGotNext (c h x : Nat)
  | popGotData (c h x d : Nat)
  /-- CAS2 succeeded: the thread owns the old stub `h` and is about to copy `d` into it -/
  | popWon (h d : Nat)
  | popWrote (h d : Nat)
  | popDone (v : Nat)
  | popEmpty
  | popRetry
  deriving Repr, DecidableEq, Inhabited

inductive Ev
  | callPush (t v : Nat)
  | wrData (t n v : Nat)
  | rdTail (t x : Nat)
  | wrNext (t n x : Nat)
  | fence (t k : Nat)
  | wrTail (t x : Nat)
  | retPush (t : Nat)
  | callPop (t : Nat)
  | rdCounter (t c : Nat)
  | rdNode (t h : Nat)
  | rdNext (t n x : Nat)
  | rdData (t n v : Nat)
  | cas2 (t el eh nl nh : Nat) (ok : Bool)
  | retPop (t v : Nat)
  | retRetry (t : Nat)
  /-- harness-level hand-over of an owned node to the pusher -/
  | give (t n : Nat)
  deriving Repr, DecidableEq, Inhabited

structure St where
  pusher : Nat
  counter : Nat
  head : Nat
  tail : Nat
  next : Nat → Nat
  data : Nat → Nat
  pc : Nat → Pc
  /-- ghost: `some t` = privately owned by `t`, `none` = linked into the fifo (stub included) -/
  owner : Nat → Option Nat
  /-- ghost: the nodes of the fifo from the stub (= head) to the last linked node -/
  chain : List Nat
  /-- ghost: linearisation: `enq` at the pusher's link store, `deq` at a successful CAS2 -/
  lin : List FifoOp

def init (pusher stub : Nat) (own0 : Nat → Nat) : St :=
  { pusher := pusher, counter := 0, head := stub, tail := stub, next := fun _ => 0,
    data := fun _ => 0, pc := fun _ => .idle,
    owner := fun n => if n = stub then none else some (own0 n), chain := [stub], lin := [] }

def step (s : St) : Ev → Option St
  | .callPush t v =>
    -- client obligation: single pusher
    if s.pc t = .idle ∧ v ≠ 0 ∧ t = s.pusher then some { s with pc := upd s.pc t (.pushCalled v) }
    else none
  | .wrData t n v =>
    match s.pc t with
    | .pushCalled v' =>
      -- client obligation: the pushed node is non-NULL and owned by the pusher
      if v = v' ∧ n ≠ 0 ∧ s.owner n = some t then
        some { s with data := upd s.data n v, pc := upd s.pc t (.pushReady n) }
      else none
    | .popWon h d =>
      if n = h ∧ v = d then some { s with data := upd s.data n v, pc := upd s.pc t (.popWrote h d) }
      else none
    | _ => none
  | .rdTail t x =>
    match s.pc t with
    | .pushReady n => if x = s.tail then some { s with pc := upd s.pc t (.pushGotTail n x) } else none
    | _ => none
  | .wrNext t m x =>
    match s.pc t with
    | .pushGotTail n tl =>
      if m = n ∧ x = 0 then some { s with next := upd s.next n 0, pc := upd s.pc t (.pushZeroed n tl) }
      else none
    | .pushFenced n tl =>
      if m = tl ∧ x = n then
        some { s with next := upd s.next tl n, owner := upd s.owner n none,
                      chain := s.chain ++ [n], lin := s.lin ++ [.enq (s.data n)],
                      pc := upd s.pc t (.pushLinked n) }
      else none
    | _ => none
  | .fence t k =>
    match s.pc t with
    | .pushZeroed n tl => if k = 2 then some { s with pc := upd s.pc t (.pushFenced n tl) } else none
    | .popGotCounter c => if k = 3 then some { s with pc := upd s.pc t (.popFenced c) } else none
    | _ => none
  | .wrTail t x =>
    match s.pc t with
    | .pushLinked n => if x = n then some { s with tail := n, pc := upd s.pc t .pushDone } else none
    | _ => none
  | .retPush t =>
    if s.pc t = .pushDone then some { s with pc := upd s.pc t .idle } else none
  | .callPop t =>
    if s.pc t = .idle then some { s with pc := upd s.pc t .popCalled } else none
  | .rdCounter t c =>
    match s.pc t with
    | .popCalled => if c = s.counter then some { s with pc := upd s.pc t (.popGotCounter c) } else none
    | _ => none
  | .rdNode t h =>
    match s.pc t with
    | .popFenced c => if h = s.head then some { s with pc := upd s.pc t (.popGotNode c h) } else none
    | _ => none
  | .rdNext t n x =>
    match s.pc t with
    | .popGotNode c h =>
      if n = h ∧ x = s.next h then
        if x = 0 then some { s with pc := upd s.pc t .popEmpty }
        else some { s with pc := upd s.pc t (.popGotNext c h x) }
      else none
    | _ => none
  | .rdData t n v =>
    match s.pc t with
    | .popGotNext c h x =>
      if n = x ∧ v = s.data x then some { s with pc := upd s.pc t (.popGotData c h x v) } else none
    | .popWrote h _ =>
      if n = h ∧ v = s.data h then some { s with pc := upd s.pc t (.popDone v) } else none
    | _ => none
  | .cas2 t el eh nl nh ok =>
    match s.pc t with
    | .popGotData c h x d =>
      if el = c ∧ eh = h ∧ nl = c + 1 ∧ nh = x ∧ ok = decide (s.counter = c ∧ s.head = h) then
        if ok then
          some { s with counter := nl, head := nh, owner := upd s.owner h (some t),
                        chain := s.chain.tail, lin := s.lin ++ [.deq (s.data x)],
                        pc := upd s.pc t (.popWon h d) }
        else some { s with pc := upd s.pc t .popRetry }
      else none
    | _ => none
  | .retPop t v =>
    match s.pc t with
    | .popDone v' => if v = v' then some { s with pc := upd s.pc t .idle } else none
    | .popEmpty => if v = 0 then some { s with pc := upd s.pc t .idle } else none
    | _ => none
  | .retRetry t =>
    if s.pc t = .popRetry then some { s with pc := upd s.pc t .idle } else none
  | .give t n =>
    if s.pc t = .idle ∧ s.owner n = some t then some { s with owner := upd s.owner n (some s.pusher) }
    else none

def sys (pusher stub : Nat) (own0 : Nat → Nat) : Sys St Ev :=
  { init := init pusher stub own0, step := step }

/-! ### log-line decoding -/

def ofRaw (r : RawEv) : Option Ev :=
  let t := r.tid
  match r.kind, r.args with
  | "note", ["call", "push", v] => v.toNat?.map (Ev.callPush t)
  | "note", ["ret", "push", _] => some (Ev.retPush t)
  | "note", ["call", "pop"] => some (Ev.callPop t)
  | "note", ["ret", "pop", v] => v.toNat?.map (Ev.retPop t)
  | "note", ["ret", "retry"] => some (Ev.retRetry t)
  | "note", ["give", n] => n.toNat?.map (Ev.give t)
  | "fence", [k] => k.toNat?.map (Ev.fence t)
  | "r", ["hd/8", c] => c.toNat?.map (Ev.rdCounter t)
  | "r", ["hd+8/8", h] => (nodeOfVal h).map (Ev.rdNode t)
  | "r", ["tail", x] => (nodeOfVal x).map (Ev.rdTail t)
  | "w", ["tail", x] => (nodeOfVal x).map (Ev.wrTail t)
  | "w", [c, x] =>
    match cellIndex "next" c, cellIndex "data" c with
    | some n, _ => (nodeOfVal x).map (Ev.wrNext t n)
    | _, some n => x.toNat?.map (Ev.wrData t n)
    | _, _ => none
  | "r", [c, x] =>
    match cellIndex "next" c, cellIndex "data" c with
    | some n, _ => (nodeOfVal x).map (Ev.rdNext t n)
    | _, some n => x.toNat?.map (Ev.rdData t n)
    | _, _ => none
  | "cas2", ["hd", el, eh, nl, nh, ok] => do
    let el ← el.toNat?; let eh ← nodeOfVal eh; let nl ← nl.toNat?; let nh ← nodeOfVal nh
    let ok ← boolOfStr ok
    pure (Ev.cas2 t el eh nl nh ok)
  | _, _ => none

/-- `verifdrv DistFifo <log>`: `note init distfifo <owner of n2> <owner of n3> …`; the stub
    is n1 and the pusher is kernel thread 0 (script thread 0 of the harness). -/
def drive (lines : List String) : IO UInt32 := do
  match initArgs lines with
  | "distfifo" :: owners =>
    match ownersOf 2 owners with
    | some own0 =>
      let body := lines.filter (fun l => !isInit l)
      let v := validate (sys 0 1 own0) ofRaw body
      -- EMPTY is deliberately not judged: see Props/C20.lean `DistFifo.empty_can_be_spurious`
      let mon := queueMonitor { disc := .fifo, capacity := 0, drained := true, checkEmpty := false } body
      report "DistFifo" v mon
    | none => IO.println "VALIDATE DIVERGE bad init"; return 1
  | _ => IO.println "VALIDATE DIVERGE missing init"; return 1

end LibfiberVerif.DistFifo
