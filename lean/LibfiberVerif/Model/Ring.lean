/-
  Model/Ring.lean — include/lockfree_ring_buffer.h (property C16).

  One model step = one access to a shared cell (`high`, `low`, a buffer slot) exactly in
  the order the C code performs them, plus the API call/return events the harness logs.
  Any number of threads (`Nat → Pc`), any capacity `2^k`, unbounded operation counts.
  `high` / `low` are unbounded naturals here; the 64-bit machine `Model/RingW.lean` (the same
  steps on `uint64_t` values, any starting value) is proved to refine this model
  (`Props/C16Wrap.lean`), and it is the machine the driver validates the logs against.

  C code being modelled (trypush):
      low  = load(rb->low);  high = load(rb->high);  index = high & mask;
      if (!rb->buffer[index] && high - low < size && CAS(&rb->high, high, high+1)) {
        rb->buffer[index] = in; return 1; }
      return 0;
  (trypop):
      high = load(rb->high); low = load(rb->low); index = low & mask; ret = rb->buffer[index];
      if (ret && high > low && CAS(&rb->low, low, low+1)) { rb->buffer[index] = 0; return ret; }
      return NULL;

  (blocking wrappers, as compiled — the log shows `high` being read before `low` in both loop
   bodies, seq_cst because `rb->high` / `rb->low` are plain uses of `_Atomic` objects):
      push:  while (!trypush(rb, in)) { h = rb->high; l = rb->low; if (h - l >= size) cpu_relax(); }
             (`h - l` is unsigned: a stale `h < l` also counts as "full")
      pop:   while (!(ret = trypop(rb))) { h = rb->high; l = rb->low; if (h <= l) cpu_relax(); }
             return ret;
  (size):
      high = load(rb->high); low = load(rb->low); d = (int64_t)(high - low); return d >= 0 ? d : 0;

  A blocking call is the wrapper frame (`wrap t`, which holds the argument `in` across the
  attempts) around ordinary trypush / trypop attempts: the attempts are the SAME steps as for
  a direct trypush / trypop call (events `ldLow` … `casLow`, program counters `pushCalled` …
  `popDone`); when an attempt has failed the wrapper reads `high`, `low` (events `wLdHigh`,
  `wLdLow`), calls `cpu_relax()` exactly when it saw full / empty (event `relax`) and starts the
  next attempt.  The wrapper's return events are `retBPush` / `retBPop`; the direct calls'
  `retPush` / `retPop` are refused while a wrapper frame is present.

  `step` = `core` followed by `observe`: `core` is the C code (guards read only the shared cells and the
  thread's pc); the ghost fields `pushed`, `popped`, `written`, `cleared`, `arg`, `active`,
  `wit` are write-only bookkeeping for the theorems (no guard reads them), so they cannot
  make the model reject a trace of the implementation.  The same holds for the last component
  `g` of `Pc.sizeGotHigh h g` and the last two components `g h2` of `Pc.sizeGotBoth h l g h2`
  (the value of `low` at the instant `size` read `high`, the value of `high` at the instant it
  read `low`): they are copied from the state, not from the event, and no guard reads them.
-/
import LibfiberVerif.Core.Sys
import LibfiberVerif.Core.Event
import LibfiberVerif.Driver

namespace LibfiberVerif.Ring

inductive Pc
  | idle
  | pushCalled (v : Nat)
  | pushGotLow (v l : Nat)
  | pushGotHigh (v l h : Nat)
  | pushReadSlot (v l h x : Nat)
  | pushClaimed (v h : Nat)
  | pushDone (r : Nat)
  | popCalled
  | popGotHigh (h : Nat)
  | popGotLow (h l : Nat)
  | popReadSlot (h l x : Nat)
  | popClaimed (l x : Nat)
  | popDone (x : Nat)
  /-- blocking push, an attempt has failed: the wrapper has read `high = h` -/
  | bpushGotHigh (v h : Nat)
  /-- blocking push: the wrapper saw `(uint64_t)(h - l) ≥ size` and is about to `cpu_relax()` -/
  | bpushFull (v : Nat)
  /-- blocking pop, an attempt has failed: the wrapper has read `high = h` -/
  | bpopGotHigh (h : Nat)
  /-- blocking pop: the wrapper saw `h ≤ l` and is about to `cpu_relax()` -/
  | bpopEmpty
  | sizeCalled
  /-- `size` has read `high = h`; ghost `g` = the value of `low` at that instant -/
  | sizeGotHigh (h g : Nat)
  /-- `size` has read `high = h` and then `low = l`; ghost `g` as before, ghost `h2` = the
      value of `high` at the instant `low` was read -/
  | sizeGotBoth (h l g h2 : Nat)
  deriving Repr, DecidableEq, Inhabited

/-- the blocking wrapper frame (if any) under a thread's current trypush / trypop attempt -/
inductive Wrap
  | no
  | push (v : Nat)
  | pop
  deriving Repr, DecidableEq, Inhabited

def Wrap.isPush : Wrap → Bool
  | .push _ => true
  | _ => false

def Wrap.isPop : Wrap → Bool
  | .pop => true
  | _ => false

inductive Ev
  | callPush (t v : Nat)
  | retPush (t r : Nat)
  | callPop (t : Nat)
  | retPop (t x : Nat)
  | ldLow (t x : Nat)
  | ldHigh (t x : Nat)
  | rdBuf (t i x : Nat)
  | wrBuf (t i x : Nat)
  | casHigh (t found exp des : Nat) (ok : Bool)
  | casLow (t found exp des : Nat) (ok : Bool)
  /-- `lockfree_ring_buffer_push(rb, v)` is called / returns (the harness prints its result as 1) -/
  | callBPush (t v : Nat)
  | retBPush (t r : Nat)
  /-- `lockfree_ring_buffer_pop(rb)` is called / returns `x` -/
  | callBPop (t : Nat)
  | retBPop (t x : Nat)
  /-- `lockfree_ring_buffer_size(rb)` is called / returns `n` -/
  | callSize (t : Nat)
  | retSize (t n : Nat)
  /-- a load of `high` / `low` performed by `push`, `pop` or `size` themselves (not by the
      trypush / trypop they call) -/
  | wLdHigh (t x : Nat)
  | wLdLow (t x : Nat)
  /-- the `cpu_relax()` of a blocking wrapper -/
  | relax (t : Nat)
  deriving Repr, DecidableEq, Inhabited

structure St where
  size : Nat
  high : Nat
  low : Nat
  buf : Nat → Nat
  pc : Nat → Pc
  /-- the blocking wrapper (and its argument) that thread `t`'s current attempt runs under;
      `.no` for a direct trypush / trypop / size call.  Program state (the wrapper's stack
      frame), read by guards. -/
  wrap : Nat → Wrap
  /-- ghost: values in the order their `high` CAS succeeded; `pushed[i]` belongs to claim index `i` -/
  pushed : List Nat
  /-- ghost: values in the order their `low` CAS succeeded -/
  popped : List Nat
  /-- ghost: the slot write of claim index `i` has happened -/
  written : Nat → Bool
  /-- ghost: the slot of claim index `i` has been cleared by its popper -/
  cleared : Nat → Bool
  /-- ghost: the argument of thread `t`'s current / most recent `trypush` call -/
  arg : Nat → Nat
  /-- ghost: the threads that are inside a call (between their `call` and `ret` events) -/
  active : List Nat
  /-- ghost, per call (reset by the `call` event, see `step`): at some instant since thread
      `t`'s current call began `justNow · t` held, i.e. the buffer was full (`t` pushing) /
      empty (`t` popping) or some other thread was inside a call. -/
  wit : Nat → Bool

/-- `high & power_of_2_mod` with `power_of_2_mod = size - 1`. -/
def idx (size n : Nat) : Nat := n &&& (size - 1)

def init (size : Nat) : St :=
  { size := size, high := 0, low := 0, buf := fun _ => 0, pc := fun _ => .idle,
    wrap := fun _ => .no, pushed := [], popped := [], written := fun _ => false, cleared := fun _ => false,
    arg := fun _ => 0, active := [], wit := fun _ => false }

def Pc.pushing : Pc → Bool
  | .pushCalled .. | .pushGotLow .. | .pushGotHigh .. | .pushReadSlot .. | .pushClaimed ..
  | .pushDone .. | .bpushGotHigh .. | .bpushFull .. => true
  | _ => false

def Pc.popping : Pc → Bool
  | .popCalled | .popGotHigh .. | .popGotLow .. | .popReadSlot .. | .popClaimed ..
  | .popDone .. | .bpopGotHigh .. | .bpopEmpty => true
  | _ => false

/-- the attempt of thread `t` has failed (trypush would return 0): pc after a lost CAS, or
    after the short-circuit `&&` gave up before the CAS -/
def pushFailed (s : St) (t : Nat) : Bool :=
  match s.pc t with
  | .pushDone r => r == 0
  | .pushReadSlot _ l h x => x != 0 || !decide (h - l < s.size)
  | _ => false

/-- the attempt of thread `t` has failed (trypop would return NULL) -/
def popFailed (s : St) (t : Nat) : Bool :=
  match s.pc t with
  | .popDone x => x == 0
  | .popReadSlot h l y => y == 0 || !decide (l < h)
  | _ => false

/-- ghost predicate sampled at every instant (= after every event): in state `s` some thread
    other than `t` is inside a call, or `t` is pushing and the buffer is full, or `t` is
    popping and the buffer is empty. -/
def justNow (s : St) (t : Nat) : Bool :=
  s.active.any (fun u => u != t)
    || ((s.pc t).pushing && decide (s.size ≤ s.high - s.low))
    || ((s.pc t).popping && decide (s.high ≤ s.low))

/-- the C code: one shared access per event (ghost fields other than `wit` are updated here) -/
def core (s : St) : Ev → Option St
  | .callPush t v =>
    if s.pc t = .idle ∧ v ≠ 0 then
      some { s with pc := upd s.pc t (.pushCalled v), arg := upd s.arg t v,
                    active := t :: s.active, wit := upd s.wit t false }
    else none
  | .ldLow t x =>
    match s.pc t with
    | .pushCalled v =>
      if x = s.low then some { s with pc := upd s.pc t (.pushGotLow v x) } else none
    | .popGotHigh h =>
      if x = s.low then some { s with pc := upd s.pc t (.popGotLow h x) } else none
    | _ => none
  | .ldHigh t x =>
    match s.pc t with
    | .pushGotLow v l =>
      if x = s.high then some { s with pc := upd s.pc t (.pushGotHigh v l x) } else none
    | .popCalled =>
      if x = s.high then some { s with pc := upd s.pc t (.popGotHigh x) } else none
    | _ => none
  | .rdBuf t i x =>
    match s.pc t with
    | .pushGotHigh v l h =>
      if i = idx s.size h ∧ x = s.buf i then some { s with pc := upd s.pc t (.pushReadSlot v l h x) }
      else none
    | .popGotLow h l =>
      if i = idx s.size l ∧ x = s.buf i then some { s with pc := upd s.pc t (.popReadSlot h l x) }
      else none
    | _ => none
  | .casHigh t found exp des ok =>
    match s.pc t with
    | .pushReadSlot v l h x =>
      if x = 0 ∧ h - l < s.size ∧ found = s.high ∧ exp = h ∧ des = h + 1 ∧ ok = decide (found = exp) then
        if ok then
          some { s with high := des, pushed := s.pushed ++ [v], pc := upd s.pc t (.pushClaimed v h) }
        else some { s with pc := upd s.pc t (.pushDone 0) }
      else none
    | _ => none
  | .wrBuf t i x =>
    match s.pc t with
    | .pushClaimed v h =>
      if i = idx s.size h ∧ x = v then
        some { s with buf := upd s.buf i x, written := upd s.written h true,
                      pc := upd s.pc t (.pushDone 1) }
      else none
    | .popClaimed l v =>
      if i = idx s.size l ∧ x = 0 then
        some { s with buf := upd s.buf i 0, cleared := upd s.cleared l true,
                      pc := upd s.pc t (.popDone v) }
      else none
    | _ => none
  | .retPush t r =>
    match s.pc t with
    | .pushDone r' =>
      if r = r' ∧ s.wrap t = .no then
        some { s with pc := upd s.pc t .idle, active := s.active.filter (fun u => u != t) }
      else none
    | .pushReadSlot _ l h x =>
      -- the short-circuit `&&` gave up before the CAS
      if (x ≠ 0 ∨ ¬ (h - l < s.size)) ∧ r = 0 ∧ s.wrap t = .no then
        some { s with pc := upd s.pc t .idle, active := s.active.filter (fun u => u != t) }
      else none
    | _ => none
  | .callPop t =>
    if s.pc t = .idle then
      some { s with pc := upd s.pc t .popCalled, active := t :: s.active, wit := upd s.wit t false }
    else none
  | .casLow t found exp des ok =>
    match s.pc t with
    | .popReadSlot h l x =>
      if x ≠ 0 ∧ l < h ∧ found = s.low ∧ exp = l ∧ des = l + 1 ∧ ok = decide (found = exp) then
        if ok then
          some { s with low := des, popped := s.popped ++ [x], pc := upd s.pc t (.popClaimed l x) }
        else some { s with pc := upd s.pc t (.popDone 0) }
      else none
    | _ => none
  | .retPop t x =>
    match s.pc t with
    | .popDone x' =>
      if x = x' ∧ s.wrap t = .no then
        some { s with pc := upd s.pc t .idle, active := s.active.filter (fun u => u != t) }
      else none
    | .popReadSlot h l y =>
      if (y = 0 ∨ ¬ (l < h)) ∧ x = 0 ∧ s.wrap t = .no then
        some { s with pc := upd s.pc t .idle, active := s.active.filter (fun u => u != t) }
      else none
    | _ => none
  | .callBPush t v =>
    if s.pc t = .idle ∧ v ≠ 0 then
      some { s with pc := upd s.pc t (.pushCalled v), wrap := upd s.wrap t (.push v),
                    active := t :: s.active, wit := upd s.wit t false }
    else none
  | .callBPop t =>
    if s.pc t = .idle then
      some { s with pc := upd s.pc t .popCalled, wrap := upd s.wrap t .pop,
                    active := t :: s.active, wit := upd s.wit t false }
    else none
  | .callSize t =>
    if s.pc t = .idle then
      some { s with pc := upd s.pc t .sizeCalled, active := t :: s.active, wit := upd s.wit t false }
    else none
  | .wLdHigh t x =>
    match s.wrap t with
    | .push v =>
      -- `while (!trypush(..))`: the attempt returned 0, the loop body reads `rb->high` first
      if pushFailed s t = true ∧ x = s.high then some { s with pc := upd s.pc t (.bpushGotHigh v x) }
      else none
    | .pop =>
      if popFailed s t = true ∧ x = s.high then some { s with pc := upd s.pc t (.bpopGotHigh x) }
      else none
    | .no =>
      if s.pc t = .sizeCalled ∧ x = s.high then some { s with pc := upd s.pc t (.sizeGotHigh x s.low) }
      else none
  | .wLdLow t x =>
    match s.pc t with
    | .bpushGotHigh v h =>
      if x = s.low then
        -- `if (high - low >= size) cpu_relax();` then the next attempt.  The subtraction is
        -- UNSIGNED 64-bit: when the `high` read first is already below the `low` read after it
        -- (pushes and pops took effect in between) the difference wraps to a huge number, so the
        -- wrapper also relaxes then (seen on the real code; harmless, it is only a pause)
        if s.size ≤ h - x ∨ h < x then some { s with pc := upd s.pc t (.bpushFull v) }
        else some { s with pc := upd s.pc t (.pushCalled v) }
      else none
    | .bpopGotHigh h =>
      if x = s.low then
        if h ≤ x then some { s with pc := upd s.pc t .bpopEmpty }
        else some { s with pc := upd s.pc t .popCalled }
      else none
    | .sizeGotHigh h g =>
      if x = s.low then some { s with pc := upd s.pc t (.sizeGotBoth h x g s.high) } else none
    | _ => none
  | .relax t =>
    match s.pc t with
    | .bpushFull v => some { s with pc := upd s.pc t (.pushCalled v) }
    | .bpopEmpty => some { s with pc := upd s.pc t .popCalled }
    | _ => none
  | .retBPush t r =>
    -- the loop ends only when an attempt returned 1
    match s.pc t with
    | .pushDone r' =>
      if r' = 1 ∧ r = 1 ∧ (s.wrap t).isPush = true then
        some { s with pc := upd s.pc t .idle, wrap := upd s.wrap t .no,
                      active := s.active.filter (fun u => u != t) }
      else none
    | _ => none
  | .retBPop t x =>
    -- the loop ends only when an attempt returned non-NULL, and that value is returned
    match s.pc t with
    | .popDone x' =>
      if x = x' ∧ x ≠ 0 ∧ (s.wrap t).isPop = true then
        some { s with pc := upd s.pc t .idle, wrap := upd s.wrap t .no,
                      active := s.active.filter (fun u => u != t) }
      else none
    | _ => none
  | .retSize t n =>
    match s.pc t with
    | .sizeGotBoth h l _ _ =>
      -- `(int64_t)(high - low) >= 0 ? high - low : 0` is truncated subtraction
      if n = h - l then
        some { s with pc := upd s.pc t .idle, active := s.active.filter (fun u => u != t) }
      else none
    | _ => none

/-- ghost bookkeeping only: after the event, every thread's per-call flag accumulates
    `justNow` of the new state.  Never read by `core`, so it cannot restrict behaviour. -/
def observe (s : St) : St := { s with wit := fun t => s.wit t || justNow s t }

def step (s : St) (e : Ev) : Option St := (core s e).map observe

def sys (size : Nat) : Sys St Ev := { init := init size, step := step }

/-! ### log-line decoding -/

def bufIndex (cell : String) : Option Nat :=
  if cell.startsWith "buf" then (cell.drop 3).toString.toNat? else none

/-- loads of `high` / `low` are attributed to the function that performs them: the ones of
    these three functions are the wrappers' own (`wLdHigh` / `wLdLow`), all others belong to a
    trypush / trypop attempt (`ldHigh` / `ldLow`) -/
def wrapperFns : List String :=
  ["lockfree_ring_buffer_push", "lockfree_ring_buffer_pop", "lockfree_ring_buffer_size"]

def ofRaw (r : RawEv) : Option Ev :=
  let t := r.tid
  let w := wrapperFns.contains r.func
  match r.kind, r.args with
  | "note", ["call", "bpush", v] => v.toNat?.map (Ev.callBPush t)
  | "note", ["ret", "bpush", v] => v.toNat?.map (Ev.retBPush t)
  | "note", ["call", "bpop"] => some (Ev.callBPop t)
  | "note", ["ret", "bpop", v] => v.toNat?.map (Ev.retBPop t)
  | "note", ["call", "size"] => some (Ev.callSize t)
  | "note", ["ret", "size", v] => v.toNat?.map (Ev.retSize t)
  | "note", ["relax"] => if w then some (Ev.relax t) else none
  | "note", ["call", "push", v] => v.toNat?.map (Ev.callPush t)
  | "note", ["ret", "push", v] => v.toNat?.map (Ev.retPush t)
  | "note", ["call", "pop"] => some (Ev.callPop t)
  | "note", ["ret", "pop", v] => v.toNat?.map (Ev.retPop t)
  | "ld", ["low", x, _] => x.toNat?.map (if w then Ev.wLdLow t else Ev.ldLow t)
  | "ld", ["high", x, _] => x.toNat?.map (if w then Ev.wLdHigh t else Ev.ldHigh t)
  | "r", [c, x] => do let i ← bufIndex c; let x ← x.toNat?; pure (Ev.rdBuf t i x)
  | "w", [c, x] => do let i ← bufIndex c; let x ← x.toNat?; pure (Ev.wrBuf t i x)
  | "cas", [c, f, e, d, ok, _] => do
    let f ← f.toNat?; let e ← e.toNat?; let d ← d.toNat?
    let ok ← (if ok = "1" then some true else if ok = "0" then some false else none)
    if c = "high" then pure (Ev.casHigh t f e d ok)
    else if c = "low" then pure (Ev.casLow t f e d ok) else none
  | _, _ => none

/-- what the API-level monitor sees: a blocking push / pop is a push / pop operation (that
    happens to never fail) -/
def monitorView (l : String) : String :=
  (l.replace " bpush" " push").replace " bpop" " pop"

/-- oracle for `ret size n`: the reported fill level never exceeds the capacity -/
def sizeMonitor (capacity : Nat) (lines : List String) : Option String :=
  lines.findSome? (fun l =>
    match parseLine l with
    | some r =>
      match r.kind, r.args with
      | "note", ["ret", "size", n] =>
        match n.toNat? with
        | some n => if n ≤ capacity then none
                    else some s!"size: reported {n} items, capacity is {capacity}"
        | none => some s!"size: unreadable result in \"{l}\""
      | _, _ => none
    | none => none)

/-- `verifdrv Ring <log>`: the `note init ring <size>` line gives the capacity. -/
def drive (lines : List String) : IO UInt32 := do
  match initArgs lines with
  | ["ring", n] =>
    match n.toNat? with
    | some size =>
      let body := lines.filter (fun l => !isInit l)
      let v := validate (sys size) ofRaw body
      let mon := queueMonitor { disc := .fifo, capacity := size, drained := true, failOnlyAlone := true }
        (body.map monitorView)
      report "Ring" v (mon <|> sizeMonitor size body)
    | none => IO.println "VALIDATE DIVERGE bad init"; return 1
  | _ => IO.println "VALIDATE DIVERGE missing init"; return 1

end LibfiberVerif.Ring
