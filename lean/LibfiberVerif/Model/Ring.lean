/-
  Model/Ring.lean — include/lockfree_ring_buffer.h (property C16).

  One model step = one access to a shared cell (`high`, `low`, a buffer slot) exactly in
  the order the C code performs them, plus the API call/return events the harness logs.
  Any number of threads (`Nat → Pc`), any capacity `2^k`, unbounded operation counts.
  64-bit wrap-around of `high`/`low` is not modelled (2^64 operations are unreachable).

  C code being modelled (trypush):
      low  = load(rb->low);  high = load(rb->high);  index = high & mask;
      if (!rb->buffer[index] && high - low < size && CAS(&rb->high, high, high+1)) {
        rb->buffer[index] = in; return 1; }
      return 0;
  (trypop):
      high = load(rb->high); low = load(rb->low); index = low & mask; ret = rb->buffer[index];
      if (ret && high > low && CAS(&rb->low, low, low+1)) { rb->buffer[index] = 0; return ret; }
      return NULL;

  `step` = `core` followed by `observe`: `core` is the C code (guards read only the shared cells and the
  thread's pc); the ghost fields `pushed`, `popped`, `written`, `cleared`, `arg`, `active`,
  `wit` are write-only bookkeeping for the theorems (no guard reads them), so they cannot
  make the model reject a trace of the implementation.
-/
import LibfiberVerif.Core.Sys
import LibfiberVerif.Core.Event
import LibfiberVerif.Driver

namespace LibfiberVerif.Ring

inductive Pc
  | idle
  | pushCalled (v : Nat)
  | pushGotLow (v l : Nat)
  | pushGotHigh (v l h : Nat)
  | pushReadSlot (v l h x : Nat)
  | pushClaimed (v h : Nat)
  | pushDone (r : Nat)
  | popCalled
  | popGotHigh (h : Nat)
  | popGotLow (h l : Nat)
  | popReadSlot (h l x : Nat)
  | popClaimed (l x : Nat)
  | popDone (x : Nat)
  deriving Repr, DecidableEq, Inhabited

inductive Ev
  | callPush (t v : Nat)
  | retPush (t r : Nat)
  | callPop (t : Nat)
  | retPop (t x : Nat)
  | ldLow (t x : Nat)
  | ldHigh (t x : Nat)
  | rdBuf (t i x : Nat)
  | wrBuf (t i x : Nat)
  | casHigh (t found exp des : Nat) (ok : Bool)
  | casLow (t found exp des : Nat) (ok : Bool)
  deriving Repr, DecidableEq, Inhabited

structure St where
  size : Nat
  high : Nat
  low : Nat
  buf : Nat → Nat
  pc : Nat → Pc
  /-- ghost: values in the order their `high` CAS succeeded; `pushed[i]` belongs to claim index `i` -/
  pushed : List Nat
  /-- ghost: values in the order their `low` CAS succeeded -/
  popped : List Nat
  /-- ghost: the slot write of claim index `i` has happened -/
  written : Nat → Bool
  /-- ghost: the slot of claim index `i` has been cleared by its popper -/
  cleared : Nat → Bool
  /-- ghost: the argument of thread `t`'s current / most recent `trypush` call -/
  arg : Nat → Nat
  /-- ghost: the threads that are inside a call (between their `call` and `ret` events) -/
  active : List Nat
  /-- ghost, per call (reset by the `call` event, see `step`): at some instant since thread
      `t`'s current call began `justNow · t` held, i.e. the buffer was full (`t` pushing) /
      empty (`t` popping) or some other thread was inside a call. -/
  wit : Nat → Bool

/-- `high & power_of_2_mod` with `power_of_2_mod = size - 1`. -/
def idx (size n : Nat) : Nat := n &&& (size - 1)

def init (size : Nat) : St :=
  { size := size, high := 0, low := 0, buf := fun _ => 0, pc := fun _ => .idle,
    pushed := [], popped := [], written := fun _ => false, cleared := fun _ => false,
    arg := fun _ => 0, active := [], wit := fun _ => false }

def Pc.pushing : Pc → Bool
  | .pushCalled .. | .pushGotLow .. | .pushGotHigh .. | .pushReadSlot .. | .pushClaimed ..
  | .pushDone .. => true
  | _ => false

def Pc.popping : Pc → Bool
  | .popCalled | .popGotHigh .. | .popGotLow .. | .popReadSlot .. | .popClaimed ..
  | .popDone .. => true
  | _ => false

/-- ghost predicate sampled at every instant (= after every event): in state `s` some thread
    other than `t` is inside a call, or `t` is pushing and the buffer is full, or `t` is
    popping and the buffer is empty. -/
def justNow (s : St) (t : Nat) : Bool :=
  s.active.any (fun u => u != t)
    || ((s.pc t).pushing && decide (s.size ≤ s.high - s.low))
    || ((s.pc t).popping && decide (s.high ≤ s.low))

/-- the C code: one shared access per event (ghost fields other than `wit` are updated here) -/
def core (s : St) : Ev → Option St
  | .callPush t v =>
    if s.pc t = .idle ∧ v ≠ 0 then
      some { s with pc := upd s.pc t (.pushCalled v), arg := upd s.arg t v,
                    active := t :: s.active, wit := upd s.wit t false }
    else none
  | .ldLow t x =>
    match s.pc t with
    | .pushCalled v =>
      if x = s.low then some { s with pc := upd s.pc t (.pushGotLow v x) } else none
    | .popGotHigh h =>
      if x = s.low then some { s with pc := upd s.pc t (.popGotLow h x) } else none
    | _ => none
  | .ldHigh t x =>
    match s.pc t with
    | .pushGotLow v l =>
      if x = s.high then some { s with pc := upd s.pc t (.pushGotHigh v l x) } else none
    | .popCalled =>
      if x = s.high then some { s with pc := upd s.pc t (.popGotHigh x) } else none
    | _ => none
  | .rdBuf t i x =>
    match s.pc t with
    | .pushGotHigh v l h =>
      if i = idx s.size h ∧ x = s.buf i then some { s with pc := upd s.pc t (.pushReadSlot v l h x) }
      else none
    | .popGotLow h l =>
      if i = idx s.size l ∧ x = s.buf i then some { s with pc := upd s.pc t (.popReadSlot h l x) }
      else none
    | _ => none
  | .casHigh t found exp des ok =>
    match s.pc t with
    | .pushReadSlot v l h x =>
      if x = 0 ∧ h - l < s.size ∧ found = s.high ∧ exp = h ∧ des = h + 1 ∧ ok = decide (found = exp) then
        if ok then
          some { s with high := des, pushed := s.pushed ++ [v], pc := upd s.pc t (.pushClaimed v h) }
        else some { s with pc := upd s.pc t (.pushDone 0) }
      else none
    | _ => none
  | .wrBuf t i x =>
    match s.pc t with
    | .pushClaimed v h =>
      if i = idx s.size h ∧ x = v then
        some { s with buf := upd s.buf i x, written := upd s.written h true,
                      pc := upd s.pc t (.pushDone 1) }
      else none
    | .popClaimed l v =>
      if i = idx s.size l ∧ x = 0 then
        some { s with buf := upd s.buf i 0, cleared := upd s.cleared l true,
                      pc := upd s.pc t (.popDone v) }
      else none
    | _ => none
  | .retPush t r =>
    match s.pc t with
    | .pushDone r' =>
      if r = r' then some { s with pc := upd s.pc t .idle, active := s.active.filter (fun u => u != t) }
      else none
    | .pushReadSlot _ l h x =>
      -- the short-circuit `&&` gave up before the CAS
      if (x ≠ 0 ∨ ¬ (h - l < s.size)) ∧ r = 0 then
        some { s with pc := upd s.pc t .idle, active := s.active.filter (fun u => u != t) }
      else none
    | _ => none
  | .callPop t =>
    if s.pc t = .idle then
      some { s with pc := upd s.pc t .popCalled, active := t :: s.active, wit := upd s.wit t false }
    else none
  | .casLow t found exp des ok =>
    match s.pc t with
    | .popReadSlot h l x =>
      if x ≠ 0 ∧ l < h ∧ found = s.low ∧ exp = l ∧ des = l + 1 ∧ ok = decide (found = exp) then
        if ok then
          some { s with low := des, popped := s.popped ++ [x], pc := upd s.pc t (.popClaimed l x) }
        else some { s with pc := upd s.pc t (.popDone 0) }
      else none
    | _ => none
  | .retPop t x =>
    match s.pc t with
    | .popDone x' =>
      if x = x' then some { s with pc := upd s.pc t .idle, active := s.active.filter (fun u => u != t) }
      else none
    | .popReadSlot h l y =>
      if (y = 0 ∨ ¬ (l < h)) ∧ x = 0 then
        some { s with pc := upd s.pc t .idle, active := s.active.filter (fun u => u != t) }
      else none
    | _ => none

/-- ghost bookkeeping only: after the event, every thread's per-call flag accumulates
    `justNow` of the new state.  Never read by `core`, so it cannot restrict behaviour. -/
def observe (s : St) : St := { s with wit := fun t => s.wit t || justNow s t }

def step (s : St) (e : Ev) : Option St := (core s e).map observe

def sys (size : Nat) : Sys St Ev := { init := init size, step := step }

/-! ### log-line decoding -/

def bufIndex (cell : String) : Option Nat :=
  if cell.startsWith "buf" then (cell.drop 3).toString.toNat? else none

def ofRaw (r : RawEv) : Option Ev :=
  let t := r.tid
  match r.kind, r.args with
  | "note", ["call", "push", v] => v.toNat?.map (Ev.callPush t)
  | "note", ["ret", "push", v] => v.toNat?.map (Ev.retPush t)
  | "note", ["call", "pop"] => some (Ev.callPop t)
  | "note", ["ret", "pop", v] => v.toNat?.map (Ev.retPop t)
  | "ld", ["low", x, _] => x.toNat?.map (Ev.ldLow t)
  | "ld", ["high", x, _] => x.toNat?.map (Ev.ldHigh t)
  | "r", [c, x] => do let i ← bufIndex c; let x ← x.toNat?; pure (Ev.rdBuf t i x)
  | "w", [c, x] => do let i ← bufIndex c; let x ← x.toNat?; pure (Ev.wrBuf t i x)
  | "cas", [c, f, e, d, ok, _] => do
    let f ← f.toNat?; let e ← e.toNat?; let d ← d.toNat?
    let ok ← (if ok = "1" then some true else if ok = "0" then some false else none)
    if c = "high" then pure (Ev.casHigh t f e d ok)
    else if c = "low" then pure (Ev.casLow t f e d ok) else none
  | _, _ => none

/-- `verifdrv Ring <log>`: the `note init ring <size>` line gives the capacity. -/
def drive (lines : List String) : IO UInt32 := do
  match initArgs lines with
  | ["ring", n] =>
    match n.toNat? with
    | some size =>
      let body := lines.filter (fun l => !isInit l)
      let v := validate (sys size) ofRaw body
      let mon := queueMonitor { disc := .fifo, capacity := size, drained := true, failOnlyAlone := true } body
      report "Ring" v mon
    | none => IO.println "VALIDATE DIVERGE bad init"; return 1
  | _ => IO.println "VALIDATE DIVERGE missing init"; return 1

end LibfiberVerif.Ring
