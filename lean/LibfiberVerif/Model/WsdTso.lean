/-
  Model/WsdTso.lean — the Chase–Lev deque of src/work_stealing_deque.c on x86-TSO
  (store buffers, `Model/Tso.lean`), with the strength of pop_bottom's `bottom` store as a
  PARAMETER.  Companion of the sequentially consistent model `Model/Wsd.lean` (property C02);
  it exists to turn the informal "SC ⇐ TSO because that store is seq_cst" argument of
  DESIGN.md §3 into theorems (`Props/Tso.lean`).

  Same code, same step granularity as `Model/Wsd.lean` (one event = one access to a shared
  cell, in program order, plus the API call/return notes), simplified where it does not
  matter for the fence question:
    * FIXED array of `n` slots, no growth: `push_bottom` is only accepted when
      `b - t < n - 1`, the condition under which the C code does not grow (growth is
      orthogonal: it is owner-local copying plus one release store of `underlying_array`,
      covered by the SC proof);  the loads of `underlying_array` are dropped;
    * cells: `cTop = 0`, `cBot = 1`, data slot of logical index `i` = `cSlot n i = 2 + i mod n`.

  What TSO changes:
    * every store of the owner (`a[b & mask] = p`, the four stores to `bottom`) goes to the
      OWNER'S STORE BUFFER; the thieves keep reading memory, i.e. possibly stale `bottom` and
      slots, until the environment event `flush 0` drains an entry (FIFO: the slot write of a
      push always reaches memory before its `bottom` store — that is why release is enough
      there);
    * the owner's loads of `bottom` and of its slots are forwarded from its own buffer;
    * `CAS(top)` is a locked RMW: enabled only with a drained buffer, acts on memory;
    * pop_bottom's `store(bottom, b)`; `load(top)`:
        `fenced = true`   the store is seq_cst (`xchg`, or `mov; mfence`) — the load of `top`
                          is enabled only once the owner's buffer has drained;
        `fenced = false`  an ordinary buffered store: the load of `top` may overtake it.
      This is the ONLY store→load pair of different cells the algorithm depends on.

  One owner (thread 0), any number of thieves, unbounded operation counts, any `n`.
  Ghost fields as in `Model/Wsd.lean` (`hb`, `pushed`, `taken`, `owed`, `returned`) plus
  `vals i` = the value most recently written by the owner for logical index `i`, and
  `wf` = one past the highest logical index whose slot write has been issued.
-/
import LibfiberVerif.Model.Tso
import LibfiberVerif.Model.Wsd

namespace LibfiberVerif.WsdTso
open LibfiberVerif.Tso
open LibfiberVerif.Wsd (Res)

inductive Pc
  | idle
  -- push_bottom (owner)
  | pushCalled (v : Int)
  | pushGotB (v b : Int)
  /-- saw `b - t < n - 1` (no growth): about to write `v` to slot `b` -/
  | pushPut (v b : Int)
  /-- about to store `bottom := b + 1` -/
  | pushWritten (v b : Int)
  | pushDone
  -- pop_bottom (owner)
  | popCalled
  | popGotB (b : Int)
  /-- `bottom := b` issued; about to load `top` -/
  | popStored (b : Int)
  /-- saw `b < t`: about to store `bottom := t` and return EMPTY -/
  | popEmpty (t : Int)
  /-- saw `t ≤ b`: about to read slot `b` -/
  | popTake (b t : Int)
  /-- last element (`t = b`): about to CAS `top` -/
  | popRead (b t x : Int)
  /-- CAS done: about to store `bottom := t + 1` -/
  | popCased (t : Int) (r : Res)
  | popDone (r : Res)
  -- steal (thieves)
  | stealCalled
  | stealGotT (t : Int)
  /-- saw `t < b`: about to read slot `t` -/
  | stealTake (t : Int)
  | stealRead (t x : Int)
  | stealDone (r : Res)
  deriving Repr, DecidableEq, Inhabited

inductive Ev
  | callPush (t : Nat) (v : Int)
  | retPush (t : Nat)
  | callPop (t : Nat)
  | retPop (t : Nat) (r : Int)
  | callSteal (t : Nat)
  | retSteal (t : Nat) (r : Int)
  | ldBottom (t : Nat) (x : Int)
  | stBottom (t : Nat) (x : Int)
  | ldTop (t : Nat) (x : Int)
  | casTop (t : Nat) (found exp des : Int) (ok : Bool)
  /-- read of physical slot `i` -/
  | rdSlot (t : Nat) (i : Nat) (x : Int)
  | wrSlot (t : Nat) (i : Nat) (x : Int)
  /-- environment: the oldest entry of `t`'s store buffer reaches memory -/
  | flush (t : Nat)
  deriving Repr, DecidableEq, Inhabited

def cTop : Nat := 0
def cBot : Nat := 1
/-- physical slot of logical index `i` (`i & size_minus_one`) -/
def pslot (n : Nat) (i : Int) : Nat := (i % (n : Int)).toNat
def cSlot (n : Nat) (i : Int) : Nat := 2 + pslot n i

def setVal (f : Int → Int) (i v : Int) : Int → Int := fun j => if j = i then v else f j

structure St where
  /-- number of slots of the array -/
  n : Nat
  /-- pop_bottom's store to `bottom` is seq_cst -/
  fenced : Bool
  m : Mem
  pc : Nat → Pc
  /-- ghost: upper end of the logical contents `[top, hb)` as the OWNER sees them: its view of
      `bottom`, except inside pop_bottom's window -/
  hb : Int
  /-- ghost: one past the highest index whose slot write the owner has issued -/
  wf : Int
  /-- ghost: value most recently written for logical index `i` -/
  vals : Int → Int
  /-- ghost: values in the order their `push_bottom` issued `bottom := b + 1` -/
  pushed : List Int
  /-- ghost: values in the order they were taken (CAS on `top` won, or pop_bottom saw `t < b`) -/
  taken : List Int
  /-- ghost: (thread, value) taken but not yet handed back by the `ret` event -/
  owed : List (Nat × Int)
  /-- ghost: values in the order pop_bottom / steal calls returned them -/
  returned : List Int

def init (fenced : Bool) (n : Nat) : St :=
  { n := n, fenced := fenced, m := Mem.init, pc := fun _ => .idle, hb := 0, wf := 0,
    vals := fun _ => 0, pushed := [], taken := [], owed := [], returned := [] }

def step (s : St) : Ev → Option St
  | .callPush t v =>
    if t = 0 ∧ s.pc t = .idle then some { s with pc := upd s.pc t (.pushCalled v) } else none
  | .callPop t =>
    if t = 0 ∧ s.pc t = .idle then some { s with pc := upd s.pc t .popCalled } else none
  | .callSteal t =>
    if t ≠ 0 ∧ s.pc t = .idle then some { s with pc := upd s.pc t .stealCalled } else none
  | .ldBottom t x =>
    match s.pc t with
    | .pushCalled v =>
      if x = s.m.load t cBot then some { s with pc := upd s.pc t (.pushGotB v x) } else none
    | .popCalled =>
      if x = s.m.load t cBot then some { s with pc := upd s.pc t (.popGotB (x - 1)) } else none
    | .stealGotT tt =>
      if x = s.m.load t cBot then
        if x ≤ tt then some { s with pc := upd s.pc t (.stealDone .empty) }
        else some { s with pc := upd s.pc t (.stealTake tt) }
      else none
    | _ => none
  | .ldTop t x =>
    match s.pc t with
    | .pushGotB v b =>
      -- growth (`b - t ≥ size - 1`) is outside this model
      if x = s.m.load t cTop ∧ b - x < (s.n : Int) - 1 then
        some { s with pc := upd s.pc t (.pushPut v b) }
      else none
    | .popStored b =>
      -- THE fence: after a seq_cst store the load waits for the store buffer to drain
      if x = s.m.load t cTop ∧ (s.fenced = true → s.m.drained t) then
        if b < x then some { s with pc := upd s.pc t (.popEmpty x) }
        else if x < b then
          -- more than one element: the owner takes element `b` without a CAS
          some { s with pc := upd s.pc t (.popTake b x), hb := b, wf := b,
                        taken := s.taken ++ [s.vals b], owed := s.owed ++ [(t, s.vals b)] }
        else some { s with pc := upd s.pc t (.popTake b x) }
      else none
    | .stealCalled =>
      if x = s.m.load t cTop then some { s with pc := upd s.pc t (.stealGotT x) } else none
    | _ => none
  | .wrSlot t i x =>
    match s.pc t with
    | .pushPut v b =>
      if i = pslot s.n b ∧ x = v then
        some { s with m := s.m.store t (cSlot s.n b) x, vals := setVal s.vals b x, wf := b + 1,
                      pc := upd s.pc t (.pushWritten v b) }
      else none
    | _ => none
  | .stBottom t x =>
    match s.pc t with
    | .pushWritten v b =>
      -- release store: an ordinary buffered store, queued BEHIND the slot write
      if x = b + 1 then
        some { s with m := s.m.store t cBot x, hb := x, pushed := s.pushed ++ [v],
                      pc := upd s.pc t .pushDone }
      else none
    | .popGotB b =>
      -- the store whose strength is the parameter (see `ldTop` at `popStored`)
      if x = b then some { s with m := s.m.store t cBot x, pc := upd s.pc t (.popStored b) } else none
    | .popEmpty tt =>
      if x = tt then some { s with m := s.m.store t cBot x, pc := upd s.pc t (.popDone .empty) }
      else none
    | .popCased tt r =>
      if x = tt + 1 then some { s with m := s.m.store t cBot x, pc := upd s.pc t (.popDone r) }
      else none
    | _ => none
  | .rdSlot t i x =>
    match s.pc t with
    | .popTake b tt =>
      if i = pslot s.n b ∧ x = s.m.load t (cSlot s.n b) then
        if tt < b then some { s with pc := upd s.pc t (.popDone (.val x)) }
        else some { s with pc := upd s.pc t (.popRead b tt x) }
      else none
    | .stealTake tt =>
      if i = pslot s.n tt ∧ x = s.m.load t (cSlot s.n tt) then
        some { s with pc := upd s.pc t (.stealRead tt x) }
      else none
    | _ => none
  | .casTop t found exp des ok =>
    -- locked RMW: drained buffer, acts on memory
    match s.pc t with
    | .popRead _ tt x =>
      if s.m.drained t ∧ found = s.m.mem cTop ∧ exp = tt ∧ des = tt + 1 ∧ ok = decide (found = exp) then
        if ok then
          some { s with m := s.m.poke cTop des, taken := s.taken ++ [x], owed := s.owed ++ [(t, x)],
                        pc := upd s.pc t (.popCased tt (.val x)) }
        else some { s with pc := upd s.pc t (.popCased tt .abort) }
      else none
    | .stealRead tt x =>
      if s.m.drained t ∧ found = s.m.mem cTop ∧ exp = tt ∧ des = tt + 1 ∧ ok = decide (found = exp) then
        if ok then
          some { s with m := s.m.poke cTop des, taken := s.taken ++ [x], owed := s.owed ++ [(t, x)],
                        pc := upd s.pc t (.stealDone (.val x)) }
        else some { s with pc := upd s.pc t (.stealDone .abort) }
      else none
    | _ => none
  | .retPush t =>
    match s.pc t with
    | .pushDone => some { s with pc := upd s.pc t .idle }
    | _ => none
  | .retPop t r =>
    match s.pc t with
    | .popDone r' =>
      if r = r'.toInt then
        some { s with pc := upd s.pc t .idle, returned := s.returned ++ r'.vals,
                      owed := r'.settle t s.owed }
      else none
    | _ => none
  | .retSteal t r =>
    match s.pc t with
    | .stealDone r' =>
      if r = r'.toInt then
        some { s with pc := upd s.pc t .idle, returned := s.returned ++ r'.vals,
                      owed := r'.settle t s.owed }
      else none
    | _ => none
  | .flush t =>
    match s.m.flush t with
    | some m' => some { s with m := m' }
    | none => none

def sys (fenced : Bool) (n : Nat) : Sys St Ev := { init := init fenced n, step := step }

end LibfiberVerif.WsdTso
