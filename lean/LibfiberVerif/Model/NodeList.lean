/-
  Model/NodeList.lean — small shared vocabulary of the three linked-node containers of
  property C20 (Model/Lifo.lean, Model/DistFifo.lean, Model/Stack.lean).

  * log decoding: nodes are named `n<k>` by the harnesses (`vr_obj`), so a pointer value is
    `@n<k>` (node `k ≥ 1`) or `0` (NULL); the per-node cells are `next<k>` and `data<k>`.
  * the sequential specifications the ghost linearisations are replayed against:
    a stack of (node, value) pairs with pop / take-everything, and a FIFO of values.

  Core Lean only.
-/
import LibfiberVerif.Core.Event

namespace LibfiberVerif.NodeList

/-- `@n3` ↦ 3, `0` ↦ 0 (NULL).  Anything else (an offset into a node, a foreign pointer,
    a number that is not 0) is not a node reference. -/
def nodeOfVal (s : String) : Option Nat :=
  if s = "0" then some 0
  else if s.startsWith "@n" then
    match (s.drop 2).toString.toNat? with
    | some k => if k = 0 then none else some k
    | none => none
  else none

/-- `next3` ↦ 3 for prefix `"next"`. -/
def cellIndex (pre : String) (cell : String) : Option Nat :=
  if cell.startsWith pre then
    match (cell.drop pre.length).toString.toNat? with
    | some k => if k = 0 then none else some k
    | none => none
  else none

def boolOfStr (s : String) : Option Bool :=
  if s = "1" then some true else if s = "0" then some false else none

/-- owners list of the `init` note: node `k` (1-based, shifted by `base`) ↦ thread -/
def ownersOf (base : Nat) (args : List String) : Option (Nat → Nat) :=
  match args.mapM String.toNat? with
  | some l => some (fun n => (l[n - base]?).getD 0)
  | none => none

/-! ### sequential stack of (node, value) pairs: push, pop, pop-on-empty, take-everything -/

inductive StackOp
  | push (n v : Nat)
  | pop (n v : Nat)
  | popEmpty
  /-- take everything: the argument is the whole content, top first -/
  | flush (l : List (Nat × Nat))
  deriving Repr, DecidableEq, Inhabited

def stackStep : List (Nat × Nat) → StackOp → Option (List (Nat × Nat))
  | st, .push n v => some ((n, v) :: st)
  | [], .pop _ _ => none
  | (m, w) :: st, .pop n v => if m = n ∧ w = v then some st else none
  | [], .popEmpty => some []
  | _ :: _, .popEmpty => none
  | st, .flush l => if l = st then some [] else none

def stackReplayFrom : List (Nat × Nat) → List StackOp → Option (List (Nat × Nat))
  | st, [] => some st
  | st, o :: os => match stackStep st o with
    | none => none
    | some st' => stackReplayFrom st' os

/-- a ghost linearisation is legal iff it replays from the empty stack -/
def stackReplay (os : List StackOp) : Option (List (Nat × Nat)) := stackReplayFrom [] os

/-! ### sequential FIFO of values: enqueue, dequeue, dequeue-on-empty -/

inductive FifoOp
  | enq (v : Nat)
  | deq (v : Nat)
  | deqEmpty
  deriving Repr, DecidableEq, Inhabited

def fifoStep : List Nat → FifoOp → Option (List Nat)
  | q, .enq v => some (q ++ [v])
  | [], .deq _ => none
  | w :: q, .deq v => if w = v then some q else none
  | [], .deqEmpty => some []
  | _ :: _, .deqEmpty => none

def fifoReplayFrom : List Nat → List FifoOp → Option (List Nat)
  | q, [] => some q
  | q, o :: os => match fifoStep q o with
    | none => none
    | some q' => fifoReplayFrom q' os

def fifoReplay (os : List FifoOp) : Option (List Nat) := fifoReplayFrom [] os

end LibfiberVerif.NodeList
