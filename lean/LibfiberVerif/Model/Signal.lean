/-
  Model/Signal.lean — fiber_signal_t of include/fiber_signal.h (property C11), with the
  parking hand-shake of src/fiber_manager.c (`set_wait_location` / `set_wait_value`, executed
  by the SUCCESSOR fiber in fiber_manager_do_maintenance).

  Client contract (fiber_signal.h): ONE fiber ever waits on a signal (ghost-checked here:
  `waiterId`), any number of fibers raise it.

  C code:
    wait:   this->scratch = NULL;
            if (CAS(&s->waiter, NO_WAITER → this)) {            // not raised: we sleep
              this->state = WAITING;
              manager->set_wait_location = &this->scratch; set_wait_value = READY_TO_WAKE;
              fiber_manager_yield();        // successor: *set_wait_location = READY_TO_WAKE
              this->scratch = NULL; }
            s->waiter = NO_WAITER;                               // consume
    raise:  old = xchg(&s->waiter, RAISED);
            if (old is a fiber) { s->waiter = NO_WAITER;
              while (old->scratch != READY_TO_WAKE) cpu_relax();  // context not saved yet
              old->state = READY; schedule(old); return 1; }
            return 0;

  Two layers:
  * `PSt`/`pstep` — the protocol itself (word `waiter`, every fiber's `scratch` marker, one
    protocol pc per fiber).  Re-used unchanged by Model/Chan.lean.
  * `St`/`step`  — the harness of harness/signal.c on top: a token counter published BEFORE
    each raise and taken by the single waiter (the channel usage pattern), which is what
    makes "a raise is never lost" observable.

  Actors are fibers (`fiber` column of the log).  Scheduler traffic on `F<id>.state` is the
  runtime model's (skipped by function name), EXCEPT the deferred `*set_wait_location = value`
  write, which appears as `fiber_manager_do_maintenance w F<id>.scratch -1` under the
  successor's id and is the step `setWait` here.
-/
import LibfiberVerif.Core.Sys
import LibfiberVerif.Core.Event
import LibfiberVerif.Driver

namespace LibfiberVerif.Signal

/-- contents of `fiber_signal_t.waiter` -/
inductive Word
  | none                -- FIBER_SIGNAL_NO_WAITER
  | raised              -- FIBER_SIGNAL_RAISED
  | fiber (f : Nat)     -- the sleeping (or going-to-sleep) fiber
  deriving Repr, DecidableEq, Inhabited

/-- protocol program counter of a fiber with respect to the signal -/
inductive PPc
  | idle
  | waitCalled                 -- entered fiber_signal_wait
  | wCleared                   -- scratch := NULL
  | casFailed                  -- CAS did not find NO_WAITER: consume and return
  | casOk                      -- waiter = self
  | parking                    -- state := WAITING; set_wait_location pending
  | parked                     -- successor wrote scratch := READY_TO_WAKE
  | resumed                    -- woken and running again; scratch := NULL
  | waitDone                   -- waiter := NO_WAITER; about to return
  | raiseCalled
  | raiseGot (g : Nat)         -- xchg returned fiber g
  | raiseCleared (g : Nat)     -- waiter := NO_WAITER
  | raiseReady (g : Nat)       -- read g.scratch = READY_TO_WAKE
  | raiseDone (r : Bool)       -- about to return r
  deriving Repr, DecidableEq, Inhabited

inductive PEv
  | callWait (f : Nat)
  | clrScratch (f : Nat)                          -- f: own scratch := NULL
  | casWaiter (f : Nat) (found : Word) (ok : Bool)
  | wStateWaiting (f : Nat)
  | setWait (g f : Nat)                           -- successor g: f.scratch := READY_TO_WAKE
  | stNone (f : Nat)                              -- waiter := NO_WAITER (waiter or raiser)
  | retWait (f : Nat)
  | callRaise (f : Nat)
  | xchg (f : Nat) (old : Word)
  | rScratch (f g : Nat) (ready : Bool)
  | wStateReady (f g : Nat)                       -- the wake: g.state := READY (then scheduled)
  | retRaise (f : Nat) (r : Bool)
  deriving Repr, DecidableEq, Inhabited

structure PSt where
  word : Word
  /-- `scratch f = true` ⇔ f.scratch = FIBER_SIGNAL_READY_TO_WAKE -/
  scratch : Nat → Bool
  pc : Nat → PPc
  /-- ghost: the one fiber that waits on this signal (client contract) -/
  waiterId : Option Nat
  /-- ghost: how often f put itself to sleep on the signal / was woken by a raiser -/
  parks : Nat → Nat
  wakes : Nat → Nat
  /-- ghost: `waker f = some g` — raiser g exchanged f out of the word and has not woken it yet -/
  waker : Nat → Option Nat

def pinit : PSt :=
  { word := .none, scratch := fun _ => false, pc := fun _ => .idle, waiterId := none,
    parks := fun _ => 0, wakes := fun _ => 0, waker := fun _ => none }

def pstep (s : PSt) : PEv → Option PSt
  | .callWait f =>
    if s.pc f = .idle ∧ (s.waiterId = none ∨ s.waiterId = some f) then
      some { s with waiterId := some f, pc := upd s.pc f .waitCalled }
    else none
  | .clrScratch f =>
    match s.pc f with
    | .waitCalled => some { s with scratch := upd s.scratch f false, pc := upd s.pc f .wCleared }
    | .parked =>
      -- runs again only after a raiser made it READY
      if s.wakes f = s.parks f then
        some { s with scratch := upd s.scratch f false, pc := upd s.pc f .resumed }
      else none
    | _ => none
  | .casWaiter f found ok =>
    match s.pc f with
    | .wCleared =>
      if found = s.word ∧ ok = decide (found = .none) then
        if ok then
          some { s with word := .fiber f, parks := upd s.parks f (s.parks f + 1), pc := upd s.pc f .casOk }
        else some { s with pc := upd s.pc f .casFailed }
      else none
    | _ => none
  | .wStateWaiting f =>
    match s.pc f with
    | .casOk => some { s with pc := upd s.pc f .parking }
    | _ => none
  | .setWait _ f =>
    match s.pc f with
    | .parking => some { s with scratch := upd s.scratch f true, pc := upd s.pc f .parked }
    | _ => none
  | .stNone f =>
    match s.pc f with
    | .casFailed => some { s with word := .none, pc := upd s.pc f .waitDone }
    | .resumed => some { s with word := .none, pc := upd s.pc f .waitDone }
    | .raiseGot g => some { s with word := .none, pc := upd s.pc f (.raiseCleared g) }
    | _ => none
  | .retWait f =>
    match s.pc f with
    | .waitDone => some { s with pc := upd s.pc f .idle }
    | _ => none
  | .callRaise f =>
    if s.pc f = .idle then some { s with pc := upd s.pc f .raiseCalled } else none
  | .xchg f old =>
    match s.pc f with
    | .raiseCalled =>
      if old = s.word then
        match old with
        | .fiber g => some { s with word := .raised, waker := upd s.waker g (some f), pc := upd s.pc f (.raiseGot g) }
        | _ => some { s with word := .raised, pc := upd s.pc f (.raiseDone false) }
      else none
    | _ => none
  | .rScratch f g ready =>
    match s.pc f with
    | .raiseCleared g' =>
      if g = g' ∧ ready = s.scratch g then
        if ready then some { s with pc := upd s.pc f (.raiseReady g) } else some s   -- spin
      else none
    | _ => none
  | .wStateReady f g =>
    match s.pc f with
    | .raiseReady g' =>
      if g = g' then
        some { s with wakes := upd s.wakes g (s.wakes g + 1), waker := upd s.waker g none,
                      pc := upd s.pc f (.raiseDone true) }
      else none
    | _ => none
  | .retRaise f r =>
    match s.pc f with
    | .raiseDone r' => if r = r' then some { s with pc := upd s.pc f .idle } else none
    | _ => none

def psys : Sys PSt PEv := { init := pinit, step := pstep }

/-! ### the token harness (harness/signal.c) -/

inductive TPc
  | idle
  | takeLoop             -- in `take`: about to load `tokens`
  | takeSaw (v : Nat)    -- loaded v
  | takeWaiting          -- inside fiber_signal_wait
  | takeDone             -- token taken; about to return
  | pubCalled
  | published            -- tokens incremented; the raise comes next
  | raising (pub : Bool) -- inside fiber_signal_raise (pub: it announces a token)
  deriving Repr, DecidableEq, Inhabited

inductive Ev
  | callTake (f : Nat)
  | ldTokens (f : Nat) (v : Nat)
  | fsubTokens (f : Nat) (old : Nat)
  | retTake (f : Nat)
  | callPublish (f : Nat)
  | faddTokens (f : Nat) (old : Nat)
  | p (e : PEv)
  deriving Repr, DecidableEq, Inhabited

structure St where
  p : PSt
  tokens : Nat
  tk : Nat → TPc
  /-- ghost: tokens published / taken so far -/
  published : Nat
  taken : Nat
  /-- ghost: fibers that published a token and have not yet exchanged RAISED in -/
  fl : List Nat

def init : St :=
  { p := pinit, tokens := 0, tk := fun _ => .idle, published := 0, taken := 0, fl := [] }

def step (s : St) : Ev → Option St
  | .callTake f =>
    -- only the signal's one waiter takes tokens (harness: script fiber 0)
    if s.tk f = .idle ∧ (s.p.waiterId = none ∨ s.p.waiterId = some f) then
      some { s with p := { s.p with waiterId := some f }, tk := upd s.tk f .takeLoop }
    else none
  | .ldTokens f v =>
    match s.tk f with
    | .takeLoop => if v = s.tokens then some { s with tk := upd s.tk f (.takeSaw v) } else none
    | _ => none
  | .fsubTokens f old =>
    match s.tk f with
    | .takeSaw v =>
      if 0 < v ∧ old = s.tokens ∧ 0 < old then
        some { s with tokens := old - 1, taken := s.taken + 1, tk := upd s.tk f .takeDone }
      else none
    | _ => none
  | .retTake f =>
    match s.tk f with
    | .takeDone => some { s with tk := upd s.tk f .idle }
    | _ => none
  | .callPublish f => if s.tk f = .idle then some { s with tk := upd s.tk f .pubCalled } else none
  | .faddTokens f old =>
    match s.tk f with
    | .pubCalled =>
      if old = s.tokens then
        some { s with tokens := old + 1, published := s.published + 1, fl := f :: s.fl,
                      tk := upd s.tk f .published }
      else none
    | _ => none
  | .p (.callWait f) =>
    match s.tk f with
    | .takeSaw 0 => (pstep s.p (.callWait f)).map fun p' => { s with p := p', tk := upd s.tk f .takeWaiting }
    | _ => none
  | .p (.retWait f) =>
    match s.tk f with
    | .takeWaiting => (pstep s.p (.retWait f)).map fun p' => { s with p := p', tk := upd s.tk f .takeLoop }
    | _ => none
  | .p (.callRaise f) =>
    if s.tk f = .published ∨ s.tk f = .idle then
      (pstep s.p (.callRaise f)).map fun p' =>
        { s with p := p', tk := upd s.tk f (.raising (decide (s.tk f = .published))) }
    else none
  | .p (.retRaise f r) =>
    match s.tk f with
    | .raising _ => (pstep s.p (.retRaise f r)).map fun p' => { s with p := p', tk := upd s.tk f .idle }
    | _ => none
  | .p (.xchg f old) =>
    -- the exchange is the moment the published token is announced: f leaves `fl`
    (pstep s.p (.xchg f old)).map fun p' => { s with p := p', fl := s.fl.erase f }
  | .p e => (pstep s.p e).map fun p' => { s with p := p' }

def sys : Sys St Ev := { init := init, step := step }

/-! ### log decoding (shared with Model/Chan.lean) -/

def fiberId (s : String) : Option Nat :=
  if s.startsWith "@F" then (s.drop 2).toString.toNat? else none

def wordOf (s : String) : Option Word :=
  if s = "0" then some .none else if s = "-1" then some .raised else (fiberId s).map .fiber

def splitCell (c : String) : Option (String × String) :=
  match c.splitOn "." with
  | [a, b] => some (a, b)
  | _ => none

/-- `F16.scratch` ↦ 16 -/
def cellFiber (c field : String) : Option Nat :=
  match splitCell c with
  | some (a, b) => if b = field then fiberId ("@" ++ a) else none
  | none => none

def schedulerFuncs : List String :=
  ["fiber_manager_yield", "fiber_scheduler_next", "fiber_manager_switch_to",
   "fiber_manager_do_maintenance", "fiber_mark_completed", "fiber_destroy",
   "fiber_scheduler_schedule", "fiber_scheduler_load_balance", "fiber_scheduler_steal"]

def skipKinds : List String :=
  ["switch", "fcreate", "fdestroy", "relax", "rqpush", "rqpop", "rqsteal", "fence"]

/-- the events of fiber_signal_wait / fiber_signal_raise and the deferred marker write;
    `none` = not a signal-protocol line -/
def protoOfRaw (r : RawEv) : Option PEv :=
  let f := r.fiber
  match r.func, r.kind, r.args with
  | "fiber_manager_do_maintenance", "w", [c, "-1"] => (cellFiber c "scratch").map (PEv.setWait f)
  | "fiber_signal_wait", "w", [c, v] =>
    match cellFiber c "scratch", cellFiber c "state" with
    | some g, _ => if g = f ∧ v = "0" then some (.clrScratch f) else none
    | _, some g => if g = f ∧ v = "3" then some (.wStateWaiting f) else none
    | _, _ => none
  | "fiber_signal_wait", "cas", ["waiter", found, "0", new, ok, _] =>
    if fiberId new = some f then (wordOf found).map (fun w => .casWaiter f w (ok = "1")) else none
  | "fiber_signal_wait", "st", ["waiter", "0", _] => some (.stNone f)
  | "fiber_signal_raise", "st", ["waiter", "0", _] => some (.stNone f)
  | "fiber_signal_raise", "xchg", ["waiter", old, "-1", _] => (wordOf old).map (PEv.xchg f)
  | "fiber_signal_raise", "r", [c, v] =>
    (cellFiber c "scratch").bind fun g =>
      if v = "-1" then some (.rScratch f g true) else if v = "0" then some (.rScratch f g false) else none
  | "fiber_signal_raise", "w", [c, "2"] => (cellFiber c "state").map (PEv.wStateReady f)
  | _, _, _ => none

def isProtoFunc (fn : String) : Bool := fn = "fiber_signal_wait" || fn = "fiber_signal_raise"

def ofRaw (r : RawEv) : Option (Option Ev) :=
  let f := r.fiber
  match protoOfRaw r with
  | some e => some (some (.p e))
  | none =>
  if isProtoFunc r.func then none else
  if schedulerFuncs.contains r.func || skipKinds.contains r.kind then some none else
  match r.kind, r.args with
  | "note", ["call", "take"] => some (some (.callTake f))
  | "note", ["ret", "take"] => some (some (.retTake f))
  | "note", ["call", "publish"] => some (some (.callPublish f))
  | "note", ["call", "wait"] => some (some (.p (.callWait f)))
  | "note", ["ret", "wait"] => some (some (.p (.retWait f)))
  | "note", ["call", "raise"] => some (some (.p (.callRaise f)))
  | "note", ["ret", "raise", v] => some (some (.p (.retRaise f (v = "1"))))
  | "note", _ => some none
  | "ld", ["tokens", v, _] => v.toNat?.map (fun v => some (.ldTokens f v))
  | "fsub", ["tokens", old, "1", _] => old.toNat?.map (fun v => some (.fsubTokens f v))
  | "fadd", ["tokens", old, "1", _] => old.toNat?.map (fun v => some (.faddTokens f v))
  | _, _ => none

/-! ### API-level monitor (definite violations only)

  * a wait can only return after some raise was called: #(ret wait) ≤ #(call raise) at every
    prefix (raises coalesce, so there is no equality);
  * a raise that returns 1 released a sleeping waiter: #(ret raise 1) ≤ #(call wait);
  * tokens: #(ret take) ≤ #(call publish). -/
def monitor (evs : List Ev) : Option String :=
  let rec go (cw rw cr r1 cp rt : Nat) : List Ev → Option String
    | [] => none
    | .p (.callWait _) :: es => go (cw + 1) rw cr r1 cp rt es
    | .p (.retWait f) :: es =>
      if rw + 1 > cr then some s!"wait of fiber {f} returned although no raise had been called for it"
      else go cw (rw + 1) cr r1 cp rt es
    | .p (.callRaise _) :: es => go cw rw (cr + 1) r1 cp rt es
    | .p (.retRaise f true) :: es =>
      if r1 + 1 > cw then some s!"raise of fiber {f} reports a wake-up but no wait was pending"
      else go cw rw cr (r1 + 1) cp rt es
    | .callPublish _ :: es => go cw rw cr r1 (cp + 1) rt es
    | .retTake f :: es =>
      if rt + 1 > cp then some s!"take of fiber {f} returned a token that was never published"
      else go cw rw cr r1 cp (rt + 1) es
    | _ :: es => go cw rw cr r1 cp rt es
  go 0 0 0 0 0 0 evs

def drive (lines : List String) : IO UInt32 := do
  let body := lines.filter (fun l => !isInit l)
  let v := validateP sys ofRaw body
  let evs := body.filterMap (fun l => (parseLine l).bind (fun r => (ofRaw r).join))
  report "Signal" v (monitor evs)

end LibfiberVerif.Signal
