/-
  Model/HpTso.lean — the hazard-pointer publish / validate handshake of
  include/hazard_pointer.h on x86-TSO (store buffers, `Model/Tso.lean`), with the
  `store_load_barrier()` of `hazard_pointer_using` as a PARAMETER.  Companion of the
  sequentially consistent model `Model/Hp.lean` (property C14); it exists to turn the informal
  "SC ⇐ TSO because the slot store is followed by a store→load barrier" argument of
  DESIGN.md §3 into theorems (`Props/Tso.lean`).

  Reduced to what the barrier question needs: one global pointer cell `G` (cell 0), one hazard
  slot per thread (`cSlot t = 1 + t`), a retired list of length one that is scanned at once.
  `N` threads may publish hazard pointers (threads `0 … N-1`); any thread may unlink.

    reader `t`:  loop { p = load G; if !p fail;
                        hp[t] = p;                       -- plain store: goes to the store buffer
                        store_load_barrier();            -- `fence`: see below
                        if (p == load G) break; }        -- validating re-load
                 … use p …
                 hp[t] = 0                               -- done_using: plain store
    writer `w`:  old = xchg(G, fresh-or-NULL);           -- locked RMW: drained buffer, on memory
                 retire old;  scan: for i < N: h = hp[i]; found |= (h == old)
                 found ? keep (scan again later) : reclaim(old)

  The `fence` event between the slot store and the validating load:
      `fenced = true`   `store_load_barrier()` = `mfence`: enabled only once the reader's
                        buffer has drained (the slot store is in memory before `G` is re-read);
      `fenced = false`  a compiler-only barrier: always enabled, drains nothing.
  Every other store→load pair is either to the same cell (forwarded) or does not matter.
  Nodes are non-zero integers (0 = NULL); a reclaimed node is `free` again and may be
  re-allocated (ABA is allowed).
-/
import LibfiberVerif.Model.Tso

namespace LibfiberVerif.HpTso
open LibfiberVerif.Tso

/-- ghost life-cycle of a node -/
inductive NSt
  | free
  | inG
  | retired (w : Nat)
  deriving Repr, DecidableEq, Inhabited

inductive Pc
  | idle
  | rdCalled
  /-- `p = load G`, non-NULL; next: `hp[t] = p` -/
  | rdLoaded (p : Int)
  /-- slot store issued; next: the barrier -/
  | rdPublished (p : Int)
  /-- next: the validating re-load of `G` -/
  | rdFenced (p : Int)
  /-- validated: the reader dereferences `p` until it releases the slot -/
  | using (p : Int)
  /-- `old` unlinked and retired; scanning: next slot `i`, `found` so far -/
  | wScan (old : Int) (i : Nat) (found : Bool)
  deriving Repr, DecidableEq, Inhabited

inductive Ev
  | callAcq (t : Nat)
  | ldG (t : Nat) (v : Int)
  | stSlot (t : Nat) (v : Int)
  | fence (t : Nat)
  | use (t : Nat) (p : Int)
  | release (t : Nat)
  | xchgG (t : Nat) (old new : Int)
  | ldSlot (t : Nat) (i : Nat) (v : Int)
  | reclaim (t : Nat) (n : Int)
  | keep (t : Nat) (n : Int)
  /-- environment: the oldest entry of `t`'s store buffer reaches memory -/
  | flush (t : Nat)
  deriving Repr, DecidableEq, Inhabited

def cG : Nat := 0
def cSlot (t : Nat) : Nat := 1 + t

def setNs (f : Int → NSt) (n : Int) (v : NSt) : Int → NSt := fun k => if k = n then v else f k

structure St where
  /-- number of hazard slots (threads that may publish) -/
  N : Nat
  /-- `store_load_barrier()` is a real store→load barrier -/
  fenced : Bool
  m : Mem
  pc : Nat → Pc
  /-- ghost: node life-cycle -/
  ns : Int → NSt

def init (fenced : Bool) (N : Nat) : St :=
  { N := N, fenced := fenced, m := Mem.init, pc := fun _ => .idle, ns := fun _ => .free }

def step (s : St) : Ev → Option St
  | .callAcq t =>
    match s.pc t with
    | .idle => if t < s.N then some { s with pc := upd s.pc t .rdCalled } else none
    | _ => none
  | .ldG t v =>
    match s.pc t with
    | .rdCalled =>
      if v = s.m.load t cG then
        some { s with pc := upd s.pc t (if v = 0 then .idle else .rdLoaded v) }
      else none
    | .rdFenced p =>
      -- the validating re-load
      if v = s.m.load t cG then
        some { s with pc := upd s.pc t (if v = p then .using p else .rdCalled) }
      else none
    | _ => none
  | .stSlot t v =>
    match s.pc t with
    | .rdLoaded p =>
      if v = p then some { s with m := s.m.store t (cSlot t) v, pc := upd s.pc t (.rdPublished p) }
      else none
    | _ => none
  | .fence t =>
    match s.pc t with
    | .rdPublished p =>
      -- THE barrier: a real one waits for the store buffer to drain
      if s.fenced = true → s.m.drained t then some { s with pc := upd s.pc t (.rdFenced p) } else none
    | _ => none
  | .use t p =>
    match s.pc t with
    | .using q => if p = q then some s else none
    | _ => none
  | .release t =>
    match s.pc t with
    | .using _ => some { s with m := s.m.store t (cSlot t) 0, pc := upd s.pc t .idle }
    | _ => none
  | .xchgG t old new =>
    match s.pc t with
    | .idle =>
      -- locked RMW
      if s.m.drained t ∧ old = s.m.mem cG ∧ (new = 0 ∨ s.ns new = .free) then
        let ns1 := if new = 0 then s.ns else setNs s.ns new .inG
        if old = 0 then some { s with m := s.m.poke cG new, ns := ns1 }
        else some { s with m := s.m.poke cG new, ns := setNs ns1 old (.retired t),
                           pc := upd s.pc t (.wScan old 0 false) }
      else none
    | _ => none
  | .ldSlot t i v =>
    match s.pc t with
    | .wScan old j f =>
      if i = j ∧ j < s.N ∧ v = s.m.load t (cSlot i) then
        some { s with pc := upd s.pc t (.wScan old (j + 1) (f || decide (v = old))) }
      else none
    | _ => none
  | .reclaim t n =>
    match s.pc t with
    | .wScan old j f =>
      if n = old ∧ j = s.N ∧ f = false then
        some { s with ns := setNs s.ns old .free, pc := upd s.pc t .idle }
      else none
    | _ => none
  | .keep t n =>
    match s.pc t with
    | .wScan old j f =>
      if n = old ∧ j = s.N ∧ f = true then some { s with pc := upd s.pc t (.wScan old 0 false) }
      else none
    | _ => none
  | .flush t =>
    match s.m.flush t with
    | some m' => some { s with m := m' }
    | none => none

def sys (fenced : Bool) (N : Nat) : Sys St Ev := { init := init fenced N, step := step }

end LibfiberVerif.HpTso
