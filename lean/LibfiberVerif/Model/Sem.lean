/-
  Model/Sem.lean — src/fiber_semaphore.c on top of fiber_manager_wait_in_mpmc_queue /
  fiber_manager_wake_from_mpmc_queue / the deferred `mpmc_to_push` action of
  fiber_manager_do_maintenance (src/fiber_manager.c) and include/mpmc_fifo.h (property C06).

  Actors.  FIBERS (the `fiber` column of the log, any number of them: `pc : Nat → Pc`) execute
  wait / trywait / post.  KERNEL THREADS (the `kthread` column, any number of them:
  `slot`, `pp : Nat → …`) own the deferred-push slot `manager->mpmc_to_push`: a waiter that
  must block only ANNOUNCES itself (writes its state, fills the slot of the kernel thread it
  runs on) and switches away; the push onto the waiter queue is performed by whoever runs
  fiber_manager_do_maintenance next on that kernel thread (the successor fiber), i.e. only
  after the waiter's context has been saved.  In the log the push appears in function
  `mpmc_fifo_push` under the successor's fiber id; the model keys it by the kernel thread.

  One model step = one access to a cell of the semaphore (`counter`, the waiter queue's
  `head` / `tail`, a fiber's `state` word as written by the wait / wake functions), in exactly
  the order the C code performs them, plus the harness's API notes.

  C code:
    wait:     old = fetch_sub(&counter, 1);  if (old - 1 >= 0) return;          // admitted
              wait_in_mpmc_queue: this->state = WAITING;
                                  manager->mpmc_to_push = {fifo, node(value = this)};
                                  fiber_manager_yield          (parks; resumes after a wake)
              [successor, do_maintenance] mpmc_fifo_push: loop { t = ld tail; hp := t;
                                  if (t != ld tail) continue; if (CAS(tail, t, node)) break; }
    trywait:  while ((c = ld counter) > 0) if (CAS(counter, c, c - 1)) return SUCCESS;
              return ERROR;
    post_internal:
              do { while ((c = ld counter) < 0) {
                     if (wake_from_mpmc_queue(count = 0))      // ONE trypop attempt
                       { fetch_add(&counter, 1); return 1; } }
              } while (!CAS(counter, c, c + 1));  return 0;
      wake_from_mpmc_queue(0): mpmc_fifo_trypop: loop { h = ld head; hp0 := h;
                                  if (h != ld head) continue;
                                  p = h->prev; if (!p) return NULL;     // empty or not linked yet
                                  hp1 := p; if (h != ld head) continue;
                                  v = p->value; if (CAS(head, h, p)) break; }
                               if popped f: f->state = READY; schedule(f); return 1
    post:     if (post_internal()) fiber_yield();

  The waiter queue is kept ABSTRACTLY at its two linearisation points: the successful tail CAS
  enqueues, the successful head CAS dequeues the oldest enqueued entry.  Node addresses are
  opaque numbers; `nodes` remembers them in tail-CAS order and every logged `head` / `tail`
  value is checked against it.  A trypop may give up (return NULL) after validating `head`:
  the model allows that at any time (the queue may be empty or the oldest node not linked
  yet — a superset of what include/mpmc_fifo.h does; that the FIFO abstraction is right for
  every interleaving is C13's theorem `Mpmc.linearizable`).

  Ghost state: the lists `pend` (waiters that decremented and are not enqueued yet), `queue`
  (enqueued, not popped), `pre` (posts begun that have had no effect yet), `mid` (posts that
  popped a waiter and have not incremented yet), `adm` (admitted waits/trywaits that have not
  returned yet) and monotone event counters.
-/
import LibfiberVerif.Core.Sys
import LibfiberVerif.Core.Event
import LibfiberVerif.Driver

namespace LibfiberVerif.Sem

/-- fiber states (include/fiber.h) -/
def READY : Nat := 2
def WAITING : Nat := 3

inductive Pc
  | idle
  | waitCalled
  | waitFast                    -- fetch_sub saw a unit: about to return
  | waitAnnounced               -- fetch_sub saw none: counter decremented, state not written yet
  | waitParked                  -- state := WAITING written, deferred-push slot filled
  | waitQueued                  -- (ghost) the successor's tail CAS enqueued us
  | waitHanded                  -- (ghost) a post's head CAS dequeued us
  | waitReady                   -- the post wrote state := READY; about to return from wait
  | tryCalled                   -- next: ld counter
  | tryCas (c : Int)            -- loaded c > 0; next: CAS c → c-1
  | tryDone (r : Bool)
  | postCalled                  -- next: ld counter
  | popStart                    -- loaded c < 0; trypop: next ld head
  | popH1 (h : Nat)             -- head loaded once
  | popH2 (h : Nat)             -- head re-validated; next: give up (NULL) or third ld head
  | popH3 (h : Nat)             -- head validated again; next: CAS head
  | postCas (c : Int)           -- loaded c ≥ 0; next: CAS c → c+1
  | popped (g : Nat)            -- head CAS succeeded, dequeued fiber g; next: g->state := READY
  | postWoke                    -- next: fetch_add
  | postDone
  deriving Repr, DecidableEq, Inhabited

/-- progress of the deferred `mpmc_fifo_push` on a kernel thread -/
inductive PushPc
  | idle
  | t1 (tl : Nat)               -- tail loaded once
  | t2 (tl : Nat)               -- tail re-validated; next: CAS tail
  deriving Repr, DecidableEq, Inhabited

inductive Ev
  | callWait (f : Nat) | retWait (f : Nat)
  | callTry (f : Nat) | retTry (f : Nat) (r : Bool)
  | callPost (f : Nat) | retPost (f : Nat)
  | fsub (f : Nat) (old : Int)
  | fadd (f : Nat) (old : Int)
  | ldCounter (f : Nat) (c : Int)
  | casCounter (f : Nat) (found exp des : Int) (ok : Bool)
  | wWaiting (k f g : Nat)                       -- on kernel thread k, fiber f writes g.state := WAITING
  | wReady (f g : Nat)                           -- fiber f writes g.state := READY
  | ldTail (k v : Nat)
  | casTail (k found exp des : Nat) (ok : Bool)
  | ldHead (f v : Nat)
  | casHead (f found exp des : Nat) (ok : Bool)
  | getValue (v : Int)                           -- fiber_semaphore_getvalue
  | final (v : Int)                              -- harness: everything finished, value read
  deriving Repr, DecidableEq, Inhabited

structure St where
  counter : Int
  head : Nat
  tail : Nat
  /-- `manager->mpmc_to_push` of kernel thread k: the fiber announced there -/
  slot : Nat → Option Nat
  pp : Nat → PushPc
  pc : Nat → Pc
  /-- ghost: enqueued waiters, oldest first, and their node addresses (same length) -/
  queue : List Nat
  nodes : List Nat
  /-- ghost: waiters that decremented the counter and are not enqueued yet -/
  pend : List Nat
  /-- ghost: posts begun, no effect yet -/
  pre : List Nat
  /-- ghost: posts that dequeued a waiter and have not incremented yet -/
  mid : List Nat
  /-- ghost: admitted wait / trywait calls that have not returned yet -/
  adm : List Nat
  /- ghost: monotone counters, one per kind of step -/
  nFast : Nat        -- fetch_sub that saw a unit
  nTryOk : Nat       -- successful trywait CAS
  nBlocked : Nat     -- fetch_sub that saw no unit
  nEnq : Nat         -- successful tail CAS
  nPopped : Nat      -- successful head CAS
  nFadd : Nat        -- fetch_add after a wake
  nCasPost : Nat     -- successful post CAS
  postsBegun : Nat   -- `call post`
  postsDone : Nat    -- `ret post`
  retOk : Nat        -- `ret wait` + `ret trywait 1`
  tryFail : Nat      -- `ret trywait 0`

/-- wait/trywait calls that have been admitted (decided), returned or not -/
def St.admitted (s : St) : Nat := s.nFast + s.nTryOk + s.nPopped

def init (v : Nat) (node0 : Nat) : St :=
  { counter := v, head := node0, tail := node0, slot := fun _ => none, pp := fun _ => .idle,
    pc := fun _ => .idle, queue := [], nodes := [], pend := [], pre := [], mid := [], adm := [],
    nFast := 0, nTryOk := 0, nBlocked := 0, nEnq := 0, nPopped := 0, nFadd := 0, nCasPost := 0,
    postsBegun := 0, postsDone := 0, retOk := 0, tryFail := 0 }

def step (s : St) : Ev → Option St
  /- wait -/
  | .callWait f => if s.pc f = .idle then some { s with pc := upd s.pc f .waitCalled } else none
  | .fsub f old =>
    match s.pc f with
    | .waitCalled =>
      if old = s.counter then
        if 1 ≤ old then
          some { s with counter := old - 1, nFast := s.nFast + 1, adm := f :: s.adm,
                        pc := upd s.pc f .waitFast }
        else
          some { s with counter := old - 1, nBlocked := s.nBlocked + 1, pend := f :: s.pend,
                        pc := upd s.pc f .waitAnnounced }
      else none
    | _ => none
  | .wWaiting k f g =>
    match s.pc f with
    | .waitAnnounced =>
      if g = f ∧ s.slot k = none then
        some { s with slot := upd s.slot k (some f), pc := upd s.pc f .waitParked }
      else none
    | _ => none
  | .retWait f =>
    match s.pc f with
    | .waitFast => some { s with retOk := s.retOk + 1, adm := s.adm.erase f, pc := upd s.pc f .idle }
    | .waitReady => some { s with retOk := s.retOk + 1, adm := s.adm.erase f, pc := upd s.pc f .idle }
    | _ => none
  /- the deferred push, by kernel thread k on behalf of `slot k` -/
  | .ldTail k v =>
    match s.slot k with
    | none => none
    | some _ =>
      match s.pp k with
      | .idle => if v = s.tail then some { s with pp := upd s.pp k (.t1 v) } else none
      | .t1 tl =>
        if v = s.tail then some { s with pp := upd s.pp k (if v = tl then .t2 tl else .idle) } else none
      | .t2 _ => none
  | .casTail k found exp des ok =>
    match s.slot k, s.pp k with
    | some w, .t2 tl =>
      if found = s.tail ∧ exp = tl ∧ ok = decide (found = tl) ∧ des ≠ 0 then
        if ok then
          if s.pc w = .waitParked then
            some { s with tail := des, queue := s.queue ++ [w], nodes := s.nodes ++ [des],
                          pend := s.pend.erase w, nEnq := s.nEnq + 1,
                          slot := upd s.slot k none, pp := upd s.pp k .idle,
                          pc := upd s.pc w .waitQueued }
          else none
        else some { s with pp := upd s.pp k .idle }
      else none
    | _, _ => none
  /- trywait -/
  | .callTry f => if s.pc f = .idle then some { s with pc := upd s.pc f .tryCalled } else none
  | .retTry f r =>
    match s.pc f with
    | .tryDone r' =>
      if r = r' then
        if r then some { s with retOk := s.retOk + 1, adm := s.adm.erase f, pc := upd s.pc f .idle }
        else some { s with tryFail := s.tryFail + 1, pc := upd s.pc f .idle }
      else none
    | _ => none
  /- post -/
  | .callPost f =>
    if s.pc f = .idle then
      some { s with postsBegun := s.postsBegun + 1, pre := f :: s.pre, pc := upd s.pc f .postCalled }
    else none
  | .ldCounter f c =>
    if c = s.counter then
      match s.pc f with
      | .tryCalled =>
        if 0 < c then some { s with pc := upd s.pc f (.tryCas c) }
        else some { s with pc := upd s.pc f (.tryDone false) }
      | .postCalled =>
        if c < 0 then some { s with pc := upd s.pc f .popStart }
        else some { s with pc := upd s.pc f (.postCas c) }
      | .popH2 _ =>           -- trypop gave up (returned NULL): the post re-reads the counter
        if c < 0 then some { s with pc := upd s.pc f .popStart }
        else some { s with pc := upd s.pc f (.postCas c) }
      | _ => none
    else none
  | .casCounter f found exp des ok =>
    match s.pc f with
    | .tryCas c =>
      if found = s.counter ∧ exp = c ∧ des = c - 1 ∧ ok = decide (found = c) then
        if ok then
          some { s with counter := c - 1, nTryOk := s.nTryOk + 1, adm := f :: s.adm,
                        pc := upd s.pc f (.tryDone true) }
        else some { s with pc := upd s.pc f .tryCalled }
      else none
    | .postCas c =>
      if found = s.counter ∧ exp = c ∧ des = c + 1 ∧ ok = decide (found = c) then
        if ok then
          some { s with counter := c + 1, nCasPost := s.nCasPost + 1, pre := s.pre.erase f,
                        pc := upd s.pc f .postDone }
        else some { s with pc := upd s.pc f .postCalled }
      else none
    | _ => none
  | .ldHead f v =>
    if v = s.head then
      match s.pc f with
      | .popStart => some { s with pc := upd s.pc f (.popH1 v) }
      | .popH1 h => some { s with pc := upd s.pc f (if v = h then .popH2 h else .popStart) }
      | .popH2 h => some { s with pc := upd s.pc f (if v = h then .popH3 h else .popStart) }
      | _ => none
    else none
  | .casHead f found exp des ok =>
    match s.pc f with
    | .popH3 h =>
      if found = s.head ∧ exp = h ∧ ok = decide (found = h) then
        if ok then
          match s.queue, s.nodes with
          | g :: q, n :: ns =>
            if des = n ∧ g ≠ f then
              -- the dequeue takes effect: the oldest enqueued waiter is handed this post
              some { s with head := n, queue := q, nodes := ns, nPopped := s.nPopped + 1,
                            pre := s.pre.erase f, mid := f :: s.mid, adm := g :: s.adm,
                            pc := upd (upd s.pc g .waitHanded) f (.popped g) }
            else none
          | _, _ => none
        else some { s with pc := upd s.pc f .popStart }
      else none
    | _ => none
  | .wReady f g =>
    match s.pc f with
    | .popped g' =>
      if g = g' ∧ g ≠ f ∧ s.pc g = .waitHanded then
        some { s with pc := upd (upd s.pc g .waitReady) f .postWoke }
      else none
    | _ => none
  | .fadd f old =>
    match s.pc f with
    | .postWoke =>
      if old = s.counter then
        some { s with counter := old + 1, nFadd := s.nFadd + 1, mid := s.mid.erase f,
                      pc := upd s.pc f .postDone }
      else none
    | _ => none
  | .retPost f =>
    match s.pc f with
    | .postDone => some { s with postsDone := s.postsDone + 1, pc := upd s.pc f .idle }
    | _ => none
  | .getValue v => if v = s.counter then some s else none
  | .final v =>
    if v = s.counter ∧ s.queue = [] ∧ s.pend = [] ∧ s.pre = [] ∧ s.mid = [] ∧ s.adm = [] then some s
    else none

def sys (v : Nat) (node0 : Nat) : Sys St Ev := { init := init v node0, step := step }

/-! ### log decoding -/

def fiberOfCell (c : String) : Option Nat :=
  match c.splitOn "." with
  | [a, "state"] => if a.startsWith "F" then (a.drop 1).toString.toNat? else none
  | _ => none

/-- the counter is a 32-bit int printed as unsigned -/
def parseInt32 (s : String) : Option Int :=
  s.toNat?.map (fun n => if n ≥ 2147483648 then (n : Int) - 4294967296 else (n : Int))

def schedulerFuncs : List String :=
  ["fiber_manager_yield", "fiber_scheduler_next", "fiber_manager_switch_to",
   "fiber_manager_do_maintenance", "fiber_mark_completed", "fiber_destroy"]

def ofRaw (r : RawEv) : Option (Option Ev) :=
  let f := r.fiber
  let k := r.tid
  if schedulerFuncs.contains r.func then some none else
  match r.kind, r.args with
  | "note", ["call", "wait"] => some (some (.callWait f))
  | "note", ["ret", "wait"] => some (some (.retWait f))
  | "note", ["call", "trywait"] => some (some (.callTry f))
  | "note", ["ret", "trywait", v] => some (some (.retTry f (v = "1")))
  | "note", ["call", "post"] => some (some (.callPost f))
  | "note", ["ret", "post"] => some (some (.retPost f))
  | "note", ["final", v] => v.toInt?.map (fun v => some (.final v))
  | "note", _ => some none
  | "switch", _ => some none
  | "fcreate", _ => some none
  | "fdestroy", _ => some none
  | "fence", _ => if r.func = "hazard_pointer_using" then some none else none
  | "fsub", ["counter", old, "1", _] =>
    if r.func = "fiber_semaphore_wait" then (parseInt32 old).map (fun o => some (.fsub f o)) else none
  | "fadd", ["counter", old, "1", _] =>
    if r.func = "fiber_semaphore_post_internal" then (parseInt32 old).map (fun o => some (.fadd f o)) else none
  | "ld", ["counter", c, _] =>
    if r.func = "fiber_semaphore_getvalue" then (parseInt32 c).map (fun c => some (.getValue c))
    else if r.func = "fiber_semaphore_trywait" ∨ r.func = "fiber_semaphore_post_internal" then
      (parseInt32 c).map (fun c => some (.ldCounter f c))
    else none
  | "cas", ["counter", found, exp, des, ok, _] => do
      let a ← parseInt32 found; let b ← parseInt32 exp; let c ← parseInt32 des
      if r.func = "fiber_semaphore_trywait" ∨ r.func = "fiber_semaphore_post_internal" then
        pure (some (.casCounter f a b c (ok = "1")))
      else none
  | "ld", ["tail", v, _] =>
    if r.func = "mpmc_fifo_push" then v.toNat?.map (fun v => some (.ldTail k v)) else none
  | "cas", ["tail", found, exp, des, ok, _] => do
      let a ← found.toNat?; let b ← exp.toNat?; let c ← des.toNat?
      if r.func = "mpmc_fifo_push" then pure (some (.casTail k a b c (ok = "1"))) else none
  | "ld", ["head", v, _] =>
    if r.func = "mpmc_fifo_trypop" then v.toNat?.map (fun v => some (.ldHead f v)) else none
  | "cas", ["head", found, exp, des, ok, _] => do
      let a ← found.toNat?; let b ← exp.toNat?; let c ← des.toNat?
      if r.func = "mpmc_fifo_trypop" then pure (some (.casHead f a b c (ok = "1"))) else none
  | "w", [c, v] =>
    match fiberOfCell c, v.toNat? with
    | some g, some v =>
      if r.func = "fiber_manager_wait_in_mpmc_queue" ∧ v = WAITING then some (some (.wWaiting k f g))
      else if r.func = "fiber_manager_wake_from_mpmc_queue" ∧ v = READY then some (some (.wReady f g))
      else none
    | _, _ => none
  | _, _ => none

/-! ### monitor on the API notes (the failing-input search) -/

structure Mon where
  admitted : Nat := 0          -- `ret wait` + `ret trywait 1`
  postsCalled : Nat := 0
  postsRet : Nat := 0
  inTry : List Nat := []       -- fibers between `call trywait` and its return
  open_ : Nat := 0             -- calls without a return yet

/-- Flags only definite violations:
    (a) over-admission: at some prefix, successful waits/trywaits > initial + posts begun;
    (b) a fiber switched away / yielded inside trywait (trywait must not block);
    (c) at `final v` (all fibers done): an operation still open, or
        v ≠ initial + posts − successful waits. -/
def monitor (init : Nat) (rs : List RawEv) : Option String :=
  let rec go (m : Mon) : List RawEv → Option String
    | [] => none
    | r :: rs =>
      let f := r.fiber
      if r.kind = "note" then
        match r.args with
        | ["call", "wait"] => go { m with open_ := m.open_ + 1 } rs
        | ["ret", "wait"] =>
          let m := { m with admitted := m.admitted + 1, open_ := m.open_ - 1 }
          if m.admitted > init + m.postsCalled then
            some s!"over-admission: {m.admitted} successful waits with initial {init} and {m.postsCalled} posts begun (fiber {f} returned from wait)"
          else go m rs
        | ["call", "trywait"] => go { m with open_ := m.open_ + 1, inTry := f :: m.inTry } rs
        | ["ret", "trywait", v] =>
          let m := { m with open_ := m.open_ - 1, inTry := m.inTry.filter (· ≠ f) }
          if v = "1" then
            let m := { m with admitted := m.admitted + 1 }
            if m.admitted > init + m.postsCalled then
              some s!"over-admission: {m.admitted} successful waits with initial {init} and {m.postsCalled} posts begun (fiber {f} trywait succeeded without a unit)"
            else go m rs
          else go m rs
        | ["call", "post"] => go { m with open_ := m.open_ + 1, postsCalled := m.postsCalled + 1 } rs
        | ["ret", "post"] => go { m with open_ := m.open_ - 1, postsRet := m.postsRet + 1 } rs
        | ["final", v] =>
          if m.open_ ≠ 0 then some s!"quiescence: {m.open_} operations still open at the end"
          else if v.toInt? ≠ some ((init : Int) + m.postsCalled - m.admitted) then
            some s!"quiescent value: counter {v} but initial {init} + posts {m.postsCalled} - successful waits {m.admitted}"
          else go m rs
        | _ => go m rs
      else if m.inTry.contains f ∧ (r.kind = "switch" ∨ r.func = "fiber_manager_yield") then
        some s!"trywait blocked: fiber {f} entered the scheduler inside trywait"
      else go m rs
  go {} rs

def drive (lines : List String) : IO UInt32 := do
  let args := initArgs lines          -- ["sem", kthreads, initial value, initial node address]
  let v := (args[2]? >>= String.toNat?).getD 0
  let node0 := (args[3]? >>= String.toNat?).getD 0
  let body := lines.filter (fun l => !isInit l)
  let res := validateP (sys v node0) ofRaw body
  report "Sem" res (monitor v (body.filterMap parseLine))

end LibfiberVerif.Sem
