/-
  Model/Cond.lean — src/fiber_cond.c (property C05) on top of src/fiber_mutex.c,
  fiber_manager_wait_in_mpsc_queue_and_unlock / fiber_manager_wake_from_mpsc_queue and the
  deferred `mutex_to_unlock` of fiber_manager_do_maintenance (src/fiber_manager.c).

  One condition variable C with its internal mutex I, one user mutex M.  Actors are FIBERS
  (any number).  One step = one access to a cell of C (`C.count`, `C.head`, `C.tail`), of I
  or M (`*.counter`, `*.head`, `*.tail`), of a queue node (`next`, `data`) or of a fiber's
  `state` / `mpsc_fifo_node` field inside the wait / wake functions, in exactly the order the
  C code performs them, plus the harness's API notes.

  C code:
    wait(C,M):   C.caller_mutex = M;  fetch_add(&C.count, 1);            // "registered"
                 manager->mutex_to_unlock = M;
                 wait_in_mpsc_queue(C.waiters): state = SAVING; node juggling;
                     node->next = NULL; prev = xchg(&C.tail, node); prev->next = node; yield
                 -- the SUCCESSOR fiber on that kernel thread runs, in do_maintenance,
                    fiber_mutex_unlock_internal(M)  (fetch_add M.counter [+ wake loop on M.waiters])
                 -- resumed after a signaller popped us:  fiber_mutex_lock(M)
    signal(C):   lock I; old = fetch_sub(&C.count,1);
                 old-1 >= 0 ? wake_from_mpsc_queue(C.waiters, 1) : fetch_add(&C.count,1); unlock I
    broadcast:   lock I; n = xchg(&C.count, 0); n != 0 ? wake_from_mpsc_queue(C.waiters, n); unlock I

  The two mutexes are the C03 model itself: `St.i` and `St.m` are `Mutex.St` and every
  access to a cell of I / M is replayed through `Mutex.step` (so the mutex-internal traffic is
  validated here as strictly as in C03).  The node/fiber maps are shared by the three queues
  (nodes migrate: a woken fiber receives the queue's old stub node), so `fnode`/`ndata` live
  in `Cond.St` and are copied into the sub-state around each `Mutex.step`.

  Actor names inside the sub-models: fiber `f` acts as `A f = 2f`; the deferred unlock of M
  "on behalf of the parked waiter w" is performed by the virtual actor `D w = 2w+1`
  (the successor fiber g only lends its instruction stream: while g runs the deferred
  unlock's wake loop, `onBehalf g = some w`).  M's ownership is handed from `A w` to `D w`
  at w's last step before it switches away (the `prev->next = node` link), because from
  then on w itself may be resumed and call `fiber_mutex_lock(M)` while the deferred unlock is
  still outstanding.  `deferred t = some w` models `manager[t]->mutex_to_unlock` (set in the
  step that registers w on kernel thread t, consumed by the next `fetch_add(M.counter)` on t
  that is not a harness-level unlock).

  The cond's own waiter queue is kept abstractly exactly as in Mutex.lean (`order`,
  `linked`, `hd`, `headNode`).
-/
import LibfiberVerif.Core.Sys
import LibfiberVerif.Core.Event
import LibfiberVerif.Driver
import LibfiberVerif.Model.Mutex

namespace LibfiberVerif.Cond

/-- fiber f acting for itself in a mutex sub-model -/
def A (f : Nat) : Nat := 2 * f
/-- the deferred-unlock agent of waiter w -/
def D (w : Nat) : Nat := 2 * w + 1

def WAITING : Nat := 3
def READY : Nat := 2
def SAVING : Nat := 5

/-- which queue / lock a tagged access belongs to -/
inductive Q | C | I | M
  deriving Repr, DecidableEq, Inhabited

/-- position inside one `trypop + wake` iteration on C.waiters -/
inductive WPc
  | top
  | gotHead (h : Nat)
  | gotNext (h x : Nat)
  | moved (h x : Nat)
  | gotData (h x g : Nat)
  | wrote (h g : Nat)
  | gotFiber (h g : Nat)
  | gaveNode (h g : Nat)
  | readState (g st : Nat)
  deriving Repr, DecidableEq, Inhabited

inductive Pc
  | idle                            -- not inside a cond operation (M traffic is tracked by `m`)
  | waitCalled                      -- `call wait` (holds M)
  | waitCounted                     -- fetch_add(C.count) done: registered
  | waitSaving
  | waitGotNode (n : Nat)
  | waitWroteData (n : Nat)
  | waitClearedNode (n : Nat)
  | pushCleared (n : Nat)
  | pushXchgd (n p i : Nat)         -- enqueued as order[i]; prev = p not yet linked
  | parked                          -- linked, switched away; M is now in the hands of `D w`
  | woken                           -- popped from C.waiters by a signaller
  | relock                          -- resumed: inside fiber_mutex_lock(M)
  | lockI (bc : Bool)               -- `call signal`/`call broadcast`: acquiring I
  | sigMiss                         -- signal saw no waiter (new value < 0): must add 1 back
  | wake (bc : Bool) (k : Nat) (w : WPc)  -- wake loop; k = fibers still to pop after this iteration's pop / incl. it before
  | unlockI (bc : Bool)             -- releasing I
  deriving Repr, DecidableEq, Inhabited

inductive Ev
  -- harness notes about M
  | callLock (f : Nat) | retLock (f : Nat) | callUnlock (f : Nat) | retUnlock (f : Nat)
  | csEnter (f : Nat) | csExit (f : Nat) (v : Nat)
  -- cond API notes
  | callWait (f : Nat) | retWait (f : Nat)
  | callSignal (f : Nat) (holds : Bool) | retSignal (f : Nat)
  | callBroadcast (f : Nat) (holds : Bool) | retBroadcast (f : Nat)
  -- C.count
  | fsubCount (f : Nat) (old : Int)
  | faddCount (t f : Nat) (old : Int)
  | xchgCount (f : Nat) (old : Int)
  -- tagged cells of the three queues / two locks
  | fsub (q : Q) (f : Nat) (old : Int)
  | fadd (q : Q) (t f : Nat) (old : Int)
  | xchgTail (q : Q) (f old new : Nat)
  | rHead (q : Q) (f n : Nat)
  | wHead (q : Q) (f n : Nat)
  -- node / fiber cells (which queue they serve follows from what the actor is doing)
  | wState (f g v : Nat)
  | rState (f g v : Nat)
  | rNode (f g n : Nat)
  | wNode (f g n : Nat)
  | wData (f n g : Nat)
  | rData (f n g : Nat)
  | wNext (f n x : Nat)
  | rNext (f n x : Nat)
  deriving Repr, DecidableEq, Inhabited

/-- per-fiber ghost history counters -/
structure G where
  claimed : Nat := 0      -- as signaller: amount claimed in the current call
  popped : Nat := 0       -- as signaller: pops performed in the current call
  holds : Bool := false   -- as signaller: the call was made holding M
  nC : Nat := 0           -- as waiter: #registrations (fetch_add)
  nE : Nat := 0           --            #enqueues (xchg on C.tail)
  nL : Nat := 0           --            #links (prev->next = node): switched away
  nU : Nat := 0           --            #releases of M on its behalf (deferred unlock)
  nP : Nat := 0           --            #times popped from C.waiters (released)
  nR : Nat := 0           --            #returns from wait
  deriving Repr, Inhabited

structure St where
  /-- user mutex M and internal mutex I: the C03 model (their own `fnode`/`ndata` are scratch) -/
  m : Mutex.St
  i : Mutex.St
  /-- shared: fiber (as `A f`) ↦ its mpsc node; node ↦ `data` (a fiber as `A g`, 0 = NULL) -/
  fnode : Nat → Nat
  ndata : Nat → Nat
  /-- C.waiter_count -/
  count : Int
  /-- C.waiters, abstractly: (node, fiber) in xchg order, link flags, #popped, current stub -/
  stub : Nat
  order : List (Nat × Nat)
  linked : Nat → Bool
  hd : Nat
  headNode : Nat
  pc : Nat → Pc
  /-- kernel thread ↦ waiter whose `mutex_to_unlock` is pending on that thread's manager -/
  deferred : Nat → Option Nat
  /-- fiber currently running a deferred unlock's wake loop ↦ the waiter it acts for -/
  onBehalf : Nat → Option Nat
  -- ghost history counters (never read by a guard)
  nreg : Nat                 -- registrations (fetch_add by waiters)
  nclaim : Nat               -- Σ claims (signals that saw ≥ 1, broadcast amounts)
  miss : Int                 -- 1 while a signal's fetch_sub(→ -1) awaits its add-back
  owed : Nat                 -- pops the current claimer still has to perform
  gh : Nat → G               -- per-fiber history counters

def tailNode (s : St) : Nat :=
  match s.order.getLast? with
  | some (n, _) => n
  | none => s.stub

def headNext (s : St) : Nat :=
  match s.order[s.hd]? with
  | some (n, _) => if s.linked s.hd then n else 0
  | none => 0

/-- node ids: 0 = NULL, 1 = CS, 2 = IS, 3 = MS, k+4 = N<k> -/
def init : St :=
  { m := Mutex.init 3 (fun _ => 0), i := Mutex.init 2 (fun _ => 0),
    fnode := fun a => if a % 2 = 0 then a / 2 + 4 else 0, ndata := fun _ => 0,
    count := 0, stub := 1, order := [], linked := fun _ => false, hd := 0, headNode := 1,
    pc := fun _ => .idle, deferred := fun _ => none, onBehalf := fun _ => none,
    nreg := 0, nclaim := 0, miss := 0, owed := 0, gh := fun _ => {} }

/-! ### running the mutex sub-models -/

def syncIn (s : St) (x : Mutex.St) : Mutex.St := { x with fnode := s.fnode, ndata := s.ndata }

def stepI (s : St) (e : Mutex.Ev) : Option St :=
  match Mutex.step (syncIn s s.i) e with
  | some x => some { s with i := x, fnode := x.fnode, ndata := x.ndata }
  | none => none

def stepM (s : St) (e : Mutex.Ev) : Option St :=
  match Mutex.step (syncIn s s.m) e with
  | some x => some { s with m := x, fnode := x.fnode, ndata := x.ndata }
  | none => none

def actorOf : Ev → Nat
  | .callLock f | .retLock f | .callUnlock f | .retUnlock f | .csEnter f | .csExit f _
  | .callWait f | .retWait f | .callSignal f _ | .retSignal f | .callBroadcast f _ | .retBroadcast f
  | .fsubCount f _ | .faddCount _ f _ | .xchgCount f _
  | .fsub _ f _ | .fadd _ _ f _ | .xchgTail _ f _ _ | .rHead _ f _ | .wHead _ f _
  | .wState f _ _ | .rState f _ _ | .rNode f _ _ | .wNode f _ _ | .wData f _ _ | .rData f _ _
  | .wNext f _ _ | .rNext f _ _ => f

def tagOf : Ev → Option Q
  | .fsub q _ _ | .fadd q _ _ _ | .xchgTail q _ _ _ | .rHead q _ _ | .wHead q _ _ => some q
  | _ => none

/-- the same access as an event of the mutex model, performed by sub-model actor `a` -/
def toMx (a : Nat) : Ev → Option Mutex.Ev
  | .fsub _ _ old => some (.fsub a old)
  | .fadd _ _ _ old => some (.fadd a old)
  | .xchgTail _ _ o n => some (.xchgTail a o n)
  | .rHead _ _ n => some (.rHead a n)
  | .wHead _ _ n => some (.wHead a n)
  | .wState _ g v => some (.wState a (A g) v)
  | .rState _ g v => some (.rState a (A g) v)
  | .rNode _ g n => some (.rNode a (A g) n)
  | .wNode _ g n => some (.wNode a (A g) n)
  | .wData _ n g => some (.wData a n (A g))
  | .rData _ n g => some (.rData a n (A g))
  | .wNext _ n x => some (.wNext a n x)
  | .rNext _ n x => some (.rNext a n x)
  | _ => none

/-- what a fiber's next queue access belongs to -/
inductive Ctx | c | i | m | d (w : Nat) | none
  deriving Repr, DecidableEq

def ctxOf (s : St) (f : Nat) : Ctx :=
  match s.onBehalf f with
  | some w => .d w
  | none =>
    match s.pc f with
    | .idle | .relock => .m
    | .lockI _ | .unlockI _ => .i
    | .waitCounted | .waitSaving | .waitGotNode _ | .waitWroteData _ | .waitClearedNode _
    | .pushCleared _ | .pushXchgd _ _ _ | .wake _ _ _ => .c
    | _ => .none

/-- enter the "release I" phase of signal / broadcast -/
def toUnlockI (s : St) (f : Nat) (bc : Bool) : Option St :=
  (stepI s (.callUnlock (A f))).map (fun s => { s with pc := upd s.pc f (.unlockI bc) })

/-- one trypop+wake iteration on C.waiters is complete -/
def finishOne (s : St) (f : Nat) (bc : Bool) (k : Nat) : Option St :=
  if k = 0 then toUnlockI s f bc else some { s with pc := upd s.pc f (.wake bc k .top) }

/-- if the deferred agent of `w` (driven by fiber `g`) is through, retire it -/
def retireD (s : St) (g w : Nat) : Option St :=
  if s.m.pc (D w) = .unlockDone then
    (stepM s (.retUnlock (D w))).map (fun s => { s with onBehalf := upd s.onBehalf g none })
  else some { s with onBehalf := upd s.onBehalf g (some w) }

/-- accesses made while working on the cond's own queue -/
def stepC (s : St) (f : Nat) : Ev → Option St
  | .wState f' g v =>
    match s.pc f with
    | .waitCounted => if f' = f ∧ g = f ∧ v = SAVING then some { s with pc := upd s.pc f .waitSaving } else none
    | .wake bc k (.readState g' st) =>
      if g = g' ∧ st = WAITING ∧ v = READY then finishOne s f bc k else none
    | _ => none
  | .rNode _ g n =>
    match s.pc f with
    | .waitSaving => if g = f ∧ n = s.fnode (A f) ∧ n ≠ 0 then some { s with pc := upd s.pc f (.waitGotNode n) } else none
    | _ => none
  | .wData _ n g =>
    match s.pc f with
    | .waitGotNode m' => if n = m' ∧ g = f then some { s with ndata := upd s.ndata n (A f), pc := upd s.pc f (.waitWroteData n) } else none
    | .wake bc k (.gotData h _ g') =>
      if n = h ∧ g = g' then some { s with ndata := upd s.ndata h (A g), pc := upd s.pc f (.wake bc k (.wrote h g)) } else none
    | _ => none
  | .wNode _ g n =>
    match s.pc f with
    | .waitWroteData m' => if g = f ∧ n = 0 then some { s with fnode := upd s.fnode (A f) 0, pc := upd s.pc f (.waitClearedNode m') } else none
    | .wake bc k (.gotFiber h g') =>
      if g = g' ∧ n = h then some { s with fnode := upd s.fnode (A g) h, pc := upd s.pc f (.wake bc k (.gaveNode h g)) } else none
    | _ => none
  | .wNext _ n x =>
    match s.pc f with
    | .waitClearedNode m' => if n = m' ∧ x = 0 then some { s with pc := upd s.pc f (.pushCleared m') } else none
    | .pushXchgd m' p i =>
      -- the link: w's last step before it switches away.  M passes from `A w` to `D w`.
      if n = p ∧ x = m' ∧ s.m.pc (A f) = .held ∧ s.m.owner = some (A f) ∧ s.m.pc (D f) = .idle then
        some { s with linked := upd s.linked i true, pc := upd s.pc f .parked, gh := upd s.gh f { s.gh f with nL := (s.gh f).nL + 1 },
                      m := { s.m with pc := upd (upd s.m.pc (A f) .idle) (D f) .held, owner := some (D f) } }
      else none
    | _ => none
  | .xchgTail q _ old new =>
    match s.pc f with
    | .pushCleared m' =>
      if q = .C ∧ new = m' ∧ old = tailNode s then
        some { s with order := s.order ++ [(m', f)], pc := upd s.pc f (.pushXchgd m' old s.order.length),
                      gh := upd s.gh f { s.gh f with nE := (s.gh f).nE + 1 } }
      else none
    | _ => none
  | .rHead q _ n =>
    match s.pc f with
    | .wake bc k .top => if q = .C ∧ n = s.headNode then some { s with pc := upd s.pc f (.wake bc k (.gotHead n)) } else none
    | _ => none
  | .rNext _ n x =>
    match s.pc f with
    | .wake bc k (.gotHead h) =>
      if n = h ∧ x = headNext s then
        if x = 0 then some { s with pc := upd s.pc f (.wake bc k .top) }     -- trypop failed: yield, retry
        else some { s with pc := upd s.pc f (.wake bc k (.gotNext h x)) }
      else none
    | _ => none
  | .wHead q _ n =>
    match s.pc f with
    | .wake bc k (.gotNext h x) =>
      if q = .C ∧ n = x then
        match s.order[s.hd]? with
        | some (_, g) =>
          -- the pop takes effect: the oldest enqueued waiter is released
          if s.pc g = .parked ∧ g ≠ f then
            some { s with headNode := x, hd := s.hd + 1, owed := s.owed - 1,
                          gh := upd (upd s.gh g { s.gh g with nP := (s.gh g).nP + 1 }) f
                                  { s.gh f with popped := (s.gh f).popped + 1 },
                          pc := upd (upd s.pc g .woken) f (.wake bc (k - 1) (.moved h x)) }
          else none
        | none => none
      else none
    | _ => none
  | .rData _ n g =>
    match s.pc f with
    | .wake bc k (.moved h x) =>
      if n = x ∧ A g = s.ndata x ∧ g ≠ 0 then some { s with pc := upd s.pc f (.wake bc k (.gotData h x g)) } else none
    | .wake bc k (.wrote h g') =>
      if n = h ∧ g = g' then some { s with pc := upd s.pc f (.wake bc k (.gotFiber h g)) } else none
    | _ => none
  | .rState _ g v =>
    match s.pc f with
    | .wake bc k (.gaveNode _ g') =>
      if g = g' ∧ (v = WAITING ∨ v = SAVING) then
        if v = WAITING then some { s with pc := upd s.pc f (.wake bc k (.readState g v)) }
        else finishOne s f bc k                   -- still SAVING: scheduled as is
      else none
    | _ => none
  | _ => none

/-- an access to a queue node / fiber field / I-cell / C-queue cell: which queue it serves follows
    from what the acting fiber is doing -/
def dispatch (s : St) (e : Ev) : Option St :=
  let f := actorOf e
  match ctxOf s f with
  | .c => if tagOf e = none ∨ tagOf e = some .C then stepC s f e else none
  | .i => if tagOf e = none ∨ tagOf e = some .I then (toMx (A f) e).bind (stepI s) else none
  | .m => if tagOf e = none ∨ tagOf e = some .M then (toMx (A f) e).bind (stepM s) else none
  | .d w =>
    if tagOf e = none ∨ tagOf e = some .M then
      ((toMx (D w) e).bind (stepM s)).bind (fun s => retireD s f w)
    else none
  | .none => none

/-- signal / broadcast call: start acquiring I -/
def callSig (s : St) (f : Nat) (h bc : Bool) : Option St :=
  if s.pc f = .idle ∧ s.onBehalf f = none ∧
      (if h then s.m.pc (A f) = .held ∧ s.m.owner = some (A f) else s.m.pc (A f) = .idle) then
    (stepI s (.callLock (A f))).map (fun s =>
      { s with pc := upd s.pc f (.lockI bc), gh := upd s.gh f { s.gh f with holds := h, claimed := 0, popped := 0 } })
  else none

def retSig (s : St) (f : Nat) (bc : Bool) : Option St :=
  if s.pc f = .unlockI bc ∧ s.onBehalf f = none then
    (stepI s (.retUnlock (A f))).map (fun s => { s with pc := upd s.pc f .idle })
  else none

def step (s : St) : Ev → Option St
  /- harness-level traffic on M -/
  | .callLock f => if s.pc f = .idle ∧ s.onBehalf f = none then stepM s (.callLock (A f)) else none
  | .retLock f => if s.pc f = .idle ∧ s.onBehalf f = none then stepM s (.retLock (A f)) else none
  | .callUnlock f => if s.pc f = .idle ∧ s.onBehalf f = none then stepM s (.callUnlock (A f)) else none
  | .retUnlock f => if s.pc f = .idle ∧ s.onBehalf f = none then stepM s (.retUnlock (A f)) else none
  | .csEnter f => if s.pc f = .idle then stepM s (.csEnter (A f)) else none
  | .csExit f v => if s.pc f = .idle then stepM s (.csExit (A f) v) else none
  /- wait -/
  | .callWait f =>
    if s.pc f = .idle ∧ s.onBehalf f = none ∧ s.m.pc (A f) = .held ∧ s.m.owner = some (A f) then
      some { s with pc := upd s.pc f .waitCalled }
    else none
  | .faddCount t f old =>
    if s.pc f = .waitCalled then
      -- registration; `manager[t]->mutex_to_unlock = M`
      if old = s.count ∧ s.deferred t = none then
        some { s with count := old + 1, nreg := s.nreg + 1, gh := upd s.gh f { s.gh f with nC := (s.gh f).nC + 1 },
                      deferred := upd s.deferred t (some f), pc := upd s.pc f .waitCounted }
      else none
    else if s.pc f = .sigMiss then
      if old = s.count then toUnlockI { s with count := old + 1, miss := 0 } f false else none
    else none
  | .retWait f =>
    if s.pc f = .relock then
      (stepM s (.retLock (A f))).map (fun s => { s with pc := upd s.pc f .idle, gh := upd s.gh f { s.gh f with nR := (s.gh f).nR + 1 } })
    else none
  /- signal / broadcast -/
  | .callSignal f h => callSig s f h false
  | .callBroadcast f h => callSig s f h true
  | .fsubCount f old =>
    if s.pc f = .lockI false ∧ old = s.count ∧ s.onBehalf f = none then
      (stepI s (.retLock (A f))).bind (fun s =>
        if old ≥ 1 then
          some { s with count := old - 1, nclaim := s.nclaim + 1, owed := 1, gh := upd s.gh f { s.gh f with claimed := 1 },
                        pc := upd s.pc f (.wake false 1 .top) }
        else some { s with count := old - 1, miss := 1, pc := upd s.pc f .sigMiss })
    else none
  | .xchgCount f old =>
    if s.pc f = .lockI true ∧ old = s.count ∧ old ≥ 0 ∧ s.onBehalf f = none then
      (stepI s (.retLock (A f))).bind (fun s =>
        let s := { s with count := 0, nclaim := s.nclaim + old.toNat, owed := old.toNat,
                          gh := upd s.gh f { s.gh f with claimed := old.toNat } }
        if old.toNat = 0 then toUnlockI s f true
        else some { s with pc := upd s.pc f (.wake true old.toNat .top) })
    else none
  | .retSignal f => retSig s f false
  | .retBroadcast f => retSig s f true
  | .fsub q f old =>
    if q = .M then
      if s.onBehalf f ≠ none then none
      else if s.pc f = .woken then
        -- a resumed waiter enters fiber_mutex_lock(M)
        ((stepM s (.callLock (A f))).bind (fun s => stepM s (.fsub (A f) old))).map
          (fun s => { s with pc := upd s.pc f .relock })
      else if s.pc f = .idle then stepM s (.fsub (A f) old)
      else none
    else dispatch s (.fsub q f old)
  | .fadd q t g old =>
    if q = .M then
      -- fetch_add(M.counter): a harness-level unlock, or the deferred unlock run by the successor
      if s.onBehalf g ≠ none then none
      else if s.pc g = .idle ∧ s.m.pc (A g) = .unlockCalled then stepM s (.fadd (A g) old)
      else
        match s.deferred t with
        | some w =>
          if s.m.pc (D w) = .held then
            (((stepM s (.callUnlock (D w))).bind (fun s => stepM s (.fadd (D w) old))).bind
              (fun s => retireD s g w)).map
              (fun s => { s with deferred := upd s.deferred t none, gh := upd s.gh w { s.gh w with nU := (s.gh w).nU + 1 } })
          else none
        | none => none
    else dispatch s (.fadd q t g old)
  | .xchgTail q f o n => dispatch s (.xchgTail q f o n)
  | .rHead q f n => dispatch s (.rHead q f n)
  | .wHead q f n => dispatch s (.wHead q f n)
  | .wState f g v => dispatch s (.wState f g v)
  | .rState f g v => dispatch s (.rState f g v)
  | .rNode f g n => dispatch s (.rNode f g n)
  | .wNode f g n => dispatch s (.wNode f g n)
  | .wData f n g => dispatch s (.wData f n g)
  | .rData f n g => dispatch s (.rData f n g)
  | .wNext f n x => dispatch s (.wNext f n x)
  | .rNext f n x => dispatch s (.rNext f n x)

def sys : Sys St Ev := { init := init, step := step }

/-! ### log decoding -/

def nodeId (s : String) : Option Nat :=
  if s = "0" then some 0
  else if s = "@CS" then some 1
  else if s = "@IS" then some 2
  else if s = "@MS" then some 3
  else if s.startsWith "@N" then (s.drop 2).toString.toNat?.map (· + 4)
  else none

def fiberId (s : String) : Option Nat :=
  if s.startsWith "@F" then (s.drop 2).toString.toNat? else none

def splitCell (c : String) : Option (String × String) :=
  match c.splitOn "." with
  | [a, b] => some (a, b)
  | _ => none

def cellNode (a : String) : Option Nat := nodeId ("@" ++ a)
def cellFiber (a : String) : Option Nat := fiberId ("@" ++ a)

def qOf (a : String) : Option Q :=
  if a = "C" then some .C else if a = "I" then some .I else if a = "M" then some .M else none

def schedulerFuncs : List String :=
  ["fiber_manager_yield", "fiber_scheduler_next", "fiber_manager_switch_to",
   "fiber_manager_do_maintenance", "fiber_mark_completed", "fiber_destroy"]

/-- the mutex counters are 32-bit ints printed as unsigned -/
def parseInt32 (s : String) : Option Int :=
  s.toNat?.map (fun n => if n ≥ 2147483648 then (n : Int) - 4294967296 else (n : Int))

/-- C.count is an intptr_t; accept both a signed and an unsigned 64-bit rendering -/
def parseInt64 (s : String) : Option Int :=
  match s.toInt? with
  | some v => some (if v ≥ 9223372036854775808 then v - 18446744073709551616 else v)
  | none => none

/-- events of the runtime layer (context switches, fiber life-cycle, run-queue API, spin hints) -/
def runtimeKinds : List String :=
  ["switch", "fcreate", "fdestroy", "relax", "rqpush", "rqpop", "rqsteal", "fence"]

def ofRaw (r : RawEv) : Option (Option Ev) :=
  let f := r.fiber
  if schedulerFuncs.contains r.func || runtimeKinds.contains r.kind then some none else
  match r.kind, r.args with
  | "note", ["call", "lock"] => some (some (.callLock f))
  | "note", ["ret", "lock"] => some (some (.retLock f))
  | "note", ["call", "unlock"] => some (some (.callUnlock f))
  | "note", ["ret", "unlock"] => some (some (.retUnlock f))
  | "note", ["call", "wait"] => some (some (.callWait f))
  | "note", ["ret", "wait"] => some (some (.retWait f))
  | "note", ["call", "signal", h] => some (some (.callSignal f (h = "1")))
  | "note", ["ret", "signal"] => some (some (.retSignal f))
  | "note", ["call", "broadcast", h] => some (some (.callBroadcast f (h = "1")))
  | "note", ["ret", "broadcast"] => some (some (.retBroadcast f))
  | "note", "cs" :: "enter" :: _ => some (some (.csEnter f))
  | "note", ["cs", "exit", _, v] => v.toNat?.map (fun v => some (.csExit f v))
  | "note", _ => some none
  | "switch", _ => some none
  | "fcreate", _ => some none
  | "fdestroy", _ => some none
  | "fsub", ["C.count", old, "1", _] => (parseInt64 old).map (fun o => some (.fsubCount f o))
  | "fadd", ["C.count", old, "1", _] => (parseInt64 old).map (fun o => some (.faddCount r.tid f o))
  | "xchg", ["C.count", old, "0", _] => (parseInt64 old).map (fun o => some (.xchgCount f o))
  | k, [c, a, b, _] =>
    match splitCell c with
    | some (q, "counter") => do
        let q ← qOf q; let o ← parseInt32 a
        if q = .C ∨ b ≠ "1" then none
        else if k = "fsub" then pure (some (.fsub q f o))
        else if k = "fadd" then pure (some (.fadd q r.tid f o))
        else none
    | some (q, "tail") => do
        let q ← qOf q; let o ← nodeId a; let n ← nodeId b
        if k = "xchg" then pure (some (.xchgTail q f o n)) else none
    | _ => none
  | k, [c, v] =>
    match splitCell c with
    | some (q, "head") => do
        let q ← qOf q; let n ← nodeId v
        if k = "w" then pure (some (.wHead q f n)) else if k = "r" then pure (some (.rHead q f n)) else none
    | some (a, "state") => do
        let g ← cellFiber a; let v ← v.toNat?
        if k = "w" then pure (some (.wState f g v)) else if k = "r" then pure (some (.rState f g v)) else none
    | some (a, "node") => do
        let g ← cellFiber a; let n ← nodeId v
        if k = "w" then pure (some (.wNode f g n)) else if k = "r" then pure (some (.rNode f g n)) else none
    | some (a, "next") => do
        let n ← cellNode a; let x ← nodeId v
        if k = "w" then pure (some (.wNext f n x)) else if k = "r" then pure (some (.rNext f n x)) else none
    | some (a, "data") => do
        let n ← cellNode a
        let g ← (if v = "0" then some 0 else fiberId v)
        if k = "w" then pure (some (.wData f n g)) else if k = "r" then pure (some (.rData f n g)) else none
    | _ => none
  | _, _ => none

/-! ### model-independent monitor on the API notes + the claim / pop accesses

  cw = `call wait` notes so far, cl = Σ claims so far (from the values the signallers'
  RMWs on C.count returned).  A signaller that holds M across its call comes after the
  deferred unlock of every fiber that noted `call wait`, so all of them are registered:
  its RMW must see exactly cw − cl (anything smaller = a signal issued after a waiter began
  waiting finds nobody = lost; anything larger = spurious).  Without M only ≤ is definite. -/

structure Mon where
  cw : Int := 0
  cl : Int := 0
  holders : List Nat := []          -- fibers that own M at API level
  inCs : List Nat := []
  sig : List (Nat × Bool × Option Nat × Nat) := []   -- signaller ↦ (holds M, claim, pops)
  justPopped : List Nat := []       -- signallers whose next `wNode` names the released fiber
  released : List Nat := []         -- released, not yet returned
  waiting : List Nat := []          -- between call wait and ret wait

def Mon.step (mo : Mon) : Ev → Except String Mon
  | .retLock f =>
    if mo.holders ≠ [] then .error s!"mutual exclusion: lock returned to {f} while {mo.holders} own M"
    else .ok { mo with holders := [f] }
  | .callUnlock f => .ok { mo with holders := mo.holders.filter (· ≠ f) }
  | .csEnter f =>
    if mo.inCs ≠ [] then .error s!"wait returned without the mutex: fiber {f} in its critical section while {mo.inCs} inside"
    else .ok { mo with inCs := [f] }
  | .csExit f _ => .ok { mo with inCs := mo.inCs.filter (· ≠ f) }
  | .callWait f => .ok { mo with cw := mo.cw + 1, holders := mo.holders.filter (· ≠ f), waiting := f :: mo.waiting }
  | .retWait f =>
    if !mo.released.contains f then .error s!"spurious wake-up: fiber {f} returned from wait without having been released"
    else if mo.holders ≠ [] then .error s!"wait returned without the mutex: fiber {f} returns while {mo.holders} own M"
    else .ok { mo with released := mo.released.erase f, waiting := mo.waiting.erase f, holders := [f] }
  | .callSignal f h => .ok { mo with sig := (f, h, none, 0) :: mo.sig.filter (·.1 ≠ f) }
  | .callBroadcast f h => .ok { mo with sig := (f, h, none, 0) :: mo.sig.filter (·.1 ≠ f) }
  | .fsubCount f old =>
    match mo.sig.find? (·.1 = f) with
    | some (_, h, none, _) =>
      let avail := mo.cw - mo.cl
      if old > avail then .error s!"spurious claim: signal by {f} saw {old} waiters, only {avail} can be waiting"
      else if h ∧ old < avail then .error s!"lost signal: signal by {f} (holding M) saw {old} waiters although {avail} began waiting and are unclaimed"
      else
        let c : Nat := if old ≥ 1 then 1 else 0
        .ok { mo with cl := mo.cl + c, sig := (f, h, some c, 0) :: mo.sig.filter (·.1 ≠ f) }
    | _ => .error s!"fetch_sub on the waiter count by {f} outside a signal"
  | .xchgCount f old =>
    match mo.sig.find? (·.1 = f) with
    | some (_, h, none, _) =>
      let avail := mo.cw - mo.cl
      if old > avail then .error s!"spurious claim: broadcast by {f} saw {old} waiters, only {avail} can be waiting"
      else if h ∧ old < avail then .error s!"lost broadcast: broadcast by {f} (holding M) saw {old} waiters although {avail} began waiting and are unclaimed"
      else if old < 0 then .error s!"broadcast by {f} saw a negative waiter count {old}"
      else .ok { mo with cl := mo.cl + old, sig := (f, h, some old.toNat, 0) :: mo.sig.filter (·.1 ≠ f) }
    | _ => .error s!"exchange on the waiter count by {f} outside a broadcast"
  | .wHead .C f _ =>
    match mo.sig.find? (·.1 = f) with
    | some (_, h, some c, p) =>
      if p + 1 > c then .error s!"spurious release: {f} pops a waiter beyond its claim of {c}"
      else .ok { mo with sig := (f, h, some c, p + 1) :: mo.sig.filter (·.1 ≠ f), justPopped := f :: mo.justPopped }
    | _ => .error s!"spurious release: {f} pops the cond's waiter queue without a claim"
  | .wNode f g _ =>
    if mo.justPopped.contains f then
      if !mo.waiting.contains g then .error s!"fiber {g} released by {f} although it is not waiting"
      else .ok { mo with justPopped := mo.justPopped.erase f, released := g :: mo.released }
    else .ok mo
  | .retSignal f | .retBroadcast f =>
    match mo.sig.find? (·.1 = f) with
    | some (_, _, some c, p) =>
      if p ≠ c then .error s!"lost wake-up: {f} returns from signal/broadcast having released {p} of the {c} waiters it claimed"
      else .ok { mo with sig := mo.sig.filter (·.1 ≠ f) }
    | _ => .error s!"{f} returns from signal/broadcast without having examined the waiter count"
  | _ => .ok mo

def monitor (evs : List Ev) : Option String :=
  let rec go (mo : Mon) : List Ev → Option String
    | [] => none
    | e :: es =>
      match mo.step e with
      | .error msg => some msg
      | .ok mo' => go mo' es
  go {} evs

def drive (lines : List String) : IO UInt32 := do
  let body := lines.filter (fun l => !isInit l)
  let v := validateP sys ofRaw body
  let evs := body.filterMap (fun l => (parseLine l).bind (fun r => (ofRaw r).join))
  report "Cond" v (monitor evs)

end LibfiberVerif.Cond
