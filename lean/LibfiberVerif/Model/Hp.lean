/-
  Model/Hp.lean — include/hazard_pointer.h + src/hazard_pointer.c (property C14).

  One model step = one access to a shared cell, in the order the (instrumented, -O1) C code
  performs them, plus the API notes the harness logs.  Threads are `Nat`-indexed and
  unbounded; thread `t` owns at most one record, also called `t`.  A record POINTER is
  encoded as `t + 1` (0 = NULL); a NODE is a positive number whose order is the address
  order of the nodes (0 = NULL).  `K` (= hazard_pointers_count) is arbitrary.

  C code being modelled
    create_and_push:  cur_head = load(head)
                      do { ret->next = cur_head;  threads = 1 + #records reachable from cur_head
                           (reads cur->next of each);  ret->retire_threshold = 2*threads*K }
                      while (!CAS(head, &cur_head, ret));
                      for (cur = ret->next; cur; cur = cur->next) fetch_add(&cur->retire_threshold, 2*K);
    using(n, i):      hp[i] = n;  store_load_barrier()              (logged as `fence 1`)
    done_using(i):    hp[i] = 0
    free(n):          push n on the private retired list; ++retired_count;
                      if (retired_count >= load(retire_threshold)) scan()
    scan:             head = load(*hptr->head);  max_pointers = load(head->retire_threshold) / 2;
                      for each record from head: for i < K: h = hp[i]; if (h) plist[index++] = h;
                                                 then read record->next
                      qsort(plist, index)        (trusted: any sorted permutation)
                      retired_count = 0; for each node of the old retired list (most recent first):
                        binary_search(plist, index, node) ? keep (++retired_count) : gc_function(node)

  Client protocol (harness/hazard.c; this is the API contract of the property): global
  pointers `G g`, each NULL or a node that is in at most one `G` cell;
    acquire g→slot:   loop { p = load G[g]; if !p fail; using(p, slot); if p == load G[g] break }
    unlink + retire:  old = xchg(G[g], fresh-or-NULL);  free(old)
  Ghost state: node life-cycle `ns`, VALIDATED protections `prot t slot` (set by the validating
  load, which can only succeed while the node is still in `G`, i.e. before its retirement;
  cleared when the slot is overwritten), the push-only list `recs` with `older t` = the list
  below `t`, and `bumpedBy t` = the joiners that have added 2K to `t`'s threshold.
-/
import LibfiberVerif.Core.Sys
import LibfiberVerif.Core.Event
import LibfiberVerif.Driver

namespace LibfiberVerif.Hp

/-! ### `binary_search` (static function of src/hazard_pointer.c), `ssize_t` as `Int` -/

/-- C's truncating division by two, spelled with the Euclidean `/` that `omega` understands. -/
theorem tdiv_two (a : Int) : a.tdiv 2 = if 0 ≤ a then a / 2 else -((-a) / 2) := by
  split
  · next h => exact Int.tdiv_eq_ediv_of_nonneg h
  · next h =>
    have h' : 0 ≤ -a := by omega
    have := Int.tdiv_eq_ediv_of_nonneg (b := 2) h'
    rw [Int.neg_tdiv] at this
    omega

/-- the `while (start <= end)` loop.  The window `[start, end]` shrinks in every iteration, so
    the loop runs at most `haystack_size + 1` times; `fuel` is that bound (it makes the function
    structurally recursive, hence evaluable by the kernel) and never runs out: see
    `bsLoop_fuel` in Proof/Hp.lean — the result does not depend on it. -/
def bsLoop (hay : List Nat) (needle : Nat) : Nat → Int → Int → Bool
  | 0, _, _ => false
  | fuel + 1, start, end_ =>
    if start ≤ end_ then
      let middle := (start + end_).tdiv 2
      let mv := hay.getD middle.toNat 0
      if mv > needle then bsLoop hay needle fuel start (middle - 1)
      else if mv < needle then bsLoop hay needle fuel (middle + 1) end_
      else true
    else false

/-- `binary_search(haystack, haystack_size, needle)` -/
def binarySearch (hay : List Nat) (needle : Nat) : Bool :=
  if hay.length = 0 then false else bsLoop hay needle (hay.length + 1) 0 ((hay.length : Int) - 1)

/-- `qsort` with `hazard_pointer_compare` is trusted to produce the sorted permutation; for a
    list of numbers that permutation is unique, so it can be computed. -/
def insertSorted (x : Nat) : List Nat → List Nat
  | [] => [x]
  | y :: ys => if x ≤ y then x :: y :: ys else y :: insertSorted x ys

def isort : List Nat → List Nat
  | [] => []
  | x :: xs => insertSorted x (isort xs)

/-! ### state -/

/-- ghost life-cycle of a node -/
inductive NSt
  | free
  | priv (t : Nat)
  | inG
  | unl (t : Nat)
  | retired (t : Nat)
  deriving Repr, DecidableEq, Inhabited

inductive Pc
  | fresh
  | joinCalled
  /-- `cur_head = ch`; next: `ret->next = ch` -/
  | joinHead (ch : Nat)
  /-- counting `threads`: `cur` is the record pointer under the cursor, `cnt` = threads so far -/
  | joinCount (ch cur cnt : Nat)
  /-- threshold stored; next: the CAS on `*head` -/
  | joinThr (ch : Nat)
  | joinPushed
  /-- bump loop: next is `fetch_add(&cur->retire_threshold)` (or return when `cur = 0`) -/
  | joinBump (cur : Nat)
  | joinBumped (cur : Nat)
  | idle
  | acqCalled (g sl : Nat)
  | acqLoaded (g sl p : Nat)
  | acqPublished (g sl p : Nat)
  | acqFenced (g sl p : Nat)
  | acqValidated (sl p : Nat)
  | acqUse (sl p : Nat)
  | acqRet (p : Nat)
  | relCalled (sl : Nat)
  | relDone
  | xCalled (g : Nat)
  | xAlloc (g n : Nat)
  | xDone (old : Nat)
  | freeCalled
  | freeRc (v : Nat)
  | freeInc
  | freeDone
  | xNote
  | xRet
  /-- `c = true`: the scan runs inside `hazard_pointer_free` -/
  | scanStart (c : Bool)
  | scanHead (c : Bool) (h : Nat)
  /-- walking: `h` = the head that was read, `cap` = max_pointers, `cur` record pointer, `i` next slot, `pl` = plist so far
      (`index = pl.length`), ghost `walked` = records completely read -/
  | scanWalk (c : Bool) (h cap cur i : Nat) (pl walked : List Nat)
  /-- after the sort: `sp` sorted plist, `todo` = rest of the old retired list -/
  | scanDecide (c : Bool) (sp todo : List Nat)
  | scanKeep (c : Bool) (sp : List Nat) (n : Nat) (todo : List Nat) (v : Nat)
  | scanNote
  deriving Repr, DecidableEq, Inhabited

/-- the thread's `create_and_push` has returned -/
def Pc.joined : Pc → Bool
  | .fresh | .joinCalled | .joinHead _ | .joinCount _ _ _ | .joinThr _ | .joinPushed
  | .joinBump _ | .joinBumped _ => false
  | _ => true

inductive Ev
  | callJoin (t : Nat)
  | retJoin (t : Nat)
  | ldHead (t v : Nat)
  | casHead (t found exp des : Nat) (ok : Bool)
  | wrNext (t r v : Nat)
  | rdNext (t r v : Nat)
  | stThr (t r v : Nat)
  | ldThr (t r v : Nat)
  | faddThr (t r old op : Nat)
  | rdRc (t r v : Nat)
  | wrRc (t r v : Nat)
  | rdHp (t r i v : Nat)
  | wrHp (t r i v : Nat)
  | fence (t : Nat)
  | ldG (t g v : Nat)
  | xchgG (t g old new : Nat)
  | callAcq (t g sl : Nat)
  | validated (t sl n : Nat)
  | use (t sl n : Nat)
  | retAcq (t n : Nat)
  | callRel (t sl : Nat)
  | retRel (t : Nat)
  | callX (t g : Nat)
  | alloc (t n : Nat)
  | callRetire (t n : Nat)
  | retRetire (t : Nat)
  | rcNote (t r v : Nat)
  | retX (t : Nat)
  | callScan (t : Nat)
  | retScan (t : Nat)
  | reclaim (t n : Nat)
  deriving Repr, DecidableEq, Inhabited

structure St where
  /-- hazard_pointers_count -/
  k : Nat
  /-- `*head` (record pointer) -/
  head : Nat
  next : Nat → Nat
  thr : Nat → Nat
  /-- retired_count -/
  rc : Nat → Nat
  hp : Nat → Nat → Nat
  g : Nat → Nat
  pc : Nat → Pc
  /-- the private retired list of each record, most recent first -/
  rlist : Nat → List Nat
  /-- ghost: records in the list, head first -/
  recs : List Nat
  /-- ghost: the list below `t` when it was pushed -/
  older : Nat → List Nat
  /-- ghost: joiners that have bumped `t`'s threshold -/
  bumpedBy : Nat → List Nat
  /-- ghost: validated protections -/
  prot : Nat → Nat → Nat
  /-- ghost: node life-cycle -/
  ns : Nat → NSt

def init (k : Nat) : St :=
  { k := k, head := 0, next := fun _ => 0, thr := fun _ => 0, rc := fun _ => 0,
    hp := fun _ _ => 0, g := fun _ => 0, pc := fun _ => .fresh, rlist := fun _ => [],
    recs := [], older := fun _ => [], bumpedBy := fun _ => [], prot := fun _ _ => 0,
    ns := fun _ => .free }

/-- update of a two-level family -/
def upd2 (f : Nat → Nat → Nat) (t i v : Nat) : Nat → Nat → Nat := upd f t (upd (f t) i v)

def setPc (s : St) (t : Nat) (p : Pc) : St := { s with pc := upd s.pc t p }

/-! ### steps, one function per event -/

def stepCallJoin (s : St) (t : Nat) : Option St :=
  match s.pc t with
  | .fresh => some (setPc s t .joinCalled)
  | _ => none

def stepRetJoin (s : St) (t : Nat) : Option St :=
  match s.pc t with
  | .joinBump 0 => some (setPc s t .idle)
  | _ => none

def stepLdHead (s : St) (t v : Nat) : Option St :=
  match s.pc t with
  | .joinCalled => if v = s.head then some (setPc s t (.joinHead v)) else none
  | .scanStart c => if v = s.head ∧ v ≠ 0 then some (setPc s t (.scanHead c v)) else none
  | _ => none

def stepWrNext (s : St) (t r v : Nat) : Option St :=
  match s.pc t with
  | .joinHead ch =>
    if r = t ∧ v = ch then some { s with next := upd s.next t v, pc := upd s.pc t (.joinCount ch ch 1) }
    else none
  | _ => none

def stepRdNext (s : St) (t r v : Nat) : Option St :=
  match s.pc t with
  | .joinCount ch cur cnt =>
    if cur ≠ 0 ∧ r = cur - 1 ∧ v = s.next r then some (setPc s t (.joinCount ch v (cnt + 1))) else none
  | .joinPushed => if r = t ∧ v = s.next r then some (setPc s t (.joinBump v)) else none
  | .joinBumped cur =>
    if cur ≠ 0 ∧ r = cur - 1 ∧ v = s.next r then some (setPc s t (.joinBump v)) else none
  | .scanWalk c h cap cur i pl walked =>
    if cur ≠ 0 ∧ i = s.k ∧ r = cur - 1 ∧ v = s.next r then
      some (setPc s t (.scanWalk c h cap v 0 pl (r :: walked)))
    else none
  | _ => none

def stepStThr (s : St) (t r v : Nat) : Option St :=
  match s.pc t with
  | .joinCount ch cur cnt =>
    if cur = 0 ∧ r = t ∧ v = 2 * cnt * s.k then
      some { s with thr := upd s.thr t v, pc := upd s.pc t (.joinThr ch) }
    else none
  | _ => none

def stepCasHead (s : St) (t found exp des : Nat) (ok : Bool) : Option St :=
  match s.pc t with
  | .joinThr ch =>
    if found = s.head ∧ exp = ch ∧ des = t + 1 ∧ ok = decide (found = exp) then
      if ok then
        some { s with head := des, recs := t :: s.recs, older := upd s.older t s.recs,
                      pc := upd s.pc t .joinPushed }
      else some (setPc s t (.joinHead found))
    else none
  | _ => none

def stepFaddThr (s : St) (t r old op : Nat) : Option St :=
  match s.pc t with
  | .joinBump cur =>
    if cur ≠ 0 ∧ r = cur - 1 ∧ old = s.thr r ∧ op = 2 * s.k then
      some { s with thr := upd s.thr r (old + op), bumpedBy := upd s.bumpedBy r (t :: s.bumpedBy r),
                    pc := upd s.pc t (.joinBumped cur) }
    else none
  | _ => none

def stepLdThr (s : St) (t r v : Nat) : Option St :=
  match s.pc t with
  | .freeInc =>
    if r = t ∧ v = s.thr r then
      some (setPc s t (if v ≤ s.rc t then .scanStart true else .freeDone))
    else none
  | .scanHead c h =>
    if r = h - 1 ∧ v = s.thr r then some (setPc s t (.scanWalk c h (v / 2) h 0 [] [])) else none
  | _ => none

def stepRdRc (s : St) (t r v : Nat) : Option St :=
  match s.pc t with
  | .freeCalled => if r = t ∧ v = s.rc t then some (setPc s t (.freeRc v)) else none
  | .scanDecide c sp (n :: todo) =>
    if binarySearch sp n = true ∧ r = t ∧ v = s.rc t then some (setPc s t (.scanKeep c sp n todo v))
    else none
  | _ => none

def stepWrRc (s : St) (t r v : Nat) : Option St :=
  match s.pc t with
  | .freeRc v0 =>
    if r = t ∧ v = v0 + 1 then some { s with rc := upd s.rc t v, pc := upd s.pc t .freeInc } else none
  | .scanWalk c _ _ cur _ pl _ =>
    if cur = 0 ∧ r = t ∧ v = 0 then
      some { s with rc := upd s.rc t 0, rlist := upd s.rlist t [],
                    pc := upd s.pc t (.scanDecide c (isort pl) (s.rlist t)) }
    else none
  | .scanKeep c sp n todo v0 =>
    if r = t ∧ v = v0 + 1 then
      some { s with rc := upd s.rc t v, rlist := upd s.rlist t (n :: s.rlist t),
                    pc := upd s.pc t (.scanDecide c sp todo) }
    else none
  | _ => none

def stepReclaim (s : St) (t n : Nat) : Option St :=
  match s.pc t with
  | .scanDecide c sp (m :: todo) =>
    if n = m ∧ binarySearch sp n = false then
      some { s with ns := upd s.ns n .free, pc := upd s.pc t (.scanDecide c sp todo) }
    else none
  | _ => none

def stepRdHp (s : St) (t r i v : Nat) : Option St :=
  match s.pc t with
  | .scanWalk c h cap cur j pl walked =>
    if cur ≠ 0 ∧ j < s.k ∧ r = cur - 1 ∧ i = j ∧ v = s.hp r i then
      some (setPc s t (.scanWalk c h cap cur (j + 1) (if v = 0 then pl else pl ++ [v]) walked))
    else none
  | _ => none

def stepWrHp (s : St) (t r i v : Nat) : Option St :=
  match s.pc t with
  | .acqLoaded g sl p =>
    if r = t ∧ i = sl ∧ v = p then
      some { s with hp := upd2 s.hp t sl v, prot := upd2 s.prot t sl 0,
                    pc := upd s.pc t (.acqPublished g sl p) }
    else none
  | .relCalled sl =>
    if r = t ∧ i = sl ∧ v = 0 then
      some { s with hp := upd2 s.hp t sl 0, prot := upd2 s.prot t sl 0, pc := upd s.pc t .relDone }
    else none
  | _ => none

def stepFence (s : St) (t : Nat) : Option St :=
  match s.pc t with
  | .acqPublished g sl p => some (setPc s t (.acqFenced g sl p))
  | _ => none

def stepLdG (s : St) (t g v : Nat) : Option St :=
  match s.pc t with
  | .acqCalled g' sl =>
    if g = g' ∧ v = s.g g then
      some (setPc s t (if v = 0 then .acqRet 0 else .acqLoaded g sl v))
    else none
  | .acqFenced g' sl p =>
    if g = g' ∧ v = s.g g then
      if v = p then
        -- the validating re-read: the protection of `p` by slot `sl` is established here
        some { s with prot := upd2 s.prot t sl p, pc := upd s.pc t (.acqValidated sl p) }
      else some (setPc s t (.acqCalled g sl))
    else none
  | _ => none

def stepValidated (s : St) (t sl n : Nat) : Option St :=
  match s.pc t with
  | .acqValidated sl' p => if sl = sl' ∧ n = p then some (setPc s t (.acqUse sl p)) else none
  | _ => none

def stepUse (s : St) (t sl n : Nat) : Option St :=
  match s.pc t with
  | .acqUse sl' p => if sl = sl' ∧ n = p then some (setPc s t (.acqRet p)) else none
  | .idle => if n ≠ 0 ∧ s.prot t sl = n then some s else none
  | _ => none

def stepRetAcq (s : St) (t n : Nat) : Option St :=
  match s.pc t with
  | .acqRet p => if n = p then some (setPc s t .idle) else none
  | _ => none

def stepCallAcq (s : St) (t g sl : Nat) : Option St :=
  match s.pc t with
  | .idle => if sl < s.k then some (setPc s t (.acqCalled g sl)) else none
  | _ => none

def stepCallRel (s : St) (t sl : Nat) : Option St :=
  match s.pc t with
  | .idle => if sl < s.k then some (setPc s t (.relCalled sl)) else none
  | _ => none

def stepRetRel (s : St) (t : Nat) : Option St :=
  match s.pc t with
  | .relDone => some (setPc s t .idle)
  | _ => none

def stepCallX (s : St) (t g : Nat) : Option St :=
  match s.pc t with
  | .idle => some (setPc s t (.xCalled g))
  | _ => none

def stepAlloc (s : St) (t n : Nat) : Option St :=
  match s.pc t with
  | .xCalled g =>
    if n = 0 then some (setPc s t (.xAlloc g 0))
    else if s.ns n = .free then some { s with ns := upd s.ns n (.priv t), pc := upd s.pc t (.xAlloc g n) }
    else none
  | _ => none

def stepXchgG (s : St) (t g old new : Nat) : Option St :=
  match s.pc t with
  | .xAlloc g' n =>
    if g = g' ∧ new = n ∧ old = s.g g then
      let ns1 := if new = 0 then s.ns else upd s.ns new .inG
      let ns2 := if old = 0 then ns1 else upd ns1 old (.unl t)
      some { s with g := upd s.g g new, ns := ns2, pc := upd s.pc t (.xDone old) }
    else none
  | _ => none

def stepCallRetire (s : St) (t n : Nat) : Option St :=
  match s.pc t with
  | .xDone old =>
    if n = old ∧ old ≠ 0 then
      some { s with rlist := upd s.rlist t (n :: s.rlist t), ns := upd s.ns n (.retired t),
                    pc := upd s.pc t .freeCalled }
    else none
  | _ => none

def stepRetRetire (s : St) (t : Nat) : Option St :=
  match s.pc t with
  | .freeDone => some (setPc s t .xNote)
  | .scanDecide true _ [] => some (setPc s t .xNote)
  | _ => none

def stepRcNote (s : St) (t r v : Nat) : Option St :=
  match s.pc t with
  | .xNote => if r = t ∧ v = s.rc t then some (setPc s t .xRet) else none
  | .scanNote => if r = t ∧ v = s.rc t then some (setPc s t .idle) else none
  | _ => none

def stepRetX (s : St) (t : Nat) : Option St :=
  match s.pc t with
  | .xDone 0 => some (setPc s t .idle)
  | .xRet => some (setPc s t .idle)
  | _ => none

def stepCallScan (s : St) (t : Nat) : Option St :=
  match s.pc t with
  | .idle => some (setPc s t (.scanStart false))
  | _ => none

def stepRetScan (s : St) (t : Nat) : Option St :=
  match s.pc t with
  | .scanDecide false _ [] => some (setPc s t .scanNote)
  | _ => none

def step (s : St) : Ev → Option St
  | .callJoin t => stepCallJoin s t
  | .retJoin t => stepRetJoin s t
  | .ldHead t v => stepLdHead s t v
  | .casHead t f e d ok => stepCasHead s t f e d ok
  | .wrNext t r v => stepWrNext s t r v
  | .rdNext t r v => stepRdNext s t r v
  | .stThr t r v => stepStThr s t r v
  | .ldThr t r v => stepLdThr s t r v
  | .faddThr t r old op => stepFaddThr s t r old op
  | .rdRc t r v => stepRdRc s t r v
  | .wrRc t r v => stepWrRc s t r v
  | .rdHp t r i v => stepRdHp s t r i v
  | .wrHp t r i v => stepWrHp s t r i v
  | .fence t => stepFence s t
  | .ldG t g v => stepLdG s t g v
  | .xchgG t g old new => stepXchgG s t g old new
  | .callAcq t g sl => stepCallAcq s t g sl
  | .validated t sl n => stepValidated s t sl n
  | .use t sl n => stepUse s t sl n
  | .retAcq t n => stepRetAcq s t n
  | .callRel t sl => stepCallRel s t sl
  | .retRel t => stepRetRel s t
  | .callX t g => stepCallX s t g
  | .alloc t n => stepAlloc s t n
  | .callRetire t n => stepCallRetire s t n
  | .retRetire t => stepRetRetire s t
  | .rcNote t r v => stepRcNote s t r v
  | .retX t => stepRetX s t
  | .callScan t => stepCallScan s t
  | .retScan t => stepRetScan s t
  | .reclaim t n => stepReclaim s t n

def sys (k : Nat) : Sys St Ev := { init := init k, step := step }

/-! ### log-line decoding -/

def afterPrefix (pre s : String) : Option String :=
  if s.startsWith pre then some (s.drop pre.length).toString else none

/-- `0` ↦ 0, `@R<t>` ↦ t+1 (record pointer), `@n<i>` ↦ i (node) -/
def parsePtr (s : String) : Option Nat :=
  if s = "0" then some 0
  else match afterPrefix "@R" s with
    | some r => r.toNat?.map (· + 1)
    | none => (afterPrefix "@n" s).bind String.toNat?

inductive Cell
  | head
  | next (r : Nat)
  | thr (r : Nat)
  | rc (r : Nat)
  | hp (r i : Nat)
  | g (i : Nat)

def parseCell (c : String) : Option Cell :=
  if c = "head" then some .head
  else match afterPrefix "next" c with
  | some r => r.toNat?.map Cell.next
  | none => match afterPrefix "thr" c with
  | some r => r.toNat?.map Cell.thr
  | none => match afterPrefix "rc" c with
  | some r => r.toNat?.map Cell.rc
  | none => match afterPrefix "hp" c with
  | some r => match r.splitOn "_" with
    | [a, b] => do let a ← a.toNat?; let b ← b.toNat?; pure (Cell.hp a b)
    | _ => none
  | none => match afterPrefix "G" c with
  | some r => r.toNat?.map Cell.g
  | none => none

def parseBool (s : String) : Option Bool :=
  if s = "1" then some true else if s = "0" then some false else none

def ofRaw (r : RawEv) : Option Ev :=
  let t := r.tid
  match r.kind, r.args with
  | "note", ["call", "join"] => some (.callJoin t)
  | "note", ["ret", "join"] => some (.retJoin t)
  | "note", ["call", "acq", g, sl] => do pure (.callAcq t (← g.toNat?) (← sl.toNat?))
  | "note", ["validated", sl, n] => do pure (.validated t (← sl.toNat?) (← parsePtr n))
  | "note", ["use", sl, n] => do pure (.use t (← sl.toNat?) (← parsePtr n))
  | "note", ["ret", "acq", n] => do pure (.retAcq t (← parsePtr n))
  | "note", ["call", "rel", sl] => do pure (.callRel t (← sl.toNat?))
  | "note", ["ret", "rel"] => some (.retRel t)
  | "note", ["call", "xchg", g] => do pure (.callX t (← g.toNat?))
  | "note", ["alloc", n] => do pure (.alloc t (← parsePtr n))
  | "note", ["call", "retire", n] => do pure (.callRetire t (← parsePtr n))
  | "note", ["ret", "retire"] => some (.retRetire t)
  | "note", ["retired_count", r, v] => do pure (.rcNote t (← r.toNat?) (← v.toNat?))
  | "note", ["ret", "xchg"] => some (.retX t)
  | "note", ["call", "scan"] => some (.callScan t)
  | "note", ["ret", "scan"] => some (.retScan t)
  | "note", ["reclaim", n] => do pure (.reclaim t (← parsePtr n))
  | "fence", ["1"] => some (.fence t)
  | "ld", [c, v, _] => do
    match ← parseCell c with
    | .head => pure (.ldHead t (← parsePtr v))
    | .thr r => pure (.ldThr t r (← v.toNat?))
    | .g i => pure (.ldG t i (← parsePtr v))
    | _ => none
  | "st", [c, v, _] => do
    match ← parseCell c with
    | .thr r => pure (.stThr t r (← v.toNat?))
    | _ => none
  | "fadd", [c, old, op, _] => do
    match ← parseCell c with
    | .thr r => pure (.faddThr t r (← old.toNat?) (← op.toNat?))
    | _ => none
  | "xchg", [c, old, new, _] => do
    match ← parseCell c with
    | .g i => pure (.xchgG t i (← parsePtr old) (← parsePtr new))
    | _ => none
  | "cas", [c, f, e, d, ok, _] => do
    match ← parseCell c with
    | .head => pure (.casHead t (← parsePtr f) (← parsePtr e) (← parsePtr d) (← parseBool ok))
    | _ => none
  | "r", [c, v] => do
    match ← parseCell c with
    | .next r => pure (.rdNext t r (← parsePtr v))
    | .rc r => pure (.rdRc t r (← v.toNat?))
    | .hp r i => pure (.rdHp t r i (← parsePtr v))
    | _ => none
  | "w", [c, v] => do
    match ← parseCell c with
    | .next r => pure (.wrNext t r (← parsePtr v))
    | .rc r => pure (.wrRc t r (← v.toNat?))
    | .hp r i => pure (.wrHp t r i (← parsePtr v))
    | _ => none
  | _, _ => none

/-! ### monitors evaluated while validating (the predicates the theorems of Props/C14 are about) -/

def Ev.tid : Ev → Nat
  | .callJoin t | .retJoin t | .ldHead t _ | .casHead t _ _ _ _ | .wrNext t _ _ | .rdNext t _ _
  | .stThr t _ _ | .ldThr t _ _ | .faddThr t _ _ _ | .rdRc t _ _ | .wrRc t _ _ | .rdHp t _ _ _
  | .wrHp t _ _ _ | .fence t | .ldG t _ _ | .xchgG t _ _ _ | .callAcq t _ _ | .validated t _ _
  | .use t _ _ | .retAcq t _ | .callRel t _ | .retRel t | .callX t _ | .alloc t _
  | .callRetire t _ | .retRetire t | .rcNote t _ _ | .retX t | .callScan t | .retScan t
  | .reclaim t _ => t

/-- some thread holds a validated protection of node `n` -/
def protectedNode (s : St) (n : Nat) : Bool :=
  s.recs.any (fun t => (List.range s.k).any (fun i => s.prot t i = n))

/-- definite violations of C14, checked on (pre-state, event, post-state) -/
def monitorStep (s : St) (e : Ev) (s' : St) : Option String :=
  let t := e.tid
  let m1 := match e with
    | .reclaim _ n =>
      if protectedNode s n then some s!"protected-reclaim: node {n} reclaimed while a validated protection is held"
      else none
    | .use _ _ n => if s.ns n = .free then some s!"use-after-reclaim: node {n}" else none
    | .rcNote _ r v =>
      if s.thr r ≤ v then some s!"garbage-bound: retired_count {v} >= threshold {s.thr r} after the operation"
      else none
    | .retScan _ | .retRetire _ =>
      match s.pc t with
      | .scanDecide _ _ _ =>
        if s.thr t < 2 * s.rc t then some s!"garbage-bound: after a scan 2*retired_count {s.rc t} > threshold {s.thr t}"
        else none
      | _ => none
    | _ => none
  let m2 := match s'.pc t with
    | .scanWalk _ _ cap _ _ pl _ =>
      if cap < pl.length then some s!"plist-overflow: index {pl.length} > max_pointers {cap}" else none
    | _ => none
  m1 <|> m2

/-- at the end (after the harness released every slot and scanned every record) no garbage is left -/
def monitorFinal (s : St) : Option String :=
  match s.recs.find? (fun t => s.rlist t ≠ [] ∨ s.rc t ≠ 0) with
  | some t => some s!"garbage-left: record {t} still holds {(s.rlist t).length} retired nodes after the final scans"
  | none => none

structure Run where
  st : St
  n : Nat := 0
  diverge : Option (Nat × String × String) := none
  mon : Option String := none

def runLines (k : Nat) (lines : List String) : Run := Id.run do
  let mut r : Run := { st := init k }
  for l in lines do
    if r.diverge.isSome then break
    match parseLine l with
    | none => r := { r with diverge := some (r.n + 1, l, "unparsable line") }
    | some raw =>
      match ofRaw raw with
      | none => r := { r with diverge := some (r.n + 1, l, "event not in the model's vocabulary") }
      | some e =>
        match step r.st e with
        | none => r := { r with diverge := some (r.n + 1, l, "model cannot take this step here") }
        | some s' =>
          let m := if r.mon.isSome then r.mon else monitorStep r.st e s'
          r := { r with st := s', n := r.n + 1, mon := m }
  return r

/-- `note actas <t>`: in the single-threaded drain phase the main thread works on behalf of
    record `t`; the following lines are attributed to thread `t`. -/
def applyActas (lines : List String) : List String := Id.run do
  let mut cur : Option Nat := none
  let mut out : Array String := #[]
  for l in lines do
    match parseLine l with
    | some r =>
      if r.kind = "note" ∧ r.args.head? = some "actas" then
        cur := (r.args.drop 1).head?.bind String.toNat?
      else
        match cur with
        | some t => out := out.push (String.intercalate " " (toString t :: toString r.fiber :: r.func :: r.kind :: r.args))
        | none => out := out.push l
    | none => out := out.push l
  return out.toList

def oracleNote (lines : List String) : Option String :=
  lines.findSome? (fun l => match parseLine l with
    | some r => if r.kind = "note" ∧ r.args.head? = some "ORACLE" then
        some ("oracle " ++ String.intercalate " " (r.args.drop 1)) else none
    | none => none)

def isOracle (l : String) : Bool :=
  match parseLine l with
  | some r => r.kind = "note" && r.args.head? = some "ORACLE"
  | none => false

/-- differential test of `binary_search`: `note bs <C result> <needle> <sorted values…>` -/
def driveBs (lines : List String) : IO UInt32 := do
  let mut n := 0
  let mut bad : Option String := none
  for l in lines do
    match parseLine l with
    | some r =>
      match r.kind, r.args with
      | "note", "bs" :: res :: needle :: vals =>
        match res.toNat?, needle.toNat?, vals.mapM String.toNat? with
        | some res, some needle, some vals =>
          n := n + 1
          let m := binarySearch vals needle
          if m ≠ (res == 1) ∧ bad.isNone then
            bad := some s!"binary_search differs: C={res} model={m} needle={needle} haystack={vals}"
          -- the model's own specification, re-checked on the sample
          if m ≠ vals.contains needle ∧ bad.isNone then
            bad := some s!"binary_search model is not membership: needle={needle} haystack={vals}"
        | _, _, _ => bad := some s!"bad bs line {l}"
      | _, _ => pure ()
    | none => pure ()
  match bad with
  | none => IO.println s!"VALIDATE OK model=Hp events={n}"; IO.println "MONITOR OK"; return 0
  | some b => IO.println s!"VALIDATE DIVERGE model=Hp event=0 why=\"{b}\" line=\"bs\""; IO.println "MONITOR OK"; return 1

/-- `verifdrv Hp <log>`: `note init hp <K> <arena> <G>` or `note init bs`. -/
def drive (lines : List String) : IO UInt32 := do
  match initArgs lines with
  | ["bs"] => driveBs lines
  | ["hp", k, _, _] =>
    match k.toNat? with
    | some k =>
      let body := lines.filter (fun l => !isInit l)
      let orc := oracleNote body
      let body := applyActas (body.filter (fun l => !isOracle l))
      let r := runLines k body
      let fin := if r.diverge.isNone then monitorFinal r.st else none
      report "Hp" (r.n, r.diverge) (orc <|> r.mon <|> fin)
    | none => IO.println "VALIDATE DIVERGE bad init"; return 1
  | _ => IO.println "VALIDATE DIVERGE missing init"; return 1

end LibfiberVerif.Hp
