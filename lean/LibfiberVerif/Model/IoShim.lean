/-
  Model/IoShim.lean — the libc shims of src/fiber_io.c on top of fiber_wait_for_event, the fd
  branch of fiber_poll_events_internal, fiber_event_wake_waiters and fiber_fd_closed of
  src/fiber_event_native.c (property C08).

  Actors are FIBERS (the `fiber` column of the log; maintenance / kernel-thread contexts are
  the pollers), any number of them, on any number of kernel threads.  Two layers share one
  state and one `step`:

  * S — one program counter per fiber that transcribes the control flow of each shim
    (`should_block` evaluations = atomic loads of `fd_info[fd].flags_`, the underlying libc
    calls with the KERNEL'S ANSWER as an input of the event, calls of fiber_wait_for_event,
    flag updates of fcntl / ioctl / close / setup_socket, the value returned);
  * E — per descriptor: `events`, `added`, the waiter list, the ticket spinlock, and the stage
    of the critical section currently executed under that spinlock (fiber_wait_for_event,
    the poller's fd branch, fiber_fd_closed, the wake loop), one stage per logged access;
    plus the ABSTRACT kernel side `interest fd` ("interest armed in epoll, or an event fetched
    by a poller and not yet processed") and `isOpen fd`.

  The decision points the model is parameterised by (`Decisions`) are extracted from the
  source on every run (extract/io_extract.py -> Gen/IoDecisions.lean).

  KernelSpec — what is ASSUMED of the kernel is written into the guards of the events that
  carry a kernel answer (and is therefore checked against the real kernel on every validated
  run):  a descriptor created by socket/socketpair/accept/pipe is in [0, max_fd) (RLIMIT);
  epoll_ctl ADD/MOD succeeds only on an open descriptor; epoll reports only descriptors that
  were registered (so in range); a non-blocking read/write/accept returns data, EOF, EAGAIN
  or another error, without blocking; a call on a descriptor that is not open fails
  (`KernelOk`, a hypothesis of the theorems that need it).
-/
import LibfiberVerif.Core.Sys
import LibfiberVerif.Core.Event
import LibfiberVerif.Driver
import LibfiberVerif.Gen.IoDecisions

namespace LibfiberVerif.IoShim

/-- pointwise update of an `Int`-indexed family (descriptor tables) -/
def updI {α : Type} (f : Int → α) (i : Int) (v : α) : Int → α :=
  fun j => if j = i then v else f j

@[simp] theorem updI_same {α : Type} (f : Int → α) (i : Int) (v : α) : updI f i v i = v := by
  simp [updI]

@[simp] theorem updI_other {α : Type} (f : Int → α) (i j : Int) (v : α) (h : j ≠ i) :
    updI f i v j = f j := by
  simp [updI, h]

def EAGAIN : Nat := 11
def EBADF : Nat := 9
def EINPROGRESS : Nat := 115
/-- IO_FLAG_BLOCKING, IO_FLAG_WAITABLE (src/fiber_io.c; compared with the harness's `init` note) -/
def FB : Nat := 1
def FW : Nat := 2
/-- EPOLLIN, EPOLLOUT -/
def EPIN : Nat := 1
def EPOUT : Nat := 4
def ONONBLOCK : Nat := 2048

/-- the decision points read from the source -/
structure Decisions where
  /-- should_block: `(flags & (B|W)) == (B|W)` (true) or `flags & (B|W)` (false)           [F-C08a] -/
  blockNeedsBoth : Bool
  /-- accept retries in a loop like read/write (true) or exactly once (false)               [F-C08b] -/
  acceptLoops : Bool
  /-- fcntl / ioctl / fiber_fd_closed index only descriptors in [0,max_fd) that the shims set up;
      everything else goes to the real libc call                                            [F-C08c] -/
  boundsChecked : Bool
  /-- fiber_wait_for_event sets errno = EBADF when the descriptor was closed meanwhile      [d] -/
  errnoOnClosed : Bool
  /-- the read family calls the kernel first and waits only after EAGAIN                    [e] -/
  readTriesFirst : Bool
  /-- fcntl(F_SETFL) follows the O_NONBLOCK bit of its argument, F_GETFL hides the private one [f] -/
  fcntlMask : Bool
  /-- fiber_wait_for_event fails instead of parking when epoll_ctl fails                    [h] -/
  ctlChecked : Bool
  /-- close(): waiters are woken AND the descriptor is closed under the descriptor's spinlock [j] -/
  closeUnderLock : Bool
  deriving DecidableEq, Repr, Inhabited

/-- the pinned tree before any C08 fix -/
def currentDecisions : Decisions :=
  { blockNeedsBoth := false, acceptLoops := false, boundsChecked := false, errnoOnClosed := false,
    readTriesFirst := false, fcntlMask := false, ctlChecked := false, closeUnderLock := false }

/-- the tree after the five `fix:` commits (F-C08a, b, c, d, h); e, f, j are known findings -/
def fixedDecisions : Decisions :=
  { blockNeedsBoth := true, acceptLoops := true, boundsChecked := true, errnoOnClosed := true,
    readTriesFirst := false, fcntlMask := false, ctlChecked := true, closeUnderLock := false }

/-- every candidate fix applied (docs/fix-C08{e,f,j}.diff on top) -/
def allFixedDecisions : Decisions :=
  { blockNeedsBoth := true, acceptLoops := true, boundsChecked := true, errnoOnClosed := true,
    readTriesFirst := true, fcntlMask := true, ctlChecked := true, closeUnderLock := true }

/-- what the CURRENT source implements (regenerated by extract/io_extract.py on every run) -/
def codeDecisions : Decisions :=
  { blockNeedsBoth := Gen.Io.blockNeedsBoth, acceptLoops := Gen.Io.acceptLoops,
    boundsChecked := Gen.Io.boundsChecked, errnoOnClosed := Gen.Io.errnoOnClosed,
    readTriesFirst := Gen.Io.readTriesFirst, fcntlMask := Gen.Io.fcntlMask,
    ctlChecked := Gen.Io.ctlChecked, closeUnderLock := Gen.Io.closeUnderLock }

/-- result of a libc call: a non-negative value or −1 with an errno -/
inductive Res
  | ok (n : Nat)
  | err (e : Nat)
  deriving DecidableEq, Repr, Inhabited

def Res.isErr : Res → Bool
  | .err _ => true
  | .ok _ => false

inductive Op
  | read | readv | recv | recvfrom | recvmsg
  | write | writev | send | sendto | sendmsg
  | accept | connect
  | close | fcntlNb | fcntlSet (nb : Bool) | fcntlGet | ioctlNbio (on : Bool)
  | socket | socketpair | pipe
  deriving DecidableEq, Repr, Inhabited

def Op.isRead : Op → Bool
  | .read | .readv | .recv | .recvfrom | .recvmsg => true
  | _ => false

def Op.isWrite : Op → Bool
  | .write | .writev | .send | .sendto | .sendmsg => true
  | _ => false

def Op.isAccept : Op → Bool
  | .accept => true
  | _ => false

def Op.isConnect : Op → Bool
  | .connect => true
  | _ => false

def Op.isSocket : Op → Bool
  | .socket => true
  | _ => false

def Op.isSocketpair : Op → Bool
  | .socketpair => true
  | _ => false

def Op.isPipe : Op → Bool
  | .pipe => true
  | _ => false

/-- the calls that may suspend the fiber -/
def Op.blocker (o : Op) : Bool := o.isRead || o.isWrite || o.isAccept || o.isConnect

/-- the epoll direction a blocked call waits for -/
def Op.dir (o : Op) : Nat := if o.isRead || o.isAccept then EPIN else EPOUT

structure Call where
  op : Op
  fd : Int
  /-- MSG_DONTWAIT -/
  dw : Bool
  deriving DecidableEq, Repr, Inhabited

/-- the `should_block` predicate on a loaded flags byte -/
def sb (D : Decisions) (v : Nat) : Bool :=
  if D.blockNeedsBoth then v &&& (FB ||| FW) == (FB ||| FW) else v &&& (FB ||| FW) != 0

def inRange (maxFd : Int) (fd : Int) : Bool := decide (0 ≤ fd) && decide (fd < maxFd)

/-- `fd_is_managed`: in range and IO_FLAG_WAITABLE -/
def managedV (v : Nat) : Bool := v &&& FW != 0

/-- S layer: where a fiber is inside a shim -/
inductive Pc
  | idle
  /-- do-while form (read family before fix e): `should_block` at the top of the loop body -/
  | sbTop (c : Call)
  /-- the underlying libc call is next -/
  | doSys (c : Call)
  /-- the call failed with EAGAIN (EINPROGRESS for connect): `should_block` of the loop condition -/
  | sbRetry (c : Call) (r : Res)
  /-- about to call fiber_wait_for_event (next: take a ticket of the descriptor's spinlock) -/
  | wantWait (c : Call)
  /-- inside fiber_wait_for_event: in the critical section, or parked -/
  | inWait (c : Call)
  /-- connect after a successful wait: getsockopt(SO_ERROR) decides -/
  | soErr (c : Call)
  /-- setup_socket of a new descriptor `n` (`left` = descriptors still to set up after it) -/
  | setupFlag (c : Call) (n : Int) (left : List Int) (r : Res)
  | setupCtl (c : Call) (n : Int) (left : List Int) (r : Res)
  /-- pipe(): the two fcntl calls come first, then the two flag updates -/
  | pipeCtl (c : Call) (todo : List Int) (both : List Int) (r : Res)
  | pipeFlag (c : Call) (todo : List Int) (r : Res)
  /-- fcntl / ioctl: `fd_is_managed` (a load of the flags) is next -/
  | mChk (c : Call)
  /-- the flag update of fcntl / ioctl is next; afterwards return `r` -/
  | mRmw (c : Call) (r : Res)
  /-- the real fcntl / ioctl is next -/
  | mSys (c : Call) (managed : Bool)
  /-- F_GETFL on a managed descriptor (fix f): the flags are loaded once more to mask the result -/
  | mGetMask (c : Call) (r : Nat)
  /-- close: fiber_fd_closed is next (take a ticket) -/
  | clSec (c : Call)
  | clInSec (c : Call)
  /-- close: `fd_info[fd].flags_ = 0` is next (outside the lock) -/
  | clStore (c : Call)
  /-- close: the real close is next (outside the lock) -/
  | clSys (c : Call)
  /-- the value the shim is about to return -/
  | retv (c : Call) (r : Res)
  /-- fiber_wait_for_event failed: −1 with whatever errno holds (EBADF with fix d) -/
  | retFail (c : Call)
  deriving DecidableEq, Repr, Inhabited

/-- E layer: the critical section in progress on one descriptor (`a` = the actor holding the lock) -/
inductive Sec
  | free
  -- fiber_wait_for_event(fd, bit)
  | w1 (a : Nat) (bit : Nat)                  -- next: read events
  | w2 (a : Nat) (bit : Nat) (prev : Nat)     -- next: write events | bit
  | w3 (a : Nat) (prev : Nat)                 -- next: read events (for e.events)
  | w4 (a : Nat) (prev : Nat)                 -- next: read added
  | w5 (a : Nat) (prev : Nat)                 -- next: epoll_ctl ADD / MOD
  | w6 (a : Nat)                              -- next: added := 1 (only after ADD)
  | w7 (a : Nat)                              -- next: read waiters
  | w8 (a : Nat) (h : Nat)                    -- next: scratch := old head
  | w9 (a : Nat)                              -- next: waiters := self
  | w10 (a : Nat)                             -- next: state := WAITING
  | wfail (a : Nat) (prev : Nat)              -- fix h: events := prev, then unlock and fail
  | wfailed (a : Nat)                         -- next: unlock by `a`
  | parked                                    -- lock still held; released by the successor fiber
  -- poller
  | p1 (a : Nat)                              -- next: read events
  | p2 (a : Nat) (old : Nat)                  -- next: write events & ~reported
  | p3 (a : Nat) (new : Nat)                  -- next: epoll_ctl MOD (re-arm what is left)
  -- fiber_fd_closed
  | c1 (a : Nat)                              -- next: read events/added
  | c2 (a : Nat)                              -- next: epoll_ctl DEL
  | c3 (a : Nat)                              -- next: events := 0
  | c4 (a : Nat)                              -- next: added := 0
  -- fiber_event_wake_waiters(result)
  | l1 (a : Nat) (res : Int)                  -- next: read waiters
  | l2 (a : Nat) (res : Int) (g : Nat)        -- next: read g.scratch
  | l3 (a : Nat) (res : Int) (g : Nat) (nx : Nat)  -- next: waiters := next
  | l4 (a : Nat) (res : Int) (g : Nat)        -- next: g.scratch := 0
  | l5 (a : Nat) (res : Int) (g : Nat)        -- next: g.state := READY
  | l6 (a : Nat) (res : Int) (g : Nat)        -- next: g.scratch := res
  /-- fix j: flags := 0 and the real close, still under the lock -/
  | cj1 (a : Nat)
  | cj2 (a : Nat)
  | done (a : Nat)                            -- next: unlock by `a`
  deriving DecidableEq, Repr, Inhabited

inductive Ev
  -- S layer
  | call (f : Nat) (c : Call)
  | ret (f : Nat) (op : Op) (r : Res)
  /-- atomic load of fd_info[fd].flags_ -/
  | fLoad (f : Nat) (fd : Int) (v : Nat)
  /-- atomic fetch_or / fetch_and of fd_info[fd].flags_ : old value, operand -/
  | fOr (f : Nat) (fd : Int) (old : Nat) (m : Nat)
  | fAnd (f : Nat) (fd : Int) (old : Nat) (m : Nat)
  /-- `fd_info[fd].flags_ = 0` -/
  | fStore (f : Nat) (fd : Int) (v : Nat)
  /-- result of the underlying libc call of the current shim -/
  | sys (f : Nat) (fd : Int) (r : Res)
  /-- result of socketpair()/pipe(): the two new descriptors -/
  | sys2 (f : Nat) (a : Int) (b : Int) (r : Res)
  /-- the real fcntl called by setup_socket / pipe on a new descriptor -/
  | sysCtl (f : Nat) (fd : Int) (r : Res)
  -- E layer: the ticket spinlock of wait_info[fd]
  | lkTake (a : Nat) (fd : Int) (old : Nat)
  | lkPoll (a : Nat) (fd : Int) (v : Nat)
  | ulLoad (a : Nat) (fd : Int) (v : Nat)
  | ulStore (a : Nat) (fd : Int) (v : Nat)
  -- E layer: accesses under the lock
  | rEvents (a : Nat) (fd : Int) (v : Nat)
  | wEvents (a : Nat) (fd : Int) (v : Nat)
  | rAdded (a : Nat) (fd : Int) (v : Nat)
  | wAdded (a : Nat) (fd : Int) (v : Nat)
  /-- 8-byte load of (events, added) in fiber_fd_closed -/
  | rBoth (a : Nat) (fd : Int) (ev : Nat) (ad : Nat)
  /-- epoll_ctl: op 0 = ADD, 1 = MOD, 2 = DEL; the mask; the kernel's answer -/
  | ctl (a : Nat) (op : Nat) (fd : Int) (mask : Nat) (okk : Bool)
  | rWaiters (a : Nat) (fd : Int) (h : Nat)
  | wWaiters (a : Nat) (fd : Int) (h : Nat)
  /-- accesses of a fiber's `scratch` / `state` inside the wait / wake functions (the descriptor
      is the one whose spinlock the actor holds, `St.cur`) -/
  | rScr (a : Nat) (g : Nat) (v : Int)
  | wScr (a : Nat) (g : Nat) (v : Int)
  | wSt (a : Nat) (g : Nat) (v : Nat)
  deriving DecidableEq, Repr, Inhabited

structure St where
  maxFd : Int
  -- S layer
  flags : Int → Nat
  pc : Nat → Pc
  /-- kernel: the descriptor is open -/
  isOpen : Int → Bool
  /-- ghost: results of the underlying calls of the current invocation, newest first -/
  syss : Nat → List Res
  /-- ghost: flags value seen by the latest `should_block` evaluation since the latest underlying
      call (none: no evaluation since then) -/
  lastChk : Nat → Option Nat
  /-- ghost: a successful close() of this descriptor number has happened at some time -/
  everClosed : Int → Bool
  -- E layer
  events : Int → Nat
  added : Int → Nat
  waiters : Int → List Nat
  users : Int → Nat
  ticket : Int → Nat
  /-- the ticket an actor is spinning for -/
  tk : Nat → Option (Int × Nat)
  sec : Int → Sec
  /-- the descriptor whose spinlock an actor holds -/
  cur : Nat → Option Int
  /-- result written into a woken fiber's scratch (0 = event, −1 = closed); none while not woken -/
  wres : Nat → Option Int
  /-- abstract kernel: interest armed in epoll, or its event fetched by a poller and not yet processed -/
  interest : Int → Nat

def init (maxFd : Int) : St :=
  { maxFd := maxFd, flags := fun _ => 0, pc := fun _ => .idle, isOpen := fun _ => false,
    syss := fun _ => [], lastChk := fun _ => none, everClosed := fun _ => false,
    events := fun _ => 0, added := fun _ => 0, waiters := fun _ => [], users := fun _ => 0,
    ticket := fun _ => 0, tk := fun _ => none, sec := fun _ => .free, cur := fun _ => none, wres := fun _ => none,
    interest := fun _ => 0 }

def WAITING : Nat := 3
def READY : Nat := 2

def headOf (l : List Nat) : Nat := l.headD 0

/-- may the shim retry after this result? -/
def retryable (o : Op) (r : Res) : Bool :=
  match r with
  | .err e => if o.isConnect then e == EINPROGRESS else e == EAGAIN
  | .ok _ => false

/-- first state of an invocation -/
def enter (D : Decisions) (maxFd : Int) (c : Call) : Pc :=
  match c.op with
  | .close =>
    -- fiber_fd_closed indexes wait_info[fd] (guarded only with fix c); the flags are cleared only
    -- for descriptors in range
    if D.boundsChecked && !inRange maxFd c.fd then .clSys c else .clSec c
  -- `fd_is_managed(fd)` loads the flags only for a descriptor in range
  | .fcntlNb =>
    if D.boundsChecked || D.fcntlMask then (if inRange maxFd c.fd then .mChk c else .mSys c false)
    else .mRmw c (.ok 0)
  | .fcntlSet _ => if D.fcntlMask && inRange maxFd c.fd then .mChk c else .mSys c false
  | .fcntlGet => if D.fcntlMask && inRange maxFd c.fd then .mChk c else .mSys c false
  | .ioctlNbio _ =>
    if D.boundsChecked then (if inRange maxFd c.fd then .mChk c else .mSys c false) else .mRmw c (.ok 0)
  | .socket | .socketpair | .pipe => .doSys c
  | o =>
    if o.isRead && !D.readTriesFirst && !c.dw && inRange maxFd c.fd then .sbTop c else .doSys c

/-- state after a `should_block` evaluation that came out true -/
def afterSbTrue (D : Decisions) (c : Call) (fromTop : Bool) : Pc :=
  -- in the do-while form the loop condition only sends control back to the top of the body
  if c.op.isRead && !D.readTriesFirst && !fromTop then .sbTop c else .wantWait c

/-- state after the kernel answered the underlying call (`n` = number of underlying calls so far) -/
def afterSys (D : Decisions) (maxFd : Int) (c : Call) (r : Res) (n : Nat) : Pc :=
  let again := retryable c.op r && !c.dw &&
    (if c.op.isAccept && !D.acceptLoops then n == 1 else if c.op.isConnect then n == 1 else true)
  if again then
    (if inRange maxFd c.fd then .sbRetry c r else .retv c r)
  else
    match c.op, r with
    | .accept, .ok n' => if n' > 0 then .setupFlag c (n' : Int) [] r else .retv c r
    | _, _ => .retv c r

/-- state after fiber_wait_for_event returned -/
def afterWait (c : Call) (ok : Bool) : Pc :=
  if !ok then .retFail c else if c.op.isConnect then .soErr c else .doSys c

def modeOp (o : Op) : Bool :=
  match o with
  | .fcntlNb | .fcntlSet _ | .fcntlGet | .ioctlNbio _ => true
  | _ => false

def lowNat (x : Int) : Nat := x.toNat

/-- which critical section an actor starts when it gets the lock of `fd` -/
def startSec (s : St) (a : Nat) (fd : Int) : Sec × Pc :=
  match s.pc a with
  | .wantWait c => if c.fd = fd then (.w1 a c.op.dir, .inWait c) else (.p1 a, s.pc a)
  | .clSec c => if c.fd = fd then (.c1 a, .clInSec c) else (.p1 a, s.pc a)
  | p => (.p1 a, p)

def step (D : Decisions) (s : St) : Ev → Option St
  -- ------------------------------------------------------------------ S layer
  | .call f c =>
    if s.pc f = .idle then
      some { s with pc := upd s.pc f (enter D s.maxFd c), syss := upd s.syss f [], lastChk := upd s.lastChk f none }
    else none
  | .fLoad f fd v =>
    if v ≠ s.flags fd then none else
    match s.pc f with
    | .sbTop c =>
      if fd = c.fd then
        some { s with lastChk := upd s.lastChk f (some v),
                      pc := upd s.pc f (if sb D v then afterSbTrue D c true else .doSys c) }
      else none
    | .sbRetry c r =>
      if fd = c.fd then
        some { s with lastChk := upd s.lastChk f (some v),
                      pc := upd s.pc f (if sb D v then afterSbTrue D c false else .retv c r) }
      else none
    | .mChk c =>
      -- fd_is_managed(fd): the load only happens for descriptors in range
      if fd = c.fd ∧ inRange s.maxFd fd then
        let m := managedV v
        match c.op with
        | .fcntlNb =>
          if D.fcntlMask then some { s with pc := upd s.pc f (.mSys c m) }
          else some { s with pc := upd s.pc f (if m then .mRmw c (.ok 0) else .mSys c false) }
        | .ioctlNbio _ => some { s with pc := upd s.pc f (if m then .mRmw c (.ok 0) else .mSys c false) }
        | _ => some { s with pc := upd s.pc f (.mSys c m) }
      else none
    | .mGetMask c r =>
      if fd = c.fd then
        some { s with pc := upd s.pc f (.retv c (.ok (if v &&& FB != 0 then r - (r &&& ONONBLOCK) else r))) }
      else none
    | _ => none
  | .fOr f fd old m =>
    if old ≠ s.flags fd then none else
    match s.pc f with
    | .setupFlag c n left r =>
      if fd = n ∧ m = (FB ||| FW) then
        some { s with flags := updI s.flags fd (old ||| m), pc := upd s.pc f (.setupCtl c n left r) }
      else none
    | .pipeFlag c todo r =>
      match todo with
      | n :: rest =>
        if fd = n ∧ m = (FB ||| FW) then
          some { s with flags := updI s.flags fd (old ||| m),
                        pc := upd s.pc f (if rest = [] then .retv c r else .pipeFlag c rest r) }
        else none
      | [] => none
    | .mRmw c r =>
      let want : Bool := match c.op with
        | .ioctlNbio on => !on
        | .fcntlSet nb => !nb
        | _ => false
      if fd = c.fd ∧ m = FB ∧ want then
        some { s with flags := updI s.flags fd (old ||| m), pc := upd s.pc f (.retv c r) }
      else none
    | _ => none
  | .fAnd f fd old m =>
    if old ≠ s.flags fd then none else
    match s.pc f with
    | .mRmw c r =>
      let want : Bool := match c.op with
        | .ioctlNbio on => on
        | .fcntlSet nb => nb
        | .fcntlNb => true
        | _ => false
      if fd = c.fd ∧ m = 254 ∧ want then
        some { s with flags := updI s.flags fd (old &&& m), pc := upd s.pc f (.retv c r) }
      else none
    | _ => none
  | .fStore f fd v =>
    match s.pc f with
    | .clStore c =>
      if fd = c.fd ∧ v = 0 ∧ inRange s.maxFd fd then
        some { s with flags := updI s.flags fd 0, pc := upd s.pc f (.clSys c) }
      else none
    | _ =>
      -- fix j: the store happens inside fiber_fd_close's critical section
      match s.sec fd with
      | .cj1 a => if a = f ∧ v = 0 then some { s with flags := updI s.flags fd 0, sec := updI s.sec fd (.cj2 a) } else none
      | _ => none
  | .sys f fd r =>
    match s.pc f with
    | .doSys c =>
      if c.op.isSocketpair || c.op.isPipe then none else
      if c.op.isSocket then
        match r with
        | .ok n =>
          -- KernelSpec: a new descriptor is inside [0, max_fd)
          if inRange s.maxFd (n : Int) then
            some { s with isOpen := updI s.isOpen (n : Int) true, pc := upd s.pc f (.setupFlag c (n : Int) [] r) }
          else none
        | .err _ => some { s with pc := upd s.pc f (.retv c r) }
      else if fd ≠ c.fd then none else
      let n := (s.syss f).length + 1
      let s1 := { s with syss := upd s.syss f (r :: s.syss f), lastChk := upd s.lastChk f none }
      match c.op, r with
      | .accept, .ok n' =>
        if inRange s.maxFd (n' : Int) then
          some { s1 with isOpen := updI s.isOpen (n' : Int) true, pc := upd s.pc f (afterSys D s.maxFd c r n) }
        else none
      | _, _ => some { s1 with pc := upd s.pc f (afterSys D s.maxFd c r n) }
    | .mSys c m =>
      if fd ≠ c.fd then none else
      match c.op with
      | .fcntlNb | .fcntlSet _ =>
        -- fix f: the flag follows the O_NONBLOCK bit, after the real call succeeded
        if D.fcntlMask ∧ m ∧ r = .ok 0 then some { s with pc := upd s.pc f (.mRmw c r) }
        else some { s with pc := upd s.pc f (.retv c r) }
      | .fcntlGet =>
        match r with
        | .ok v => if D.fcntlMask ∧ m then some { s with pc := upd s.pc f (.mGetMask c v) }
                   else some { s with pc := upd s.pc f (.retv c r) }
        | .err _ => some { s with pc := upd s.pc f (.retv c r) }
      | _ => some { s with pc := upd s.pc f (.retv c r) }
    | .clSys c =>
      if fd ≠ c.fd then none else
      match r with
      | .ok _ => some { s with isOpen := updI s.isOpen fd false, interest := updI s.interest fd 0,
                               everClosed := updI s.everClosed fd true, pc := upd s.pc f (.retv c r) }
      | .err _ => some { s with pc := upd s.pc f (.retv c r) }
    | _ =>
      -- fix j: the real close inside the critical section
      match s.sec fd with
      | .cj2 a =>
        if a ≠ f then none else
        match s.pc f with
        | .clInSec c =>
          match r with
          | .ok _ => some { s with isOpen := updI s.isOpen fd false, interest := updI s.interest fd 0,
                                   everClosed := updI s.everClosed fd true, sec := updI s.sec fd (.done a),
                                   syss := upd s.syss f [r] }
          | .err _ => some { s with sec := updI s.sec fd (.done a), syss := upd s.syss f [r] }
        | _ => none
      | _ => none
  | .sys2 f a b r =>
    match s.pc f with
    | .doSys c =>
      match r with
      | .ok _ =>
        if inRange s.maxFd a ∧ inRange s.maxFd b ∧ a ≠ b then
          let s1 := { s with isOpen := updI (updI s.isOpen a true) b true }
          if c.op.isSocketpair then some { s1 with pc := upd s.pc f (.setupFlag c a [b] r) }
          else if c.op.isPipe then some { s1 with pc := upd s.pc f (.pipeCtl c [a, b] [a, b] r) }
          else none
        else none
      | .err _ => if c.op.isSocketpair || c.op.isPipe then some { s with pc := upd s.pc f (.retv c r) } else none
    | _ => none
  | .sysCtl f fd r =>
    -- KernelSpec: F_SETFL on a descriptor that was just created succeeds
    if r ≠ .ok 0 then none else
    match s.pc f with
    | .setupCtl c n left r0 =>
      if fd ≠ n then none else
      match left with
      | n2 :: rest => some { s with pc := upd s.pc f (.setupFlag c n2 rest r0) }
      | [] => some { s with pc := upd s.pc f (.retv c r0) }
    | .pipeCtl c todo both r0 =>
      match todo with
      | n :: rest =>
        if fd ≠ n then none else
        some { s with pc := upd s.pc f (if rest = [] then .pipeFlag c both r0 else .pipeCtl c rest both r0) }
      | [] => none
    | _ => none
  | .ret f op r =>
    match s.pc f with
    | .retv c r0 => if op = c.op ∧ r = r0 then some { s with pc := upd s.pc f .idle } else none
    | .retFail c =>
      match r with
      | .err e => if op = c.op ∧ (D.errnoOnClosed → e = EBADF) then some { s with pc := upd s.pc f .idle } else none
      | .ok _ => none
    | .soErr c =>
      -- getsockopt(SO_ERROR) is not in the log: 0, or −1 with the pending error
      if op = c.op ∧ (r = .ok 0 ∨ r.isErr = true) then some { s with pc := upd s.pc f .idle } else none
    | _ => none
  -- ------------------------------------------------------------------ E layer: the spinlock
  | .lkTake a fd old =>
    if old ≠ s.users fd ∨ (s.tk a).isSome then none else
    -- which descriptors may be indexed: a waiter's and a closer's own, or (poller) a registered one
    let okIdx : Bool := match s.pc a with
      | .wantWait c => decide (c.fd = fd)
      | .clSec c => decide (c.fd = fd)
      | _ => inRange s.maxFd fd     -- KernelSpec: epoll reports registered descriptors only
    if okIdx then some { s with users := updI s.users fd (old + 1), tk := upd s.tk a (some (fd, old)) } else none
  | .lkPoll a fd v =>
    match s.tk a with
    | some (fd', t) =>
      if fd' ≠ fd ∨ v ≠ s.ticket fd then none else
      if v = t then
        if s.sec fd = .free then
          let (sc, p) := startSec s a fd
          some { s with tk := upd s.tk a none, sec := updI s.sec fd sc, cur := upd s.cur a (some fd), pc := upd s.pc a p }
        else none
      else some s
    | none => none
  | .ulLoad _ fd v => if v = s.ticket fd ∧ s.sec fd ≠ .free then some s else none
  | .ulStore a fd v =>
    if v ≠ s.ticket fd + 1 then none else
    match s.sec fd with
    | .parked => some { s with ticket := updI s.ticket fd v, sec := updI s.sec fd .free }
    | .wfailed b =>
      if a ≠ b then none else
      match s.pc b with
      | .inWait c => some { s with ticket := updI s.ticket fd v, sec := updI s.sec fd .free, cur := upd s.cur b none,
                                   pc := upd s.pc b (afterWait c false) }
      | _ => none
    | .done b =>
      if a ≠ b then none else
      match s.pc b with
      | .clInSec c =>
        -- fiber_fd_closed returns into close()
        some { s with ticket := updI s.ticket fd v, sec := updI s.sec fd .free, cur := upd s.cur b none,
                      pc := upd s.pc b (if D.closeUnderLock then .retv c ((s.syss b).headD (.ok 0))
                                        else if inRange s.maxFd c.fd then .clStore c else .clSys c) }
      | _ => some { s with ticket := updI s.ticket fd v, sec := updI s.sec fd .free, cur := upd s.cur b none }
    | _ => none
  -- ------------------------------------------------------------------ E layer: under the lock
  | .rEvents a fd v =>
    if v ≠ s.events fd then none else
    match s.sec fd with
    | .w1 b bit => if a = b then some { s with sec := updI s.sec fd (.w2 a bit v) } else none
    -- `prev_events = info->events` and the read of `info->events |= …` are two loads for EPOLLOUT
    | .w2 b _ _ => if a = b then some s else none
    | .w3 b prev => if a = b then some { s with sec := updI s.sec fd (.w4 a prev) } else none
    | .p1 b => if a = b then some { s with sec := updI s.sec fd (.p2 a v) } else none
    | _ => none
  | .wEvents a fd v =>
    match s.sec fd with
    | .w2 b bit prev =>
      if a = b ∧ v = prev ||| bit then some { s with events := updI s.events fd v, sec := updI s.sec fd (.w3 a prev) } else none
    | .wfail b prev =>
      if a = b ∧ v = prev then some { s with events := updI s.events fd v, sec := updI s.sec fd (.wfailed a) } else none
    | .p2 b old =>
      -- events &= ~reported; events &= IN|OUT : some of the bits go away; the fetched event is consumed
      if a = b ∧ v &&& old = v ∧ v &&& (EPIN ||| EPOUT) = v then
        some { s with events := updI s.events fd v, interest := updI s.interest fd 0,
                      sec := updI s.sec fd (if v = 0 then .l1 a 0 else .p3 a v) }
      else none
    | .c3 b => if a = b ∧ v = 0 then some { s with events := updI s.events fd 0, sec := updI s.sec fd (.c4 a) } else none
    | _ => none
  | .rAdded a fd v =>
    if v ≠ s.added fd then none else
    match s.sec fd with
    | .w4 b prev => if a = b then some { s with sec := updI s.sec fd (.w5 a prev) } else none
    | _ => none
  | .wAdded a fd v =>
    match s.sec fd with
    | .w6 b => if a = b ∧ v = 1 then some { s with added := updI s.added fd 1, sec := updI s.sec fd (.w7 a) } else none
    | .c4 b => if a = b ∧ v = 0 then some { s with added := updI s.added fd 0, sec := updI s.sec fd (.l1 a (-1)) } else none
    | _ => none
  | .rBoth a fd ev ad =>
    if ev ≠ s.events fd ∨ ad ≠ s.added fd then none else
    match s.sec fd with
    | .c1 b => if a = b then some { s with sec := updI s.sec fd (if ev ≠ 0 ∨ ad ≠ 0 then .c2 a else .l1 a (-1)) } else none
    | _ => none
  | .ctl a op fd mask okk =>
    match s.sec fd with
    | .w5 b prev =>
      -- ADD exactly when not yet added; the mask is what was just stored
      if a ≠ b ∨ mask ≠ s.events fd ∨ op ≠ (if s.added fd = 0 then 0 else 1) then none else
      if okk then
        -- KernelSpec: epoll_ctl succeeds only on an open descriptor
        if s.isOpen fd then
          some { s with interest := updI s.interest fd mask, sec := updI s.sec fd (if op = 0 then .w6 a else .w7 a) }
        else none
      else if D.ctlChecked then some { s with sec := updI s.sec fd (.wfail a prev) }
      else some { s with sec := updI s.sec fd (if op = 0 then .w6 a else .w7 a) }
    | .p3 b new =>
      if a ≠ b ∨ op ≠ 1 ∨ mask ≠ new then none else
      if okk then
        if s.isOpen fd then some { s with interest := updI s.interest fd mask, sec := updI s.sec fd (.l1 a 0) } else none
      else some { s with sec := updI s.sec fd (.l1 a 0) }
    | .c2 b =>
      if a ≠ b ∨ op ≠ 2 then none else
      some { s with interest := updI s.interest fd 0, sec := updI s.sec fd (.c3 a) }
    | _ => none
  | .rWaiters a fd h =>
    if h ≠ headOf (s.waiters fd) then none else
    match s.sec fd with
    | .w7 b => if a = b then some { s with sec := updI s.sec fd (.w8 a h) } else none
    | .l1 b res =>
      if a ≠ b then none else
      if h = 0 then
        -- the loop is over: the list is empty
        if s.waiters fd = [] then
          some { s with sec := updI s.sec fd (if res = -1 ∧ D.closeUnderLock then .cj1 a else .done a) }
        else none
      else some { s with sec := updI s.sec fd (.l2 a res h) }
    | _ => none
  | .wWaiters a fd h =>
    match s.sec fd with
    | .w9 b =>
      if a = b ∧ h = a ∧ a ≠ 0 then some { s with waiters := updI s.waiters fd (a :: s.waiters fd), sec := updI s.sec fd (.w10 a) } else none
    | .l3 b res g nx =>
      if a = b ∧ h = nx then some { s with waiters := updI s.waiters fd ((s.waiters fd).drop 1), sec := updI s.sec fd (.l4 a res g) } else none
    | _ => none
  | .rScr a g v =>
    match s.cur a with
    | some fd =>
      -- the waker (it holds the lock of `fd`) reads the next pointer of the head waiter = the
      -- second element of the list
      match s.sec fd with
      | .l2 b res g' =>
        if a = b ∧ g = g' ∧ v = (headOf ((s.waiters fd).drop 1) : Int) then
          some { s with sec := updI s.sec fd (.l3 a res g (headOf ((s.waiters fd).drop 1))) }
        else none
      | _ => none
    | none =>
      match s.pc a with
      | .inWait c =>
        -- the woken fiber reads the result the waker left in its scratch field
        if g = a ∧ s.wres a = some v then
          some { s with wres := upd s.wres a none, pc := upd s.pc a (afterWait c (v == 0)) }
        else none
      | _ => none
  | .wScr a g v =>
    match s.cur a with
    | some fd =>
      match s.sec fd with
      | .w8 b h => if a = b ∧ g = a ∧ v = (h : Int) then some { s with sec := updI s.sec fd (.w9 a) } else none
      | .l4 b res g' => if a = b ∧ g = g' ∧ v = 0 then some { s with sec := updI s.sec fd (.l5 a res g) } else none
      | .l6 b res g' =>
        if a = b ∧ g = g' ∧ v = res then
          some { s with wres := upd s.wres g (some res), sec := updI s.sec fd (.l1 a res) }
        else none
      | _ => none
    | none => none
  | .wSt a g v =>
    match s.cur a with
    | some fd =>
      match s.sec fd with
      | .w10 b =>
        -- parked: the lock stays held until the successor fiber releases it
        if a = b ∧ g = a ∧ v = WAITING then some { s with sec := updI s.sec fd .parked, cur := upd s.cur a none } else none
      | .l5 b res g' => if a = b ∧ g = g' ∧ v = READY then some { s with sec := updI s.sec fd (.l6 a res g) } else none
      | _ => none
    | none => none

def sys (D : Decisions) (maxFd : Int) : Sys St Ev := { init := init maxFd, step := step D }

/-- KernelSpec, the part that is a hypothesis on the kernel's answers rather than a guard of the
    model: a call on a descriptor that is not open fails with EBADF -/
def kernelOk (s : St) : Ev → Bool
  | .sys f fd r =>
    (match s.pc f with
     | .doSys c => c.op.isSocket        -- socket() takes no descriptor
     | _ => false) || s.isOpen fd || r == .err EBADF
  | _ => true

/-- the runs in which the kernel behaves as `kernelOk` says (a sub-system of `sys`) -/
def sysK (D : Decisions) (maxFd : Int) : Sys St Ev :=
  { init := init maxFd, step := fun s e => if kernelOk s e then step D s e else none }

/-! ### log decoding -/

def opOfName (name : String) (n : Int) : Option Op :=
  match name with
  | "read" => some .read | "readv" => some .readv | "recv" => some .recv
  | "recvfrom" => some .recvfrom | "recvmsg" => some .recvmsg
  | "write" => some .write | "writev" => some .writev | "send" => some .send
  | "sendto" => some .sendto | "sendmsg" => some .sendmsg
  | "accept" => some .accept | "connect" => some .connect | "close" => some .close
  | "fcntl_nb" => some .fcntlNb | "fcntl_nbo" => some (.fcntlSet true) | "fcntl_bl" => some (.fcntlSet false)
  | "fcntl_getfl" => some .fcntlGet
  | "ioctl_fionbio" => some (.ioctlNbio (n != 0))
  | "socket" => some .socket | "socketpair" => some .socketpair | "pipe" => some .pipe
  | _ => none

def resOf (r : Int) (e : Nat) : Res := if r < 0 then .err e else .ok r.toNat

/-- `@F17` ↦ 17, `0` ↦ 0 -/
def fibOf (s : String) : Option Nat :=
  if s = "0" then some 0
  else if s.startsWith "@F" then (s.drop 2).toString.toNat?
  else none

def scrOf (s : String) : Option Int :=
  if s.startsWith "@F" then ((s.drop 2).toString.toNat?).map (fun n => (n : Int)) else s.toInt?

/-- split `name+off/size` -/
def cellParts (c : String) : String × Nat × Option Nat :=
  let (c1, size) := match c.splitOn "/" with
    | [a, b] => (a, b.toNat?)
    | _ => (c, none)
  match c1.splitOn "+" with
  | [a, b] => (a, b.toNat?.getD 0, size)
  | _ => (c1, 0, size)

/-- descriptor of a `W…` cell name: `W5` ↦ 5, `Wlo` ↦ −1, `Whi3` ↦ maxFd + 3 -/
def wFd (maxFd : Int) (nm : String) : Option Int :=
  if nm = "Wlo" then some (-1)
  else if nm.startsWith "Whi" then ((nm.drop 3).toString.toNat?).map (fun j => maxFd + (j : Int))
  else if nm.startsWith "W" then ((nm.drop 1).toString.toNat?).map (fun j => (j : Int))
  else none

/-- descriptor of a flags byte: `FI<k>` + offset; the guard words just outside the array -/
def fiFd (maxFd : Int) (nm : String) (off : Nat) : Option Int :=
  if nm = "FIlo" then some ((off : Int) - 8)
  else if nm = "FIhi" then some ((maxFd + 7) / 8 * 8 + (off : Int))
  else if nm = "FIhi2" then some ((maxFd + 7) / 8 * 8 + 8 + (off : Int))
  else if nm.startsWith "FI" then ((nm.drop 2).toString.toNat?).map (fun k => (8 * k + off : Nat))
  else none

def schedulerFuncs : List String :=
  ["fiber_manager_yield", "fiber_scheduler_next", "fiber_manager_switch_to",
   "fiber_manager_do_maintenance", "fiber_mark_completed", "fiber_destroy", "fiber_manager_schedule",
   "fiber_scheduler_schedule", "fiber_scheduler_load_balance", "fiber_manager_set_and_wait",
   "fiber_manager_clear_or_wait", "fiber_join", "fiber_context_init", "fiber_context_destroy"]

def skipKinds : List String :=
  ["switch", "fcreate", "fdestroy", "rqpush", "rqpop", "rqsteal", "relax", "fence"]

def ofRaw (maxFd : Int) (r : RawEv) : Option (Option Ev) :=
  let f := r.fiber
  if skipKinds.contains r.kind then some none else
  match r.kind, r.args with
  | "note", "call" :: name :: fd :: n :: dw :: _ =>
    if name = "shutdown" then some none else do
      let fd ← fd.toInt?; let n ← n.toInt?
      let op ← opOfName name n
      pure (some (.call f { op := op, fd := fd, dw := dw = "1" }))
  | "note", ["ret", name, rv, e] =>
    if name = "shutdown" then some none else do
      let rv ← rv.toInt?; let e ← e.toNat?
      let op ← opOfName name (if name = "ioctl_fionbio" then 0 else 0)
      pure (some (.ret f op (resOf rv e)))
  | "note", "sys" :: name :: rest =>
    match name, rest with
    | "socketpair", [a, b, rv, e] | "pipe", [a, b, rv, e] => do
      let a ← a.toInt?; let b ← b.toInt?; let rv ← rv.toInt?; let e ← e.toNat?
      pure (some (.sys2 f a b (resOf rv e)))
    | "fcntl", [fd, rv, e, code] => do
      let fd ← fd.toInt?; let rv ← rv.toInt?; let e ← e.toNat?; let code ← code.toNat?
      -- only F_GETFL (3) / F_SETFL (4) belong to the modelled calls (the harness also uses F_SETPIPE_SZ)
      if code / 100000 ≠ 3 ∧ code / 100000 ≠ 4 then pure none else
      if r.func = "setup_socket" ∨ r.func = "pipe" then pure (some (.sysCtl f fd (resOf rv e)))
      else pure (some (.sys f fd (resOf rv e)))
    | _, [fd, rv, e] => do
      let fd ← fd.toInt?; let rv ← rv.toInt?; let e ← e.toNat?
      pure (some (.sys f fd (resOf rv e)))
    | _, _ => none
  | "note", ["epctl", op, fd, mask, rv, _] =>
    if r.func = "fiber_event_init" then some none else do
      let fd ← fd.toInt?; let mask ← mask.toNat?; let rv ← rv.toInt?
      let o ← (if op = "ADD" then some 0 else if op = "MOD" then some 1 else if op = "DEL" then some 2 else none)
      pure (some (.ctl f o fd mask (rv == 0)))
  | "note", _ => some none
  | k, cell :: vals =>
    let (nm, off, _size) := cellParts cell
    match nm.splitOn "." with
    | [w, "ea"] => do
      let fd ← wFd maxFd w
      match k, off, _size, vals with
      | "r", 0, some 4, [v] => do let v ← v.toNat?; pure (some (.rEvents f fd v))
      | "w", 0, some 4, [v] => do let v ← v.toNat?; pure (some (.wEvents f fd v))
      | "r", 4, some 4, [v] => do let v ← v.toNat?; pure (some (.rAdded f fd v))
      | "w", 4, some 4, [v] => do let v ← v.toNat?; pure (some (.wAdded f fd v))
      | "r", 0, none, [v] => do let v ← v.toNat?; pure (some (.rBoth f fd (v % 4294967296) (v / 4294967296)))
      | _, _, _, _ => none
    | [w, "lock"] => do
      let fd ← wFd maxFd w
      match k, off, vals with
      | "fadd", 4, [old, "1", _] => do let o ← old.toNat?; pure (some (.lkTake f fd o))
      | "ld", 0, [v, _] => do
        let v ← v.toNat?
        if r.func = "fiber_spinlock_unlock" then pure (some (.ulLoad f fd v)) else pure (some (.lkPoll f fd v))
      | "st", 0, [v, _] => do let v ← v.toNat?; pure (some (.ulStore f fd v))
      | _, _, _ => none
    | [w, "waiters"] => do
      let fd ← wFd maxFd w
      match k, vals with
      | "r", [v] => do let h ← fibOf v; pure (some (.rWaiters f fd h))
      | "w", [v] => do let h ← fibOf v; pure (some (.wWaiters f fd h))
      | _, _ => none
    | [fb, "scratch"] => do
      let g ← (if fb.startsWith "F" then (fb.drop 1).toString.toNat? else none)
      match k, vals with
      | "r", [v] => do let v ← scrOf v; pure (some (.rScr f g v))
      | "w", [v] => do let v ← scrOf v; pure (some (.wScr f g v))
      | _, _ => none
    | [fb, "state"] =>
      if schedulerFuncs.contains r.func then some none else do
        let g ← (if fb.startsWith "F" then (fb.drop 1).toString.toNat? else none)
        match k, vals with
        | "w", [v] => do let v ← v.toNat?; pure (some (.wSt f g v))
        | _, _ => none
    | [fi] =>
      if fi.startsWith "FI" then do
        let fd ← fiFd maxFd fi off
        match k, vals with
        | "ld", [v, _] => do let v ← v.toNat?; pure (some (.fLoad f fd v))
        | "for", [old, m, _] => do let o ← old.toNat?; let m ← m.toNat?; pure (some (.fOr f fd o m))
        | "fand", [old, m, _] => do let o ← old.toNat?; let m ← m.toNat?; pure (some (.fAnd f fd o m))
        | "st", [v, _] => do let v ← v.toNat?; pure (some (.fStore f fd v))
        | _, _ => none
      else none
    | _ => none
  | _, _ => none

/-- the `ioctl_fionbio` return note does not repeat the argument: take it from the pending call -/
def fixRet (s : St) : Ev → Ev
  | .ret f op r =>
    match op, s.pc f with
    | .ioctlNbio _, .retv c _ => .ret f c.op r
    | _, _ => .ret f op r
  | e => e

def sysV (D : Decisions) (maxFd : Int) : Sys St Ev :=
  { init := init maxFd, step := fun s e => (sysK D maxFd).step s (fixRet s e) }

def drive (lines : List String) : IO UInt32 := do
  let args := initArgs lines            -- io <kthreads> <max_fd> <event max_fd> <B> <W> <epoll fd>
  let maxFd : Int := (args[2]?.bind String.toInt?).getD 0
  let evMax : Int := (args[3]?.bind String.toInt?).getD (-1)
  let fb := (args[4]?.bind String.toNat?).getD 0
  let fw := (args[5]?.bind String.toNat?).getD 0
  if args.head? ≠ some "io" ∨ maxFd ≠ evMax ∨ fb ≠ FB ∨ fw ≠ FW ∨ Gen.Io.flagBlocking ≠ FB ∨ Gen.Io.flagWaitable ≠ FW then
    report "IoShim" (0, some (0, "init", "init note / flag constants do not match the model")) none
  else
    let body := lines.filter (fun l => !isInit l)
    let v := validateP (sysV codeDecisions maxFd) (ofRaw maxFd) body
    report "IoShim" v none

end LibfiberVerif.IoShim
