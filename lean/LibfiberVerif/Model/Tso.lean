/-
  Model/Tso.lean — a tiny executable x86-TSO memory layer (store buffers).

  All property theorems of this library are about sequentially consistent interleavings
  (DESIGN.md §3).  The hardware is x86-64 = TSO: every core owns a FIFO store buffer, a store
  becomes visible to the other cores only when it drains, a core's own loads see its own
  buffered stores (store forwarding), and `lock`-prefixed read-modify-writes, `mfence` and
  `seq_cst` stores (compiled to `xchg`, or `mov` + `mfence`) wait for the buffer to drain.
  TSO differs from SC in exactly one way: a store followed by a LOAD OF ANOTHER CELL may take
  effect after that load.

  This file is the generic part:
    * memory `Nat → Int` (cell ids), one FIFO buffer `List (cell × value)` per thread;
    * `store t c v`   append to `t`'s buffer;
    * `load t c`      newest entry for `c` in `t`'s OWN buffer, else memory;
    * `flush t`       the oldest entry of `t`'s buffer goes to memory — a nondeterministic
                      environment event of the models built on this layer;
    * `drained t`     `t`'s buffer is empty: the enabling condition of a fence, of a locked
                      RMW and of whatever follows a `seq_cst` store (the instruction waits until
                      enough `flush t` events have happened; `drainAll` is the same thing done
                      in one go, see `Proof/Tso.lean: drainAll_eq_flushN`);
    * `poke c v`      write straight to memory (the write half of a locked RMW, issued only
                      when `drained`).

  Two models use it: `Model/WsdTso.lean` (Chase–Lev deque, the seq_cst store of pop_bottom)
  and `Model/HpTso.lean` (hazard-pointer publish/validate, `store_load_barrier()`); their
  theorems are in `Props/Tso.lean`.
-/
import LibfiberVerif.Core.Sys

namespace LibfiberVerif.Tso

/-- a store buffer: oldest entry first -/
abbrev Buf := List (Nat × Int)

structure Mem where
  /-- shared memory: what the other cores see -/
  mem : Nat → Int
  /-- per-thread FIFO store buffer -/
  buf : Nat → Buf

def Mem.init : Mem := { mem := fun _ => 0, buf := fun _ => [] }

/-- newest entry for `c` in the buffer (the last one: entries are appended), else `d` -/
def Buf.read (b : Buf) (c : Nat) (d : Int) : Int :=
  b.foldl (fun acc e => if e.1 = c then e.2 else acc) d

/-- memory after all entries of `b` have drained, oldest first -/
def applyAll (μ : Nat → Int) (b : Buf) : Nat → Int :=
  b.foldl (fun μ e => upd μ e.1 e.2) μ

/-- `t` issues a store: it goes to the end of `t`'s buffer, memory is unchanged -/
def Mem.store (m : Mem) (t c : Nat) (v : Int) : Mem :=
  { m with buf := upd m.buf t (m.buf t ++ [(c, v)]) }

/-- `t` loads: its own newest buffered store to `c` if there is one (store forwarding),
    otherwise memory.  Other threads' buffers are invisible. -/
def Mem.load (m : Mem) (t c : Nat) : Int := (m.buf t).read c (m.mem c)

/-- `t`'s whole view of memory: what `load t` returns for every cell -/
def Mem.view (m : Mem) (t : Nat) : Nat → Int := applyAll m.mem (m.buf t)

/-- the oldest entry of `t`'s buffer drains to memory; not enabled on an empty buffer -/
def Mem.flush (m : Mem) (t : Nat) : Option Mem :=
  match m.buf t with
  | [] => none
  | e :: rest => some { mem := upd m.mem e.1 e.2, buf := upd m.buf t rest }

/-- `t`'s buffer is empty (fence / locked RMW / after a seq_cst store may proceed) -/
abbrev Mem.drained (m : Mem) (t : Nat) : Prop := m.buf t = []

/-- write to memory directly: the write half of a locked RMW -/
def Mem.poke (m : Mem) (c : Nat) (v : Int) : Mem := { m with mem := upd m.mem c v }

/-- locked RMW writing `v` to `c`: only with a drained buffer -/
def Mem.rmw (m : Mem) (t c : Nat) (v : Int) : Option Mem :=
  if m.drained t then some (m.poke c v) else none

/-- the whole buffer of `t` drains at once -/
def Mem.drainAll (m : Mem) (t : Nat) : Mem :=
  { mem := applyAll m.mem (m.buf t), buf := upd m.buf t [] }

/-- `k` flushes of `t` in a row (stops early on an empty buffer) -/
def Mem.flushN (m : Mem) (t : Nat) : Nat → Mem
  | 0 => m
  | k + 1 => match m.flush t with
    | some m' => m'.flushN t k
    | none => m

end LibfiberVerif.Tso
