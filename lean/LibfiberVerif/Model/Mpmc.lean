/-
  Model/Mpmc.lean — include/mpmc_fifo.h (property C13): the Ladan-Mozes/Shavit optimistic
  FIFO as adapted in libfiber, with hazard-pointer reclamation and node REUSE.

  One model step = one access to a shared cell (`head`, `tail`, a node's `value`/`prev`/`next`,
  a hazard slot) exactly in the order the C code performs them, plus the API call/return
  notes of the harness and two ghost events of the reclamation machinery (`reclaim`, `take`).
  Any number of threads (`Nat → Pc`), any number of nodes, unbounded operation counts.

  C code being modelled
    push(new):  new->prev = NULL;
                loop { tail = ld(fifo->tail); hp[0] = tail; store_load_barrier();
                       if (tail != ld(fifo->tail)) continue;
                       new->next = tail;
                       if (CAS(&fifo->tail, tail, new)) { tail->prev = new; hp[0] = 0; return; } }
    trypop():   loop { head = ld(fifo->head); hp[0] = head; store_load_barrier();
                       if (head != ld(fifo->head)) continue;
                       prev = head->prev;
                       if (!prev) { hp[0] = 0; return NULL; }
                       hp[1] = prev; store_load_barrier();
                       if (head != ld(fifo->head)) continue;
                       ret = prev->value;
                       if (CAS(&fifo->head, head, prev)) { hp[0] = 0; hp[1] = 0;
                                                           hazard_pointer_free(head); break; } }
                return ret;

  Node life-cycle: `free` → (`take`, harness free list) `owned t` → (tail CAS) `inq`
  → (head CAS moves past it) `retired` → (`reclaim`, gc callback of hazard_pointer_scan) `free`.
  A free node can be taken, re-initialised and pushed again by anyone: the same node id
  re-enters the queue while other threads may still hold it in a local / hazard slot (ABA).

  Hazard pointers are a *composition assumption* (theorem `Hp.no_reclaim_protected`, C14):
  `reclaim n` is accepted only if `n` is retired and no thread holds a protection of `n`
  that was published (slot write) and validated (re-read of head/tail returned `n` while
  `n` was in the queue) before the retirement and not overwritten since.  The ghost lists
  `prot0`/`prot1` are exactly those protections.  The scan's own data (retired lists,
  plist, sort) is not modelled; its reads of the hazard slots are (they are registered cells).

  `step` REJECTS every access to a field of a node whose life-cycle state is `free`
  (`Proof/Mpmc.lean` shows that rejection is never caused by the algorithm itself:
  `no_access_free`).

  Ghost state: `ordN j` / `ordV j` = node / value at position `j` of the tail-CAS order
  (`j < len`; position 0 is the initial dummy), `hd` = position of the current dummy,
  `pos n` = position of the latest push of node `n`, `pushed`/`popped` = values in
  tail-CAS / head-CAS order.
-/
import LibfiberVerif.Core.Sys
import LibfiberVerif.Core.Event
import LibfiberVerif.Driver

namespace LibfiberVerif.Mpmc

inductive Life
  | free
  | owned (t : Nat)
  | inq
  | retired
  deriving Repr, DecidableEq, Inhabited

inductive Pc
  | idle
  | scanning
  /- harness: node taken from the free list, value written -/
  | taken (n : Nat)
  | valued (n v : Nat)
  /- mpmc_fifo_push(new = n), value v -/
  | pushCalled (n v : Nat)          -- next: new->prev = NULL
  | pushLoop (n v : Nat)            -- next: ld tail
  | pushGotTail (n v tl : Nat)      -- next: hp[0] = tail
  | pushPub (n v tl : Nat)          -- next: store_load_barrier
  | pushFenced (n v tl : Nat)       -- next: ld tail (re-validation)
  | pushVal (n v tl : Nat)          -- next: new->next = tail
  | pushNext (n v tl : Nat)         -- next: CAS tail
  | pushCased (n v tl : Nat)        -- next: tail->prev = new
  | pushLinked (n v : Nat)          -- next: hp[0] = 0
  | pushDone                        -- next: return
  /- mpmc_fifo_trypop -/
  | popCalled                       -- next: ld head
  | popGotHead (h : Nat)            -- next: hp[0] = head
  | popPub0 (h : Nat)               -- next: store_load_barrier
  | popFenced0 (h : Nat)            -- next: ld head (first re-validation)
  | popVal0 (h : Nat)               -- next: read head->prev
  | popEmpty                        -- next: hp[0] = 0
  | popGotPrev (h p : Nat)          -- next: hp[1] = prev
  | popPub1 (h p : Nat)             -- next: store_load_barrier
  | popFenced1 (h p : Nat)          -- next: ld head (second re-validation)
  | popVal1 (h p : Nat)             -- next: read prev->value
  | popGotVal (h p x : Nat)         -- next: CAS head
  | popCased (x : Nat)              -- next: hp[0] = 0
  | popClr0 (x : Nat)               -- next: hp[1] = 0 (then hazard_pointer_free(head))
  | popDone (x : Nat)               -- next: return (a threshold scan may run first)
  deriving Repr, DecidableEq, Inhabited

inductive Ev
  | take (t n : Nat)
  | skip (t : Nat)
  | callPush (t v : Nat)
  | retPush (t : Nat)
  | callPop (t : Nat)
  | retPop (t x : Nat)
  | callScan (t : Nat)
  | retScan (t : Nat)
  | wrValue (t n v : Nat)
  | rdValue (t n x : Nat)
  | wrPrev (t n : Nat) (x : Option Nat)
  | rdPrev (t n : Nat) (x : Option Nat)
  | wrNext (t n : Nat) (x : Option Nat)
  | ldTail (t x : Nat)
  | ldHead (t x : Nat)
  | casTail (t found exp des : Nat) (ok : Bool)
  | casHead (t found exp des : Nat) (ok : Bool)
  /-- thread `t` writes slot `k` of record `u` -/
  | wrSlot (t u k : Nat) (x : Option Nat)
  /-- thread `t` (inside `hazard_pointer_scan`) reads slot `k` of record `u` -/
  | rdSlot (t u k : Nat) (x : Option Nat)
  | fence (t : Nat)
  | reclaim (t n : Nat)
  deriving Repr, DecidableEq, Inhabited

structure St where
  head : Nat
  tail : Nat
  value : Nat → Nat
  prev : Nat → Option Nat
  next : Nat → Option Nat
  slot0 : Nat → Option Nat
  slot1 : Nat → Option Nat
  life : Nat → Life
  pc : Nat → Pc
  /- ghost -/
  ordN : Nat → Nat
  ordV : Nat → Nat
  len : Nat
  hd : Nat
  pos : Nat → Nat
  /-- (thread, node): validated protections held in slot 0 / slot 1 -/
  prot0 : List (Nat × Nat)
  prot1 : List (Nat × Nat)
  pushed : List Nat
  popped : List Nat

/-- node 0 is the initial dummy (`mpmc_fifo_init`), every other node is on the free list -/
def init : St :=
  { head := 0, tail := 0, value := fun _ => 0, prev := fun _ => none, next := fun _ => none,
    slot0 := fun _ => none, slot1 := fun _ => none,
    life := fun n => if n = 0 then .inq else .free,
    pc := fun _ => .idle,
    ordN := fun _ => 0, ordV := fun _ => 0, len := 1, hd := 0, pos := fun _ => 0,
    prot0 := [], prot1 := [], pushed := [], popped := [] }

/-- a scan runs either explicitly (`call scan`) or from `hazard_pointer_free` at the end of a
    successful pop -/
def canScan : Pc → Bool
  | .scanning => true
  | .popDone _ => true
  | _ => false

/-- drop thread `t`'s protection (its slot is being overwritten) -/
def clr (l : List (Nat × Nat)) (t : Nat) : List (Nat × Nat) := l.filter (fun e => e.1 ≠ t)

/-- nobody holds a validated protection of `n` in this slot class -/
def unprot (l : List (Nat × Nat)) (n : Nat) : Bool := l.all (fun e => e.2 ≠ n)

/-- the hazard-pointer contract: a validation counts only if the node is in the queue
    (= not yet retired) at that instant -/
def addProt (l : List (Nat × Nat)) (life : Nat → Life) (t n : Nat) : List (Nat × Nat) :=
  if life n = .inq then (t, n) :: l else l

def step (s : St) : Ev → Option St
  /- ---------------- harness: free list -/
  | .take t n =>
    if s.pc t = .idle ∧ s.life n = .free then
      some { s with life := upd s.life n (.owned t), pc := upd s.pc t (.taken n) }
    else none
  | .skip t => if s.pc t = .idle then some s else none
  | .wrValue t n v =>
    match s.pc t with
    | .taken m =>
      if n = m ∧ s.life n ≠ .free then
        some { s with value := upd s.value n v, pc := upd s.pc t (.valued n v) }
      else none
    | _ => none
  /- ---------------- API notes -/
  | .callPush t v =>
    match s.pc t with
    | .valued n w => if v = w then some { s with pc := upd s.pc t (.pushCalled n v) } else none
    | _ => none
  | .retPush t =>
    match s.pc t with
    | .pushDone => some { s with pc := upd s.pc t .idle }
    | _ => none
  | .callPop t =>
    if s.pc t = .idle then some { s with pc := upd s.pc t .popCalled } else none
  | .retPop t x =>
    match s.pc t with
    | .popDone y => if x = y then some { s with pc := upd s.pc t .idle } else none
    | _ => none
  | .callScan t =>
    if s.pc t = .idle then some { s with pc := upd s.pc t .scanning } else none
  | .retScan t =>
    if s.pc t = .scanning then some { s with pc := upd s.pc t .idle } else none
  /- ---------------- node fields -/
  | .wrPrev t n x =>
    match s.pc t with
    | .pushCalled m v =>
      if n = m ∧ x = none ∧ s.life n ≠ .free then
        some { s with prev := upd s.prev n none, pc := upd s.pc t (.pushLoop m v) }
      else none
    | .pushCased m v tl =>
      if n = tl ∧ x = some m ∧ s.life n ≠ .free then
        some { s with prev := upd s.prev n (some m), pc := upd s.pc t (.pushLinked m v) }
      else none
    | _ => none
  | .wrNext t n x =>
    match s.pc t with
    | .pushVal m v tl =>
      if n = m ∧ x = some tl ∧ s.life n ≠ .free then
        some { s with next := upd s.next n x, pc := upd s.pc t (.pushNext m v tl) }
      else none
    | _ => none
  | .rdPrev t n x =>
    match s.pc t with
    | .popVal0 h =>
      if n = h ∧ x = s.prev n ∧ s.life n ≠ .free then
        match x with
        | none => some { s with pc := upd s.pc t .popEmpty }
        | some p => some { s with pc := upd s.pc t (.popGotPrev h p) }
      else none
    | _ => none
  | .rdValue t n x =>
    match s.pc t with
    | .popVal1 h p =>
      if n = p ∧ x = s.value n ∧ s.life n ≠ .free then
        some { s with pc := upd s.pc t (.popGotVal h p x) }
      else none
    | _ => none
  /- ---------------- head / tail -/
  | .ldTail t x =>
    match s.pc t with
    | .pushLoop n v => if x = s.tail then some { s with pc := upd s.pc t (.pushGotTail n v x) } else none
    | .pushFenced n v tl =>
      if x = s.tail then
        if x = tl then
          some { s with prot0 := addProt s.prot0 s.life t tl, pc := upd s.pc t (.pushVal n v tl) }
        else some { s with pc := upd s.pc t (.pushLoop n v) }
      else none
    | _ => none
  | .ldHead t x =>
    match s.pc t with
    | .popCalled => if x = s.head then some { s with pc := upd s.pc t (.popGotHead x) } else none
    | .popFenced0 h =>
      if x = s.head then
        if x = h then
          some { s with prot0 := addProt s.prot0 s.life t h, pc := upd s.pc t (.popVal0 h) }
        else some { s with pc := upd s.pc t .popCalled }
      else none
    | .popFenced1 h p =>
      if x = s.head then
        if x = h then
          some { s with prot1 := addProt s.prot1 s.life t p, pc := upd s.pc t (.popVal1 h p) }
        else some { s with pc := upd s.pc t .popCalled }
      else none
    | _ => none
  | .casTail t found exp des ok =>
    match s.pc t with
    | .pushNext n v tl =>
      if found = s.tail ∧ exp = tl ∧ des = n ∧ ok = decide (found = exp) then
        if ok then
          some { s with tail := n, life := upd s.life n .inq,
                        ordN := upd s.ordN s.len n, ordV := upd s.ordV s.len v, len := s.len + 1,
                        pos := upd s.pos n s.len, pushed := s.pushed ++ [v],
                        pc := upd s.pc t (.pushCased n v tl) }
        else some { s with pc := upd s.pc t (.pushLoop n v) }
      else none
    | _ => none
  | .casHead t found exp des ok =>
    match s.pc t with
    | .popGotVal h p x =>
      if found = s.head ∧ exp = h ∧ des = p ∧ ok = decide (found = exp) then
        if ok then
          -- the old dummy `h` leaves the queue: it is retired (hazard_pointer_free follows)
          some { s with head := p, life := upd s.life h .retired, hd := s.hd + 1,
                        popped := s.popped ++ [x], pc := upd s.pc t (.popCased x) }
        else some { s with pc := upd s.pc t .popCalled }
      else none
    | _ => none
  /- ---------------- hazard slots -/
  | .wrSlot t u k x =>
    if u ≠ t then none else
    if k = 0 then
      let s' := { s with slot0 := upd s.slot0 t x, prot0 := clr s.prot0 t }
      match s.pc t with
      | .pushGotTail n v tl => if x = some tl then some { s' with pc := upd s.pc t (.pushPub n v tl) } else none
      | .pushLinked _ _ => if x = none then some { s' with pc := upd s.pc t .pushDone } else none
      | .popGotHead h => if x = some h then some { s' with pc := upd s.pc t (.popPub0 h) } else none
      | .popEmpty => if x = none then some { s' with pc := upd s.pc t (.popDone 0) } else none
      | .popCased y => if x = none then some { s' with pc := upd s.pc t (.popClr0 y) } else none
      | _ => none
    else if k = 1 then
      let s' := { s with slot1 := upd s.slot1 t x, prot1 := clr s.prot1 t }
      match s.pc t with
      | .popGotPrev h p => if x = some p then some { s' with pc := upd s.pc t (.popPub1 h p) } else none
      | .popClr0 y => if x = none then some { s' with pc := upd s.pc t (.popDone y) } else none
      | _ => none
    else none
  | .fence t =>
    match s.pc t with
    | .pushPub n v tl => some { s with pc := upd s.pc t (.pushFenced n v tl) }
    | .popPub0 h => some { s with pc := upd s.pc t (.popFenced0 h) }
    | .popPub1 h p => some { s with pc := upd s.pc t (.popFenced1 h p) }
    | _ => none
  /- ---------------- hazard_pointer_scan (explicit, or from hazard_pointer_free) -/
  | .rdSlot t u k x =>
    if canScan (s.pc t) = true ∧
       ((k = 0 ∧ x = s.slot0 u) ∨ (k = 1 ∧ x = s.slot1 u)) then some s else none
  | .reclaim t n =>
    if canScan (s.pc t) = true ∧ s.life n = .retired ∧
       unprot s.prot0 n = true ∧ unprot s.prot1 n = true then
      some { s with life := upd s.life n .free }
    else none

def sys : Sys St Ev := { init := init, step := step }

/-- The node whose field (`value`/`prev`/`next`) the thread's NEXT step dereferences, as a
    function of its program counter.  (`Proof/Mpmc.lean`, `access_is_next`: every field
    access `step` accepts is the one named here.) -/
def nextAccess : Pc → Option Nat
  | .taken n => some n            -- n->value = v        (harness)
  | .pushCalled n _ => some n     -- new->prev = NULL
  | .pushVal n _ _ => some n      -- new->next = tail
  | .pushCased _ _ tl => some tl  -- tail->prev = new
  | .popVal0 h => some h          -- head->prev
  | .popVal1 _ p => some p        -- prev->value
  | _ => none

/-! ### API projection and the sequential specification (linearisation-point form)

  `api` maps an event to what it means at the API level: an invocation, a response, or the
  linearisation point of the calling thread's pending operation
  (push: successful tail CAS; successful pop: successful head CAS; EMPTY: the read of
  `head->prev == NULL` on the validated head). -/

inductive Api
  | callPush (t v : Nat)
  | linPush (t : Nat)
  | retPush (t : Nat)
  | callPop (t : Nat)
  | linPopOk (t : Nat)
  | linPopEmpty (t : Nat)
  | retPop (t x : Nat)
  deriving Repr, DecidableEq, Inhabited

def api : Ev → Option Api
  | .callPush t v => some (.callPush t v)
  | .retPush t => some (.retPush t)
  | .callPop t => some (.callPop t)
  | .retPop t x => some (.retPop t x)
  | .casTail t _ _ _ true => some (.linPush t)
  | .casHead t _ _ _ true => some (.linPopOk t)
  | .rdPrev t _ none => some (.linPopEmpty t)
  | _ => none

inductive Phase
  | idle
  | pushPend (v : Nat)     -- called, not yet linearised
  | pushLin                -- linearised, not yet returned
  | popPend
  | popLin (x : Nat)       -- linearised with result x (0 = EMPTY)
  deriving Repr, DecidableEq, Inhabited

/-- where a thread is in its current operation, from its program counter -/
def phaseOf : Pc → Phase
  | .idle => .idle
  | .scanning => .idle
  | .taken _ => .idle
  | .valued _ _ => .idle
  | .pushCalled _ v => .pushPend v
  | .pushLoop _ v => .pushPend v
  | .pushGotTail _ v _ => .pushPend v
  | .pushPub _ v _ => .pushPend v
  | .pushFenced _ v _ => .pushPend v
  | .pushVal _ v _ => .pushPend v
  | .pushNext _ v _ => .pushPend v
  | .pushCased _ _ _ => .pushLin
  | .pushLinked _ _ => .pushLin
  | .pushDone => .pushLin
  | .popCalled => .popPend
  | .popGotHead _ => .popPend
  | .popPub0 _ => .popPend
  | .popFenced0 _ => .popPend
  | .popVal0 _ => .popPend
  | .popEmpty => .popLin 0
  | .popGotPrev _ _ => .popPend
  | .popPub1 _ _ => .popPend
  | .popFenced1 _ _ => .popPend
  | .popVal1 _ _ => .popPend
  | .popGotVal _ _ _ => .popPend
  | .popCased x => .popLin x
  | .popClr0 x => .popLin x
  | .popDone x => .popLin x

/-- Sequential FIFO queue + per-thread operation phase.  `fl` = threads whose push has
    passed its linearisation point and not yet returned ("push still in flight"). -/
structure Spec where
  q : List Nat
  ph : Nat → Phase
  fl : List Nat

def Spec.init : Spec := { q := [], ph := fun _ => .idle, fl := [] }

/-- One API-level step.  Every operation takes effect atomically at its linearisation
    point, which must lie between its invocation and its response; the response must carry
    the result computed at the linearisation point.  EMPTY is legal when the abstract queue
    is empty, or (the property's weakening) while some push is in flight. -/
def Spec.step (a : Spec) : Api → Option Spec
  | .callPush t v => if a.ph t = .idle then some { a with ph := upd a.ph t (.pushPend v) } else none
  | .linPush t =>
    match a.ph t with
    | .pushPend v => some { q := a.q ++ [v], ph := upd a.ph t .pushLin, fl := t :: a.fl }
    | _ => none
  | .retPush t =>
    if a.ph t = .pushLin then
      some { a with ph := upd a.ph t .idle, fl := a.fl.filter (fun u => u ≠ t) }
    else none
  | .callPop t => if a.ph t = .idle then some { a with ph := upd a.ph t .popPend } else none
  | .linPopOk t =>
    match a.ph t, a.q with
    | .popPend, x :: q' => some { a with q := q', ph := upd a.ph t (.popLin x) }
    | _, _ => none
  | .linPopEmpty t =>
    if a.ph t = .popPend ∧ (a.q = [] ∨ a.fl ≠ []) then
      some { a with ph := upd a.ph t (.popLin 0) }
    else none
  | .retPop t x => if a.ph t = .popLin x then some { a with ph := upd a.ph t .idle } else none

def specSys : Sys Spec Api := { init := Spec.init, step := Spec.step }

/-! ### log-line decoding -/

/-- `@n3` ↦ node 3 -/
def nodeOf (s : String) : Option Nat :=
  match parseVal s with
  | some (.ptr name 0) => if name.startsWith "n" then (name.drop 1).toString.toNat? else none
  | _ => none

/-- pointer-valued cell content: `0` ↦ NULL, `@n3` ↦ node 3 (anything else, e.g. the poison
    pattern of a reclaimed node, is not in the vocabulary) -/
def ptrOf (s : String) : Option (Option Nat) :=
  if s = "0" then some none else (nodeOf s).map some

/-- `n3.prev` ↦ (3, "prev") -/
def fieldOf (cell : String) : Option (Nat × String) :=
  match cell.splitOn "." with
  | [n, f] => if n.startsWith "n" then (n.drop 1).toString.toNat?.map (fun i => (i, f)) else none
  | _ => none

/-- `hp2_1` ↦ (2, 1) -/
def slotOf (cell : String) : Option (Nat × Nat) :=
  if cell.startsWith "hp" then
    match ((cell.drop 2).toString).splitOn "_" with
    | [u, k] => do let u ← u.toNat?; let k ← k.toNat?; pure (u, k)
    | _ => none
  else none

def boolOf (s : String) : Option Bool :=
  if s = "1" then some true else if s = "0" then some false else none

def ofRaw (r : RawEv) : Option Ev :=
  let t := r.tid
  match r.kind, r.args with
  | "note", ["take", n] => (nodeOf n).map (Ev.take t)
  | "note", ["skip", "push", _] => some (Ev.skip t)
  | "note", ["call", "push", v] => v.toNat?.map (Ev.callPush t)
  | "note", ["ret", "push", "1"] => some (Ev.retPush t)
  | "note", ["call", "pop"] => some (Ev.callPop t)
  | "note", ["ret", "pop", v] => v.toNat?.map (Ev.retPop t)
  | "note", ["call", "scan"] => some (Ev.callScan t)
  | "note", ["ret", "scan"] => some (Ev.retScan t)
  | "note", ["reclaim", n] => (nodeOf n).map (Ev.reclaim t)
  | "fence", ["1"] => some (Ev.fence t)
  | "ld", ["tail", x, _] => (nodeOf x).map (Ev.ldTail t)
  | "ld", ["head", x, _] => (nodeOf x).map (Ev.ldHead t)
  | "cas", [c, f, e, d, ok, _] => do
    let f ← nodeOf f; let e ← nodeOf e; let d ← nodeOf d; let ok ← boolOf ok
    if c = "tail" then pure (Ev.casTail t f e d ok)
    else if c = "head" then pure (Ev.casHead t f e d ok) else none
  | "w", [c, x] =>
    match slotOf c with
    | some (u, k) => (ptrOf x).map (Ev.wrSlot t u k)
    | none =>
      match fieldOf c with
      | some (n, "value") => x.toNat?.map (Ev.wrValue t n)
      | some (n, "prev") => (ptrOf x).map (Ev.wrPrev t n)
      | some (n, "next") => (ptrOf x).map (Ev.wrNext t n)
      | _ => none
  | "r", [c, x] =>
    match slotOf c with
    | some (u, k) => (ptrOf x).map (Ev.rdSlot t u k)
    | none =>
      match fieldOf c with
      | some (n, "value") => x.toNat?.map (Ev.rdValue t n)
      | some (n, "prev") => (ptrOf x).map (Ev.rdPrev t n)
      | _ => none
  | _, _ => none

/-- Cells of the hazard-pointer record LIST (`hphead`, a record's `next` link): the harness
    registers them so that a late-joining thread's registration has scheduling points inside it;
    what they hold is C14's business (model `Hp`), not this model's. -/
def recordListCell (r : RawEv) : Bool :=
  match r.args with
  | c :: _ => c = "hphead" || c.startsWith "recnext"
  | [] => false

/-- `verifdrv Mpmc <log>` -/
def drive (lines : List String) : IO UInt32 := do
  match initArgs lines with
  | "mpmc" :: _ =>
    -- teardown runs (`init mpmc <pool> <threads> destroy`): the concurrent phase is validated
    -- and monitored as usual (without the drained-at-the-end clause); the single-threaded
    -- mpmc_fifo_destroy walk that follows is the harness's and the poison oracle's business
    let destroyMode := (initArgs lines).getLast? == some "destroy"
    let isDestroy (l : String) : Bool :=
      match parseLine l with
      | some r => r.kind == "note" && r.args == ["call", "destroy"]
      | none => false
    let body := (lines.filter (fun l => !isInit l)).takeWhile (fun l => !isDestroy l)
    let v := validateP sys (fun r => if r.kind != "note" && recordListCell r then some none else (ofRaw r).map some) body
    let mon := queueMonitor { disc := .fifo, capacity := 0, drained := !destroyMode, emptyOkInFlight := true } body
    report "Mpmc" v mon
  | _ => IO.println "VALIDATE DIVERGE missing init"; return 1

end LibfiberVerif.Mpmc
