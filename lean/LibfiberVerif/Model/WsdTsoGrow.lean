/-
  Model/WsdTsoGrow.lean — the Chase–Lev deque of src/work_stealing_deque.c on x86-TSO
  (store buffers, `Model/Tso.lean`) WITH ARRAY GROWTH.  `Model/WsdTso.lean` has a fixed array;
  this file adds what `Model/Wsd.lean` (the sequentially consistent, log-validated model of
  property C02) has and that one leaves out: `underlying_array`, array generations, the copy
  loop of `wsd_circular_array_grow`, stale generations in the hands of slow thieves.

  Same program, same step granularity and the same order of accesses as `Model/Wsd.lean` (one
  event = one access to a shared cell, program order as in the C code, plus the API call/return
  notes); TSO only adds buffering:

    push_bottom(d, p):  b = load(bottom); t = load(top); a = load(underlying_array);
                        if (b - t >= a->size - 1) {                 // grow
                          na = malloc'ed array of twice the size;
                          for (i = t; i < b; ++i) na[i & nmask] = a[i & mask];   // plain r / w
                          store(underlying_array, na); a = na; }
                        a[b & mask] = p;  store_rel(bottom, b + 1);
    pop_bottom(d):      b = load(bottom) - 1; a = load(underlying_array);
                        store_SEQ_CST(bottom, b);  t = load_SEQ_CST(top); … (as in WsdTso)
    steal(d):           t = load(top); b = load(bottom); a = load(underlying_array);
                        if (b - t <= 0) return EMPTY;
                        ret = a[t & mask];  if (!CAS(top, t, t + 1)) return ABORT;  return ret;

  Memory cells (`Nat`, as `Model/Tso.lean` wants them):
      `cTop = 0`, `cBot = 1`, `cArr = 2` (holds the generation number of the published array),
      data slot `p` of generation `g`  =  `3 + 2^(k0+g) + p`   (`p < 2^(k0+g)` = its size):
  every generation is its own region of memory, generation `g + 1` is twice as big as `g`
  (`wsd_circular_array_create(a->log_size + 1)`), a superseded generation stays allocated
  (the C code links it as `prev` and never frees it while the deque lives), so a thief that
  still holds a stale array pointer reads valid memory.

  What TSO does to growth:
    * the copy stores `na[i] = a[i]`, the pointer store `underlying_array = na`, the element
      store `a[b] = p` and `bottom = b + 1` are ALL ordinary stores of the owner: they are
      appended to the owner's FIFO store buffer in program order and reach memory one by one
      (`flush 0`), in that order.  A thief reads MEMORY: possibly the old pointer, possibly an
      old `bottom`, possibly slots of a superseded generation;
    * the owner's own loads are forwarded from its buffer (its copy loop reads its own pending
      element stores);
    * `ordered = true`  (x86-TSO): the pointer store goes to the END of the buffer;
      `ordered = false` (a PSO-like machine: stores to DIFFERENT cells may overtake each
      other): the extra event `stArrEarly` lets the pointer store jump ahead of every buffered
      store to another cell.  This switch exists only to show that the theorems of
      `Props/TsoGrow.lean` depend on the store order: with it a thief can read the NEW pointer
      and a slot whose copy is still buffered.
    * `fenced` as in `Model/WsdTso.lean`: pop_bottom's `bottom` store is seq_cst (the load of
      `top` that follows waits for the owner's buffer to drain).

  In the C source `underlying_array` is `_Atomic`, and the plain assignment
  `d->underlying_array = a` is therefore a seq_cst store (logged as `mo5`; `xchg` on x86: it
  would even drain the buffer).  The model does NOT use that: the pointer store is an ordinary
  buffered store, which has MORE behaviours than a draining one (flushes are nondeterministic
  environment events, "drain now" is one of the possible schedules).  So the theorems hold for
  a relaxed/release pointer store as well — on TSO.

  Not modelled: the header fields of an array (`size_minus_one`, …).  They are written once by
  `wsd_circular_array_create` BEFORE the copy loop, hence before the pointer store in the same
  FIFO buffer, and never again; the harness does not register them as cells (neither does
  `Model/Wsd.lean`); here the size of generation `g` is the constant `2^(k0+g)`.

  One owner (thread 0), any number of thieves, unbounded operation counts, unbounded growth.
  Ghost fields as in `Model/WsdTso.lean` plus `gen` = the generation the owner works on (its
  own view of `underlying_array`).
-/
import LibfiberVerif.Model.Tso
import LibfiberVerif.Model.Wsd

namespace LibfiberVerif.WsdTsoGrow
open LibfiberVerif.Tso
open LibfiberVerif.Wsd (Res)

inductive Pc
  | idle
  -- push_bottom (owner)
  | pushCalled (v : Int)
  | pushGotB (v b : Int)
  | pushGotT (v b t : Int)
  /-- growing from generation `g`: about to read old slot of index `i` -/
  | pushCopy (v b t : Int) (g : Nat) (i : Int)
  /-- growing: about to write `x` to the new generation's slot of index `i` -/
  | pushCopyW (v b t : Int) (g : Nat) (i x : Int)
  /-- copy complete: about to publish generation `g + 1` -/
  | pushPublish (v b t : Int) (g : Nat)
  /-- about to write `v` to slot `b` of generation `g` -/
  | pushPut (v b : Int) (g : Nat)
  /-- about to store `bottom := b + 1` -/
  | pushWritten (v b : Int)
  | pushDone
  -- pop_bottom (owner)
  | popCalled
  | popGotB (b : Int)
  | popGotArr (b : Int) (g : Nat)
  /-- `bottom := b` issued; about to load `top` -/
  | popStored (b : Int) (g : Nat)
  /-- saw `b < t`: about to store `bottom := t` and return EMPTY -/
  | popEmpty (t : Int)
  /-- saw `t ≤ b`: about to read slot `b` of generation `g` -/
  | popTake (b : Int) (g : Nat) (t : Int)
  /-- last element (`t = b`): about to CAS `top` -/
  | popRead (b t x : Int)
  /-- CAS done: about to store `bottom := t + 1` -/
  | popCased (t : Int) (r : Res)
  | popDone (r : Res)
  -- steal (thieves)
  | stealCalled
  | stealGotT (t : Int)
  | stealGotB (t b : Int)
  /-- saw `t < b` and holds generation `g` (possibly stale): about to read slot `t` -/
  | stealGotArr (t : Int) (g : Nat)
  | stealRead (t : Int) (g : Nat) (x : Int)
  | stealDone (r : Res)
  deriving Repr, DecidableEq, Inhabited

inductive Ev
  | callPush (t : Nat) (v : Int)
  | retPush (t : Nat)
  | callPop (t : Nat)
  | retPop (t : Nat) (r : Int)
  | callSteal (t : Nat)
  | retSteal (t : Nat) (r : Int)
  | ldBottom (t : Nat) (x : Int)
  | stBottom (t : Nat) (x : Int)
  | ldTop (t : Nat) (x : Int)
  | casTop (t : Nat) (found exp des : Int) (ok : Bool)
  /-- load of `underlying_array`: generation `g` -/
  | ldArr (t : Nat) (g : Nat)
  /-- store of `underlying_array := generation g`, appended to the store buffer (TSO) -/
  | stArr (t : Nat) (g : Nat)
  /-- the same store overtaking the buffered stores to other cells (only if `ordered = false`) -/
  | stArrEarly (t : Nat) (g : Nat)
  /-- read of physical slot `i` of generation `g` -/
  | rdSlot (t : Nat) (g : Nat) (i : Nat) (x : Int)
  | wrSlot (t : Nat) (g : Nat) (i : Nat) (x : Int)
  /-- environment: the oldest entry of `t`'s store buffer reaches memory -/
  | flush (t : Nat)
  deriving Repr, DecidableEq, Inhabited

def cTop : Nat := 0
def cBot : Nat := 1
def cArr : Nat := 2

/-- number of slots of generation `g` -/
def size (k0 g : Nat) : Nat := 2 ^ (k0 + g)

/-- physical slot of logical index `i` in generation `g` (`i & size_minus_one`) -/
def pslot (k0 g : Nat) (i : Int) : Nat := (i % (size k0 g : Int)).toNat

/-- memory cell of logical index `i` in generation `g` -/
def cSlot (k0 g : Nat) (i : Int) : Nat := 3 + size k0 g + pslot k0 g i

def setVal (f : Int → Int) (i v : Int) : Int → Int := fun j => if j = i then v else f j

/-- PSO-like insertion: behind the newest buffered store to the SAME cell if there is one
    (per-cell order is kept), otherwise in front of everything -/
def insEarly (b : Buf) (c : Nat) (v : Int) : Buf :=
  if b.any (fun e => e.1 == c) then b ++ [(c, v)] else (c, v) :: b

def storeEarly (m : Mem) (t c : Nat) (v : Int) : Mem :=
  { m with buf := upd m.buf t (insEarly (m.buf t) c v) }

structure St where
  /-- log2 of the size of generation 0 -/
  k0 : Nat
  /-- pop_bottom's store to `bottom` is seq_cst -/
  fenced : Bool
  /-- stores leave the buffer in program order (TSO); `false`: `stArrEarly` is allowed -/
  ordered : Bool
  m : Mem
  pc : Nat → Pc
  /-- ghost: the generation the owner works on = its own view of `underlying_array` -/
  gen : Nat
  /-- ghost: upper end of the logical contents `[top, hb)` as the OWNER sees them -/
  hb : Int
  /-- ghost: one past the highest index whose slot write the owner has issued -/
  wf : Int
  /-- ghost: value most recently written for logical index `i` -/
  vals : Int → Int
  /-- ghost: values in the order their `push_bottom` issued `bottom := b + 1` -/
  pushed : List Int
  /-- ghost: values in the order they were taken (CAS on `top` won, or pop_bottom saw `t < b`) -/
  taken : List Int
  /-- ghost: (thread, value) taken but not yet handed back by the `ret` event -/
  owed : List (Nat × Int)
  /-- ghost: values in the order pop_bottom / steal calls returned them -/
  returned : List Int
  /-- ghost: number of growth steps (pointer stores) so far -/
  grown : Nat

def init (fenced ordered : Bool) (k0 : Nat) : St :=
  { k0 := k0, fenced := fenced, ordered := ordered, m := Mem.init, pc := fun _ => .idle,
    gen := 0, hb := 0, wf := 0, vals := fun _ => 0, pushed := [], taken := [], owed := [],
    returned := [], grown := 0 }

def step (s : St) : Ev → Option St
  | .callPush t v =>
    if t = 0 ∧ s.pc t = .idle then some { s with pc := upd s.pc t (.pushCalled v) } else none
  | .callPop t =>
    if t = 0 ∧ s.pc t = .idle then some { s with pc := upd s.pc t .popCalled } else none
  | .callSteal t =>
    if t ≠ 0 ∧ s.pc t = .idle then some { s with pc := upd s.pc t .stealCalled } else none
  | .ldBottom t x =>
    match s.pc t with
    | .pushCalled v =>
      if x = s.m.load t cBot then some { s with pc := upd s.pc t (.pushGotB v x) } else none
    | .popCalled =>
      if x = s.m.load t cBot then some { s with pc := upd s.pc t (.popGotB (x - 1)) } else none
    | .stealGotT tt =>
      if x = s.m.load t cBot then some { s with pc := upd s.pc t (.stealGotB tt x) } else none
    | _ => none
  | .ldTop t x =>
    match s.pc t with
    | .pushGotB v b =>
      if x = s.m.load t cTop then some { s with pc := upd s.pc t (.pushGotT v b x) } else none
    | .popStored b g =>
      -- THE fence: after a seq_cst store the load waits for the store buffer to drain
      if x = s.m.load t cTop ∧ (s.fenced = true → s.m.drained t) then
        if b < x then some { s with pc := upd s.pc t (.popEmpty x) }
        else if x < b then
          -- more than one element: the owner takes element `b` without a CAS
          some { s with pc := upd s.pc t (.popTake b g x), hb := b, wf := b,
                        taken := s.taken ++ [s.vals b], owed := s.owed ++ [(t, s.vals b)] }
        else some { s with pc := upd s.pc t (.popTake b g x) }
      else none
    | .stealCalled =>
      if x = s.m.load t cTop then some { s with pc := upd s.pc t (.stealGotT x) } else none
    | _ => none
  | .ldArr t g =>
    match s.pc t with
    | .pushGotT v b tt =>
      if (g : Int) = s.m.load t cArr then
        if (size s.k0 g : Int) - 1 ≤ b - tt then
          -- `size >= a->size_minus_one`: grow
          if tt < b then some { s with pc := upd s.pc t (.pushCopy v b tt g tt) }
          else some { s with pc := upd s.pc t (.pushPublish v b tt g) }
        else some { s with pc := upd s.pc t (.pushPut v b g) }
      else none
    | .popGotB b =>
      if (g : Int) = s.m.load t cArr then some { s with pc := upd s.pc t (.popGotArr b g) } else none
    | .stealGotB tt b =>
      if (g : Int) = s.m.load t cArr then
        if b ≤ tt then some { s with pc := upd s.pc t (.stealDone .empty) }
        else some { s with pc := upd s.pc t (.stealGotArr tt g) }
      else none
    | _ => none
  | .rdSlot t g i x =>
    match s.pc t with
    | .pushCopy v b tt g' j =>
      if g = g' ∧ i = pslot s.k0 g j ∧ x = s.m.load t (cSlot s.k0 g j) then
        some { s with pc := upd s.pc t (.pushCopyW v b tt g' j x) }
      else none
    | .popTake b g' tt =>
      if g = g' ∧ i = pslot s.k0 g b ∧ x = s.m.load t (cSlot s.k0 g b) then
        if tt < b then some { s with pc := upd s.pc t (.popDone (.val x)) }
        else some { s with pc := upd s.pc t (.popRead b tt x) }
      else none
    | .stealGotArr tt g' =>
      if g = g' ∧ i = pslot s.k0 g tt ∧ x = s.m.load t (cSlot s.k0 g tt) then
        some { s with pc := upd s.pc t (.stealRead tt g' x) }
      else none
    | _ => none
  | .wrSlot t g i x =>
    match s.pc t with
    | .pushCopyW v b tt g' j y =>
      -- the copy store `na[j & nmask] = …`: an ordinary buffered store
      if g = g' + 1 ∧ i = pslot s.k0 g j ∧ x = y then
        if j + 1 < b then
          some { s with m := s.m.store t (cSlot s.k0 g j) x, pc := upd s.pc t (.pushCopy v b tt g' (j + 1)) }
        else some { s with m := s.m.store t (cSlot s.k0 g j) x, pc := upd s.pc t (.pushPublish v b tt g') }
      else none
    | .pushPut v b g' =>
      if g = g' ∧ i = pslot s.k0 g b ∧ x = v then
        some { s with m := s.m.store t (cSlot s.k0 g b) x, vals := setVal s.vals b x, wf := b + 1,
                      pc := upd s.pc t (.pushWritten v b) }
      else none
    | _ => none
  | .stArr t g =>
    match s.pc t with
    | .pushPublish v b _ g' =>
      -- the pointer store: queued BEHIND the copy stores
      if g = g' + 1 then
        some { s with m := s.m.store t cArr (g : Int), gen := g, grown := s.grown + 1,
                      pc := upd s.pc t (.pushPut v b g) }
      else none
    | _ => none
  | .stArrEarly t g =>
    match s.pc t with
    | .pushPublish v b _ g' =>
      -- NOT x86-TSO: the pointer store overtakes the buffered copy stores
      if s.ordered = false ∧ g = g' + 1 then
        some { s with m := storeEarly s.m t cArr (g : Int), gen := g, grown := s.grown + 1,
                      pc := upd s.pc t (.pushPut v b g) }
      else none
    | _ => none
  | .stBottom t x =>
    match s.pc t with
    | .pushWritten v b =>
      -- release store: an ordinary buffered store, queued BEHIND the slot write
      if x = b + 1 then
        some { s with m := s.m.store t cBot x, hb := x, pushed := s.pushed ++ [v],
                      pc := upd s.pc t .pushDone }
      else none
    | .popGotArr b g =>
      -- the seq_cst store (see `ldTop` at `popStored`)
      if x = b then some { s with m := s.m.store t cBot x, pc := upd s.pc t (.popStored b g) } else none
    | .popEmpty tt =>
      if x = tt then some { s with m := s.m.store t cBot x, pc := upd s.pc t (.popDone .empty) }
      else none
    | .popCased tt r =>
      if x = tt + 1 then some { s with m := s.m.store t cBot x, pc := upd s.pc t (.popDone r) }
      else none
    | _ => none
  | .casTop t found exp des ok =>
    -- locked RMW: drained buffer, acts on memory
    match s.pc t with
    | .popRead _ tt x =>
      if s.m.drained t ∧ found = s.m.mem cTop ∧ exp = tt ∧ des = tt + 1 ∧ ok = decide (found = exp) then
        if ok then
          some { s with m := s.m.poke cTop des, taken := s.taken ++ [x], owed := s.owed ++ [(t, x)],
                        pc := upd s.pc t (.popCased tt (.val x)) }
        else some { s with pc := upd s.pc t (.popCased tt .abort) }
      else none
    | .stealRead tt _ x =>
      if s.m.drained t ∧ found = s.m.mem cTop ∧ exp = tt ∧ des = tt + 1 ∧ ok = decide (found = exp) then
        if ok then
          some { s with m := s.m.poke cTop des, taken := s.taken ++ [x], owed := s.owed ++ [(t, x)],
                        pc := upd s.pc t (.stealDone (.val x)) }
        else some { s with pc := upd s.pc t (.stealDone .abort) }
      else none
    | _ => none
  | .retPush t =>
    match s.pc t with
    | .pushDone => some { s with pc := upd s.pc t .idle }
    | _ => none
  | .retPop t r =>
    match s.pc t with
    | .popDone r' =>
      if r = r'.toInt then
        some { s with pc := upd s.pc t .idle, returned := s.returned ++ r'.vals,
                      owed := r'.settle t s.owed }
      else none
    | _ => none
  | .retSteal t r =>
    match s.pc t with
    | .stealDone r' =>
      if r = r'.toInt then
        some { s with pc := upd s.pc t .idle, returned := s.returned ++ r'.vals,
                      owed := r'.settle t s.owed }
      else none
    | _ => none
  | .flush t =>
    match s.m.flush t with
    | some m' => some { s with m := m' }
    | none => none

def sys (fenced ordered : Bool) (k0 : Nat) : Sys St Ev :=
  { init := init fenced ordered k0, step := step }

/-- the x86-TSO machine with the code as written: seq_cst store in pop_bottom, FIFO buffers -/
abbrev tso (k0 : Nat) : Sys St Ev := sys true true k0

end LibfiberVerif.WsdTsoGrow
