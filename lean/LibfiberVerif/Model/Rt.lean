/-
  Model/Rt.lean — the fiber runtime: kernel threads, run queues, fiber life-cycle and the
  parking protocols (src/fiber_manager.c, src/fiber_scheduler_wsd.c, src/fiber.c) —
  properties C01 and the runtime half of C02.

  Actors are KERNEL THREADS (`k`, any number); fibers are data.  Events are what the
  instrumented runtime logs:
    * run-queue API events  rqpush / rqpop / rqsteal  (the call sites of the deque API in
      fiber_scheduler_wsd.c; the deque itself is model `Wsd`, C02's first half — here a run
      queue is a bag),
    * every access to a fiber's `state` word, with the function that performs it,
    * context switches, fiber creation and destruction (upstream's own TSan fiber hooks).

  What the code does, per kernel thread k:
    fiber_scheduler_next:   g := pop(schedule_from);  if g.state = SAVING then push(store_to, g)
                            (skip: its context is not saved yet) else return g
    fiber_manager_switch_to(cur, g): if cur.state = RUNNING then cur.state := READY (to_schedule := cur);
                            g.state := RUNNING; context switch
    fiber_manager_do_maintenance (first thing the resumed/new fiber does, still on thread k,
                            on behalf of old = the fiber just switched away from):
                            if old.state = SAVING then old.state := WAITING;
                            destroy done_fiber; push(store_to, to_schedule);
                            deferred publications (mpmc push, mutex/spinlock unlock, set_wait_location)
    load_balance:           g := steal(remote queue); push(own schedule_from, g)
  and the FOUR PARKING PROTOCOLS by which a fiber that is about to wait becomes visible to
  wakers.  At this level they reduce to two rules, tracked by the ghost flag `pub g`
  ("wakers can find g"):
    P-saving  (mutex, cond, barrier, rwlock): the fiber writes state := SAVING itself and
              then enqueues itself, BEFORE switching away — `pub` from the SAVING write on;
              a waker may push it at once, a popper skips it while SAVING, the successor's
              maintenance flips SAVING → WAITING only after the context is saved.
    P-defer / P-lock / P-handshake (semaphore, join, sleep, fd wait, signals): the fiber
              writes state := WAITING and the publication itself is one of the deferred
              actions of the successor's maintenance — `pub` from the successor's first
              maintenance step on, i.e. only after the context is saved.
  A wake (state WAITING → READY, push) is accepted only for a published fiber: a primitive
  that published a fiber in any other way makes the model reject the trace.

  MAINTENANCE IS ONE-SHOT.  `old k` stays stale long after thread k's maintenance is over (the
  fiber may have run and parked again elsewhere), so "g = old k" alone must not licence a
  maintenance action.  The ghost stage `mst k` (see `MSt`) follows the fixed order of
  fiber_manager_do_maintenance after each switch: read old.state once; then, depending on
  the value read, flip SAVING → WAITING / push to_schedule / destroy done_fiber, each once.
  Without it the model would accept e.g. a second `SAVING → WAITING` flip by a thread whose
  `old` has meanwhile re-parked on another thread, which no execution of the code can produce.
  `fiber_mark_completed`'s DONE write is accepted only from RUNNING (the fiber is executing).
  `Ev.wf` rejects kernel-thread ids ≥ 16 and queue ids ≥ 32 (what `heldBy` / `inSomeBag` scan).

  The theorems (Props/C01.lean, Props/C02.lean) show for every accepted event sequence, for
  any number of kernel threads and fibers: a context switch always targets a fiber whose
  context is saved or fresh and that runs nowhere else; a fiber is in at most one place
  (one run-queue entry / one thread's hand / running); a queued fiber is saved, fresh or
  still marked SAVING; a finished fiber is destroyed once, by the thread that switched away
  from it, when it is in no queue, and is never touched again.
-/
import LibfiberVerif.Core.Sys
import LibfiberVerif.Core.Event
import LibfiberVerif.Driver

namespace LibfiberVerif.Rt

def RUNNING : Nat := 1
def READY : Nat := 2
def WAITING : Nat := 3
def DONE : Nat := 4
def SAVING : Nat := 5

inductive Ctx
  | none            -- not created
  | fresh           -- created, never run
  | running (k : Nat)
  | saved
  | dead            -- destroyed
  deriving Repr, DecidableEq, Inhabited

/-- what kernel thread k is in the middle of -/
inductive TPc
  | run                       -- executing fiber (or maintenance-loop) code
  | held (g : Nat)            -- popped g, about to look at its state
  | requeue (g : Nat)         -- saw SAVING: must push g onto its store_to
  | checked (g : Nat)         -- fiber_scheduler_next returned g
  | armed (g : Nat)           -- g.state := RUNNING written; the context switch follows
  | stolen (g : Nat)          -- stole g; must push it onto its own schedule_from
  deriving Repr, DecidableEq, Inhabited

/-- which function performs a state access (decides what it means) -/
inductive Fn
  | yield | next | switchTo | maint | waitSaving | waitDefer | wake | done | other
  deriving Repr, DecidableEq, Inhabited

/-- GHOST: what kernel thread k still owes `old k`, the fiber it last switched away from.
    fiber_manager_do_maintenance runs right after every context switch, in this order:
    read old.state; if SAVING write WAITING; destroy done_fiber; push to_schedule; deferred
    publications.  Which of these applies is decided by the state word the first read returns
    (READY ⇔ to_schedule was set by switch_to, DONE ⇔ done_fiber was set by fiber_join_routine,
    WAITING ⇔ a deferred publication is pending, SAVING ⇔ the flip).  Each duty is performed
    at most once per switch; a thread whose `old` is stale (the fiber has run again elsewhere
    since) owes it nothing. -/
inductive MSt
  | idle        -- nothing owed
  | read        -- just switched: old.state not read yet
  | flip        -- read SAVING: must write WAITING
  | push        -- read READY: must push to_schedule
  | destroy     -- read DONE: must destroy done_fiber
  deriving Repr, DecidableEq, Inhabited

inductive Ev
  | create (k g : Nat)
  | spawn
  | tick                                      -- every kernel thread idle: virtual time advances
  | rqpush (k q g : Nat) (fn : Fn)
  | rqpop (k q : Nat) (r : Option Nat)       -- none = EMPTY / ABORT
  | rqsteal (k q : Nat) (r : Option Nat)
  | rState (k g v : Nat) (fn : Fn)
  | wState (k g v : Nat) (fn : Fn)
  | switch (k g : Nat)
  | destroy (k g : Nat)
  | touch (k g : Nat)                          -- any access to another registered field of fiber g's control block
  deriving Repr, DecidableEq, Inhabited

structure St where
  fst : Nat → Nat
  ctx : Nat → Ctx
  bag : Nat → List Nat
  cur : Nat → Nat
  old : Nat → Nat
  tpc : Nat → TPc
  pub : Nat → Bool
  /-- fibers whose state word is registered (script fibers and the main fiber 0) -/
  tracked : Nat → Bool
  /-- for maintenance fibers: the kernel thread they belong to -/
  maintOf : Nat → Nat
  spawned : Bool
  /-- GHOST maintenance stage of kernel thread k (see `MSt`) -/
  mst : Nat → MSt

/-- run queue `q` belongs to kernel thread `q / 2` (`Q<k>a` ↦ 2k, `Q<k>b` ↦ 2k+1) -/
def qowner (q : Nat) : Nat := q / 2

/-- Kernel thread k initially runs its own context (fiber id k); fiber 0 is the main fiber. -/
def init : St :=
  { fst := fun g => if g = 0 then RUNNING else READY,
    ctx := fun g => if g < 16 then .running g else .none,
    bag := fun _ => [], cur := fun k => k, old := fun k => k, tpc := fun _ => .run,
    pub := fun _ => false, tracked := fun g => g = 0, maintOf := fun g => g, spawned := false,
    mst := fun _ => .idle }

def inSomeBag (s : St) (g : Nat) (nq : Nat) : Bool :=
  (List.range nq).any (fun q => (s.bag q).contains g)

/-- number of run queues that can appear (2 per kernel thread, at most 16 threads) -/
def NQ : Nat := 32

def heldBy (s : St) (g : Nat) : Bool :=
  (List.range 16).any (fun k => match s.tpc k with
    | .held h => h = g | .requeue h => h = g | .checked h => h = g | .armed h => h = g | .stolen h => h = g
    | .run => false)

/-- kernel-thread ids are < 16 and run-queue ids < 32 (`heldBy` / `inSomeBag` scan exactly
    these); an event outside this range is rejected, so the bound is CHECKED on every log -/
def Ev.wf : Ev → Bool
  | .create k _ => k < 16
  | .spawn => true
  | .tick => true
  | .rqpush k q _ _ => k < 16 && q < NQ
  | .rqpop k q _ => k < 16 && q < NQ
  | .rqsteal k q _ => k < 16 && q < NQ
  | .rState k _ _ _ => k < 16
  | .wState k _ _ _ => k < 16
  | .switch k _ => k < 16
  | .destroy k _ => k < 16
  | .touch k _ => k < 16

/-- the transition function proper (events in range) -/
def core (s : St) : Ev → Option St
  | .spawn => some { s with spawned := true }
  | .tick => some s
  | .create k g =>
    if s.ctx g = .none then
      some { s with ctx := upd s.ctx g .fresh, fst := upd s.fst g READY,
                    tracked := upd s.tracked g (!s.spawned), maintOf := upd s.maintOf g k }
    else none
  | .rqpush k q g fn =>
    if qowner q ≠ k ∨ inSomeBag s g NQ ∨ !s.tracked g then none else
    match fn, s.tpc k with
    | .next, .requeue h =>
      if h = g then some { s with bag := upd s.bag q (g :: s.bag q), tpc := upd s.tpc k .run } else none
    | .other, .stolen h =>       -- load_balance
      if h = g then some { s with bag := upd s.bag q (g :: s.bag q), tpc := upd s.tpc k .run } else none
    | .wake, .run =>             -- fiber_scheduler_schedule from a creator, a waker or maintenance
      if heldBy s g then none
      else if s.ctx g = .fresh ∧ s.fst g = READY then
        some { s with bag := upd s.bag q (g :: s.bag q) }
      else if g = s.old k ∧ s.fst g = READY ∧ s.ctx g = .saved ∧ ¬ s.pub g ∧ s.mst k = .push then
        -- maintenance re-queues the fiber that yielded (to_schedule), once
        some { s with bag := upd s.bag q (g :: s.bag q), mst := upd s.mst k .idle }
      else if s.pub g ∧ (s.fst g = READY ∨ s.fst g = SAVING ∨ s.fst g = WAITING) then
        -- a waker schedules a published fiber: READY just written; or it saw SAVING and left
        -- the state alone (the successor's maintenance may meanwhile have flipped it to
        -- WAITING — the popper runs a queued fiber in any state but SAVING)
        some { s with bag := upd s.bag q (g :: s.bag q), pub := upd s.pub g false }
      else none
    | _, _ => none
  | .rqpop k q r =>
    if qowner q ≠ k ∨ s.tpc k ≠ .run then none else
    match r with
    | none => some s
    | some g =>
      if (s.bag q).contains g then
        some { s with bag := upd s.bag q ((s.bag q).erase g), tpc := upd s.tpc k (.held g) }
      else none
  | .rqsteal k q r =>
    if qowner q = k ∨ s.tpc k ≠ .run then none else
    match r with
    | none => some s
    | some g =>
      if (s.bag q).contains g then
        some { s with bag := upd s.bag q ((s.bag q).erase g), tpc := upd s.tpc k (.stolen g) }
      else none
  | .rState k g v fn =>
    if v ≠ s.fst g ∨ s.ctx g = .dead then none else
    match fn with
    | .next =>
      match s.tpc k with
      | .held h =>
        if h = g then
          some { s with tpc := upd s.tpc k (if v = SAVING then .requeue g else .checked g) }
        else none
      | _ => none
    | .maint =>
      -- first step of maintenance on behalf of the fiber just switched away from
      if g = s.old k ∧ s.tpc k = .run ∧ s.mst k = .read then
        some { s with pub := if v = WAITING then upd s.pub g true else s.pub,
                      mst := upd s.mst k (if v = SAVING then .flip else if v = READY then .push
                                           else if v = DONE then .destroy else .idle) }
      else if g = s.old k ∧ s.tpc k = .run ∧ s.mst k = .push ∧ v = READY then
        some s        -- assert(to_schedule->state == READY) in builds with assertions
      else none
    | .yield => if g = s.cur k ∧ s.tpc k = .run then some s else none
    | .switchTo => if g = s.cur k then some s else none
    | .wake => if s.tpc k = .run then some s else none
    | _ => some s
  | .wState k g v fn =>
    if s.ctx g = .dead then none else
    match fn with
    | .switchTo =>
      if g = s.cur k ∧ v = READY ∧ s.fst g = RUNNING then some { s with fst := upd s.fst g READY }
      else match s.tpc k with
        | .checked h =>
          if h = g ∧ v = RUNNING then
            some { s with fst := upd s.fst g RUNNING, tpc := upd s.tpc k (.armed g) }
          else none
        | _ => none
    | .maint =>
      if g = s.old k ∧ v = WAITING ∧ s.fst g = SAVING ∧ s.tpc k = .run ∧ s.mst k = .flip then
        some { s with fst := upd s.fst g WAITING, mst := upd s.mst k .idle }
      else none
    | .waitSaving =>
      if g = s.cur k ∧ v = SAVING ∧ s.fst g = RUNNING ∧ s.tpc k = .run then
        some { s with fst := upd s.fst g SAVING, pub := upd s.pub g true }
      else none
    | .waitDefer =>
      if g = s.cur k ∧ v = WAITING ∧ s.fst g = RUNNING ∧ s.tpc k = .run then
        some { s with fst := upd s.fst g WAITING }
      else none
    | .wake =>
      if v = READY ∧ s.fst g = WAITING ∧ s.pub g ∧ s.tpc k = .run then
        some { s with fst := upd s.fst g READY }
      else none
    | .done =>
      -- fiber_mark_completed: marks itself DONE, or wakes the parked joiner
      if g = s.cur k ∧ v = DONE ∧ s.fst g = RUNNING ∧ s.tpc k = .run then
        some { s with fst := upd s.fst g DONE }
      else if v = READY ∧ s.fst g = WAITING ∧ s.pub g ∧ s.tpc k = .run then
        some { s with fst := upd s.fst g READY }
      else none
    | _ => none
  | .switch k g =>
    let f := s.cur k
    let ok : Bool :=
      if s.tracked g then decide (s.tpc k = .armed g)
      else decide (s.tpc k = .run ∧ s.maintOf g = k)     -- to the thread's maintenance fiber
    if ok ∧ g ≠ f then
      some { s with ctx := upd (upd s.ctx f .saved) g (.running k), cur := upd s.cur k g,
                    old := upd s.old k f, tpc := upd s.tpc k .run, pub := upd s.pub g false,
                    mst := upd s.mst k .read }
    else none
  | .destroy k g =>
    if g = s.old k ∧ s.fst g = DONE ∧ s.tpc k = .run ∧ s.tracked g ∧ ¬ inSomeBag s g NQ ∧ ¬ heldBy s g
        ∧ s.mst k = .destroy then
      some { s with ctx := upd s.ctx g .dead, mst := upd s.mst k .idle }
    else none

  | .touch _ g =>
    -- an access to a field of g's control block (result, join_info, detach_state, node, scratch):
    -- never after g was destroyed ("not touched afterwards")
    if s.ctx g = .dead then none else some s

def step (s : St) (e : Ev) : Option St := if e.wf then core s e else none

def sys : Sys St Ev := { init := init, step := step }

/-! ### log decoding -/

def fnOf (f : String) : Fn :=
  if f = "fiber_manager_yield" then .yield
  else if f = "fiber_scheduler_next" then .next
  else if f = "fiber_manager_switch_to" then .switchTo
  else if f = "fiber_manager_do_maintenance" then .maint
  else if f = "fiber_manager_wait_in_mpsc_queue" then .waitSaving
  else if f = "fiber_manager_wait_in_mpmc_queue" ∨ f = "fiber_manager_set_and_wait" ∨ f = "fiber_sleep"
       ∨ f = "fiber_wait_for_event" ∨ f = "fiber_signal_wait" ∨ f = "fiber_multi_signal_wait"
       ∨ f = "fiber_multi_channel_internal_wait" then .waitDefer
  else if f = "fiber_manager_wake_from_mpsc_queue" ∨ f = "fiber_manager_wake_from_mpmc_queue"
       ∨ f.startsWith "fiber_event_wake_" ∨ f = "fiber_signal_raise" ∨ f = "fiber_multi_channel_internal_wake"
       ∨ f = "fiber_multi_signal_raise" ∨ f = "fiber_multi_signal_raise_strict" ∨ f = "fiber_join"
       ∨ f = "fiber_tryjoin" ∨ f = "fiber_detach" ∨ f = "fiber_scheduler_schedule" then .wake
  else if f = "fiber_mark_completed" then .done
  else .other

def fiberOf (s : String) : Option Nat :=
  if s.startsWith "@F" then (s.drop 2).toString.toNat? else none

/-- `@Q<k>a` ↦ 2k, `@Q<k>b` ↦ 2k+1 -/
def queueOf (s : String) : Option Nat :=
  if s.startsWith "@Q" then
    let body := (s.drop 2).toString
    let num := (body.dropEnd 1).toString
    match num.toNat? with
    | some k => if body.endsWith "a" then some (2 * k) else if body.endsWith "b" then some (2 * k + 1) else none
    | none => none
  else none

def resultOf (s : String) : Option (Option Nat) :=
  if s = "-1" ∨ s = "-2" then some none else (fiberOf s).map some

/-- `F<g>.<field>` for a field other than `state` -/
def otherFiberCell (c : String) : Option Nat :=
  match c.splitOn "." with
  | [a, fld] => if fld = "state" then none else fiberOf ("@" ++ a)
  | _ => none

def stateCell (c : String) : Option Nat :=
  match c.splitOn "." with
  | [a, "state"] => fiberOf ("@" ++ a)
  | _ => none

def ofRaw (r : RawEv) : Option (Option Ev) :=
  let k := r.tid
  -- fiber_destroy itself reads the control block once more (to free the queue node) after the
  -- stack release that the log records as `fdestroy`: that is the destroyer, not a late user
  if r.func = "fiber_destroy" then some none else
  match r.kind, r.args with
  | "note", "spawn" :: _ => some (some .spawn)
  | "note", ["allidle"] => some (some .tick)
  | "note", _ => some none
  | "fcreate", [g] => g.toNat?.map (fun g => some (.create k g))
  | "fdestroy", [g] => g.toNat?.map (fun g => some (.destroy k g))
  | "switch", [g] => g.toNat?.map (fun g => some (.switch k g))
  | "rqpush", [q, g] => do
      let q ← queueOf q; let g ← fiberOf g
      pure (some (.rqpush k q g (fnOf r.func)))
  | "rqpop", [q, g] => do let q ← queueOf q; let g ← resultOf g; pure (some (.rqpop k q g))
  | "rqsteal", [q, g] => do let q ← queueOf q; let g ← resultOf g; pure (some (.rqsteal k q g))
  | "r", [c, v] =>
    match stateCell c with
    | some g => v.toNat?.map (fun v => some (.rState k g v (fnOf r.func)))
    | none => match otherFiberCell c with
      | some g => some (some (.touch k g))
      | none => some none
  | "w", [c, v] =>
    match stateCell c with
    | some g => v.toNat?.map (fun v => some (.wState k g v (fnOf r.func)))
    | none => match otherFiberCell c with
      | some g => some (some (.touch k g))
      | none => some none
  | kind, c :: _ =>
    if kind = "ld" ∨ kind = "st" ∨ kind = "xchg" ∨ kind = "cas" ∨ kind = "fadd" ∨ kind = "fsub" then
      match otherFiberCell c with
      | some g => some (some (.touch k g))
      | none => some none
    else some none
  | _, _ => some none      -- everything else belongs to the primitives' own models

/-! ### idle monitor (C02, second sentence): whenever every kernel thread has gone idle
   (the runtime's `allidle` note: the last observable action of every kernel thread was a poll that found nothing, for several rounds)
   no runnable fiber remains queued anywhere -/

def leftover (s : St) : Option String :=
  match (List.range NQ).find? (fun q => (s.bag q) ≠ []) with
  | some q => some s!"all kernel threads idle with a runnable fiber still queued: queue {q} holds {s.bag q}"
  | none => none

def idleMonitor : St → List Ev → Option String
  | _, [] => none
  | s, e :: es =>
    match step s e with
    | none => none
    | some s' =>
      match e with
      | .tick => match leftover s' with
        | some m => some m
        | none => idleMonitor s' es
      | _ => idleMonitor s' es

def drive (lines : List String) : IO UInt32 := do
  let body := lines.filter (fun l => !isInit l)
  let v := validateP sys ofRaw body
  let evs := body.filterMap (fun l => (parseLine l).bind (fun r => (ofRaw r).join))
  report "Rt" v (idleMonitor init evs)

end LibfiberVerif.Rt
