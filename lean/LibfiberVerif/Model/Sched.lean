/-
  Model/Sched.lean — the per-thread fiber scheduler of src/fiber_scheduler_wsd.c as seen
  through fiber_yield on ONE kernel thread (property C10).

  Each kernel thread owns two deques, `schedule_from` and `store_to`.
    fiber_scheduler_next:  if size(schedule_from) = 0 then swap(schedule_from, store_to);
                           pop_bottom(schedule_from)            (bottom = most recently pushed)
    fiber_scheduler_schedule(f): push_bottom(<target>, f)
    fiber_manager_yield:   g := next(); if g then { switch to g; afterwards (maintenance, running
                           as g) schedule(the yielder) }
  `<target>` is the decision point the property hinges on: `storeTo` makes every batch run
  all of its fibers before any of them runs again; `scheduleFrom` lets two fibers ping-pong.
  The model is parametric in it: the theorem is for `storeTo`, the counter-example for
  `scheduleFrom`, and trace validation runs the `storeTo` instance against the real code.

  With one kernel thread (no stealing) the scheduler is deterministic, so validation
  compares the exact run order.  The deque internals are C02's business (model `Wsd`);
  here a deque is a list whose head is the bottom.
-/
import LibfiberVerif.Core.Sys
import LibfiberVerif.Core.Event
import LibfiberVerif.Driver

namespace LibfiberVerif.Sched

inductive Target | storeTo | scheduleFrom
  deriving Repr, DecidableEq

inductive Phase
  | running    -- the current fiber executes user code
  | yielding   -- it called fiber_yield; a switch (or an immediate return) follows
  | ending     -- it finished; a switch away follows and it is not re-queued
  deriving Repr, DecidableEq

inductive Ev
  | sched (f : Nat)        -- fiber_manager_schedule(f) for a new fiber, called by the current fiber
  | yield (f : Nat)        -- current fiber calls fiber_yield
  | switch (g : Nat)       -- context switch to g
  | resumed (f : Nat)      -- fiber_yield returned in f
  | finish (f : Nat)       -- f's function returned
  deriving Repr, DecidableEq

structure St where
  frm : List Nat
  to : List Nat
  cur : Nat
  phase : Phase
  deriving Repr, DecidableEq

def init : St := { frm := [], to := [], cur := 0, phase := .running }

def push (tgt : Target) (s : St) (f : Nat) : St :=
  match tgt with
  | .storeTo => { s with to := f :: s.to }
  | .scheduleFrom => { s with frm := f :: s.frm }

/-- `fiber_scheduler_next`: swap if `schedule_from` is empty, then pop its bottom. -/
def next (s : St) : Option Nat × St :=
  let s := if s.frm = [] then { s with frm := s.to, to := [] } else s
  match s.frm with
  | [] => (none, s)
  | g :: rest => (some g, { s with frm := rest })

def step (tgt : Target) (s : St) : Ev → Option St
  | .sched f =>
    -- guard: a fiber is handed to the scheduler only while it is neither the running fiber nor
    -- already queued (fiber_manager_schedule asserts state READY; a double schedule would make
    -- the real trace diverge from the model here instead of being silently accepted)
    if s.phase = .running ∧ f ≠ s.cur ∧ f ∉ s.frm ∧ f ∉ s.to then some (push tgt s f) else none
  | .yield f => if s.phase = .running ∧ f = s.cur then some { s with phase := .yielding } else none
  | .finish f => if s.phase = .running ∧ f = s.cur then some { s with phase := .ending } else none
  | .resumed f =>
    if f ≠ s.cur then none else
    match s.phase with
    | .running => some s                      -- first event of a fiber after being switched to
    | .yielding =>                            -- fiber_yield found nothing to run
      match next s with
      | (none, s') => some { s' with phase := .running }
      | (some _, _) => none
    | .ending => none
  | .switch g =>
    match s.phase with
    | .running => none
    | .yielding =>
      match next s with
      | (some g', s') =>
        if g = g' then
          -- maintenance, already running as g: re-queue the yielder
          some { (push tgt { s' with cur := g } s.cur) with phase := .running }
        else none
      | (none, _) => none
    | .ending =>
      match next s with
      | (some g', s') => if g = g' then some { s' with cur := g, phase := .running } else none
      | (none, _) => none

def sys (tgt : Target) : Sys St Ev := { init := init, step := step tgt }

/-! ### log decoding (one kernel thread) -/

def ofRaw (r : RawEv) : Option (Option Ev) :=
  match r.kind, r.args with
  | "note", ["sched", f] => f.toNat?.map (fun f => some (Ev.sched f))
  | "note", ["yield"] => some (some (Ev.yield r.fiber))
  | "note", ["resumed"] => some (some (Ev.resumed r.fiber))
  | "note", ["fiber", "start", _] => some (some (Ev.resumed r.fiber))
  | "note", ["fiber", "end", _] => some (some (Ev.finish r.fiber))
  -- a fiber about to park in a primitive leaves the run queues exactly like a finishing one
  -- (not re-queued after the switch); the wake-up that brings it back is a `sched`
  | "note", ["block"] => some (some (Ev.finish r.fiber))
  | "switch", [g] => g.toNat?.map (fun g => some (Ev.switch g))
  | _, _ => some none      -- everything else (state cells, create/destroy) is not this model's business

/-! ### monitor: bounded bypass on one kernel thread

  `bypass f` = number of context switches to OTHER fibers since `f` became ready.
  With `n` fibers in total the theorem gives `bypass ≤ 2·n`; the monitor flags `> 2·n + 2`
  (`n` = number of fibers ever created, so fibers that finish meanwhile cannot cause a
  false alarm). -/

structure Mon where
  ready : List (Nat × Nat) := []     -- (fiber, bypass count)
  alive : Nat := 1
  seen : List Nat := []               -- fibers ever handed to the scheduler (a wake-up is not a new fiber)
  cur : Nat := 0
  bad : Option String := none

def monStep (m : Mon) : Ev → Mon
  | .sched f =>
    if m.seen.contains f then { m with ready := (f, 0) :: m.ready.filter (fun p => p.1 ≠ f) }
    else { m with ready := (f, 0) :: m.ready, alive := m.alive + 1, seen := f :: m.seen }
  | .switch g =>
    let ready := (m.ready.filter (fun p => p.1 ≠ g)).map (fun p => (p.1, p.2 + 1))
    let m := { m with ready := ready, cur := g }
    match ready.find? (fun p => p.2 > 2 * m.alive + 2) with
    | some p => if m.bad.isNone then { m with bad := some s!"starvation: fiber {p.1} bypassed {p.2} times with {m.alive} fibers in total" } else m
    | none => m
  | .yield f => { m with ready := if m.ready.any (fun p => p.1 = f) then m.ready else (f, 0) :: m.ready }
  | .resumed f => { m with ready := m.ready.filter (fun p => p.1 ≠ f) }
  | .finish f => { m with ready := m.ready.filter (fun p => p.1 ≠ f) }

def monitor (evs : List Ev) : Option String := (evs.foldl monStep {}).bad

def drive (lines : List String) : IO UInt32 := do
  let kthreads := match initArgs lines with
    | ["sched", k] => k.toNat?.getD 1
    | _ => 1
  let body := lines.filter (fun l => !isInit l)
  let evs := body.filterMap (fun l => (parseLine l).bind (fun r => (ofRaw r).join))
  let mon := if kthreads = 1 then monitor evs else none
  if kthreads = 1 then
    let v := validateP (sys .storeTo) ofRaw body
    report "Sched" v mon
  else
    report "Sched" (evs.length, none) mon

end LibfiberVerif.Sched
