/-
  Model/AbsQueue.lean — the ABSTRACT waiter queue the blocking primitives carry around
  (Model/Mutex.lean, Cond.lean, RwLock.lean, Barrier.lean: ghost `order` / `linked` / `hd` /
  `headNode`, observers `tailNode` / `headNext`), as a tiny system of its own, and `MpscCore`,
  the payload-agnostic access-level model of include/mpsc_fifo.h it is proved to abstract
  (Proof/AbsQueueRefine.lean, Props/AbsQueue.lean).

  `AbsQueue.St`:
    `order`    every (node, payload) pair ever exchanged into `tail`, in `xchg(&tail)` order
               (the whole history: popped entries stay in the list),
    `linked i` the link write `prev->next = node` of `order[i]` has happened,
    `hd`       number of entries already popped (`order[hd]` is the oldest one still queued),
    `headNode` the current stub node (value of `head`), `stub` the initial stub.
  The definitions of `tailNode` and `headNext` are copied verbatim from Model/Mutex.lean (the
  connection is `rfl`, see Props/AbsQueue.lean).

  Abstract operations (what one access of mpsc_fifo.h does to the abstract queue):
    `enq n f`    the `xchg(&tail, n)`: append `(n, f)`; returns the previous tail node.  The new
                 entry is not linked: `linked` is `false` at and beyond `order.length` in every
                 reachable state (`AbsQueue.fresh_unlinked`), exactly as in the primitives, whose
                 xchg step does not touch `linked` either.
    `link i`     the write `prev->next = node` of entry `i`.
    `popTry`     the consumer's read of `head->next`: `0` = nothing follows the stub, or the
                 next entry is exchanged but not linked yet; else the node of `order[hd]`.
    `popCommit`  the write `head = x`: `hd + 1`, `headNode := x`; returns the payload of the
                 entry that was popped (the fiber to wake).

  `MpscCore` = `Mpsc.step .mpsc` (Model/Mpsc.lean: same state, same events, same accesses in
  the same order, same client obligations: one trypop at a time, a pushed node is owned by the
  pusher) WITHOUT the guard "payloads are distinct non-zero tokens" on `call push` — the
  primitives push the same fiber over and over — plus three ghost recordings:
    `hist`  (node, payload) appended at every tail xchg,
    `npop`  number of `head = x` writes,
    `stub`  the initial stub.
  Every step of `Mpsc.step .mpsc` is a step of `MpscCore` (`MpscCore.coreStep_of_mpsc`), so a log
  that C15 validates against `Mpsc.sys .mpsc` is an `MpscCore` trace.
-/
import LibfiberVerif.Model.Mpsc

namespace LibfiberVerif.AbsQueue

structure St where
  /-- the initial stub (value of `tail` while `order` is empty) -/
  stub : Nat
  /-- ghost: (node, payload) in `xchg(&tail)` order -/
  order : List (Nat × Nat)
  /-- ghost: `linked i` = the `prev->next = node` write of `order[i]` has happened -/
  linked : Nat → Bool
  /-- number of entries of `order` already popped -/
  hd : Nat
  /-- the current stub (value of `head`) -/
  headNode : Nat

def tailNode (s : St) : Nat :=
  match s.order.getLast? with
  | some (n, _) => n
  | none => s.stub

/-- `next` field of the current stub as the consumer sees it -/
def headNext (s : St) : Nat :=
  match s.order[s.hd]? with
  | some (n, _) => if s.linked s.hd then n else 0
  | none => 0

/-- the node whose `next` field the link write of entry `i` stores into: the node of the
    previous entry, the initial stub for the first one -/
def prevNode (s : St) : Nat → Nat
  | 0 => s.stub
  | k + 1 => match s.order[k]? with
    | some (p, _) => p
    | none => 0

def init (stub : Nat) : St :=
  { stub := stub, order := [], linked := fun _ => false, hd := 0, headNode := stub }

/-! ### the four operations -/

/-- `xchg(&tail, n)` by a producer carrying payload `f`: returns the previous tail -/
def enq (s : St) (n f : Nat) : Nat × St :=
  (tailNode s, { s with order := s.order ++ [(n, f)] })

/-- the link write of entry `i` -/
def link (s : St) (i : Nat) : St := { s with linked := upd s.linked i true }

/-- the consumer reads `head->next` -/
def popTry (s : St) : Nat := headNext s

/-- `head = x` for the `x ≠ 0` that `popTry` returned: (payload, new state) -/
def popCommit (s : St) : Option (Nat × St) :=
  match s.order[s.hd]? with
  | some (n, g) =>
    if s.linked s.hd then some (g, { s with hd := s.hd + 1, headNode := n }) else none
  | none => none

/-! ### the same, as a labelled system (labels carry the values the caller observes) -/

inductive Op
  /-- `old = xchg(&tail, n)`, payload `f` -/
  | enq (n f old : Nat)
  | link (i : Nat)
  /-- `x = head->next` -/
  | popTry (x : Nat)
  /-- `head = x`; `g` = payload of the popped entry -/
  | popCommit (x g : Nat)
  deriving Repr, DecidableEq, Inhabited

/-- effect of an operation on the abstract state, without looking at the observed values -/
def apply (s : St) : Op → St
  | .enq n f _ => (enq s n f).2
  | .link i => link s i
  | .popTry _ => s
  | .popCommit x _ => { s with hd := s.hd + 1, headNode := x }

/-- the observed values are the ones the abstract queue predicts -/
def ok (s : St) : Op → Bool
  | .enq _ _ old => old == tailNode s
  | .link i => decide (i < s.order.length) && !s.linked i
  | .popTry x => x == headNext s
  | .popCommit x g => s.order[s.hd]? == some (x, g) && s.linked s.hd

def step (s : St) (o : Op) : Option St := if ok s o then some (apply s o) else none

def sys (stub : Nat) : Sys St Op := { init := init stub, step := step }

/-- a silent step or an operation -/
def stepO (s : St) : Option Op → Option St
  | none => some s
  | some o => step s o

def applyO (s : St) : Option Op → St
  | none => s
  | some o => apply s o

end LibfiberVerif.AbsQueue

namespace LibfiberVerif.MpscCore

open Mpsc (Ev Pc CPc Kind)

/-- `Mpsc.step .mpsc` with a payload-agnostic `call push`: any payload, any number of times -/
def coreStep (s : Mpsc.St) : Ev → Option Mpsc.St
  | .callPush t v =>
    if s.pc t = .idle ∧ (s.cpc = .idle ∨ s.ct ≠ t) then
      some { s with pc := upd s.pc t (.called v), called := s.called ++ [v] }
    else none
  | e => Mpsc.step .mpsc s e

structure St where
  /-- the cells, program counters and ghost fields of Model/Mpsc.lean -/
  m : Mpsc.St
  /-- the node `mpsc_fifo_init` installed -/
  stub : Nat
  /-- ghost: (node, payload in `node->data`) recorded at every `xchg(&tail, node)` -/
  hist : List (Nat × Nat)
  /-- ghost: number of `head = x` writes so far -/
  npop : Nat

def init (stub : Nat) : St := { m := Mpsc.init stub, stub := stub, hist := [], npop := 0 }

def step (c : St) (e : Ev) : Option St :=
  match coreStep c.m e with
  | none => none
  | some m' =>
    some { c with
      m := m',
      hist := (match e with
        | .xchgTail _ _ n => c.hist ++ [(n, c.m.data n)]
        | _ => c.hist),
      npop := (match e with
        | .wrHead _ _ => c.npop + 1
        | _ => c.npop) }

def sys (stub : Nat) : Sys St Ev := { init := init stub, step := step }

/-- The abstraction function.  `order`, `hd`, `stub` are the recordings; `headNode` is the
    cell `head`; entry `i` counts as linked when it has been popped, or when it is still queued
    and the `next` cell of the node before it (`q[i - npop]`; `q` = stub :: queued nodes) is not
    NULL.  `AbsQueueRefine.linked_false_iff` shows this is "the link write of entry `i` has
    happened": it is `false` exactly while the producer of entry `i` sits between its tail
    xchg and its link write. -/
def abs (c : St) : AbsQueue.St :=
  { stub := c.stub
    order := c.hist
    linked := fun i =>
      decide (i < c.npop) ||
        (decide (i < c.hist.length) && (c.m.next (c.m.q.getD (i - c.npop) 0) != 0))
    hd := c.npop
    headNode := c.m.head }

/-- which abstract operation a concrete access is (`none` = invisible to the abstract queue).
    The link write of the producer at `xchgd v n p` is the link of the entry whose predecessor
    node is `p`: entry number `npop + (position of p in q)`. -/
def proj (c : St) : Ev → Option AbsQueue.Op
  | .xchgTail _ old new => some (.enq new (c.m.data new) old)
  | .wrNext t _ _ =>
    match c.m.pc t with
    | .xchgd _ _ p => some (.link (c.npop + c.m.q.idxOf p))
    | _ => none
  | .rdNext _ _ x => some (.popTry x)
  | .wrHead _ x => some (.popCommit x (c.m.data x))
  | _ => none

/-- the abstract operations performed along a run -/
def opsFrom (c : St) : List Ev → List AbsQueue.Op
  | [] => []
  | e :: es =>
    match step c e with
    | none => []
    | some c' => (proj c e).toList ++ opsFrom c' es

end LibfiberVerif.MpscCore
