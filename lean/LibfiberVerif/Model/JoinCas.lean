/-
  Model/JoinCas.lean — the CANDIDATE FIX of the join / tryjoin / detach / completion protocol
  (docs/fix-C04.diff), property C04.  Not the code in /repo: this model is used to validate
  the candidate fix (a scratch copy of the tree built with VERIF_REPO=…, check run with
  VERIF_C04_MODEL=JoinCas) and becomes the C04 model if the fix is committed.

  The fix makes every transition of detach_state a compare-and-swap from the state it relies
  on, makes DETACHED the terminal state of a join as well, and lets fiber_detach fail (as
  pthread_detach does) when another fiber is parked in fiber_join on the same fiber:

    fiber_mark_completed(f, r):  store f.result := r;
        old := NONE; while old ≠ DETACHED ∧ ¬CAS(f.D, old, old = NONE ? WAIT_FOR_JOINER : DETACHED) {}
        old = NONE → set_and_wait(&f.join_info, f)
        old = WAIT_TO_JOIN → p := clear_or_wait(&f.join_info); p.result := load f.result; wake p
        f.state := DONE
    fiber_join(g):   old := NONE;
        while ¬CAS(g.D, old, old = NONE ? WAIT_TO_JOIN : DETACHED) { if old ∈ {WAIT_TO_JOIN, DETACHED} → ERROR }
        old = NONE → set_and_wait(&g.join_info, self); v := load self.result; self.result := 0; SUCCESS v
        else (WAIT_FOR_JOINER → DETACHED) → v := load g.result; p := clear_or_wait(&g.join_info); wake p; SUCCESS v
    fiber_tryjoin(g): CAS(g.D, WAIT_FOR_JOINER, DETACHED) ? (as join's second branch) : ERROR
    fiber_detach(g):  old := NONE;
        while ¬CAS(g.D, old, DETACHED) { if old ∈ {WAIT_TO_JOIN, DETACHED} → ERROR }
        old = WAIT_FOR_JOINER → p := clear_or_wait(&g.join_info); wake p
        SUCCESS

  Exactly one party moves the state away from NONE (it parks in the mailbox) and exactly one
  moves it on to DETACHED (it takes the parked party out of the mailbox).
-/
import LibfiberVerif.Model.Join

namespace LibfiberVerif.JoinCas
open LibfiberVerif.Join (Op NONE WFJ WTJ DET READY WAITING DONE)

inductive Pc
  | idle
  | called (op : Op) (g : Nat)
  | jCas (g exp : Nat)                   -- join: CAS failed with `exp` found, retrying from it
  | dCas (g exp : Nat)                   -- detach: CAS failed with `exp` found, retrying from it
  | jPark0 (g : Nat)                     -- join: CAS NONE → WAIT_TO_JOIN succeeded
  | jParking (g : Nat)                   -- own state := WAITING written; deferred store pending
  | jParked (g : Nat)
  | jWoken (g : Nat)                     -- woken (only the finishing fiber can do that)
  | jGotRes (g v : Nat)
  | take0 (op : Op) (g : Nat)
  | take (op : Op) (g v : Nat)
  | wake (op : Op) (g v p : Nat)
  | retn (op : Op) (g : Nat) (ok : Bool) (v : Nat)
  | fRet (v : Nat)
  | fStored
  | fCas (exp : Nat)
  | fPark0 | fParking | fParked | fWoken
  | fTake
  | fGot (p : Nat) | fGotRes (p v : Nat) | fGave (p : Nat)
  | fMark
  | fDone
  deriving Repr, DecidableEq, Inhabited

inductive Ev
  | call (a : Nat) (op : Op) (g : Nat)
  | ret (a : Nat) (op : Op) (g : Nat) (ok : Bool) (v : Nat)
  | fnRet (f v : Nat)
  | casDet (a g found exp des : Nat) (ok : Bool)
  | stRes (a g v : Nat)
  | ldRes (a g v : Nat)
  | xchgJi (a g old : Nat)
  | wJi (a g v : Nat)
  | wState (a g v : Nat)
  | destroy (a g : Nat)
  | touch (a g : Nat)
  deriving Repr, DecidableEq, Inhabited

structure St where
  det : Nat → Nat
  ji : Nat → Nat
  res : Nat → Nat
  pc : Nat → Pc
  retval : Nat → Option Nat
  succ : Nat → List Nat
  detX : Nat → Bool
  claimed : Nat → Bool
  destroyed : Nat → Bool
  late : Nat → Nat
  /-- ghost: `holder p = some a`: a took p out of a mailbox and has not woken it yet -/
  holder : Nat → Option Nat
  /-- ghost: the fiber whose CAS moved g's detach_state away from NONE into a waiting state (it parks in g's mailbox) -/
  first : Nat → Option Nat
  /-- ghost: the client whose CAS moved WAIT_FOR_JOINER to DETACHED (it takes the finished fiber) -/
  taker : Nat → Option Nat

def init (isTarget : Nat → Bool) : St :=
  { det := fun f => if isTarget f then NONE else DET, ji := fun _ => 0, res := fun _ => 0,
    pc := fun _ => .idle, retval := fun _ => none, succ := fun _ => [],
    detX := fun f => !isTarget f, claimed := fun _ => false, destroyed := fun _ => false,
    late := fun _ => 0, holder := fun _ => none, first := fun _ => none, taker := fun _ => none }

def Ev.counted : Ev → Bool
  | .stRes .. | .ldRes .. | .xchgJi .. | .wJi .. | .wState .. => true
  | _ => false

def Ev.cellOf : Ev → Nat
  | .call a _ _ => a | .ret a _ _ _ _ => a | .fnRet f _ => f
  | .casDet _ g _ _ _ _ => g | .stRes _ g _ => g
  | .ldRes _ g _ => g | .xchgJi _ g _ => g | .wJi _ g _ => g
  | .wState _ g _ => g | .destroy a _ => a | .touch _ g => g

def Ev.actor : Ev → Nat
  | .call a _ _ => a | .ret a _ _ _ _ => a | .fnRet f _ => f
  | .casDet a _ _ _ _ _ => a | .stRes a _ _ => a
  | .ldRes a _ _ => a | .xchgJi a _ _ => a | .wJi a _ _ => a
  | .wState a _ _ => a | .destroy a _ => a | .touch a _ => a

/-- the join CAS loop from expected value `exp` -/
def joinCas (s : St) (a g found exp des : Nat) (ok : Bool) : Option St :=
  if des ≠ (if exp = NONE then WTJ else DET) ∨ ok ≠ decide (found = exp) then none
  else if ok then
    if exp = NONE then some { s with det := upd s.det g des, pc := upd s.pc a (.jPark0 g), first := upd s.first g (some a) }
    else some { s with det := upd s.det g des, pc := upd s.pc a (.take0 .join g), claimed := upd s.claimed g true,
                       taker := upd s.taker g (some a) }
  else if found = WTJ ∨ found = DET then some { s with pc := upd s.pc a (.retn .join g false 0) }
  else some { s with pc := upd s.pc a (.jCas g found) }

/-- the detach CAS loop from expected value `exp` -/
def detCas (s : St) (a g found exp des : Nat) (ok : Bool) : Option St :=
  if des ≠ DET ∨ ok ≠ decide (found = exp) then none
  else if ok then
    if exp = WFJ then some { s with det := upd s.det g des, pc := upd s.pc a (.take .detach g 0), detX := upd s.detX g true,
                                      taker := upd s.taker g (some a) }
    else some { s with det := upd s.det g des, pc := upd s.pc a (.retn .detach g true 0), detX := upd s.detX g true }
  else if found = WTJ ∨ found = DET then some { s with pc := upd s.pc a (.retn .detach g false 0) }
  else some { s with pc := upd s.pc a (.dCas g found) }

/-- the completion CAS loop from expected value `exp` -/
def finCas (s : St) (a found exp des : Nat) (ok : Bool) : Option St :=
  if des ≠ (if exp = NONE then WFJ else DET) ∨ ok ≠ decide (found = exp) then none
  else if ok then
    if exp = NONE then some { s with det := upd s.det a des, pc := upd s.pc a .fPark0, first := upd s.first a (some a) }
    else some { s with det := upd s.det a des, pc := upd s.pc a .fTake, claimed := upd s.claimed a true }
  else if found = DET then some { s with pc := upd s.pc a .fMark }
  else some { s with pc := upd s.pc a (.fCas found) }

def stepCore (s : St) : Ev → Option St
  | .call a op g => if s.pc a = .idle then some { s with pc := upd s.pc a (.called op g) } else none
  | .ret a op g ok v =>
    if s.pc a = .retn op g ok v then
      if op = .detach then some { s with pc := upd s.pc a .idle }
      else some { s with pc := upd s.pc a .idle, succ := if ok then upd s.succ g (v :: s.succ g) else s.succ }
    else none
  | .fnRet f v =>
    if s.pc f = .idle ∧ s.retval f = none then
      some { s with pc := upd s.pc f (.fRet v), retval := upd s.retval f (some v) }
    else none
  | .casDet a g found exp des ok =>
    if found ≠ s.det g then none else
    match s.pc a with
    | .called .join g' => if g = g' ∧ exp = NONE then joinCas s a g found exp des ok else none
    | .jCas g' e' => if g = g' ∧ exp = e' then joinCas s a g found exp des ok else none
    | .called .tryjoin g' =>
      if g ≠ g' ∨ exp ≠ WFJ ∨ des ≠ DET ∨ ok ≠ decide (found = exp) then none
      else if ok then
        some { s with det := upd s.det g des, pc := upd s.pc a (.take0 .tryjoin g), claimed := upd s.claimed g true,
                      taker := upd s.taker g (some a) }
      else some { s with pc := upd s.pc a (.retn .tryjoin g false 0) }
    | .called .detach g' => if g = g' ∧ exp = NONE then detCas s a g found exp des ok else none
    | .dCas g' e' => if g = g' ∧ exp = e' then detCas s a g found exp des ok else none
    | .fStored => if g = a ∧ exp = NONE then finCas s a found exp des ok else none
    | .fCas e' => if g = a ∧ exp = e' then finCas s a found exp des ok else none
    | _ => none
  | .wState a g v =>
    match s.pc a with
    | .jPark0 t => if g = a ∧ v = WAITING then some { s with pc := upd s.pc a (.jParking t) } else none
    | .fPark0 => if g = a ∧ v = WAITING then some { s with pc := upd s.pc a .fParking } else none
    | .wake op t val p =>
      if g = p ∧ v = READY ∧ p ≠ a then
        match s.pc p with
        | .fParked => some { s with pc := upd (upd s.pc p .fWoken) a (.retn op t true val), holder := upd s.holder p none }
        | _ => none
      else none
    | .fGave p =>
      if g = p ∧ v = READY ∧ p ≠ a then
        match s.pc p with
        | .jParked t' => some { s with pc := upd (upd s.pc p (.jWoken t')) a .fMark, holder := upd s.holder p none }
        | _ => none
      else none
    | .fMark => if g = a ∧ v = DONE then some { s with pc := upd s.pc a .fDone } else none
    | .fWoken => if g = a ∧ v = DONE then some { s with pc := upd s.pc a .fDone } else none
    | _ => none
  | .wJi a g v =>
    if v = 0 ∨ a = v then none else
    match s.pc v with
    | .jParking t => if t = g then some { s with ji := upd s.ji g v, pc := upd s.pc v (.jParked g) } else none
    | .fParking => if v = g then some { s with ji := upd s.ji g v, pc := upd s.pc v .fParked } else none
    | _ => none
  | .xchgJi a g old =>
    if old ≠ s.ji g then none else
    match s.pc a with
    | .take op t v =>
      if g ≠ t then none
      else if old = 0 then some s
      else some { s with ji := upd s.ji g 0, pc := upd s.pc a (.wake op t v old), holder := upd s.holder old (some a) }
    | .fTake =>
      if g ≠ a then none
      else if old = 0 then some s
      else some { s with ji := upd s.ji g 0, pc := upd s.pc a (.fGot old), holder := upd s.holder old (some a) }
    | _ => none
  | .ldRes a g v =>
    if v ≠ s.res g then none else
    match s.pc a with
    | .take0 op t => if g = t then some { s with pc := upd s.pc a (.take op t v) } else none
    | .fGot p => if g = a then some { s with pc := upd s.pc a (.fGotRes p v) } else none
    | .jWoken t => if g = a then some { s with pc := upd s.pc a (.jGotRes t v) } else none
    | _ => none
  | .stRes a g v =>
    match s.pc a with
    | .fRet v' => if g = a ∧ v = v' then some { s with res := upd s.res g v, pc := upd s.pc a .fStored } else none
    | .fGotRes p v' => if g = p ∧ v = v' then some { s with res := upd s.res g v, pc := upd s.pc a (.fGave p) } else none
    | .jGotRes t v' => if g = a ∧ v = 0 then some { s with res := upd s.res g 0, pc := upd s.pc a (.retn .join t true v') } else none
    | _ => none
  | .destroy a g =>
    if s.pc g = .fDone ∧ s.destroyed g = false ∧ a ≠ g then some { s with destroyed := upd s.destroyed g true }
    else none
  | .touch _ _ => some s

def step (s : St) (e : Ev) : Option St :=
  (stepCore s e).map (fun s' =>
    { s' with late := if e.counted ∧ s'.destroyed e.cellOf then upd s'.late e.cellOf (s'.late e.cellOf + 1) else s'.late })

def sys (isTarget : Nat → Bool) : Sys St Ev := { init := init isTarget, step := step }

/-! ### log decoding -/

open LibfiberVerif.Join (fiberOfPtr splitCell schedulerFuncs opOf tid)

def ofRaw (r : RawEv) : Option (Option Ev) :=
  let a := r.fiber
  match r.kind, r.args with
  | "note", ["call", op, i] => do let o ← opOf op; let g ← tid i; pure (some (.call a o g))
  | "note", ["ret", "detach", i, rc] => do let g ← tid i; pure (some (.ret a .detach g (rc = "1") 0))
  | "note", ["ret", op, i, rc, v] => do
      let o ← opOf op; let g ← tid i; let v ← v.toNat?; pure (some (.ret a o g (rc = "1") v))
  | "note", ["target", _, "returns", v] => v.toNat?.map (fun v => some (.fnRet a v))
  | "note", ["returns", v] => v.toNat?.map (fun v => some (.fnRet a v))
  | "note", _ => some none
  | "switch", [g] => g.toNat?.map (fun g => some (.touch a g))
  | "fcreate", _ => some none
  | "fdestroy", [g] => g.toNat?.map (fun g => some (.destroy a g))
  | "rqpush", _ => some none
  | "rqpop", _ => some none
  | "rqsteal", _ => some none
  | "relax", _ => some none
  | "fence", _ => some none
  | k, c :: vs =>
    match splitCell c with
    | none => none
    | some (g, fld) =>
      if r.func = "fiber_destroy" ∨ r.func = "fiber_context_destroy" then some none
      else if fld = "state" ∧ schedulerFuncs.contains r.func then some (some (.touch a g))
      else if fld = "node" ∨ fld = "scratch" ∨ fld = "Nnext" ∨ fld = "Ndata" then some (some (.touch a g))
      else
      match k, fld, vs with
      | "cas", "detach", [f, e, d, ok, _] => do
          let f ← f.toNat?; let e ← e.toNat?; let d ← d.toNat?; pure (some (.casDet a g f e d (ok = "1")))
      | "st", "result", [v, _] => v.toNat?.map (fun v => some (.stRes a g v))
      | "ld", "result", [v, _] => v.toNat?.map (fun v => some (.ldRes a g v))
      | "xchg", "join_info", [o, "0", _] => (fiberOfPtr o).map (fun o => some (.xchgJi a g o))
      | "w", "join_info", [v] =>
        if r.func = "fiber_manager_do_maintenance" then (fiberOfPtr v).map (fun v => some (.wJi a g v)) else none
      | "w", "state", [v] => v.toNat?.map (fun v => some (.wState a g v))
      | _, _, _ => none
  | _, _ => none

/-! ### monitor: the property itself, no window is excused -/

structure Mon where
  retval : Nat → Option Nat := fun _ => none
  succ : Nat → Nat := fun _ => 0
  detRet : Nat → Bool := fun _ => false
  detX : Nat → Bool := fun _ => false
  claimed : Nat → Bool := fun _ => false
  destroyed : Nat → Bool := fun _ => false
  retired : Nat → Bool := fun _ => false
  /-- calls in flight: (fiber, op, target, has exchanged / swapped detach_state) -/
  open_ : List (Nat × Op × Nat × Bool) := []
  invalid : List (Nat × Nat) := []
  finishing : List Nat := []
  bad : List String := []

def Mon.flag (m : Mon) (g : Nat) (kind : String) (detail : String) : Mon :=
  { m with bad := m.bad ++ [s!"{kind} target F{g}: {detail}"] }

open LibfiberVerif.Join (opName)

def evName : Ev → String
  | .call a op g => s!"call {opName op} F{g} by F{a}"
  | .ret a op g ok v => s!"ret {opName op} F{g} by F{a} ok={ok} value={v}"
  | .fnRet f v => s!"function of F{f} returns {v}"
  | .casDet a g f e d ok => s!"F{a} CAS F{g}.detach_state found {f} expected {e} -> {d} ok={ok}"
  | .stRes a g v => s!"F{a} stores F{g}.result := {v}"
  | .ldRes a g v => s!"F{a} loads F{g}.result = {v}"
  | .xchgJi a g o => s!"F{a} exchanges F{g}.join_info F{o} -> 0"
  | .wJi a g v => s!"F{a} stores F{g}.join_info := F{v}"
  | .wState a g v => s!"F{a} writes F{g}.state := {v}"
  | .destroy a g => s!"F{a} destroys F{g}"
  | .touch a g => s!"F{a} touches / switches to F{g}"

def monStep (isTarget : Nat → Bool) (m : Mon) (e : Ev) : Mon :=
  let a := e.actor
  let g := e.cellOf
  let m := match e with
    | .casDet a g _ _ _ _ =>
      if m.destroyed g ∧ m.open_.any (fun c => c.1 = a ∧ c.2.2.1 = g ∧ c.2.2.2 = false) ∧ !m.invalid.contains (a, g)
      then { m with invalid := (a, g) :: m.invalid } else m
    | _ => m
  let m := match e with
    | .casDet a g _ exp des ok =>
      if !ok then m else
      let m : Mon := { m with open_ := m.open_.map (fun c => if c.1 = a ∧ c.2.2.1 = g then (c.1, c.2.1, g, true) else c) }
      if m.invalid.contains (a, g) then m else
      let isDetach : Bool := m.open_.any (fun (c : Nat × Op × Nat × Bool) => c.1 == a && c.2.2.1 == g && c.2.1 == Op.detach)
      if des = DET ∧ isDetach then { m with detX := upd m.detX g true }
      else if des = DET ∧ (exp = WFJ ∨ exp = WTJ) then { m with claimed := upd m.claimed g true } else m
    | _ => m
  let m := match e with
    | .destroy _ _ => m
    | _ =>
      let m := if isTarget g ∧ m.destroyed g ∧ !m.invalid.contains (a, g) then m.flag g "use-after-destroy" (evName e) else m
      if a ≠ g ∧ isTarget a ∧ m.destroyed a then m.flag a "use-after-destroy" ("the destroyed fiber runs: " ++ evName e) else m
  match e with
  | .call a op g =>
    let m := if m.retired g then m.flag g "contract" s!"harness issued {opName op} by F{a} on a retired target" else m
    { m with open_ := (a, op, g, false) :: m.open_ }
  | .ret a op g ok v =>
    let inv := m.invalid.contains (a, g)
    let m := { m with open_ := m.open_.filter (fun c => !(c.1 = a ∧ c.2.2.1 = g)),
                      invalid := m.invalid.filter (· ≠ (a, g)) }
    match op, ok with
    | .detach, true => { m with detRet := upd m.detRet g true, retired := upd m.retired g true }
    | .detach, false => { m with retired := upd m.retired g true }
    | _, false => if v ≠ 0 then m.flag g "failed-with-value" s!"{opName op} by F{a} failed but delivered {v}" else m
    | _, true =>
      let m := if inv then m.flag g "success-on-destroyed" s!"{opName op} by F{a} started after the destruction and returned SUCCESS" else m
      let m :=
        match m.retval g with
        | none => m.flag g "early-success" s!"{opName op} by F{a} returned SUCCESS value {v} before the target's function returned"
        | some w => if v ≠ w then m.flag g "wrong-value" s!"{opName op} by F{a} returned SUCCESS value {v}, the target returned {w}" else m
      let m := if m.succ g != 0 then m.flag g "double-success" s!"{opName op} by F{a} is success number {m.succ g + 1}" else m
      let m := if m.detRet g then m.flag g "success-after-detach" s!"{opName op} by F{a} succeeded after a detach had returned" else m
      { m with succ := upd m.succ g (m.succ g + 1), retired := upd m.retired g true }
  | .fnRet f v => { m with retval := upd m.retval f (some v), finishing := f :: m.finishing }
  | .destroy a g =>
    let m := if a = g then m.flag g "destroy-by-self" s!"fiber_destroy ran on the fiber's own stack" else m
    let m := if m.destroyed g then m.flag g "double-destroy" "destroyed twice" else m
    let m := if isTarget g ∧ m.retval g = none then m.flag g "destroy-before-return" "destroyed before its function returned" else m
    let m := if isTarget g ∧ !(m.detX g || m.claimed g) then m.flag g "destroy-unjoined" "destroyed although neither joined nor detached" else m
    { m with destroyed := upd m.destroyed g true, finishing := m.finishing.filter (· ≠ g) }
  | _ => m

def monEnd (isTarget : Nat → Bool) (m : Mon) : Mon :=
  let m := m.open_.foldl (fun m c =>
    if m.invalid.contains (c.1, c.2.2.1) then m
    else m.flag c.2.2.1 "stranded" s!"{opName c.2.1} by F{c.1} never returned") m
  m.finishing.foldl (fun m f =>
    if isTarget f ∧ (m.detX f || m.claimed f || m.open_.any (fun c => c.2.2.1 = f ∧ c.2.2.2))
    then m.flag f "stranded" "the finished fiber was never destroyed" else m) m

def monitor (isTarget : Nat → Bool) (evs : List Ev) : Option String :=
  (monEnd isTarget (evs.foldl (monStep isTarget) {})).bad.head?

def drive (lines : List String) : IO UInt32 := do
  let nT := match initArgs lines with
    | [_, _, t, _] => t.toNat?.getD 0
    | _ => 0
  let isTarget := fun f => decide (16 ≤ f ∧ f < 16 + nT)
  let body := (lines.dropWhile (fun l => !isInit l)).filter (fun l => !isInit l)
  let v := validateP (sys isTarget) ofRaw body
  let evs := body.filterMap (fun l => (parseLine l).bind (fun r => (ofRaw r).join))
  report "JoinCas" v (monitor isTarget evs)

end LibfiberVerif.JoinCas
