/-
  Model/RwLock.lean — src/fiber_rwlock.c + include/fiber_rwlock.h on top of
  fiber_manager_wait_in_mpsc_queue / fiber_manager_wake_from_mpsc_queue (src/fiber_manager.c)
  and include/mpsc_fifo.h (property C07).

  Actors are FIBERS (the `fiber` column of the log), any number of them (`Nat → Pc`), on any
  number of kernel threads.  One model step = one access to a cell of the lock (the 64-bit
  state word `rw`, the two waiter queues' `head`/`tail`, a node's `next`/`data`, a fiber's
  `mpsc_fifo_node` / `state` as touched by the wait / wake functions), in exactly the order
  the C code performs them, plus the harness's API notes.

  The state word (include/fiber_rwlock.h, little-endian packed bit-fields):
      bit 0        write_locked      (`wl`)
      bits 1..21   reader_count      (`rc`)
      bits 22..42  waiting_readers   (`wr`)
      bits 43..63  waiting_writers   (`ww`)
  is kept as four `Nat` fields (`Word`); `encode`/`decode` are the exact packing.  Every
  operation is `snapshot = plain read of blob; compute on the bit-fields of the snapshot;
  CAS(blob, snapshot, new)` in a loop, and is modelled as such: the read event stores the raw
  snapshot in the pc, the CAS event recomputes the new word from `decode snapshot` and must
  match the logged `desired`; a failed CAS loops back to the read.

  NO-OVERFLOW HYPOTHESIS (explicit): a successful CAS whose new word does not fit the field
  widths (`Word.fits`, i.e. a 21-bit counter would wrap: ≥ 2^21 simultaneous holders/waiters)
  is NOT a step of this model (`step = none`).  All theorems are therefore about executions
  with fewer than 2^21 simultaneous readers / waiting readers / waiting writers, as the
  header comment of fiber_rwlock.h requires.

  C code (b = false: read side, b = true: write side):
    rdlock:   loop { s = blob; if (s.ww || s.wl || s.wr) { s.wr++; if CAS → wait_in(read_waiters); break }
                     else { s.rc++; if CAS → break } }
    wrlock:   loop { s = blob; if (s != 0) { s.ww++; if CAS → wait_in(write_waiters); break }
                     else { s.wl = 1; if CAS → break } }
    tryrdlock / trywrlock: same tests, `return ERROR` instead of waiting (no CAS then).
    rdunlock: loop { s = blob; s.rc--; if (!s.rc) { if (s.ww) { s.wl = 1; s.ww--; if CAS → wake(write_waiters, 1); break; continue }
                                                   if (s.wr) { s.rc = s.wr; s.wr = 0; if CAS → wake(read_waiters, s.rc); break; continue } }
                     if CAS → break }
    wrunlock: loop { s = blob; s.wl = 0; if (s.ww) { s.wl = 1; s.ww--; … wake(write_waiters, 1) }
                     if (s.wr) { s.rc = s.wr; s.wr = 0; … wake(read_waiters, s.rc) }  if CAS → break }
    wait_in_mpsc_queue / wake_from_mpsc_queue(count): as in Model/Mutex.lean.

  Ghost state.  `holders b` = fibers holding the lock in mode b (from their acquiring CAS, or —
  for a waiter — from the releaser's pop that hands the lock to it, until their releasing
  CAS); `tok b` = grants issued by a releasing CAS on queue b that no pop has consumed yet
  (the lock is already owned by "the next `tok b` fibers popped from queue b": handed off, not
  yet identified — a reader popped by the releaser may be a LATER registrant than one that is
  still enqueueing; counts stay exact, identities swap); `waiters b` = fibers counted in
  `wr`/`ww` (or covered by a token) and not yet popped; `woken g` = the waker has finished with
  the popped fiber `g` (about to call fiber_manager_schedule), only then may `g` return.

  The waiter queues are kept abstractly (ghost `order` in `xchg(&tail)` order, `linked`
  flags, `hd` = number popped); the concrete `head`/`tail`/`next`/`data` values are derived
  from that and checked against every logged access.  That this is the right abstraction of
  mpsc_fifo.h for every interleaving with ONE consumer at a time is C15's theorem; that the
  rwlock never has two consumers on one queue is `single_consumer` (Props/C07.lean).
-/
import LibfiberVerif.Core.Sys
import LibfiberVerif.Core.Event
import LibfiberVerif.Driver

namespace LibfiberVerif.RwLock

/-- fiber states (include/fiber.h) -/
def WAITING : Nat := 3
def READY : Nat := 2
def SAVING : Nat := 5

/-! ### the state word -/

/-- width of `reader_count`, `waiting_readers`, `waiting_writers` -/
def FIELD_BITS : Nat := 21
/-- 2^21 -/
def F : Nat := 2097152
/-- 2^1, 2^22, 2^43: positions of `rc`, `wr`, `ww` -/
def RC_MUL : Nat := 2
def WR_MUL : Nat := 4194304
def WW_MUL : Nat := 8796093022208

structure Word where
  wl : Nat
  rc : Nat
  wr : Nat
  ww : Nat
  deriving Repr, DecidableEq, Inhabited

def encode (w : Word) : Nat := w.wl + 2 * w.rc + 4194304 * w.wr + 8796093022208 * w.ww

def decode (v : Nat) : Word :=
  { wl := v % 2, rc := (v / 2) % 2097152, wr := (v / 4194304) % 2097152,
    ww := (v / 8796093022208) % 2097152 }

/-- the fields fit their bit widths -/
def Word.fits (w : Word) : Bool :=
  decide (w.wl < 2) && decide (w.rc < 2097152) && decide (w.wr < 2097152) && decide (w.ww < 2097152)

/-- rdlock (b = false) / wrlock (b = true): new word computed from the snapshot, and whether
    the caller has to wait (it was counted in `wr` / `ww`) -/
def lockNew (b : Bool) (snap : Nat) : Word × Bool :=
  let d := decode snap
  if b then
    if snap ≠ 0 then ({ d with ww := d.ww + 1 }, true) else ({ d with wl := 1 }, false)
  else
    if d.ww ≠ 0 ∨ d.wl ≠ 0 ∨ d.wr ≠ 0 then ({ d with wr := d.wr + 1 }, true)
    else ({ d with rc := d.rc + 1 }, false)

/-- tryrdlock / trywrlock go on to the CAS only if this holds of the snapshot -/
def tryLegal (b : Bool) (snap : Nat) : Bool :=
  let d := decode snap
  if b then decide (snap = 0) else (decide (d.ww = 0) && decide (d.wl = 0) && decide (d.wr = 0))

def tryNew (b : Bool) (snap : Nat) : Word :=
  let d := decode snap
  if b then { d with wl := 1 } else { d with rc := d.rc + 1 }

/-- rdunlock / wrunlock: new word and the hand-off `(queue, count)` the caller performs after
    a successful CAS.  `reader_count -= 1` is 21-bit arithmetic (NDEBUG: no assert). -/
def unlockNew (b : Bool) (snap : Nat) : Word × Option (Bool × Nat) :=
  let d := decode snap
  if b then
    if d.ww ≠ 0 then ({ wl := 1, rc := d.rc, wr := d.wr, ww := d.ww - 1 }, some (true, 1))
    else if d.wr ≠ 0 then ({ wl := 0, rc := d.wr, wr := 0, ww := d.ww }, some (false, d.wr))
    else ({ d with wl := 0 }, none)
  else
    let rc' := (d.rc + 2097152 - 1) % 2097152
    if rc' = 0 then
      if d.ww ≠ 0 then ({ wl := 1, rc := 0, wr := d.wr, ww := d.ww - 1 }, some (true, 1))
      else if d.wr ≠ 0 then ({ wl := d.wl, rc := d.wr, wr := 0, ww := d.ww }, some (false, d.wr))
      else ({ d with rc := 0 }, none)
    else ({ d with rc := rc' }, none)

/-! ### program counters, events, state -/

inductive Pc
  | idle
  | lockCalled (b : Bool)                  -- about to read the blob
  | lockRead (b : Bool) (snap : Nat)       -- snapshot taken, about to CAS
  | counted (b : Bool)                     -- CAS counted us in wr/ww: entering wait_in_mpsc_queue
  | waitSaving (b : Bool)                  -- state := SAVING written
  | waitGotNode (b : Bool) (n : Nat)       -- read own mpsc_fifo_node
  | waitWroteData (b : Bool) (n : Nat)     -- node->data := self
  | waitClearedNode (b : Bool) (n : Nat)   -- own mpsc_fifo_node := NULL
  | pushCleared (b : Bool) (n : Nat)       -- node->next := NULL
  | pushXchgd (b : Bool) (n p i : Nat)     -- prev = xchg(tail, node); our entry is order[i]
  | parked (b : Bool) (i : Nat)            -- prev->next := node done; waiting to be handed the lock
  | acquired (b : Bool)                    -- CAS acquired directly; about to return
  | tryCalled (b : Bool)
  | tryRead (b : Bool) (snap : Nat)
  | tryDone (b : Bool) (r : Bool)
  | held (b : Bool)                        -- between a successful acquisition's return and `call unlock`
  | inCs (b : Bool)                        -- inside the harness's critical section
  | unlockCalled (b : Bool)
  | unlockRead (b : Bool) (snap : Nat)
  | wakeLoop (q : Bool) (k : Nat)          -- releasing CAS handed off to queue q: k more to pop
  | popGotHead (q : Bool) (k h : Nat)
  | popGotNext (q : Bool) (k h x : Nat)
  | popMoved (q : Bool) (k h x g : Nat)    -- head := x (pop took effect; k already decremented); g ghost
  | popGotData (q : Bool) (k h x g : Nat)  -- read x->data = fiber g
  | popWrote (q : Bool) (k h g : Nat)      -- h->data := g ; `h` is the node handed out
  | wakeGotFiber (q : Bool) (k h g : Nat)  -- re-read out->data
  | wakeGaveNode (q : Bool) (k h g : Nat)  -- g->mpsc_fifo_node := out
  | wakeReadState (q : Bool) (k g st : Nat) -- read g->state
  | unlockDone
  deriving Repr, DecidableEq, Inhabited

inductive Ev
  | callLock (f : Nat) (b : Bool) | retLock (f : Nat) (b : Bool)
  | callTry (f : Nat) (b : Bool) | retTry (f : Nat) (b : Bool) (r : Bool)
  | callUnlock (f : Nat) (b : Bool) | retUnlock (f : Nat)
  | csEnter (f : Nat) (b : Bool) | csExit (f : Nat)
  | rBlob (f : Nat) (v : Nat)
  | cas (f : Nat) (found expected desired : Nat) (ok : Bool)
  | wState (f g v : Nat)
  | rState (f g v : Nat)
  | rNode (f g n : Nat)
  | wNode (f g n : Nat)
  | wData (f n g : Nat)
  | rData (f n g : Nat)
  | wNext (f n x : Nat)
  | rNext (f n x : Nat)
  | xchgTail (f : Nat) (q : Bool) (old new : Nat)
  | rHead (f : Nat) (q : Bool) (n : Nat)
  | wHead (f : Nat) (q : Bool) (n : Nat)
  deriving Repr, DecidableEq, Inhabited

/-- update of a `Bool`-indexed family (the two queues / the two modes) -/
def updB {α : Type} (f : Bool → α) (b : Bool) (v : α) : Bool → α :=
  fun c => if c = b then v else f c

@[simp] theorem updB_same {α : Type} (f : Bool → α) (b : Bool) (v : α) : updB f b v b = v := by
  simp [updB]

theorem updB_apply {α : Type} (f : Bool → α) (b c : Bool) (v : α) :
    updB f b v c = if c = b then v else f c := rfl

structure St where
  w : Word
  stub : Bool → Nat
  /-- ghost: (node, fiber) in `xchg(&tail)` order, per queue -/
  order : Bool → List (Nat × Nat)
  /-- ghost: `linked q i` = the `prev->next = node` write of `order q [i]` has happened -/
  linked : Bool → Nat → Bool
  /-- number of entries of `order q` already popped -/
  hd : Bool → Nat
  /-- current stub of queue q (value of `head`) -/
  headNode : Bool → Nat
  fnode : Nat → Nat
  pc : Nat → Pc
  /-- ghost: fibers holding in mode b (identified holders) -/
  holders : Bool → List Nat
  /-- ghost: fibers counted as waiting on queue b and not yet popped -/
  waiters : Bool → List Nat
  /-- ghost: grants handed to queue b by a releasing CAS, not yet consumed by a pop -/
  tok : Bool → Nat
  /-- ghost: the waker is done with this popped fiber (it is being scheduled) -/
  woken : Nat → Bool

def tailNode (s : St) (q : Bool) : Nat :=
  match (s.order q).getLast? with
  | some (n, _) => n
  | none => s.stub q

/-- `next` field of the current stub of queue q as the consumer sees it -/
def headNext (s : St) (q : Bool) : Nat :=
  match (s.order q)[s.hd q]? with
  | some (n, _) => if s.linked q (s.hd q) then n else 0
  | none => 0

def init (stub : Bool → Nat) (nodeOf : Nat → Nat) : St :=
  { w := { wl := 0, rc := 0, wr := 0, ww := 0 }, stub := stub, order := fun _ => [],
    linked := fun _ _ => false, hd := fun _ => 0, headNode := stub, fnode := nodeOf,
    pc := fun _ => .idle, holders := fun _ => [], waiters := fun _ => [], tok := fun _ => 0,
    woken := fun _ => false }

/-- where a waker goes after finishing one pop -/
def afterPop (q : Bool) (k : Nat) : Pc := if k = 0 then .unlockDone else .wakeLoop q k

def step (s : St) : Ev → Option St
  | .callLock f b => if s.pc f = .idle then some { s with pc := upd s.pc f (.lockCalled b) } else none
  | .callTry f b => if s.pc f = .idle then some { s with pc := upd s.pc f (.tryCalled b) } else none
  | .callUnlock f b => if s.pc f = .held b then some { s with pc := upd s.pc f (.unlockCalled b) } else none
  | .csEnter f b => if s.pc f = .held b then some { s with pc := upd s.pc f (.inCs b) } else none
  | .csExit f =>
    match s.pc f with
    | .inCs b => some { s with pc := upd s.pc f (.held b) }
    | _ => none
  | .rBlob f v =>
    match s.pc f with
    | .lockCalled b => if v = encode s.w then some { s with pc := upd s.pc f (.lockRead b v) } else none
    | .tryCalled b =>
      if v = encode s.w then
        if tryLegal b v then some { s with pc := upd s.pc f (.tryRead b v) }
        else some { s with pc := upd s.pc f (.tryDone b false) }     -- return FIBER_ERROR, no CAS
      else none
    | .unlockCalled b => if v = encode s.w then some { s with pc := upd s.pc f (.unlockRead b v) } else none
    | _ => none
  | .cas f found expected desired ok =>
    match s.pc f with
    | .lockRead b snap =>
      if expected = snap ∧ found = encode s.w ∧ ok = decide (found = expected)
          ∧ desired = encode (lockNew b snap).1 then
        if ok then
          if (lockNew b snap).1.fits then
            if (lockNew b snap).2 then
              some { s with w := (lockNew b snap).1, waiters := updB s.waiters b (f :: s.waiters b),
                            pc := upd s.pc f (.counted b) }
            else
              some { s with w := (lockNew b snap).1, holders := updB s.holders b (f :: s.holders b),
                            pc := upd s.pc f (.acquired b) }
          else none                                                    -- NO-OVERFLOW HYPOTHESIS
        else some { s with pc := upd s.pc f (.lockCalled b) }         -- CAS failed: loop back to the read
      else none
    | .tryRead b snap =>
      if expected = snap ∧ found = encode s.w ∧ ok = decide (found = expected)
          ∧ desired = encode (tryNew b snap) then
        if ok then
          if (tryNew b snap).fits then
            some { s with w := tryNew b snap, holders := updB s.holders b (f :: s.holders b),
                          pc := upd s.pc f (.tryDone b true) }
          else none                                                    -- NO-OVERFLOW HYPOTHESIS
        else some { s with pc := upd s.pc f (.tryCalled b) }
      else none
    | .unlockRead b snap =>
      if expected = snap ∧ found = encode s.w ∧ ok = decide (found = expected)
          ∧ desired = encode (unlockNew b snap).1 then
        if ok then
          if (unlockNew b snap).1.fits then
            match (unlockNew b snap).2 with
            | none =>
              some { s with w := (unlockNew b snap).1, holders := updB s.holders b ((s.holders b).erase f),
                            pc := upd s.pc f .unlockDone }
            | some (q, n) =>
              -- ownership is transferred by this very CAS: n grants on queue q
              some { s with w := (unlockNew b snap).1, holders := updB s.holders b ((s.holders b).erase f),
                            tok := updB s.tok q (s.tok q + n), pc := upd s.pc f (.wakeLoop q n) }
          else none
        else some { s with pc := upd s.pc f (.unlockCalled b) }
      else none
    | _ => none
  | .wState f g v =>
    match s.pc f with
    | .counted b => if g = f ∧ v = SAVING then some { s with pc := upd s.pc f (.waitSaving b) } else none
    | .wakeReadState q k g' st =>
      if g = g' ∧ st = WAITING ∧ v = READY then
        some { s with woken := upd s.woken g true, pc := upd s.pc f (afterPop q k) }
      else none
    | _ => none
  | .rNode f g n =>
    match s.pc f with
    | .waitSaving b =>
      if g = f ∧ n = s.fnode f ∧ n ≠ 0 then some { s with pc := upd s.pc f (.waitGotNode b n) } else none
    | _ => none
  | .wData f n g =>
    match s.pc f with
    | .waitGotNode b m => if n = m ∧ g = f then some { s with pc := upd s.pc f (.waitWroteData b n) } else none
    | .popGotData q k h _ g' => if n = h ∧ g = g' then some { s with pc := upd s.pc f (.popWrote q k h g) } else none
    | _ => none
  | .wNode f g n =>
    match s.pc f with
    | .waitWroteData b m =>
      if g = f ∧ n = 0 then some { s with fnode := upd s.fnode f 0, pc := upd s.pc f (.waitClearedNode b m) } else none
    | .wakeGotFiber q k h g' =>
      if g = g' ∧ n = h then some { s with fnode := upd s.fnode g h, pc := upd s.pc f (.wakeGaveNode q k h g) } else none
    | _ => none
  | .wNext f n x =>
    match s.pc f with
    | .waitClearedNode b m => if n = m ∧ x = 0 then some { s with pc := upd s.pc f (.pushCleared b m) } else none
    | .pushXchgd b m p i =>
      if n = p ∧ x = m then
        some { s with linked := updB s.linked b (upd (s.linked b) i true), pc := upd s.pc f (.parked b i) }
      else none
    | _ => none
  | .xchgTail f q old new =>
    match s.pc f with
    | .pushCleared b m =>
      if q = b ∧ new = m ∧ old = tailNode s b then
        some { s with order := updB s.order b (s.order b ++ [(m, f)]),
                      pc := upd s.pc f (.pushXchgd b m old (s.order b).length) }
      else none
    | _ => none
  | .retLock f b =>
    match s.pc f with
    | .acquired b' => if b = b' then some { s with pc := upd s.pc f (.held b) } else none
    | .parked b' i =>
      -- a parked fiber returns only after a releaser popped it AND finished waking it
      if b = b' ∧ i < s.hd b ∧ s.woken f = true then
        some { s with woken := upd s.woken f false, pc := upd s.pc f (.held b) }
      else none
    | _ => none
  | .retTry f b r =>
    match s.pc f with
    | .tryDone b' r' =>
      if b = b' ∧ r = r' then some { s with pc := upd s.pc f (if r then .held b else .idle) } else none
    | _ => none
  | .rHead f q n =>
    match s.pc f with
    | .wakeLoop q' k =>
      if q = q' ∧ n = s.headNode q then some { s with pc := upd s.pc f (.popGotHead q k n) } else none
    | _ => none
  | .rNext f n x =>
    match s.pc f with
    | .popGotHead q k h =>
      if n = h ∧ x = headNext s q then
        if x = 0 then some { s with pc := upd s.pc f (.wakeLoop q k) }    -- trypop failed: yield and retry
        else some { s with pc := upd s.pc f (.popGotNext q k h x) }
      else none
    | _ => none
  | .wHead f q n =>
    match s.pc f with
    | .popGotNext q' k h x =>
      if q = q' ∧ n = x then
        match (s.order q)[s.hd q]? with
        | some (n', g) =>
          if n' = x ∧ s.linked q (s.hd q) = true then
            -- the pop takes effect: the oldest enqueued waiter consumes one grant and holds
            some { s with headNode := updB s.headNode q x, hd := updB s.hd q (s.hd q + 1),
                          tok := updB s.tok q (s.tok q - 1),
                          waiters := updB s.waiters q ((s.waiters q).erase g),
                          holders := updB s.holders q (g :: s.holders q),
                          pc := upd s.pc f (.popMoved q (k - 1) h x g) }
          else none
        | none => none
      else none
    | _ => none
  | .rData f n g =>
    match s.pc f with
    | .popMoved q k h x g' => if n = x ∧ g = g' then some { s with pc := upd s.pc f (.popGotData q k h x g) } else none
    | .popWrote q k h g' => if n = h ∧ g = g' then some { s with pc := upd s.pc f (.wakeGotFiber q k h g) } else none
    | _ => none
  | .rState f g v =>
    match s.pc f with
    | .wakeGaveNode q k _ g' =>
      if g = g' ∧ (v = WAITING ∨ v = SAVING) then
        if v = WAITING then some { s with pc := upd s.pc f (.wakeReadState q k g v) }
        else some { s with woken := upd s.woken g true, pc := upd s.pc f (afterPop q k) }  -- still SAVING: scheduled as is
      else none
    | _ => none
  | .retUnlock f =>
    match s.pc f with
    | .unlockDone => some { s with pc := upd s.pc f .idle }
    | _ => none

def sys (stub : Bool → Nat) (nodeOf : Nat → Nat) : Sys St Ev := { init := init stub nodeOf, step := step }

/-! ### log decoding -/

/-- `@RS` ↦ 1, `@WS` ↦ 2, `@N<k>` ↦ k+3, `0` ↦ 0 -/
def nodeId (s : String) : Option Nat :=
  if s = "0" then some 0
  else if s = "@RS" then some 1
  else if s = "@WS" then some 2
  else if s.startsWith "@N" then (s.drop 2).toString.toNat?.map (· + 3)
  else none

def fiberId (s : String) : Option Nat :=
  if s.startsWith "@F" then (s.drop 2).toString.toNat? else none

def splitCell (c : String) : Option (String × String) :=
  match c.splitOn "." with
  | [a, b] => some (a, b)
  | _ => none

def cellNode (a : String) : Option Nat := nodeId ("@" ++ a)
def cellFiber (a : String) : Option Nat := fiberId ("@" ++ a)

def schedulerFuncs : List String :=
  ["fiber_manager_yield", "fiber_scheduler_next", "fiber_manager_switch_to",
   "fiber_manager_do_maintenance", "fiber_mark_completed", "fiber_destroy"]

def ofRaw (r : RawEv) : Option (Option Ev) :=
  let f := r.fiber
  if schedulerFuncs.contains r.func then some none else
  match r.kind, r.args with
  | "note", ["call", "rdlock"] => some (some (.callLock f false))
  | "note", ["call", "wrlock"] => some (some (.callLock f true))
  | "note", ["ret", "rdlock"] => some (some (.retLock f false))
  | "note", ["ret", "wrlock"] => some (some (.retLock f true))
  | "note", ["call", "tryrdlock"] => some (some (.callTry f false))
  | "note", ["call", "trywrlock"] => some (some (.callTry f true))
  | "note", ["ret", "tryrdlock", v] => some (some (.retTry f false (v = "1")))
  | "note", ["ret", "trywrlock", v] => some (some (.retTry f true (v = "1")))
  | "note", ["call", "rdunlock"] => some (some (.callUnlock f false))
  | "note", ["call", "wrunlock"] => some (some (.callUnlock f true))
  | "note", ["ret", "rdunlock"] => some (some (.retUnlock f))
  | "note", ["ret", "wrunlock"] => some (some (.retUnlock f))
  | "note", "cs" :: "enter" :: "r" :: _ => some (some (.csEnter f false))
  | "note", "cs" :: "enter" :: "w" :: _ => some (some (.csEnter f true))
  | "note", "cs" :: "exit" :: _ => some (some (.csExit f))
  | "note", _ => some none
  | "r", ["rw", v] => v.toNat?.map (fun v => some (.rBlob f v))
  | "cas", ["rw", found, expected, desired, ok, _] => do
      let a ← found.toNat?; let e ← expected.toNat?; let d ← desired.toNat?
      pure (some (.cas f a e d (ok = "1")))
  | "xchg", ["RT", old, new, _] => do
      let o ← nodeId old; let n ← nodeId new; pure (some (.xchgTail f false o n))
  | "xchg", ["WT", old, new, _] => do
      let o ← nodeId old; let n ← nodeId new; pure (some (.xchgTail f true o n))
  | "r", ["RH", n] => (nodeId n).map (fun n => some (.rHead f false n))
  | "r", ["WH", n] => (nodeId n).map (fun n => some (.rHead f true n))
  | "w", ["RH", n] => (nodeId n).map (fun n => some (.wHead f false n))
  | "w", ["WH", n] => (nodeId n).map (fun n => some (.wHead f true n))
  | k, [c, v] =>
    match splitCell c with
    | some (a, "state") => do
        let g ← cellFiber a; let v ← v.toNat?
        if k = "w" then pure (some (.wState f g v)) else if k = "r" then pure (some (.rState f g v)) else none
    | some (a, "node") => do
        let g ← cellFiber a; let n ← nodeId v
        if k = "w" then pure (some (.wNode f g n)) else if k = "r" then pure (some (.rNode f g n)) else none
    | some (a, "next") => do
        let n ← cellNode a; let x ← nodeId v
        if k = "w" then pure (some (.wNext f n x)) else if k = "r" then pure (some (.rNext f n x)) else none
    | some (a, "data") => do
        let n ← cellNode a
        let g ← (if v = "0" then some 0 else fiberId v)
        if k = "w" then pure (some (.wData f n g)) else if k = "r" then pure (some (.rData f n g)) else none
    | _ => if k = "switch" ∨ k = "fcreate" ∨ k = "fdestroy" then some none else none
  | "switch", _ => some none
  | "fcreate", _ => some none
  | "fdestroy", _ => some none
  | _, _ => none

/-! ### monitor on the API notes: occupancy of the critical section (counts, not identities) -/

structure Mon where
  /-- fibers inside the critical section, with their mode -/
  inside : List (Nat × Bool)
  err : Option String

/-- entering / having acquired in mode b conflicts with the present occupancy -/
def conflict (b : Bool) (inside : List (Nat × Bool)) : Bool :=
  if b then !inside.isEmpty else inside.any (fun p => p.2)

def modeName (b : Bool) : String := if b then "writer" else "reader"

def monStep (m : Mon) : Ev → Mon
  | .csEnter f b =>
    if conflict b m.inside then
      { inside := (f, b) :: m.inside,
        err := m.err.or (some s!"exclusion: {modeName b} {f} entered while {m.inside} inside") }
    else { m with inside := (f, b) :: m.inside }
  | .csExit f => { m with inside := m.inside.filter (fun p => p.1 ≠ f) }
  | .retTry f b true =>
    if conflict b m.inside then
      { m with err := m.err.or (some s!"try-illegal: try{modeName b} of {f} succeeded while {m.inside} inside") }
    else m
  | _ => m

def monInit : Mon := { inside := [], err := none }

def monitor (evs : List Ev) : Option String := (evs.foldl monStep monInit).err

def drive (lines : List String) : IO UInt32 := do
  let body := lines.filter (fun l => !isInit l)
  -- queue stubs RS = 1, WS = 2; every fiber F<k> starts out owning node N<k> = k+3
  let v := validateP (sys (fun b => if b then 2 else 1) (fun k => k + 3)) ofRaw body
  let evs := body.filterMap (fun l => (parseLine l).bind (fun r => (ofRaw r).join))
  report "RwLock" v (monitor evs)

/-! ### second validator (`RwWord`, harness/rwword.c): one operation on an ARBITRARY word

  The pure bit-field computations `lockNew` / `tryLegal` / `tryNew` / `unlockNew` are compared
  with what the C code computes from any 64-bit word the harness planted in the lock
  (reachable or not, so also the branches no reachable state takes), together with the kind
  of continuation (return / wait / pop queue q). -/

def wordCheck (evs : List RawEv) : Option String :=
  let evs := evs.filter (fun r => !(schedulerFuncs.contains r.func) &&
    !(["switch", "fcreate", "fdestroy", "rqpush", "rqpop", "rqsteal"].contains r.kind))
  match evs.dropWhile (fun r => !(r.kind = "note" && r.args.head? = some "word")) with
  | w :: rd :: rest =>
    match w.args, rd.kind, rd.args with
    | ["word", c, blob], "r", ["rw", v] =>
      match blob.toNat? with
      | none => some "bad blob"
      | some snap =>
        if v ≠ blob then some s!"first read of rw returned {v}, planted {blob}" else
        let casOk (des : Nat) : Bool :=
          match rest.head? with
          | some r => r.kind = "cas" && (match r.args with
              | ["rw", f, e, d, "1", _] => f = blob && e = blob && d.toNat? = some des
              | _ => false)
          | none => false
        let after (k : Nat) : Option RawEv := (rest.drop k).head?
        let isRet (r : Option RawEv) (res : String) : Bool :=
          match r with
          | some r => r.kind = "note" && r.args = ["ret", c, res]
          | none => false
        let isWait (r : Option RawEv) : Bool :=
          match r with
          | some r => r.kind = "w" && r.func = "fiber_manager_wait_in_mpsc_queue" && r.args.getLast? = some "5"
          | none => false
        let isPop (r : Option RawEv) (q : Bool) : Bool :=
          match r with
          | some r => r.kind = "r" && r.args.head? = some (if q then "WH" else "RH")
          | none => false
        let lockCase (b : Bool) : Option String :=
          let n := lockNew b snap
          if !casOk (encode n.1) then some s!"lock: CAS desired ≠ {encode n.1}"
          else if n.2 then (if isWait (after 1) then none else some "lock: model waits, implementation does not")
          else (if isRet (after 1) "1" then none else some "lock: model acquires, implementation does not return")
        let tryCase (b : Bool) : Option String :=
          if tryLegal b snap then
            if !casOk (encode (tryNew b snap)) then some s!"try: CAS desired ≠ {encode (tryNew b snap)}"
            else if isRet (after 1) "1" then none else some "try: no success return after the CAS"
          else if isRet (after 0) "0" then none else some "try: model fails without CAS, implementation does not"
        let unlockCase (b : Bool) : Option String :=
          let n := unlockNew b snap
          if !casOk (encode n.1) then some s!"unlock: CAS desired ≠ {encode n.1}"
          else match n.2 with
            | none => if isRet (after 1) "1" then none else some "unlock: model returns, implementation does not"
            | some (q, _) => if isPop (after 1) q then none else some "unlock: model pops a queue, implementation does not"
        if c = "r" then lockCase false else if c = "w" then lockCase true
        else if c = "R" then tryCase false else if c = "W" then tryCase true
        else if c = "u" then unlockCase false else if c = "U" then unlockCase true
        else some "unknown op"
    | _, _, _ => some "operation did not start with a read of rw"
  | _ => some "no operation in the log"

def driveWord (lines : List String) : IO UInt32 := do
  let evs := lines.filterMap parseLine
  match wordCheck evs with
  | none => report "RwWord" (evs.length, none) none
  | some why => report "RwWord" (0, some (0, "word operation", why)) none

end LibfiberVerif.RwLock
