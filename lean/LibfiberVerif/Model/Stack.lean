/-
  Model/Stack.lean — include/mpmc_stack.h (property C20, part stack): CAS push,
  exchange-with-NULL flush ("take everything"), in-place reversal of the private list.

  One model step = one logged access in program order, plus the harness notes.  Shared
  cells: `head`, every node's `next` and `data`.  Any number of threads and nodes,
  unbounded operation counts.

  C code being modelled (push):
      head = load(q->head);
      do { n->next = head; } while (!CAS_weak(&q->head, &head, n));   // failure reloads `head`
  (push_timeout, `tries` is a size_t):
      head = load(q->head);
      do { n->next = head;
           if (CAS_weak(&q->head, &head, n)) return MPMC_SUCCESS;   // 1
           tries -= 1; } while (tries > 0);
      return MPMC_RETRY;                                            // 0: `n` was NOT published
    Same accesses as push; after the b-th failed CAS it gives up without any further access.
    The pcs of a push_timeout carry the remaining number of tries.  Client obligation
    (encoded in `step`): `tries ≥ 1` — with `tries = 0` the decrement wraps to SIZE_MAX before
    the test, i.e. the call behaves like the unbounded push (the harness never passes 0).
  (lifo_flush):  return exchange(&q->head, NULL);
  (fifo_flush):  return reverse(lifo_flush(q));
  (reverse):     fifo = NULL; while (head) { next = head->next; head->next = fifo; fifo = head; head = next; }
  after a flush the harness walks the returned private list: data, `item` note, next.

  The single-word CAS push needs no ABA counter here: the only removal is "take
  everything", so "head is node h again" always means "h is the current top" (Proof/Stack.lean).

  Harness notes: `call push <v>` / `ret push 1` (mpmc_stack_push), `call pushto <v> <b>` /
  `ret pushto <r>` (mpmc_stack_push_timeout with `tries = b`; r = 1 MPMC_SUCCESS, 0 MPMC_RETRY).

  Client obligation (encoded in `step`): a thread pushes only a non-NULL node it owns.
  Ownership ghost: initially `own0`; a successful push CAS gives the node to the container;
  the exchange gives EVERY node of the container to the flushing thread.
-/
import LibfiberVerif.Core.Sys
import LibfiberVerif.Core.Event
import LibfiberVerif.Driver
import LibfiberVerif.Model.NodeList

namespace LibfiberVerif.Stack
open NodeList

inductive Pc
  | idle
  | pushCalled (v : Nat)
  | pushReady (n : Nat)
  /-- `h` = the local `head`: loaded, or refreshed by a failed CAS -/
  | pushGotHead (n h : Nat)
  | pushWroteNext (n h : Nat)
  | pushDone
  /-- `mpmc_stack_push_timeout`: value, budget (`tries`) -/
  | toCalled (v b : Nat)
  /-- `b` = remaining tries (≥ 1), the one about to be made included -/
  | toReady (n b : Nat)
  | toGotHead (n h b : Nat)
  | toWroteNext (n h b : Nat)
  /-- the CAS succeeded: returns MPMC_SUCCESS -/
  | toDone
  /-- the last permitted CAS failed: returns MPMC_RETRY, the caller keeps node `n` -/
  | toGaveUp (n : Nat)
  | flushCalled (fifo : Bool)
  /-- `mpmc_stack_reverse` with `head = hd ≠ NULL`, `fifo = acc`; ghost: nodes still to
      reverse (from `hd`) and nodes already reversed (from `acc`) -/
  | revLoop (hd acc : Nat) (todo done : List Nat)
  | revGotNext (hd acc x : Nat) (todo done : List Nat)
  /-- the harness walks the returned list: current pointer, items seen, ghost rest -/
  | walk (p k : Nat) (rest : List Nat)
  | walkGotData (p k v : Nat) (rest : List Nat)
  | walkItem (p k : Nat) (rest : List Nat)
  deriving Repr, DecidableEq, Inhabited

inductive Ev
  | callPush (t v : Nat)
  | wrData (t n v : Nat)
  | ldHead (t h : Nat)
  | wrNext (t n x : Nat)
  | cas (t found exp des : Nat) (ok : Bool)
  | retPush (t : Nat)
  /-- `call pushto <v> <b>`: mpmc_stack_push_timeout with `tries = b` -/
  | callPushTo (t v b : Nat)
  /-- `ret pushto <r>`: 1 = MPMC_SUCCESS, 0 = MPMC_RETRY -/
  | retPushTo (t r : Nat)
  | callFlush (t : Nat) (fifo : Bool)
  | xchg (t old : Nat)
  | rdNext (t n x : Nat)
  | rdData (t n v : Nat)
  | item (t v : Nat)
  | retFlush (t k : Nat)
  deriving Repr, DecidableEq, Inhabited

structure St where
  head : Nat
  next : Nat → Nat
  data : Nat → Nat
  pc : Nat → Pc
  /-- ghost: `some t` = privately owned by `t`, `none` = in the container -/
  owner : Nat → Option Nat
  /-- ghost: the abstract stack (nodes, top first) -/
  stk : List Nat
  /-- ghost: per thread, the list its current/last flush must hand out, in hand-out order
      (= the container content at the exchange; reversed for a fifo flush) -/
  res : Nat → List Nat
  /-- ghost: linearisation: `push` at a successful CAS, `flush` at the exchange -/
  lin : List StackOp
  /-- ghost: per thread, the budget its current/last push_timeout was called with -/
  tries0 : Nat → Nat := fun _ => 0
  /-- ghost: per thread, the number of CAS attempts its current/last push_timeout has made -/
  att : Nat → Nat := fun _ => 0

def init (own0 : Nat → Nat) : St :=
  { head := 0, next := fun _ => 0, data := fun _ => 0, pc := fun _ => .idle,
    owner := fun n => some (own0 n), stk := [], res := fun _ => [], lin := [] }

def step (s : St) : Ev → Option St
  | .callPush t v =>
    if s.pc t = .idle ∧ v ≠ 0 then some { s with pc := upd s.pc t (.pushCalled v) } else none
  | .wrData t n v =>
    match s.pc t with
    | .pushCalled v' =>
      -- client obligation: the pushed node is non-NULL and owned by the pusher
      if v = v' ∧ n ≠ 0 ∧ s.owner n = some t then
        some { s with data := upd s.data n v, pc := upd s.pc t (.pushReady n) }
      else none
    | .toCalled v' b =>
      if v = v' ∧ n ≠ 0 ∧ s.owner n = some t then
        some { s with data := upd s.data n v, pc := upd s.pc t (.toReady n b) }
      else none
    | _ => none
  | .ldHead t h =>
    match s.pc t with
    | .pushReady n => if h = s.head then some { s with pc := upd s.pc t (.pushGotHead n h) } else none
    | .toReady n b => if h = s.head then some { s with pc := upd s.pc t (.toGotHead n h b) } else none
    | _ => none
  | .wrNext t m x =>
    match s.pc t with
    | .pushGotHead n h =>
      if m = n ∧ x = h then some { s with next := upd s.next n h, pc := upd s.pc t (.pushWroteNext n h) }
      else none
    | .toGotHead n h b =>
      if m = n ∧ x = h then some { s with next := upd s.next n h, pc := upd s.pc t (.toWroteNext n h b) }
      else none
    | .revGotNext hd acc nx todo done =>
      if m = hd ∧ x = acc then
        some { s with next := upd s.next hd acc,
                      pc := upd s.pc t (if nx = 0 then .walk hd 0 (hd :: done)
                                        else .revLoop nx hd todo.tail (hd :: done)) }
      else none
    | _ => none
  | .cas t found exp des ok =>
    match s.pc t with
    | .pushWroteNext n h =>
      if found = s.head ∧ exp = h ∧ des = n ∧ ok = decide (found = exp) then
        if ok then
          some { s with head := n, owner := upd s.owner n none, stk := n :: s.stk,
                        lin := s.lin ++ [.push n (s.data n)], pc := upd s.pc t .pushDone }
        else some { s with pc := upd s.pc t (.pushGotHead n found) }
      else none
    | .toWroteNext n h b =>
      if found = s.head ∧ exp = h ∧ des = n ∧ ok = decide (found = exp) then
        if ok then
          -- exactly the success branch of `mpmc_stack_push`
          some { s with head := n, owner := upd s.owner n none, stk := n :: s.stk,
                        lin := s.lin ++ [.push n (s.data n)], pc := upd s.pc t .toDone,
                        att := upd s.att t (s.att t + 1) }
        else
          -- `tries -= 1; while (tries > 0)`: retry with the refreshed `head`, or give up
          some { s with pc := upd s.pc t (if b - 1 = 0 then .toGaveUp n else .toGotHead n found (b - 1)),
                        att := upd s.att t (s.att t + 1) }
      else none
    | _ => none
  | .retPush t =>
    if s.pc t = .pushDone then some { s with pc := upd s.pc t .idle } else none
  | .callPushTo t v b =>
    -- client obligation: `tries ≥ 1` (0 wraps around to SIZE_MAX)
    if s.pc t = .idle ∧ v ≠ 0 ∧ 1 ≤ b then
      some { s with pc := upd s.pc t (.toCalled v b), tries0 := upd s.tries0 t b, att := upd s.att t 0 }
    else none
  | .retPushTo t r =>
    match s.pc t with
    | .toDone => if r = 1 then some { s with pc := upd s.pc t .idle } else none
    | .toGaveUp _ => if r = 0 then some { s with pc := upd s.pc t .idle } else none
    | _ => none
  | .callFlush t fifo =>
    if s.pc t = .idle then some { s with pc := upd s.pc t (.flushCalled fifo) } else none
  | .xchg t old =>
    match s.pc t with
    | .flushCalled fifo =>
      if old = s.head then
        some { s with head := 0, stk := [],
                      owner := fun n => if n ∈ s.stk then some t else s.owner n,
                      res := upd s.res t (if fifo then s.stk.reverse else s.stk),
                      lin := s.lin ++ [.flush (s.stk.map (fun n => (n, s.data n)))],
                      pc := upd s.pc t (if fifo ∧ old ≠ 0 then .revLoop old 0 s.stk []
                                        else .walk old 0 s.stk) }
      else none
    | _ => none
  | .rdNext t n x =>
    match s.pc t with
    | .revLoop hd acc todo done =>
      if n = hd ∧ x = s.next hd then some { s with pc := upd s.pc t (.revGotNext hd acc x todo done) }
      else none
    | .walkItem p k rest =>
      if n = p ∧ x = s.next p then some { s with pc := upd s.pc t (.walk x (k + 1) rest.tail) }
      else none
    | _ => none
  | .rdData t n v =>
    match s.pc t with
    | .walk p k rest =>
      if p ≠ 0 ∧ n = p ∧ v = s.data p then some { s with pc := upd s.pc t (.walkGotData p k v rest) }
      else none
    | _ => none
  | .item t v =>
    match s.pc t with
    | .walkGotData p k v' rest =>
      if v = v' then some { s with pc := upd s.pc t (.walkItem p k rest) } else none
    | _ => none
  | .retFlush t k =>
    match s.pc t with
    | .walk p k' _ => if p = 0 ∧ k = k' then some { s with pc := upd s.pc t .idle } else none
    | _ => none

def sys (own0 : Nat → Nat) : Sys St Ev := { init := init own0, step := step }

/-! ### log-line decoding -/

def ofRaw (r : RawEv) : Option Ev :=
  let t := r.tid
  match r.kind, r.args with
  | "note", ["call", "push", v] => v.toNat?.map (Ev.callPush t)
  | "note", ["ret", "push", _] => some (Ev.retPush t)
  | "note", ["call", "pushto", v, b] => do
    let v ← v.toNat?; let b ← b.toNat?
    pure (Ev.callPushTo t v b)
  | "note", ["ret", "pushto", r] => r.toNat?.map (Ev.retPushTo t)
  | "note", ["call", "flush", m] =>
    if m = "fifo" then some (Ev.callFlush t true) else if m = "lifo" then some (Ev.callFlush t false) else none
  | "note", ["item", v] => v.toNat?.map (Ev.item t)
  | "note", ["ret", "flush", k] => k.toNat?.map (Ev.retFlush t)
  | "ld", ["head", h, _] => (nodeOfVal h).map (Ev.ldHead t)
  | "xchg", ["head", old, nw, _] => if nw = "0" then (nodeOfVal old).map (Ev.xchg t) else none
  | "cas", ["head", f, e, d, ok, _] => do
    let f ← nodeOfVal f; let e ← nodeOfVal e; let d ← nodeOfVal d; let ok ← boolOfStr ok
    pure (Ev.cas t f e d ok)
  | "w", [c, x] =>
    match cellIndex "next" c, cellIndex "data" c with
    | some n, _ => (nodeOfVal x).map (Ev.wrNext t n)
    | _, some n => x.toNat?.map (Ev.wrData t n)
    | _, _ => none
  | "r", [c, x] =>
    match cellIndex "next" c, cellIndex "data" c with
    | some n, _ => (nodeOfVal x).map (Ev.rdNext t n)
    | _, some n => x.toNat?.map (Ev.rdData t n)
    | _, _ => none
  | _, _ => none

/-! ### API-level monitor: a flush is one "pop" per handed-out item, all sharing the flush's
    call/return instants; an empty flush is a pop that reported empty.  On top of the generic
    checks (invented / duplicate / lost / emptyLie) the order INSIDE one flush is judged:
    if push a returned before push b was called, a fifo flush must hand out a before b and a
    lifo flush b before a.

    A push_timeout that gave up (`ret pushto 0`) never put its value into the container: it is
    NOT turned into an operation of the history at all (so the generic checks see neither a push
    nor a "failed push" — Core/QueueHist.lean stays as it is); its value is remembered in
    `gaveUp`, and handing such a value out is reported (`gaveUpBad`).  The harness gives every
    push attempt, successful or not, a fresh value. -/

structure MonAcc where
  pos : Nat := 0
  pendPush : List (Nat × Nat × Nat) := []            -- thread, value, call
  pendFlush : List (Nat × Bool × Nat × List Nat) := [] -- thread, fifo, call, items so far
  ops : List QueueHist.Op := []
  flushes : List (Bool × List Nat) := []
  gaveUp : List Nat := []                             -- values of push_timeouts that returned 0
  badRet : Option String := none

def monStep (a : MonAcc) (r : RawEv) : MonAcc :=
  if r.kind ≠ "note" then a else
  let a := { a with pos := a.pos + 1 }
  let t := r.tid
  match r.args with
  | ["call", "push", v] => { a with pendPush := (t, v.toNat?.getD 0, a.pos) :: a.pendPush }
  | ["ret", "push", _] =>
    match a.pendPush.find? (fun p => p.1 = t) with
    | some (_, v, c) =>
      { a with pendPush := a.pendPush.filter (fun p => p.1 ≠ t),
               ops := a.ops ++ [{ thread := t, isPush := true, val := v, ok := true, call := c, ret := a.pos }] }
    | none => a
  | ["call", "pushto", v, _] => { a with pendPush := (t, v.toNat?.getD 0, a.pos) :: a.pendPush }
  | ["ret", "pushto", r] =>
    match a.pendPush.find? (fun p => p.1 = t) with
    | some (_, v, c) =>
      let a := { a with pendPush := a.pendPush.filter (fun p => p.1 ≠ t) }
      if r = "1" then
        { a with ops := a.ops ++ [{ thread := t, isPush := true, val := v, ok := true, call := c, ret := a.pos }] }
      else if r = "0" then { a with gaveUp := a.gaveUp ++ [v] }
      else { a with badRet := some s!"badReturn: push_timeout of {v} returned {r} (neither MPMC_SUCCESS nor MPMC_RETRY)" }
    | none => a
  | ["call", "flush", m] => { a with pendFlush := (t, m = "fifo", a.pos, []) :: a.pendFlush }
  | ["item", v] =>
    { a with pendFlush := a.pendFlush.map (fun p => if p.1 = t then (p.1, p.2.1, p.2.2.1, p.2.2.2 ++ [v.toNat?.getD 0]) else p) }
  | ["ret", "flush", _] =>
    match a.pendFlush.find? (fun p => p.1 = t) with
    | some (_, fifo, c, items) =>
      let newOps : List QueueHist.Op :=
        if items.isEmpty then [{ thread := t, isPush := false, val := 0, ok := false, call := c, ret := a.pos }]
        else items.map (fun v => { thread := t, isPush := false, val := v, ok := true, call := c, ret := a.pos })
      { a with pendFlush := a.pendFlush.filter (fun p => p.1 ≠ t), ops := a.ops ++ newOps,
               flushes := a.flushes ++ [(fifo, items)] }
    | none => a
  | _ => a

/-- position of `v` in `l` -/
def posOf (l : List Nat) (v : Nat) : Nat := (l.takeWhile (· ≠ v)).length

def flushOrderBad (ops : List QueueHist.Op) (flushes : List (Bool × List Nat)) : Option String :=
  let pushes := ops.filter (fun o => o.isPush && o.ok)
  flushes.findSome? fun (fifo, items) =>
    pushes.findSome? fun a => pushes.findSome? fun b =>
      if a.ret < b.call && items.contains a.val && items.contains b.val then
        let ia := posOf items a.val
        let ib := posOf items b.val
        if fifo && ib < ia then
          some s!"flushOrder: fifo flush handed out {b.val} before {a.val} although {a.val} was pushed first"
        else if !fifo && ia < ib then
          some s!"flushOrder: lifo flush handed out {a.val} before {b.val} although {b.val} was pushed later"
        else none
      else none

/-- a value handed out twice by the same flush (the generic duplicate check tells pops apart
    by their call instant, which the items of one flush share) -/
def dupInFlush (flushes : List (Bool × List Nat)) : Option String :=
  flushes.findSome? fun (_, items) =>
    (items.find? (fun v => items.count v > 1)).map (fun v => s!"duplicate: value {v} handed out twice by one flush")

/-- a value whose push_timeout gave up (and that no successful push carried) was handed out:
    the operation reported "not pushed" although it had published the node -/
def gaveUpBad (ops : List QueueHist.Op) (flushes : List (Bool × List Nat)) (gaveUp : List Nat) :
    Option String :=
  let pushed := (ops.filter (fun o => o.isPush && o.ok)).map (·.val)
  flushes.findSome? fun (_, items) =>
    (items.find? (fun v => gaveUp.contains v && !pushed.contains v)).map
      (fun v => s!"invented: a flush handed out {v} although its push_timeout gave up (returned MPMC_RETRY)")

/-- Across flushes the generic FIFO check applies to lifo and fifo flushes alike: if push a
    returned before push b was called and a flush that returned b completed before the flush
    that returned a was called, the earlier "take everything" left a behind. -/
def stackMonitor (lines : List String) : Option String :=
  let a := (lines.filterMap parseLine).foldl monStep {}
  match a.badRet with
  | some m => some m
  | none =>
  match gaveUpBad a.ops a.flushes a.gaveUp with
  | some m => some m
  | none =>
  match dupInFlush a.flushes with
  | some m => some m
  | none =>
  match QueueHist.check { disc := .fifo, capacity := 0, drained := true } a.ops with
  | some m => some m
  | none => flushOrderBad a.ops a.flushes

/-- `verifdrv Stack <log>`: `note init stack <owner of n1> <owner of n2> …`. -/
def drive (lines : List String) : IO UInt32 := do
  match initArgs lines with
  | "stack" :: owners =>
    match ownersOf 1 owners with
    | some own0 =>
      let body := lines.filter (fun l => !isInit l)
      let v := validate (sys own0) ofRaw body
      report "Stack" v (stackMonitor body)
    | none => IO.println "VALIDATE DIVERGE bad init"; return 1
  | _ => IO.println "VALIDATE DIVERGE missing init"; return 1

end LibfiberVerif.Stack
