/-
  Model/Spsc.lean — include/spsc_fifo.h (property C15, part `spsc`).

  The step function is `Mpsc.step Kind.spsc` (see the header of `Model/Mpsc.lean`, which
  transcribes both queues): the producer's publication is a `load tail` followed by a
  `store tail` instead of an exchange, and `step` rejects a second push while one is in
  progress (single producer is the client obligation of this queue).  Only the decoding of
  the log differs: `head`, `tail` and `next` are C11 atomics here (`ld` / `st` events), the
  payload accesses are plain.
-/
import LibfiberVerif.Model.Mpsc

namespace LibfiberVerif.Spsc

open Mpsc

abbrev St := Mpsc.St
abbrev Ev := Mpsc.Ev

def sys (stub : Nat) : Sys St Ev := Mpsc.sys .spsc stub

/-- decode an access of one SPSC queue whose `head`/`tail` cells are called `hd` / `tl` -/
def ofRawNamed (hd tl : String) (r : RawEv) : Option Ev :=
  let t := r.tid
  match r.kind, r.args with
  | "note", a => noteEv t a
  | "ld", [c, x, _] =>
    if c = hd then (nodeOfVal x).map (Ev.rdHead t)
    else if c = tl then (nodeOfVal x).map (Ev.ldTail t)
    else match nodeCell c with
      | some (n, "next") => (nodeOfVal x).map (Ev.rdNext t n)
      | _ => none
  | "st", [c, x, _] =>
    if c = hd then (nodeOfVal x).map (Ev.wrHead t)
    else if c = tl then (nodeOfVal x).map (Ev.stTail t)
    else match nodeCell c with
      | some (n, "next") => (nodeOfVal x).map (Ev.wrNext t n)
      | _ => none
  | "r", _ => dataEv r
  | "w", _ => dataEv r
  | _, _ => none

def ofRaw (r : RawEv) : Option Ev := ofRawNamed "head" "tail" r

/-- `verifdrv Spsc <log>`; the harness names the initial stub `n1`.  Monitor: strict FIFO,
    and (one producer, one consumer) an empty report is wrong whenever a push had completed
    before the pop began and its value had not been taken. -/
def drive (lines : List String) : IO UInt32 := do
  match initArgs lines with
  | ["spsc"] =>
    let body := lines.filter (fun l => !isInit l)
    let v := validate (sys 1) ofRaw body
    let mon := queueMonitor { disc := .fifo, capacity := 0, drained := true } body
    report "Spsc" v mon
  | _ => IO.println "VALIDATE DIVERGE missing init"; return 1

end LibfiberVerif.Spsc
