/-
  Model/SchedN.lean — the fiber scheduler of src/fiber_scheduler_wsd.c on N kernel threads,
  with work stealing (property C10, multi-thread part).  Trace-validated: `SchedN.drive`
  replays the run-queue events of every N-thread log of harness/yield.c through `step`.

  Every kernel thread `k : Nat` (unbounded) owns two deques `frm k` (= `schedule_from`) and
  `to k` (= `store_to`), lists whose HEAD is the BOTTOM (most recently pushed) and whose LAST
  element is the TOP (oldest), and a current fiber `cur k`.  Events, each one log line:

    sched k f      thread k's running fiber creates / wakes `f`: push_bottom(store_to k, f)
                   (fiber_scheduler_schedule, fiber_scheduler_wsd.c:87-93)
                   log: `rqpush` in fiber_scheduler_schedule that is not the re-queue below
    yield k        the running fiber of k enters fiber_manager_yield   (fiber_manager.c:99-106)
                   log: `fiber_manager_yield r F<cur>.state 1`
    finish k sv    the running fiber leaves the run queues' world: it is done or parks.
                   `sv` = it parks through an MPSC waiter queue, state SAVING_STATE_TO_WAIT
                   (fiber_manager.c:406): it can be woken (`sched`) and reach a run queue while
                   its context is still being saved
                   log: `w F<cur>.state 3|4|5` by the fiber itself (`sv` iff 5)
    saved k f      the successor on the thread `f` parked on has completed the context switch
                   and marks it WAITING (fiber_manager_do_maintenance, fiber_manager.c:318-320)
                   log: `fiber_manager_do_maintenance w F<f>.state 3`
    pop k g        fiber_scheduler_next on k (wsd.c:95-116): swap the deques if `schedule_from`
                   is empty, pop_bottom(schedule_from) returned `g`.  The lists change with the
                   decision that follows (`skip` / `switch`), `hand k` remembers `g`
                   log: `rqpop <queue> @F<g>`
    skip k g       `g` was found in state SAVING_STATE_TO_WAIT (wsd.c:108-109): it goes to the
                   bottom of `store_to k` and fiber_scheduler_next goes on
                   log: `fiber_scheduler_next r F<g>.state 5`
    switch k g     fiber_scheduler_next returned `g` and k switched to it; a yielder is re-queued
                   by its successor onto `store_to k` (fiber_manager.c:87-90 + 327-331); a
                   finished / parked fiber is not
                   log: `switch <g>` (upstream's __tsan_switch_to_fiber hook, just before the
                   stack switch)
    pushed k w g   the push_bottom that `skip` (store_to), the re-queue of `switch` (store_to) or
                   `steal` (schedule_from) announced is performed: `w` = the deque it really
                   went to.  `pend k` holds the announcement; thread k does nothing else before
                   log: the `rqpush` of fiber_scheduler_next / of fiber_manager_do_maintenance's
                   fiber_scheduler_schedule / of fiber_scheduler_load_balance
    resumed k      fiber_manager_yield returns in the same fiber: fiber_scheduler_next returned
                   NULL, so `schedule_from k` is empty (`store_to k` may hold fibers that were
                   just skipped), possibly after the occasional load_balance
                   (fiber_manager.c:123-128)
                   log: the next event of the running fiber (harness note `resumed`, a further
                   yield, a wake-up, the end of the fiber)
    idle k         fiber_scheduler_next returned NULL to a finished / parked fiber: k switches to
                   its maintenance loop (fiber_manager.c:112-120, 163-179).  The maintenance
                   fiber itself is not a model fiber (it parks itself as SAVING_STATE_TO_WAIT,
                   fiber_manager.c:170, and is never queued); a thread in the loop has
                   `cur k = none`, phase `ending`
                   log: `switch <c>` with nothing popped (`hand k = none`)
    steal k j w f  thread k, inside a fiber_scheduler_load_balance call (wsd.c:118-149), takes
                   the TOP (`wsd_..._steal`, line 136-137: the LAST element of the list) of
                   thread j's deque `w` (`frm j` or `to j` — the loop at 125-128 visits both
                   deques of every other thread) and pushes it onto the BOTTOM of its OWN
                   `schedule_from` (line 142; the push itself is the following `pushed`)
                   log: `rqsteal <queue of j> @F<f>`

  Facts about load_balance, all checked on every replayed log:
    L1  steal takes the top of the victim deque                      (wsd.c:136-137)
    L2  the loot goes to the bottom of the thief's `schedule_from`    (wsd.c:142)
    L3  at most `max_steal = 50` steals per call                      (wsd.c:120, 135, 145)
    L4  load_balance is called only by a thread that is in scheduler code (not running user
        code) and whose `schedule_from` is EMPTY:
          - fiber_manager_yield calls it only in the branch where fiber_scheduler_next
            returned NULL (fiber_manager.c:108-128), every 1024th time (line 125);
          - the maintenance loop (fiber_manager.c:163-164) is entered at thread start and
            re-entered only through fiber_manager.c:119, i.e. again after next() = NULL, and
            nothing but load_balance itself pushes onto `schedule_from`.
        `store_to` need NOT be empty: fiber_scheduler_next returns NULL as soon as
        `schedule_from` is exhausted, and every fiber it skipped (SAVING_STATE_TO_WAIT) sits in
        `store_to` then.  (An earlier version of this model required both deques to be empty;
        the real scheduler does call load_balance with skipped fibers in `store_to`, e.g.
        `rqpop @Q1b @F16 / r F16.state 5 / rqpush @Q1a @F16 / switch 1 / rqsteal @Q0b @F19`.)
        Hence everything in `frm k` during a call was stolen in that call.  The ghost counter
        `lb k` (number of steals in the current call; 0 = no call in progress) expresses L3/L4:
        a steal either starts a call (`frm k` empty, `lb := 1`) or continues one
        (`0 < lb < maxSteal`, `lb := lb + 1`); the call is over with the next `skip k` /
        `switch k` (maintenance loop: line 166-171) or `resumed k` (yield path: line 128).
    L5  `remote_count > local_count` (wsd.c:135) is NOT a guard of the model: the two counts are
        stale snapshots, so the model allows strictly more steals than the code.  It does not
        prevent steal ping-pong between idle thieves (their local_count is 0), see
        Props/C10.lean `steal_pingpong`.

  Not modelled (does not occur in the yield harness): a wake-up performed by a thread that is in
  its maintenance loop (event poller, deferred mutex unlock) — `sched` is for running fibers.

  Ghost state: `loc f` = the thread that holds `f` (queued or running), `busy` = the fibers that
  are somewhere.  `sched` of a fiber that already is somewhere is rejected.  That the ghosts are
  exact ("a fiber is in at most one place") is the invariant of Proof/SchedN.lean.
  `hand`, `pend` sequence the events of one thread; `sav f` = `f`'s state word is
  SAVING_STATE_TO_WAIT.

  Which physical deque (`queue_one` / `queue_two`, `@Q<k>a` / `@Q<k>b` in the log) currently
  plays which role is followed by the driver (`roles`): the roles are exchanged whenever
  fiber_scheduler_next finds `schedule_from` empty (wsd.c:98-102), i.e. exactly when `skip` /
  `switch` take their fiber out of `to k`.  While BOTH deques of a thread are empty the code
  swaps on every fiber_scheduler_next call without leaving a trace in the log; the roles are
  then unknown and the next push fixes them (the first push of a load_balance call goes to
  `schedule_from`, a wake-up to `store_to`).
-/
import LibfiberVerif.Model.Sched

namespace LibfiberVerif.SchedN
open LibfiberVerif.Sched (Phase)

/-- which of a thread's two deques -/
inductive Which | frm | to
  deriving Repr, DecidableEq

inductive Ev
  | sched (k f : Nat)
  | yield (k : Nat)
  | pop (k g : Nat)
  | skip (k g : Nat)
  | switch (k g : Nat)
  | pushed (k : Nat) (w : Which) (g : Nat)
  | resumed (k : Nat)
  | idle (k : Nat)
  | finish (k : Nat) (sv : Bool)
  | saved (k f : Nat)
  | steal (k j : Nat) (w : Which) (f : Nat)
  deriving Repr, DecidableEq

structure St where
  frm : Nat → List Nat
  to : Nat → List Nat
  cur : Nat → Option Nat
  phase : Nat → Phase
  lb : Nat → Nat                       -- ghost: steals made in the load_balance call in progress
  hand : Nat → Option Nat              -- ghost: popped by fiber_scheduler_next, fate pending
  pend : Nat → Option (Nat × Which)    -- ghost: push_bottom announced, not yet performed
  sav : Nat → Bool                     -- fiber ↦ its context is still being saved
  loc : Nat → Option Nat               -- ghost: fiber ↦ thread holding it
  busy : List Nat                      -- ghost: fibers that are queued or running somewhere

/-- thread 0 runs the main fiber 0, every other thread idles in its maintenance loop -/
def init : St :=
  { frm := fun _ => [], to := fun _ => [],
    cur := fun k => if k = 0 then some 0 else none,
    phase := fun k => if k = 0 then .running else .ending,
    lb := fun _ => 0,
    hand := fun _ => none, pend := fun _ => none, sav := fun _ => false,
    loc := fun f => if f = 0 then some 0 else none,
    busy := [0] }

/-- `fiber_scheduler_next` on the deques `(frm, to)`: swap if `frm` is empty, pop the bottom. -/
def next : List Nat → List Nat → Option (Nat × List Nat × List Nat)
  | g :: r, to => some (g, r, to)
  | [], g :: r => some (g, r, [])
  | [], [] => none

/-- `wsd_work_stealing_deque_steal`: split off the top (= last element). -/
def popTop : List Nat → Option (Nat × List Nat)
  | [] => none
  | [x] => some (x, [])
  | x :: y :: r => (popTop (y :: r)).map (fun p => (p.1, x :: p.2))

def src (s : St) (j : Nat) : Which → List Nat
  | .frm => s.frm j
  | .to => s.to j

def setSrc (s : St) (j : Nat) (w : Which) (l : List Nat) : St :=
  match w with
  | .frm => { s with frm := upd s.frm j l }
  | .to => { s with to := upd s.to j l }

/-- the `lb` counter after one more steal by a thread whose `schedule_from` is `frm`; `none` =
    the code cannot steal here (L3, L4) -/
def lbNext (maxSteal : Nat) (frm : List Nat) (lb : Nat) : Option Nat :=
  if frm = [] then some 1
  else if 0 < lb ∧ lb < maxSteal then some (lb + 1)
  else none

def step (maxSteal : Nat) (s : St) : Ev → Option St
  | .sched k f =>
    if s.phase k = .running ∧ s.cur k ≠ none ∧ s.pend k = none ∧ s.loc f = none then
      some { s with to := upd s.to k (f :: s.to k), loc := upd s.loc f (some k),
                    busy := f :: s.busy }
    else none
  | .yield k =>
    if s.phase k = .running ∧ s.cur k ≠ none ∧ s.pend k = none then
      some { s with phase := upd s.phase k .yielding }
    else none
  | .finish k sv =>
    match s.cur k with
    | none => none
    | some f =>
      if s.phase k = .running ∧ s.pend k = none then
        some { s with cur := upd s.cur k none, phase := upd s.phase k .ending,
                      sav := upd s.sav f sv, loc := upd s.loc f none, busy := s.busy.erase f }
      else none
  | .saved _ f =>
    if s.sav f = true then some { s with sav := upd s.sav f false } else none
  | .resumed k =>
    match s.phase k with
    | .running => if s.cur k ≠ none then some s else none
    | .yielding =>
      if s.hand k ≠ none ∨ s.pend k ≠ none then none
      else if 0 < s.lb k then       -- back from the occasional load_balance
        some { s with phase := upd s.phase k .running, lb := upd s.lb k 0 }
      else if s.frm k = [] then
        some { s with phase := upd s.phase k .running }
      else none
    | .ending => none
  | .idle k =>
    if s.phase k = .ending ∧ s.hand k = none ∧ s.pend k = none ∧ s.frm k = [] then some s else none
  | .pop k g =>
    if s.phase k = .running ∨ s.hand k ≠ none ∨ s.pend k ≠ none then none else
    match next (s.frm k) (s.to k) with
    | none => none
    | some (g', _, _) => if g = g' then some { s with hand := upd s.hand k (some g) } else none
  | .skip k g =>
    if s.hand k ≠ some g ∨ s.sav g = false then none else
    match next (s.frm k) (s.to k) with
    | none => none
    | some (g', frm', to') =>
      if g = g' then
        some { s with frm := upd s.frm k frm', to := upd s.to k (g :: to'),
                      hand := upd s.hand k none, pend := upd s.pend k (some (g, .to)),
                      lb := upd s.lb k 0 }
      else none
  | .switch k g =>
    if s.phase k = .running ∨ s.hand k ≠ some g ∨ s.sav g = true then none else
    match next (s.frm k) (s.to k) with
    | none => none
    | some (g', frm', to') =>
      if g = g' then
        -- `(s.cur k).toList`: the yielder, re-queued by its successor; nothing when dispatching
        some { s with frm := upd s.frm k frm', to := upd s.to k ((s.cur k).toList ++ to'),
                      cur := upd s.cur k (some g), phase := upd s.phase k .running,
                      lb := upd s.lb k 0, hand := upd s.hand k none,
                      pend := upd s.pend k ((s.cur k).map (fun c => (c, Which.to))) }
      else none
  | .pushed k w g =>
    if s.pend k = some (g, w) then some { s with pend := upd s.pend k none } else none
  | .steal k j w f =>
    if k = j ∨ s.phase k = .running ∨ s.hand k ≠ none ∨ s.pend k ≠ none then none else
    match popTop (src s j w), lbNext maxSteal (s.frm k) (s.lb k) with
    | some (f', rest), some n =>
      if f = f' then
        let s1 := setSrc s j w rest
        some { s1 with frm := upd s1.frm k (f :: s1.frm k), lb := upd s1.lb k n,
                       pend := upd s1.pend k (some (f, .frm)), loc := upd s1.loc f (some k) }
      else none
    | _, _ => none

def sys (maxSteal : Nat) : Sys St Ev := { init := init, step := step maxSteal }

/-- `max_steal` of fiber_scheduler_load_balance (fiber_scheduler_wsd.c:120) -/
def codeMaxSteal : Nat := 50

end LibfiberVerif.SchedN

/-! ### log decoding (N kernel threads)

  One log line ↦ at most one `LEv`; `translate` turns it into model events using the model
  state (which announcement is pending, which fiber was popped, which physical deque plays
  which role).  Every `rqpush` / `rqpop` (with a fiber) / `rqsteal` (with a fiber) / `switch`
  line becomes exactly one model event. -/
namespace LibfiberVerif.SchedN
open LibfiberVerif.Sched (Phase)

/-- the deque call site of an `rqpush` -/
inductive Site | schedule | next | balance | other
  deriving Repr, DecidableEq

inductive LEv
  | push (k : Nat) (site : Site) (j : Nat) (a : Bool) (f : Nat)   -- rqpush onto @Q<j>a (`a`) / @Q<j>b
  | popped (k j : Nat) (a : Bool) (r : Option Nat)                  -- rqpop; none = EMPTY / ABORT
  | stole (k j : Nat) (a : Bool) (r : Option Nat)                   -- rqsteal
  | ctx (k g : Nat)                     -- switch <g>
  | seen (k g v : Nat)                  -- fiber_scheduler_next r F<g>.state v
  | yread (k c v : Nat)                 -- fiber_manager_yield r F<c>.state v, c = the running fiber
  | selfw (k c v : Nat)                 -- w F<c>.state v by c itself
  | mw (k f v : Nat)                    -- fiber_manager_do_maintenance w F<f>.state v
  | resumedNote (k : Nat)               -- harness note `resumed`
  deriving Repr

def fiberOf (s : String) : Option Nat :=
  if s.startsWith "@F" then (s.drop 2).toString.toNat? else none

/-- `@Q<k>a` ↦ (k, true), `@Q<k>b` ↦ (k, false) -/
def queueOf (s : String) : Option (Nat × Bool) :=
  if s.startsWith "@Q" then
    let body := (s.drop 2).toString
    match ((body.dropEnd 1).toString).toNat? with
    | some k => if body.endsWith "a" then some (k, true) else if body.endsWith "b" then some (k, false) else none
    | none => none
  else none

/-- result of pop_bottom / steal: a fiber, or EMPTY (-1) / ABORT (-2) -/
def resultOf (s : String) : Option (Option Nat) :=
  if s = "-1" ∨ s = "-2" then some none else (fiberOf s).map some

def stateCell (c : String) : Option Nat :=
  match c.splitOn "." with
  | [a, "state"] => fiberOf ("@" ++ a)
  | _ => none

def siteOf (fn : String) : Site :=
  if fn = "fiber_scheduler_schedule" then .schedule
  else if fn = "fiber_scheduler_next" then .next
  else if fn = "fiber_scheduler_load_balance" then .balance
  else .other

def ofRaw (r : RawEv) : Option (Option LEv) :=
  let k := r.tid
  match r.kind, r.args with
  | "rqpush", [q, g] => do
      let q ← queueOf q; let g ← fiberOf g
      pure (some (.push k (siteOf r.func) q.1 q.2 g))
  | "rqpop", [q, g] => do let q ← queueOf q; let g ← resultOf g; pure (some (.popped k q.1 q.2 g))
  | "rqsteal", [q, g] => do let q ← queueOf q; let g ← resultOf g; pure (some (.stole k q.1 q.2 g))
  | "switch", [g] => g.toNat?.map (fun g => some (.ctx k g))
  | "r", [c, v] =>
    match stateCell c, v.toNat? with
    | some g, some v =>
      if r.func = "fiber_scheduler_next" then some (some (.seen k g v))
      else if r.func = "fiber_manager_yield" ∧ g = r.fiber then some (some (.yread k g v))
      else some none
    | some _, none => none
    | none, _ => some none
  | "w", [c, v] =>
    match stateCell c, v.toNat? with
    | some g, some v =>
      if r.func = "fiber_manager_do_maintenance" then some (some (.mw k g v))
      else if g = r.fiber then some (some (.selfw k g v))
      else some none
    | some _, none => none
    | none, _ => some none
  | "note", ["resumed"] => some (some (.resumedNote k))
  | _, _ => some none      -- other notes, create/destroy, other cells: not this model's business

/-! ### bounded-bypass monitor for N threads

  From `between_consecutive_runs_N` / `holder_bypass_from_pot` (Props/C10.lean): while a fiber
  `f` is continuously ready, the context switches on the thread holding it number at most
  `2·n + 49·(times f is stolen) + 2·(fibers created or woken meanwhile)`, `n` = number of
  fibers when its waiting period began (it was re-queued after a run, woken, or skipped because
  its context was still being saved).  Only an excess over this bound is flagged. -/

structure Watch where
  f : Nat
  base : Nat        -- 2 · (number of fibers) when the waiting period began
  count : Nat := 0  -- context switches on the thread holding `f` since then
  steals : Nat := 0
  scheds : Nat := 0

structure Mon where
  ws : List Watch := []
  bad : Option String := none

def Mon.start (m : Mon) (f n : Nat) : Mon :=
  { m with ws := { f := f, base := 2 * n } :: m.ws.filter (fun w => w.f ≠ f) }

def Watch.limit (w : Watch) : Nat := w.base + (codeMaxSteal - 1) * w.steals + 2 * w.scheds

/-- `s` = the model state BEFORE the event -/
def monStep (s : St) (m : Mon) : Ev → Mon
  | .sched _ f =>
    let m1 : Mon := { m with ws := m.ws.map (fun (w : Watch) => { w with scheds := w.scheds + 1 }) }
    m1.start f (s.busy.length + 1)
  | .steal _ _ _ f =>
    { m with ws := m.ws.map (fun (w : Watch) => if w.f = f then { w with steals := w.steals + 1 } else w) }
  | .skip _ g => m.start g s.busy.length
  | .switch k g =>
    let ws := (m.ws.filter (fun w => w.f ≠ g)).map
      (fun (w : Watch) => if s.loc w.f = some k then { w with count := w.count + 1 } else w)
    let m := { m with ws := ws }
    let m := match ws.find? (fun w => w.count > w.limit) with
      | some w =>
        if m.bad.isNone then
          { m with bad := some s!"starvation: fiber {w.f} bypassed {w.count} times on the threads holding it (stolen {w.steals} times, {w.scheds} fibers created or woken meanwhile, {w.base / 2} fibers when it started waiting)" }
        else m
      | none => m
    match s.cur k with
    | some c => m.start c s.busy.length
    | none => m
  | .finish k _ =>
    match s.cur k with
    | some c => { m with ws := m.ws.filter (fun w => w.f ≠ c) }
    | none => m
  | _ => m

/-! ### the driver -/

structure DSt where
  s : St
  /-- thread ↦ `a`: physical deque `@Q<k>a` (a = true) / `@Q<k>b` currently is `schedule_from`;
      no entry: both deques are empty, the roles are not known.  (An association list, not a
      function: the driver's own bookkeeping must be strict data.) -/
  roles : List (Nat × Bool) := []
  mon : Mon := {}
  n : Nat := 0

def roleOf (d : DSt) (j : Nat) (a : Bool) : Option Which :=
  (d.roles.lookup j).map (fun fa => if fa = a then Which.frm else Which.to)

def setRole (r : List (Nat × Bool)) (k : Nat) (a : Bool) : List (Nat × Bool) :=
  (k, a) :: r.filter (fun p => p.1 ≠ k)

def swapRole (r : List (Nat × Bool)) (k : Nat) : List (Nat × Bool) :=
  r.map (fun p => if p.1 = k then (p.1, !p.2) else p)

def forget (s : St) (r : List (Nat × Bool)) (k : Nat) : List (Nat × Bool) :=
  if s.frm k = [] ∧ s.to k = [] then r.filter (fun p => p.1 ≠ k) else r

/-- `f`, tabulated below `arr.size` (the driver re-tabulates the state's function fields every
    few hundred events so that a lookup does not walk through one closure per past event) -/
def tab {α : Type} (arr : Array α) (f : Nat → α) : Nat → α :=
  fun j => if h : j < arr.size then arr[j] else f j

theorem tab_eq {α : Type} (f : Nat → α) (n : Nat) : tab ((Array.range n).map f) f = f := by
  funext j
  simp only [tab]
  split
  · simp
  · rfl

/-- kernel threads are numbered below 16, fibers below 4096 (rt/vrt.c MAXT, MAXFIB) -/
def compact (s : St) : St :=
  let t := Array.range 16
  let f := Array.range 4096
  { frm := tab (t.map s.frm) s.frm, to := tab (t.map s.to) s.to, cur := tab (t.map s.cur) s.cur,
    phase := tab (t.map s.phase) s.phase, lb := tab (t.map s.lb) s.lb,
    hand := tab (t.map s.hand) s.hand, pend := tab (t.map s.pend) s.pend,
    sav := tab (f.map s.sav) s.sav, loc := tab (f.map s.loc) s.loc, busy := s.busy }

/-- the driver replays through `step` itself: `compact` changes the representation only -/
theorem compact_eq (s : St) : compact s = s := by
  simp only [compact, tab_eq]

/-- take one model step; keep `roles` in line with the swaps of fiber_scheduler_next -/
def emit (M : Nat) (d : DSt) (e : Ev) : Except String DSt :=
  match step M d.s e with
  | none => .error s!"model cannot take this step here: {repr e}"
  | some s' =>
    let roles := match e with
      | .skip k _ => forget s' (if d.s.frm k = [] then swapRole d.roles k else d.roles) k
      | .switch k _ => forget s' (if d.s.frm k = [] then swapRole d.roles k else d.roles) k
      | .steal _ j _ _ => forget s' d.roles j
      | _ => d.roles
    let s' := if d.n % 256 = 255 then compact s' else s'
    .ok { s := s', roles := roles, mon := monStep d.s d.mon e, n := d.n + 1 }

/-- thread k goes on in the same fiber after a fiber_yield that switched nowhere -/
def implicitResumed (M : Nat) (d : DSt) (k : Nat) : Except String DSt :=
  if d.s.phase k = .yielding then emit M d (.resumed k) else .ok d

def checkCur (d : DSt) (k c : Nat) : Except String Unit :=
  if d.s.cur k = some c then .ok () else .error s!"fiber {c} acts on thread {k}, the model's current fiber there is {repr (d.s.cur k)}"

def translate (M : Nat) (d : DSt) : LEv → Except String DSt
  | .push k site j a f =>
    if j ≠ k then .error "push onto another thread's deque" else
    match d.s.pend k with
    | some (_, w) =>
      -- roles unknown (both deques were empty): this push defines them
      let d := if (d.roles.lookup k).isNone then { d with roles := setRole d.roles k (if w = .frm then a else !a) } else d
      match roleOf d k a with
      | some w' => emit M d (.pushed k w' f)
      | none => .error "unreachable"
    | none =>
      if site = .schedule then do
        let d ← implicitResumed M d k
        let d := if (d.roles.lookup k).isNone then { d with roles := setRole d.roles k (!a) } else d
        if roleOf d k a ≠ some .to then .error "fiber_scheduler_schedule pushed onto schedule_from" else
        emit M d (.sched k f)
      else .error "push_bottom that no event of the model announces"
  | .popped k j a r =>
    if j ≠ k then .error "pop_bottom on another thread's deque" else
    match r with
    | none => .error "pop_bottom returned EMPTY/ABORT although its deque was not empty"
    | some g =>
      let want := if d.s.frm k = [] then Which.to else Which.frm
      match roleOf d k a with
      | some w => if w = want then emit M d (.pop k g) else .error "pop_bottom on the wrong deque"
      | none => emit M d (.pop k g)      -- both deques empty: the model rejects the pop
  | .stole k j a r =>
    match r with
    | none => .ok d                       -- EMPTY / ABORT: nothing moved
    | some f =>
      match roleOf d j a with
      | some w => emit M d (.steal k j w f)
      | none => .error "stolen from a thread whose deques are both empty in the model"
  | .ctx k g =>
    match d.s.hand k with
    | some _ => emit M d (.switch k g)
    | none =>
      if d.s.loc g ≠ none then .error s!"switch to fiber {g} that fiber_scheduler_next did not pop"
      else emit M d (.idle k)
  | .seen k g v => if v = 5 then emit M d (.skip k g) else .ok d
  | .yread k c v =>
    if v = 1 then do
      let d ← implicitResumed M d k
      checkCur d k c
      emit M d (.yield k)
    else .ok d
  | .selfw k c v =>
    if v = 3 ∨ v = 4 ∨ v = 5 then do
      let d ← implicitResumed M d k
      checkCur d k c
      emit M d (.finish k (v = 5))
    else .ok d
  | .mw k f v => if v = 3 then emit M d (.saved k f) else .ok d
  | .resumedNote k => implicitResumed M d k

def drive (lines : List String) : IO UInt32 := do
  let body := lines.filter (fun l => !isInit l)
  let rec go (d : DSt) (ln : Nat) : List String → DSt × Option (Nat × String × String)
    | [] => (d, none)
    | l :: ls =>
      match parseLine l with
      | none => (d, some (ln + 1, l, "unparsable line"))
      | some r =>
        match ofRaw r with
        | none => (d, some (ln + 1, l, "event not in the model's vocabulary"))
        | some none => go d (ln + 1) ls
        | some (some e) =>
          match translate codeMaxSteal d e with
          | .error why => (d, some (ln + 1, l, why))
          | .ok d' => go d' (ln + 1) ls
  let (d, v) := go { s := init } 0 body
  report "SchedN" (d.n, v) d.mon.bad

end LibfiberVerif.SchedN
