/-
  Model/SchedN.lean — the fiber scheduler of src/fiber_scheduler_wsd.c on N kernel threads,
  with work stealing (property C10, multi-thread part).

  Every kernel thread `k : Nat` (unbounded) owns two deques `frm k` (= `schedule_from`) and
  `to k` (= `store_to`), lists whose HEAD is the BOTTOM (most recently pushed) and whose LAST
  element is the TOP (oldest), and a current fiber `cur k`.  Per thread the events are those of
  the one-thread model `Sched` (Model/Sched.lean, `Target.storeTo` — the fix is in):

    sched k f    thread k's running fiber creates / wakes `f`: push_bottom(store_to k, f)
                 (fiber_scheduler_schedule, fiber_scheduler_wsd.c:89-95)
    yield k      the running fiber of k calls fiber_yield            (fiber_manager.c:99)
    switch k g   fiber_scheduler_next on k returned `g` (swap if schedule_from is empty, then
                 pop_bottom(schedule_from), fiber_scheduler_wsd.c:97-116) and k switched to it;
                 a yielder is re-queued by its successor onto `store_to k`
                 (fiber_manager.c:87-90 + 327-331); a finished / blocked fiber is not
    resumed k    fiber_yield returned in the same fiber: nothing to run (fiber_manager.c:123-128)
    finish k     the running fiber finishes or blocks: it leaves the run queues' world and k
                 dispatches without re-queueing it.  A thread with no fiber (`cur k = none`,
                 phase `ending`) is in its maintenance loop (fiber_manager.c:163-179); the
                 maintenance fiber itself is not a model fiber (it parks itself as
                 SAVING_STATE_TO_WAIT, fiber_manager.c:170, and is never queued).

  PLUS stealing, as fiber_scheduler_load_balance (fiber_scheduler_wsd.c:118-151) does it:

    steal k j w f   thread k, inside a load_balance call, takes the TOP (`wsd_..._steal`,
                    line 136-137: the LAST element of the list) of thread j's deque `w`
                    (`frm j` or `to j` — the loop at 124-127 visits both deques of every other
                    thread) and pushes it onto the BOTTOM of its OWN `schedule_from`
                    (line 142: `push_bottom(scheduler->schedule_from, stolen)`).

  Facts about load_balance the model relies on (all others are over-approximated):
    L1  steal takes the top of the victim deque                      (wsd.c:136-137)
    L2  the loot goes to the bottom of the thief's `schedule_from`    (wsd.c:142)
    L3  at most `max_steal = 50` steals per call                      (wsd.c:120, 135, 145)
    L4  load_balance is called only by a thread that is in scheduler code (not running user
        code), and only when BOTH of its deques are empty:
          - fiber_manager_yield calls it only in the branch where fiber_scheduler_next
            returned NULL (fiber_manager.c:108-128), every 1024th time (line 125);
          - the maintenance loop (fiber_manager.c:163-164) is entered at thread start and
            re-entered only through fiber_manager.c:119, i.e. again after next() = NULL;
            the only thing that can fill a deque of an idle thread before line 164 is a
            wake-up by the event poller (lines 173-176), i.e. a `sched` — the fairness theorems
            are stated for `sched`-free stretches (as in the one-thread case), and `sched` is
            modelled for running fibers only.
        Hence everything in `frm k` during a call was stolen in that call.  The ghost counter
        `lb k` (number of steals in the current call; 0 = no call in progress) expresses L3/L4:
        a steal either starts a call (both deques empty, `lb := 1`) or continues one
        (`0 < lb < maxSteal`, `lb := lb + 1`); the call ends with the next `switch k` (maintenance
        loop: line 166-171) or `resumed k` (yield path: line 128).
    L5  `remote_count > local_count` (wsd.c:135) is NOT a guard of the model: the two counts are
        stale snapshots, so the model allows strictly more steals than the code.  It does not
        prevent steal ping-pong between idle thieves (their local_count is 0), see
        Props/C10.lean `steal_pingpong`.

  Ghost state: `loc f` = the thread that holds `f` (queued or running), `busy` = the fibers that
  are somewhere.  `sched` of a fiber that already is somewhere is rejected.  That the ghosts are
  exact ("a fiber is in at most one place") is the invariant of Proof/SchedN.lean.

  Tie to the code: the per-thread behaviour is the one-thread model `Sched`, validated exactly
  (run order) against the real scheduler; with N threads the run-queue traffic of every runtime
  log is validated by model `Rt` (bags).  This model has no driver of its own.
-/
import LibfiberVerif.Model.Sched

namespace LibfiberVerif.SchedN
open LibfiberVerif.Sched (Phase)

/-- which of the victim's two deques a steal takes from -/
inductive Which | frm | to
  deriving Repr, DecidableEq

inductive Ev
  | sched (k f : Nat)
  | yield (k : Nat)
  | switch (k g : Nat)
  | resumed (k : Nat)
  | finish (k : Nat)
  | steal (k j : Nat) (w : Which) (f : Nat)
  deriving Repr, DecidableEq

structure St where
  frm : Nat → List Nat
  to : Nat → List Nat
  cur : Nat → Option Nat
  phase : Nat → Phase
  lb : Nat → Nat               -- ghost: steals made in the load_balance call in progress
  loc : Nat → Option Nat       -- ghost: fiber ↦ thread holding it
  busy : List Nat              -- ghost: fibers that are queued or running somewhere

/-- thread 0 runs the main fiber 0, every other thread idles in its maintenance loop -/
def init : St :=
  { frm := fun _ => [], to := fun _ => [],
    cur := fun k => if k = 0 then some 0 else none,
    phase := fun k => if k = 0 then .running else .ending,
    lb := fun _ => 0,
    loc := fun f => if f = 0 then some 0 else none,
    busy := [0] }

/-- `fiber_scheduler_next` on the deques `(frm, to)`: swap if `frm` is empty, pop the bottom. -/
def next : List Nat → List Nat → Option (Nat × List Nat × List Nat)
  | g :: r, to => some (g, r, to)
  | [], g :: r => some (g, r, [])
  | [], [] => none

/-- `wsd_work_stealing_deque_steal`: split off the top (= last element). -/
def popTop : List Nat → Option (Nat × List Nat)
  | [] => none
  | [x] => some (x, [])
  | x :: y :: r => (popTop (y :: r)).map (fun p => (p.1, x :: p.2))

def src (s : St) (j : Nat) : Which → List Nat
  | .frm => s.frm j
  | .to => s.to j

def setSrc (s : St) (j : Nat) (w : Which) (l : List Nat) : St :=
  match w with
  | .frm => { s with frm := upd s.frm j l }
  | .to => { s with to := upd s.to j l }

/-- the `lb` counter after one more steal by a thread with deques `(frm, to)`; `none` = the
    code cannot steal here (L3, L4) -/
def lbNext (maxSteal : Nat) (frm to : List Nat) (lb : Nat) : Option Nat :=
  if frm = [] ∧ to = [] then some 1
  else if 0 < lb ∧ lb < maxSteal then some (lb + 1)
  else none

def step (maxSteal : Nat) (s : St) : Ev → Option St
  | .sched k f =>
    if s.phase k = .running ∧ s.cur k ≠ none ∧ s.loc f = none then
      some { s with to := upd s.to k (f :: s.to k), loc := upd s.loc f (some k),
                    busy := f :: s.busy }
    else none
  | .yield k =>
    if s.phase k = .running ∧ s.cur k ≠ none then
      some { s with phase := upd s.phase k .yielding }
    else none
  | .finish k =>
    match s.cur k with
    | none => none
    | some f =>
      if s.phase k = .running then
        some { s with cur := upd s.cur k none, phase := upd s.phase k .ending,
                      loc := upd s.loc f none, busy := s.busy.erase f }
      else none
  | .resumed k =>
    match s.phase k with
    | .running => if s.cur k ≠ none then some s else none
    | .yielding =>
      if 0 < s.lb k then       -- back from the occasional load_balance
        some { s with phase := upd s.phase k .running, lb := upd s.lb k 0 }
      else if s.frm k = [] ∧ s.to k = [] then
        some { s with phase := upd s.phase k .running }
      else none
    | .ending => none
  | .switch k g =>
    if s.phase k = .running then none else
    match next (s.frm k) (s.to k) with
    | none => none
    | some (g', frm', to') =>
      if g = g' then
        -- `(s.cur k).toList`: the yielder, re-queued by its successor; nothing when dispatching
        some { s with frm := upd s.frm k frm', to := upd s.to k ((s.cur k).toList ++ to'),
                      cur := upd s.cur k (some g), phase := upd s.phase k .running,
                      lb := upd s.lb k 0 }
      else none
  | .steal k j w f =>
    if k = j ∨ s.phase k = .running then none else
    match popTop (src s j w), lbNext maxSteal (s.frm k) (s.to k) (s.lb k) with
    | some (f', rest), some n =>
      if f = f' then
        let s1 := setSrc s j w rest
        some { s1 with frm := upd s1.frm k (f :: s1.frm k), lb := upd s1.lb k n,
                       loc := upd s1.loc f (some k) }
      else none
    | _, _ => none

def sys (maxSteal : Nat) : Sys St Ev := { init := init, step := step maxSteal }

/-- `max_steal` of fiber_scheduler_load_balance (fiber_scheduler_wsd.c:120) -/
def codeMaxSteal : Nat := 50

end LibfiberVerif.SchedN
