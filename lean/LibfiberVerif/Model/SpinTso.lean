/-
  Model/SpinTso.lean — the ticket spinlock of src/fiber_spinlock.c on x86-TSO (store buffers).

  Companion of the sequentially consistent model `Model/Spin.lean` (property C18).  It exists
  to turn "the unlock store is a plain `mov`, it sits in the releasing core's store buffer for
  a while, and the lock is still a lock and still publishes the data written under it" into
  theorems (`Props/TsoSpin.lean`).  Not driven by logs: the deterministic scheduler of `rt/`
  is sequentially consistent, a store buffer cannot be observed there.

  C code being modelled (lock word = union { struct { uint32 ticket; uint32 users; }; uint64 blob; }):
    lock:     my = fetch_add(&users, 1);          -- `lock xadd`: LOCKED RMW
              while (load(&ticket) != my) cpu_relax();
    trylock:  old.blob = load(&blob);             -- plain 8-byte load
              old.ticket = old.users;             -- the ticket half just read is DISCARDED
              new = old; new.users += 1;
              return CAS(&blob, old.blob, new.blob);   -- `lock cmpxchg`: LOCKED RMW
    unlock:   t = load(&ticket); store(&ticket, t + 1);   -- release store = plain `mov`

  x86-TSO rules, as in `Model/Tso.lean`:
    * a plain store (`stTicket`, and the client's `csWrite` to the protected data cell) is
      appended to the issuing thread's FIFO store buffer; memory is unchanged;
    * a plain load (`ldTicket` in the spin loop and in unlock, `csRead`, `ldBlob`) returns the
      thread's OWN newest buffered store to that cell if there is one, otherwise memory; other
      threads' buffers are invisible.  In `ldBlob` the ticket half is forwarded from the own
      buffer, the users half comes from memory (nobody ever buffers a store to `users`);
    * a locked RMW (`faddUsers`, `casBlob`) is enabled only when the thread's own buffer is
      empty and acts on memory;
    * `flush t`: the oldest entry of `t`'s buffer reaches memory (environment event, disabled
      on an empty buffer).

  State beyond `Spin.St`: a data cell `data` (what the lock protects), the buffers, and ghosts
  `gIssued` (initial value + number of unlock stores ISSUED; the memory cell `ticket` is
  initial value + number of unlock stores DRAINED), `lastWrite` (value of the most recent
  `csWrite` issued by anybody, initially the initial content of the cell) and `owner` (the
  thread that issued the most recent plain store).

  `holder` is exactly `Spin.holder`: from the load that saw the own ticket / the successful
  CAS until the unlock store is ISSUED (not: drained).

  DEVIATIONS from the SC model and from the brief, all deliberate:
    1. The two counters are UNBOUNDED naturals: no arithmetic modulo 2^32, no wrap-around.
       Wrap-around of the 32-bit counters is proved at SC level (`Props/C18.lean`); it is
       orthogonal to store buffering.  Consequently `Pc.spinning` carries only `my` (the ghost
       ticket `g` of `Spin.Pc.spinning` would be equal to it), the memory cell `users` is its
       own ghost (`Spin.St.gUsers`), the memory cell `ticket` is the "drained" ghost, and no
       `BoundedRun` hypothesis appears in the theorems.
    2. A buffer entry is a typed `Entry` (`tk x` = store of `x` to `ticket`, `dat v` = store
       of `v` to the data cell) instead of a pair (cell id, value); the buffer is a genuine
       FIFO `List Entry`, `flush` takes the head, stores append at the end.  `Model/Tso.lean`'s
       `Mem` is not used (its memory is `Nat → Int`; here the cells have different types).
    3. `fifoBuf : Bool` selects the memory model: `true` = TSO as above; `false` additionally
       enables `flushAny t i` (the `i`-th entry of `t`'s buffer drains OUT OF ORDER, PSO-like).
       All theorems are about `fifoBuf = true`; `false` is used for one counter-trace.
    4. `casBlob` writes both halves on success as the hardware does (`ticket := dtk`); since
       `dtk = etk = ftk` on success the ticket cell keeps its value.
-/
import LibfiberVerif.Core.Sys
import LibfiberVerif.Model.Spin

namespace LibfiberVerif.SpinTso

/-- one pending store -/
inductive Entry
  /-- `store(&ticket, x)` of unlock -/
  | tk (x : Nat)
  /-- the client's store of `v` to the protected data cell -/
  | dat (v : Int)
  deriving Repr, DecidableEq, Inhabited

/-- a store buffer, oldest entry first -/
abbrev Buf := List Entry

/-- load of `ticket` through the buffer: newest pending ticket store, else `d` (= memory) -/
def rdT : Buf → Nat → Nat
  | [], d => d
  | .tk x :: r, _ => rdT r x
  | .dat _ :: r, d => rdT r d

/-- load of the data cell through the buffer: newest pending data store, else `d` (= memory) -/
def rdD : Buf → Int → Int
  | [], d => d
  | .dat v :: r, _ => rdD r v
  | .tk _ :: r, d => rdD r d

/-- the buffer holds data stores only (no pending unlock store) -/
def allDat : Buf → Bool
  | [] => true
  | .dat _ :: r => allDat r
  | .tk _ :: _ => false

/-- the buffer is  [data stores …, ticket store of `g`]:  a pending release whose ticket store
    is the LAST entry, i.e. drains after every data store of the critical section -/
def rel (g : Nat) : Buf → Bool
  | [] => false
  | .tk x :: r => decide (x = g) && r.isEmpty
  | .dat _ :: r => rel g r

/-- some unlock store is pending in the buffer -/
def hasTk : Buf → Bool
  | [] => false
  | .tk _ :: _ => true
  | .dat _ :: r => hasTk r

inductive Pc
  | idle
  | lockCalled
  /-- after `fetch_add(users)`: `my` = the value returned -/
  | spinning (my : Nat)
  /-- the load of `ticket` returned `my`: the thread HOLDS the lock from here … -/
  | lockDone
  | held
  | inCs
  | unlockCalled
  | unlockRead (x : Nat)
  /-- … until its unlock store is issued -/
  | unlockDone
  | tryCalled
  /-- after the 8-byte load: `tk` = ticket half (possibly forwarded), `us` = users half -/
  | tryRead (tk us : Nat)
  /-- after the CAS; the thread holds the lock iff `ok` -/
  | tryDone (ok : Bool)
  deriving Repr, DecidableEq, Inhabited

/-- A thread holds the lock from the load that saw its ticket / its successful CAS until its
    unlock store is issued. -/
def holder : Pc → Bool
  | .lockDone | .held | .inCs | .unlockCalled | .unlockRead _ | .tryDone true => true
  | _ => false

inductive Ev
  | callLock (t : Nat)
  | retLock (t : Nat)
  | callTry (t : Nat)
  | retTry (t r : Nat)
  | callUnlock (t : Nat)
  | retUnlock (t : Nat)
  | csEnter (t : Nat)
  | csExit (t : Nat)
  /-- `fetch_add(&users, 1)` returned `old` -/
  | faddUsers (t old : Nat)
  | ldTicket (t x : Nat)
  | stTicket (t x : Nat)
  /-- 8-byte load of the whole word: low half `tk`, high half `us` -/
  | ldBlob (t tk us : Nat)
  /-- 8-byte CAS: value found, expected, desired (each as low/high half), success flag -/
  | casBlob (t ftk fus etk eus dtk dus : Nat) (ok : Bool)
  /-- inside the critical section: plain store of `v` to the protected data cell -/
  | csWrite (t : Nat) (v : Int)
  /-- inside the critical section: plain load of the protected data cell returned `v` -/
  | csRead (t : Nat) (v : Int)
  /-- environment: the oldest entry of `t`'s store buffer reaches memory -/
  | flush (t : Nat)
  /-- environment, only with `fifoBuf = false`: entry `i` of `t`'s buffer reaches memory -/
  | flushAny (t i : Nat)
  deriving Repr, DecidableEq, Inhabited

def Ev.tid : Ev → Nat
  | .callLock t | .retLock t | .callTry t | .retTry t _ | .callUnlock t | .retUnlock t
  | .csEnter t | .csExit t | .faddUsers t _ | .ldTicket t _ | .stTicket t _ | .ldBlob t _ _
  | .casBlob t _ _ _ _ _ _ _ | .csWrite t _ | .csRead t _ | .flush t | .flushAny t _ => t

structure St where
  /-- store buffers are FIFO (x86-TSO); `false`: entries may drain out of order -/
  fifoBuf : Bool
  /-- MEMORY: low half of the lock word = initial value + number of unlock stores DRAINED -/
  ticket : Nat
  /-- MEMORY: high half of the lock word = initial value + number of tickets handed out -/
  users : Nat
  /-- MEMORY: the cell the lock protects -/
  data : Int
  /-- per-thread store buffer -/
  buf : Nat → Buf
  pc : Nat → Pc
  /-- ghost: initial value + number of unlock stores ISSUED -/
  gIssued : Nat
  /-- ghost: value of the most recent `csWrite` issued (initially: initial content of `data`) -/
  lastWrite : Int
  /-- ghost: the thread that issued the most recent plain store -/
  owner : Nat
  /-- ghost: threads in the order of their `fetch_add(users)` -/
  order : List Nat
  /-- ghost: threads in the order in which their `lock` spin loop saw its ticket -/
  acq : List Nat

def init (fifoBuf : Bool) (v0 : Nat) : St :=
  { fifoBuf := fifoBuf, ticket := v0, users := v0, data := 0, buf := fun _ => [],
    pc := fun _ => .idle, gIssued := v0, lastWrite := 0, owner := 0, order := [], acq := [] }

def step (s : St) : Ev → Option St
  | .callLock t =>
    if s.pc t = .idle then some { s with pc := upd s.pc t .lockCalled } else none
  | .faddUsers t old =>
    match s.pc t with
    | .lockCalled =>
      -- locked RMW: own buffer drained, acts on memory
      if s.buf t = [] ∧ old = s.users then
        some { s with users := old + 1, order := s.order ++ [t], pc := upd s.pc t (.spinning old) }
      else none
    | _ => none
  | .ldTicket t x =>
    match s.pc t with
    | .spinning my =>
      if x = rdT (s.buf t) s.ticket then
        if x = my then some { s with acq := s.acq ++ [t], pc := upd s.pc t .lockDone }
        else some s                                   -- one more iteration of the spin loop
      else none
    | .unlockCalled =>
      if x = rdT (s.buf t) s.ticket then some { s with pc := upd s.pc t (.unlockRead x) } else none
    | _ => none
  | .retLock t =>
    if s.pc t = .lockDone then some { s with pc := upd s.pc t .held } else none
  | .csEnter t =>
    if s.pc t = .held then some { s with pc := upd s.pc t .inCs } else none
  | .csExit t =>
    if s.pc t = .inCs then some { s with pc := upd s.pc t .held } else none
  | .csWrite t v =>
    -- plain store: to the own buffer
    if s.pc t = .inCs then
      some { s with buf := upd s.buf t (s.buf t ++ [.dat v]), lastWrite := v, owner := t }
    else none
  | .csRead t v =>
    -- plain load: own newest buffered store, else memory
    if s.pc t = .inCs ∧ v = rdD (s.buf t) s.data then some s else none
  | .callUnlock t =>
    if s.pc t = .held then some { s with pc := upd s.pc t .unlockCalled } else none
  | .stTicket t x =>
    match s.pc t with
    | .unlockRead y =>
      -- THE release store: a plain `mov`, it goes to the own buffer; no fence follows
      if x = y + 1 then
        some { s with buf := upd s.buf t (s.buf t ++ [.tk x]), gIssued := s.gIssued + 1,
                      owner := t, pc := upd s.pc t .unlockDone }
      else none
    | _ => none
  | .retUnlock t =>
    if s.pc t = .unlockDone then some { s with pc := upd s.pc t .idle } else none
  | .callTry t =>
    if s.pc t = .idle then some { s with pc := upd s.pc t .tryCalled } else none
  | .ldBlob t tk us =>
    -- plain 8-byte load: ticket half forwarded from the own buffer, users half from memory
    if s.pc t = .tryCalled ∧ tk = rdT (s.buf t) s.ticket ∧ us = s.users then
      some { s with pc := upd s.pc t (.tryRead tk us) }
    else none
  | .casBlob t ftk fus etk eus dtk dus ok =>
    match s.pc t with
    | .tryRead _ us =>
      -- locked RMW: own buffer drained, compares with and acts on memory
      if s.buf t = [] ∧ ftk = s.ticket ∧ fus = s.users ∧ etk = us ∧ eus = us ∧ dtk = us
          ∧ dus = us + 1 ∧ ok = decide (ftk = etk ∧ fus = eus) then
        if ok then
          some { s with ticket := dtk, users := dus, pc := upd s.pc t (.tryDone true) }
        else some { s with pc := upd s.pc t (.tryDone false) }
      else none
    | _ => none
  | .retTry t r =>
    match s.pc t with
    | .tryDone true => if r = 1 then some { s with pc := upd s.pc t .held } else none
    | .tryDone false => if r = 0 then some { s with pc := upd s.pc t .idle } else none
    | _ => none
  | .flush t =>
    match s.buf t with
    | [] => none
    | .tk x :: rest => some { s with ticket := x, buf := upd s.buf t rest }
    | .dat v :: rest => some { s with data := v, buf := upd s.buf t rest }
  | .flushAny t i =>
    if s.fifoBuf = true then none
    else match (s.buf t)[i]? with
      | none => none
      | some (.tk x) => some { s with ticket := x, buf := upd s.buf t ((s.buf t).eraseIdx i) }
      | some (.dat v) => some { s with data := v, buf := upd s.buf t ((s.buf t).eraseIdx i) }

/-- The system started with `ticket = users = v0`, data cell 0, all buffers empty. -/
def sys (fifoBuf : Bool) (v0 : Nat) : Sys St Ev := { init := init fifoBuf v0, step := step }

/-! ### log replay (tie to the code)

  The harness `harness/spin.c` runs the real `src/fiber_spinlock.c` under the deterministic
  scheduler, which interleaves sequentially consistently: every plain store is in memory at
  once.  Such a log is replayed through THIS machine with the embedding "a plain store is
  followed immediately by its own drain" (`stTicket ↦ stTicket, flush`; `csWrite ↦ csWrite,
  flush`); with `VH_DATA=1` the harness registers its critical-section counter as cell `data`,
  whose plain loads and stores become `csRead` / `csWrite`.  Line decoding is `Spin.ofRaw`
  (memory orders included), so the two models are driven by the same access sequence of the
  same object code.  Counters are unbounded here: the part that uses this driver starts the
  lock word far below 2^32. -/

/-- one log line: an event of the SC model, or a plain access to the protected cell -/
inductive LEv
  | spin (e : Spin.Ev)
  | rd (t : Nat) (v : Int)
  | wr (t : Nat) (v : Int)

def ofSpin : Spin.Ev → List Ev
  | .callLock t => [.callLock t]
  | .retLock t => [.retLock t]
  | .callTry t => [.callTry t]
  | .retTry t r => [.retTry t r]
  | .callUnlock t => [.callUnlock t]
  | .retUnlock t => [.retUnlock t]
  | .csEnter t => [.csEnter t]
  | .csExit t => [.csExit t]
  | .faddUsers t old => [.faddUsers t old]
  | .ldTicket t x => [.ldTicket t x]
  | .stTicket t x => [.stTicket t x, .flush t]
  | .ldBlob t tk us => [.ldBlob t tk us]
  | .casBlob t a b c d e f ok => [.casBlob t a b c d e f ok]

def runList (s : St) : List Ev → Option St
  | [] => some s
  | e :: es => (step s e).bind (fun s' => runList s' es)

def stepL (s : St) : LEv → Option St
  | .spin e => runList s (ofSpin e)
  | .rd t v => step s (.csRead t v)
  | .wr t v => runList s [.csWrite t v, .flush t]

def ofRawL (r : RawEv) : Option LEv :=
  match r.kind, r.args with
  | "r", ["data", v] => v.toInt?.map (LEv.rd r.tid)
  | "w", ["data", v] => v.toInt?.map (LEv.wr r.tid)
  | _, _ => (Spin.ofRaw r).map LEv.spin

def sysL (v0 : Nat) : Sys St LEv := { init := init true v0, step := stepL }

/-- `verifdrv SpinTso <log>` -/
def drive (lines : List String) : IO UInt32 := do
  match initArgs lines with
  | ["spin", n] =>
    match n.toNat? with
    | some v0 =>
      -- the harness's own final look at the counter (function `main`, after every thread has
      -- finished; it decides status LOSTUPDATE) is not an access under the lock
      let body := lines.filter (fun l => !isInit l && !(match parseLine l with
        | some r => r.func = "main" && r.args.head? = some "data"
        | none => false))
      let v := validate (sysL v0) ofRawL body
      report "SpinTso" v (Spin.monitor body)
    | none => IO.println "VALIDATE DIVERGE bad init"; return 1
  | _ => IO.println "VALIDATE DIVERGE missing init"; return 1

end LibfiberVerif.SpinTso
