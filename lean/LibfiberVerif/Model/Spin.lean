/-
  Model/Spin.lean — src/fiber_spinlock.c, include/fiber_spinlock.h (property C18).

  The lock word is a union { struct { uint32 ticket; uint32 users; }; uint64 blob; }
  (little endian: `ticket` is the low half of `blob`).  One model step = one access to the
  lock word, in the order the C code performs them, plus the API notes the harness logs.
  Any number of threads (`Nat → Pc`), ARBITRARY initial value of the two counters, and the
  32-bit arithmetic is modelled modulo 2^32 (the counters wrap).  Ghost, unbounded
  counterparts `gTicket`, `gUsers` count unlock stores / tickets handed out.

  C code being modelled:
    lock:     my = fetch_add(&users, 1);
              while (load(&ticket) != my) { cpu_relax(); manager->spin_count += 1; }
    trylock:  old.blob = load(&blob); old.ticket = old.users;
              new = old; new.users += 1;                       // 32-bit add inside the union
              return CAS(&blob, old.blob, new.blob) ? SUCCESS : ERROR;
    unlock:   t = load(&ticket); store(&ticket, t + 1);         // 32-bit add
-/
import LibfiberVerif.Core.Sys
import LibfiberVerif.Core.Event
import LibfiberVerif.Driver

namespace LibfiberVerif.Spin

/-- 2^32, written as a literal so that `omega` sees it. -/
local macro "M32" : term => `((4294967296 : Nat))

inductive Pc
  | idle
  | lockCalled
  /-- after `fetch_add(users)`: `my` = the 32-bit value returned, `g` = ghost unbounded ticket -/
  | spinning (my g : Nat)
  /-- the load of `ticket` returned `my`: the thread HOLDS the lock from here … -/
  | lockDone
  | held
  | inCs
  | unlockCalled
  | unlockRead (x : Nat)
  /-- … until its unlock store -/
  | unlockDone
  | tryCalled
  | tryRead (tk us : Nat)
  /-- after the CAS; the thread holds the lock iff `ok` -/
  | tryDone (ok : Bool)
  deriving Repr, DecidableEq, Inhabited

/-- A thread holds the lock from the load that saw its ticket / its successful CAS until its
    unlock store. -/
def holder : Pc → Bool
  | .lockDone | .held | .inCs | .unlockCalled | .unlockRead _ | .tryDone true => true
  | _ => false

inductive Ev
  | callLock (t : Nat)
  | retLock (t : Nat)
  | callTry (t : Nat)
  | retTry (t r : Nat)
  | callUnlock (t : Nat)
  | retUnlock (t : Nat)
  | csEnter (t : Nat)
  | csExit (t : Nat)
  /-- `fetch_add(&users, 1)` returned `old` -/
  | faddUsers (t old : Nat)
  | ldTicket (t x : Nat)
  | stTicket (t x : Nat)
  /-- 8-byte load of the whole word: low half `tk`, high half `us` -/
  | ldBlob (t tk us : Nat)
  /-- 8-byte CAS: value found, expected, desired (each as low/high half), success flag -/
  | casBlob (t ftk fus etk eus dtk dus : Nat) (ok : Bool)
  deriving Repr, DecidableEq, Inhabited

def Ev.tid : Ev → Nat
  | .callLock t | .retLock t | .callTry t | .retTry t _ | .callUnlock t | .retUnlock t
  | .csEnter t | .csExit t | .faddUsers t _ | .ldTicket t _ | .stTicket t _ | .ldBlob t _ _
  | .casBlob t _ _ _ _ _ _ _ => t

structure St where
  ticket : Nat
  users : Nat
  pc : Nat → Pc
  /-- ghost: initial value + number of unlock stores (never wraps) -/
  gTicket : Nat
  /-- ghost: initial value + number of tickets handed out (never wraps) -/
  gUsers : Nat
  /-- ghost: threads in the order of their `fetch_add(users)` (tickets taken by `lock`) -/
  order : List Nat
  /-- ghost: threads in the order in which their `lock` spin loop saw its ticket -/
  acq : List Nat

def init (v0 : Nat) : St :=
  { ticket := v0 % M32, users := v0 % M32, pc := fun _ => .idle,
    gTicket := v0, gUsers := v0, order := [], acq := [] }

def step (s : St) : Ev → Option St
  | .callLock t =>
    if s.pc t = .idle then some { s with pc := upd s.pc t .lockCalled } else none
  | .faddUsers t old =>
    match s.pc t with
    | .lockCalled =>
      if old = s.users then
        some { s with users := (old + 1) % M32, gUsers := s.gUsers + 1,
                      order := s.order ++ [t], pc := upd s.pc t (.spinning old s.gUsers) }
      else none
    | _ => none
  | .ldTicket t x =>
    match s.pc t with
    | .spinning my _ =>
      if x = s.ticket then
        if x = my then some { s with acq := s.acq ++ [t], pc := upd s.pc t .lockDone }
        else some s                                   -- one more iteration of the spin loop
      else none
    | .unlockCalled =>
      if x = s.ticket then some { s with pc := upd s.pc t (.unlockRead x) } else none
    | _ => none
  | .retLock t =>
    if s.pc t = .lockDone then some { s with pc := upd s.pc t .held } else none
  | .csEnter t =>
    if s.pc t = .held then some { s with pc := upd s.pc t .inCs } else none
  | .csExit t =>
    if s.pc t = .inCs then some { s with pc := upd s.pc t .held } else none
  | .callUnlock t =>
    -- unlock by a non-holder is a client-contract violation: the model rejects it
    if s.pc t = .held then some { s with pc := upd s.pc t .unlockCalled } else none
  | .stTicket t x =>
    match s.pc t with
    | .unlockRead y =>
      if x = (y + 1) % M32 then
        some { s with ticket := x, gTicket := s.gTicket + 1, pc := upd s.pc t .unlockDone }
      else none
    | _ => none
  | .retUnlock t =>
    if s.pc t = .unlockDone then some { s with pc := upd s.pc t .idle } else none
  | .callTry t =>
    if s.pc t = .idle then some { s with pc := upd s.pc t .tryCalled } else none
  | .ldBlob t tk us =>
    if s.pc t = .tryCalled ∧ tk = s.ticket ∧ us = s.users then
      some { s with pc := upd s.pc t (.tryRead tk us) }
    else none
  | .casBlob t ftk fus etk eus dtk dus ok =>
    match s.pc t with
    | .tryRead _ us =>
      if ftk = s.ticket ∧ fus = s.users ∧ etk = us ∧ eus = us ∧ dtk = us ∧ dus = (us + 1) % M32
          ∧ ok = decide (ftk = etk ∧ fus = eus) then
        if ok then
          some { s with ticket := dtk, users := dus, gUsers := s.gUsers + 1,
                        pc := upd s.pc t (.tryDone true) }
        else some { s with pc := upd s.pc t (.tryDone false) }
      else none
    | _ => none
  | .retTry t r =>
    match s.pc t with
    | .tryDone true => if r = 1 then some { s with pc := upd s.pc t .held } else none
    | .tryDone false => if r = 0 then some { s with pc := upd s.pc t .idle } else none
    | _ => none

/-- The system started with `ticket = users = v0 mod 2^32`. -/
def sys (v0 : Nat) : Sys St Ev := { init := init v0, step := step }

/-! ### log-line decoding -/

def parseBool (s : String) : Option Bool :=
  if s = "1" then some true else if s = "0" then some false else none

/-- 64-bit values ≥ 2^64 − 2^32 are printed as negative numbers by the runtime. -/
def parseU64 (s : String) : Option Nat :=
  s.toInt?.map (fun i => (i % 18446744073709551616).toNat)

def lo32 (v : Nat) : Nat := v % M32
def hi32 (v : Nat) : Nat := v / M32

def ofRaw (r : RawEv) : Option Ev :=
  let t := r.tid
  match r.kind, r.args with
  | "note", ["call", "lock"] => some (.callLock t)
  | "note", ["ret", "lock"] => some (.retLock t)
  | "note", ["call", "trylock"] => some (.callTry t)
  | "note", ["ret", "trylock", v] => v.toNat?.map (Ev.retTry t)
  | "note", ["call", "unlock"] => some (.callUnlock t)
  | "note", ["ret", "unlock"] => some (.retUnlock t)
  | "note", ["cs", "enter"] => some (.csEnter t)
  | "note", ["cs", "exit"] => some (.csExit t)
  -- Memory orders are part of the correspondence: the acquiring accesses (ticket draw, spin
  -- load, trylock's CAS) must be at least acquire and the releasing store at least release,
  -- otherwise "writes made in the critical section are seen by the next owner" has no basis
  -- in the C11 model even where the x86-64 object code is identical.
  | "fadd", ["lock+4/4", old, "1", mo] => if acq mo then old.toNat?.map (Ev.faddUsers t) else none
  | "ld", ["lock/4", x, mo] => if acq mo then x.toNat?.map (Ev.ldTicket t) else none
  | "st", ["lock/4", x, mo] => if rel mo then x.toNat?.map (Ev.stTicket t) else none
  | "ld", ["lock", v, _] => (parseU64 v).map (fun v => Ev.ldBlob t (lo32 v) (hi32 v))
  | "cas", ["lock", f, e, d, ok, mo] => do
    let f ← parseU64 f; let e ← parseU64 e; let d ← parseU64 d; let ok ← parseBool ok
    if acq mo then pure (Ev.casBlob t (lo32 f) (hi32 f) (lo32 e) (hi32 e) (lo32 d) (hi32 d) ok) else none
  | _, _ => none
where
  /-- mo2 acquire, mo4 acq_rel, mo5 seq_cst -/
  acq (mo : String) : Bool := mo = "mo2" || mo = "mo4" || mo = "mo5"
  /-- mo3 release, mo4 acq_rel, mo5 seq_cst -/
  rel (mo : String) : Bool := mo = "mo3" || mo = "mo4" || mo = "mo5"

/-! ### API-level monitor on the notes (failing-input search)

  Flags only definite violations:
  * `excl`      two threads between `cs enter` and `cs exit`, or `lock`/`trylock` reported
                success while another thread was between its own success and its `call unlock`
  * `order`     `lock` returned to a thread that is not the oldest outstanding ticket
                (ticket order = order of the `fadd lock+4/4` events)
  * `tryQueued` `trylock` returned 1 although some thread took a ticket before the trylock
                was called and had still not returned from `lock` when the trylock returned
  * `contract`  unlock by a thread that does not hold the lock (harness error)
-/

structure Mon where
  inCs : List Nat := []
  holders : List Nat := []
  /-- outstanding `lock` tickets: (thread, sequence number of its fadd) -/
  queue : List (Nat × Nat) := []
  seq : Nat := 0
  /-- per thread inside `trylock`: the outstanding tickets at `call trylock` -/
  snap : List (Nat × List (Nat × Nat)) := []
  err : Option String := none

def Mon.fail (m : Mon) (msg : String) : Mon :=
  if m.err.isSome then m else { m with err := some msg }

def monStep (m : Mon) (r : RawEv) : Mon :=
  let t := r.tid
  match r.kind, r.args with
  | "fadd", "lock+4/4" :: _ => { m with queue := m.queue ++ [(t, m.seq)], seq := m.seq + 1 }
  | "note", ["ret", "lock"] =>
    let m := match m.queue with
      | (h, _) :: _ =>
        if h = t then m
        else m.fail s!"order: lock returned to thread {t} but thread {h} took its ticket earlier"
      | [] => m.fail s!"order: lock returned to thread {t} which has no ticket"
    let m := match m.holders with
      | h :: _ => m.fail s!"excl: lock returned to thread {t} while thread {h} holds the lock"
      | [] => m
    let q := match m.queue.find? (fun p => p.1 = t) with
      | some p => m.queue.filter (fun x => x.2 ≠ p.2)
      | none => m.queue
    { m with queue := q, holders := t :: m.holders }
  | "note", ["call", "trylock"] =>
    { m with snap := (t, m.queue) :: m.snap.filter (fun p => p.1 ≠ t) }
  | "note", ["ret", "trylock", v] =>
    let snap := ((m.snap.find? (fun p => p.1 = t)).map (·.2)).getD []
    let m := { m with snap := m.snap.filter (fun p => p.1 ≠ t) }
    if v = "1" then
      let m := match m.holders with
        | h :: _ => m.fail s!"excl: trylock succeeded for thread {t} while thread {h} holds the lock"
        | [] => m
      let m := match snap.find? (fun p => m.queue.any (fun q => q.2 = p.2)) with
        | some p => m.fail s!"tryQueued: trylock succeeded for thread {t} while thread {p.1} was queued throughout"
        | none => m
      { m with holders := t :: m.holders }
    else m
  | "note", ["call", "unlock"] =>
    let m := if m.holders.contains t then m
             else m.fail s!"contract: unlock by thread {t} which does not hold the lock"
    { m with holders := m.holders.filter (· ≠ t) }
  | "note", ["cs", "enter"] =>
    let m := match m.inCs with
      | h :: _ => m.fail s!"excl: thread {t} entered the critical section while thread {h} is inside"
      | [] => m
    { m with inCs := t :: m.inCs }
  | "note", ["cs", "exit"] => { m with inCs := m.inCs.filter (· ≠ t) }
  | _, _ => m

def monitor (lines : List String) : Option String :=
  ((lines.filterMap parseLine).foldl monStep {}).err

/-- `verifdrv Spin <log>`: the `note init spin <v0>` line gives the initial counter value. -/
def drive (lines : List String) : IO UInt32 := do
  match initArgs lines with
  | ["spin", n] =>
    match n.toNat? with
    | some v0 =>
      let body := lines.filter (fun l => !isInit l)
      let v := validate (sys v0) ofRaw body
      report "Spin" v (monitor body)
    | none => IO.println "VALIDATE DIVERGE bad init"; return 1
  | _ => IO.println "VALIDATE DIVERGE missing init"; return 1

end LibfiberVerif.Spin
