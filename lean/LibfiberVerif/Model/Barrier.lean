/-
  Model/Barrier.lean — src/fiber_barrier.c on top of fiber_manager_wait_in_mpsc_queue /
  fiber_manager_wake_from_mpsc_queue (src/fiber_manager.c) and include/mpsc_fifo.h
  (property C12).

  Actors are FIBERS (the `fiber` column of the log), on any number of kernel threads.  One
  model step = one access to a cell of the barrier (`counter`, the waiter queue's
  `head`/`tail`, a node's `next`/`data`, a fiber's `mpsc_fifo_node` / `state` field as touched
  by the wait / wake functions), in exactly the order the C code performs them, plus the
  harness's API notes.  Scheduler traffic on `state` is the runtime model's business
  (C01/C02) and is skipped: a parked fiber takes no step until the serial fiber has popped
  its queue entry and finished the wake-up accesses; `ret wait _ 0` is accepted only then.

  C code (count = number of participating fibers):
    wait:  new = fetch_add(&counter, 1) + 1;
           if (new % count == 0) { wake_from_mpsc_queue(&waiters, count - 1); return SERIAL; }
           else                  { wait_in_mpsc_queue(&waiters);              return 0; }
    wait_in_mpsc_queue: this->state = SAVING; node = this->mpsc_fifo_node;
           node->data = this; this->mpsc_fifo_node = NULL;
           mpsc_fifo_push: node->next = NULL; prev = xchg(&tail, node); prev->next = node;
           fiber_manager_yield   (parks; resumes after a waker scheduled us)
    wake_from_mpsc_queue(cnt): woken = 0; do {
           mpsc_fifo_trypop: h = head; x = h->next; if (x) { head = x; h->data = x->data; out = h }
           if (out) { f = out->data; f->mpsc_fifo_node = out;
                      if (f->state == WAITING) f->state = READY; schedule(f); ++woken }
           else if (cnt > 0) { yield }
         } while (woken < cnt);

  THE MODEL DESCRIBES THE CODE THAT EXISTS: a pop takes whatever entry is next in the queue,
  including an entry enqueued by an arrival of the NEXT round (F-C12).  Whether that is
  acceptable is the business of the monitor and of the theorems, not of `step`.

  Parameter `queues`: 1 = the code as it is (one waiter queue); 2 = the candidate fix of
  docs/fix-C12.diff (two waiter queues, an arrival with fetch_add result `old` uses queue
  `(old / count) % 2`).  The harness reports the number of queues in its `init` note.

  The waiter queues are kept abstractly (ghost list `order` of entries in `xchg(&tail)` order,
  `linked` flags, number popped `hd`); the concrete values of `head`, `tail`, `next` are
  derived and checked against every logged access (adequacy for all interleavings: C15).

  Ghost state for the property: `rnd f` = how many waits fiber f has started (its current
  round), `entered k` = how many fibers have entered their k-th wait (counted at the
  fetch_add, the exact instant of arrival), `members` = the fibers that ever called wait
  (client assumption of C12: at most `count` of them), and in every pc / queue entry the
  counter round `c = old / count` of that arrival.
-/
import LibfiberVerif.Core.Sys
import LibfiberVerif.Core.Event
import LibfiberVerif.Driver

namespace LibfiberVerif.Barrier

/-- fiber states (include/fiber.h) -/
def WAITING : Nat := 3
def READY : Nat := 2
def SAVING : Nat := 5

/-- `q` = waiter queue used by this arrival, `c` = counter round of this arrival,
    `need` = pops the serial fiber still has to make. -/
inductive Pc
  | idle
  | called
  | arrived (q c : Nat)                     -- fetch_add done, not the last arrival: about to wait
  | waitSaving (q c : Nat)                  -- state := SAVING written
  | waitGotNode (q c n : Nat)               -- read own mpsc_fifo_node
  | waitWroteData (q c n : Nat)             -- node->data := self
  | waitClearedNode (q c n : Nat)           -- own mpsc_fifo_node := NULL
  | pushCleared (q c n : Nat)               -- node->next := NULL
  | pushXchgd (q c n p i : Nat)             -- prev = xchg(tail, node); our entry is order[i]
  | parked (q c : Nat)                      -- prev->next := node done; entry not yet popped
  | popped (c : Nat)                        -- entry popped; the waker has not finished with us
  | runnable (c : Nat)                      -- woken: may return 0
  | wakeLoop (q c need : Nat)               -- serial fiber, about to try a pop
  | popGotHead (q c need h : Nat)
  | popGotNext (q c need h x : Nat)
  | popMoved (q c need h x g : Nat)         -- head := x done (the pop took effect; need decremented)
  | popGotData (q c need h x g : Nat)       -- read x->data = fiber g
  | popWrote (q c need h g : Nat)           -- h->data := g ; `h` is the node handed out
  | wakeGotFiber (q c need h g : Nat)       -- re-read out->data
  | wakeGaveNode (q c need h g : Nat)       -- g->mpsc_fifo_node := out
  | wakeReadState (q c need g : Nat)        -- read g->state = WAITING
  | serialDone (c : Nat)                    -- about to return SERIAL
  deriving Repr, DecidableEq, Inhabited

inductive Ev
  | callWait (f k : Nat)
  | retWait (f k : Nat) (serial : Bool)
  | fadd (f old : Nat)
  | wState (f g v : Nat)
  | rState (f g v : Nat)
  | rNode (f g n : Nat)
  | wNode (f g n : Nat)
  | wData (f n g : Nat)
  | rData (f n g : Nat)
  | wNext (f n x : Nat)
  | rNext (f n x : Nat)
  | xchgTail (f q old new : Nat)
  | rHead (f q n : Nat)
  | wHead (f q n : Nat)
  deriving Repr, DecidableEq, Inhabited

/-- a queue entry: node, fiber, counter round of the arrival that enqueued it -/
structure Entry where
  node : Nat
  fiber : Nat
  c : Nat
  deriving Repr, DecidableEq, Inhabited

/-- one waiter queue (include/mpsc_fifo.h), kept abstractly -/
structure Q where
  /-- ghost: entries in `xchg(&tail)` order -/
  order : List Entry
  /-- ghost: `linked i` = the `prev->next = node` write of `order[i]` has happened -/
  linked : Nat → Bool
  /-- number of entries of `order` already popped -/
  hd : Nat
  /-- the current stub node (value of `head`) -/
  headNode : Nat
  /-- the initial stub (value of `tail` while `order` is empty) -/
  stub : Nat

structure St where
  counter : Nat
  q : Nat → Q
  fnode : Nat → Nat
  ndata : Nat → Nat
  pc : Nat → Pc
  /-- ghost: number of waits fiber f has started -/
  rnd : Nat → Nat
  /-- ghost: `entered k` = number of fibers that have entered their k-th wait -/
  entered : Nat → Nat
  /-- ghost: fibers that ever called wait (client assumption: at most `count`) -/
  members : List Nat
  /-- ghost: number of arrivals that were told to be the serial fiber -/
  serials : Nat
  /-- ghost: `told k` = number of fibers that were told to be the serial fiber in their k-th wait -/
  told : Nat → Nat

def Q.tailNode (a : Q) : Nat :=
  match a.order.getLast? with
  | some e => e.node
  | none => a.stub

/-- `next` field of the current stub as the consumer sees it -/
def Q.headNext (a : Q) : Nat :=
  match a.order[a.hd]? with
  | some e => if a.linked a.hd then e.node else 0
  | none => 0

def initQ (stub : Nat) : Q :=
  { order := [], linked := fun _ => false, hd := 0, headNode := stub, stub := stub }

/-- queue `i` starts with stub node `i + 1`; fiber `k` starts out owning node `nodeOf k` -/
def init (nodeOf : Nat → Nat) : St :=
  { counter := 0, q := fun i => initQ (i + 1), fnode := nodeOf, ndata := fun _ => 0,
    pc := fun _ => .idle, rnd := fun _ => 0, entered := fun _ => 0, members := [], serials := 0,
    told := fun _ => 0 }

/-- what the serial fiber does after a wake-up is complete: loop again or finish -/
def afterWake (q c need : Nat) : Pc := if need = 0 then .serialDone c else .wakeLoop q c need

def step (count queues : Nat) (s : St) : Ev → Option St
  | .callWait f k =>
    if s.pc f = .idle ∧ k = s.rnd f + 1 then
      if f ∈ s.members then some { s with pc := upd s.pc f .called }
      else if s.members.length < count then
        some { s with pc := upd s.pc f .called, members := f :: s.members }
      else none
    else none
  | .fadd f old =>
    match s.pc f with
    | .called =>
      if old = s.counter then
        let c := old / count
        let qi := c % queues
        let s1 := { s with counter := old + 1, rnd := upd s.rnd f (s.rnd f + 1),
                           entered := upd s.entered (s.rnd f + 1) (s.entered (s.rnd f + 1) + 1) }
        if (old + 1) % count = 0 then
          some { s1 with serials := s.serials + 1,
                         told := upd s.told (s.rnd f + 1) (s.told (s.rnd f + 1) + 1),
                         pc := upd s.pc f (.wakeLoop qi c (count - 1)) }
        else some { s1 with pc := upd s.pc f (.arrived qi c) }
      else none
    | _ => none
  | .wState f g v =>
    match s.pc f with
    | .arrived q c => if g = f ∧ v = SAVING then some { s with pc := upd s.pc f (.waitSaving q c) } else none
    | .wakeReadState q c need g' =>
      if g = g' ∧ v = READY then
        match s.pc g with
        | .popped c' => some { s with pc := upd (upd s.pc g (.runnable c')) f (afterWake q c need) }
        | _ => none
      else none
    | _ => none
  | .rNode f g n =>
    match s.pc f with
    | .waitSaving q c =>
      if g = f ∧ n = s.fnode f ∧ n ≠ 0 then some { s with pc := upd s.pc f (.waitGotNode q c n) } else none
    | _ => none
  | .wData f n g =>
    match s.pc f with
    | .waitGotNode q c m =>
      if n = m ∧ g = f then some { s with ndata := upd s.ndata n f, pc := upd s.pc f (.waitWroteData q c n) } else none
    | .popGotData q c need h _ g' =>
      if n = h ∧ g = g' then some { s with ndata := upd s.ndata h g, pc := upd s.pc f (.popWrote q c need h g) } else none
    | _ => none
  | .wNode f g n =>
    match s.pc f with
    | .waitWroteData q c m =>
      if g = f ∧ n = 0 then some { s with fnode := upd s.fnode f 0, pc := upd s.pc f (.waitClearedNode q c m) } else none
    | .wakeGotFiber q c need h g' =>
      if g = g' ∧ n = h then some { s with fnode := upd s.fnode g h, pc := upd s.pc f (.wakeGaveNode q c need h g) } else none
    | _ => none
  | .wNext f n x =>
    match s.pc f with
    | .waitClearedNode q c m => if n = m ∧ x = 0 then some { s with pc := upd s.pc f (.pushCleared q c m) } else none
    | .pushXchgd q c m p i =>
      if n = p ∧ x = m then
        some { s with q := upd s.q q { s.q q with linked := upd (s.q q).linked i true },
                      pc := upd s.pc f (.parked q c) }
      else none
    | _ => none
  | .xchgTail f qi old new =>
    match s.pc f with
    | .pushCleared q c m =>
      if qi = q ∧ new = m ∧ old = (s.q q).tailNode then
        some { s with q := upd s.q q { s.q q with order := (s.q q).order ++ [⟨m, f, c⟩] },
                      pc := upd s.pc f (.pushXchgd q c m old (s.q q).order.length) }
      else none
    | _ => none
  | .rHead f qi n =>
    match s.pc f with
    | .wakeLoop q c need =>
      if qi = q ∧ n = (s.q q).headNode then some { s with pc := upd s.pc f (.popGotHead q c need n) } else none
    | _ => none
  | .rNext f n x =>
    match s.pc f with
    | .popGotHead q c need h =>
      if n = h ∧ x = (s.q q).headNext then
        if x = 0 then
          -- trypop failed: `else if (cnt > 0) yield`, `while (woken < cnt)`
          some { s with pc := upd s.pc f (afterWake q c need) }
        else some { s with pc := upd s.pc f (.popGotNext q c need h x) }
      else none
    | _ => none
  | .wHead f qi n =>
    match s.pc f with
    | .popGotNext q c need h x =>
      if qi = q ∧ n = x then
        match (s.q q).order[(s.q q).hd]? with
        | some e =>
          -- the pop takes effect: WHATEVER entry is next is handed out, of whichever round
          if s.pc e.fiber = .parked q e.c then
            some { s with q := upd s.q q { s.q q with headNode := x, hd := (s.q q).hd + 1 },
                          pc := upd (upd s.pc e.fiber (.popped e.c)) f (.popMoved q c (need - 1) h x e.fiber) }
          else none
        | none => none
      else none
    | _ => none
  | .rData f n g =>
    match s.pc f with
    | .popMoved q c need h x g' =>
      if n = x ∧ g = s.ndata x ∧ g = g' then some { s with pc := upd s.pc f (.popGotData q c need h x g) } else none
    | .popWrote q c need h g' =>
      if n = h ∧ g = g' then some { s with pc := upd s.pc f (.wakeGotFiber q c need h g) } else none
    | _ => none
  | .rState f g v =>
    match s.pc f with
    | .wakeGaveNode q c need _ g' =>
      if g = g' ∧ (v = WAITING ∨ v = SAVING) then
        if v = WAITING then some { s with pc := upd s.pc f (.wakeReadState q c need g) }
        else
          -- still SAVING: scheduled as it is; the wake-up is complete
          match s.pc g with
          | .popped c' => some { s with pc := upd (upd s.pc g (.runnable c')) f (afterWake q c need) }
          | _ => none
      else none
    | _ => none
  | .retWait f k serial =>
    if k = s.rnd f then
      match s.pc f with
      | .serialDone _ => if serial then some { s with pc := upd s.pc f .idle } else none
      | .runnable _ => if serial then none else some { s with pc := upd s.pc f .idle }
      | _ => none
    else none

def sys (count queues : Nat) (nodeOf : Nat → Nat) : Sys St Ev :=
  { init := init nodeOf, step := step count queues }

/-! ### log decoding -/

/-- `0` ↦ 0, `@S` ↦ 1 (stub of queue 0), `@S1` ↦ 2 (stub of queue 1), `@N<k>` ↦ k+3 -/
def nodeId (s : String) : Option Nat :=
  if s = "0" then some 0
  else if s = "@S" then some 1
  else if s = "@S1" then some 2
  else if s.startsWith "@N" then (s.drop 2).toString.toNat?.map (· + 3)
  else none

def fiberId (s : String) : Option Nat :=
  if s.startsWith "@F" then (s.drop 2).toString.toNat? else none

def splitCell (c : String) : Option (String × String) :=
  match c.splitOn "." with
  | [a, b] => some (a, b)
  | _ => none

def cellNode (a : String) : Option Nat := nodeId ("@" ++ a)
def cellFiber (a : String) : Option Nat := fiberId ("@" ++ a)

def schedulerFuncs : List String :=
  ["fiber_manager_yield", "fiber_scheduler_next", "fiber_manager_switch_to",
   "fiber_manager_do_maintenance", "fiber_mark_completed", "fiber_destroy"]

def ofRaw (r : RawEv) : Option (Option Ev) :=
  let f := r.fiber
  if schedulerFuncs.contains r.func then some none else
  match r.kind, r.args with
  | "note", ["call", "wait", k] => k.toNat?.map (fun k => some (.callWait f k))
  | "note", ["ret", "wait", k, v] => k.toNat?.map (fun k => some (.retWait f k (v = "1")))
  | "note", _ => some none
  | "fadd", ["counter", old, "1", _] => old.toNat?.map (fun o => some (.fadd f o))
  | "xchg", ["tail", old, new, _] => do
      let o ← nodeId old; let n ← nodeId new; pure (some (.xchgTail f 0 o n))
  | "xchg", ["tail1", old, new, _] => do
      let o ← nodeId old; let n ← nodeId new; pure (some (.xchgTail f 1 o n))
  | "r", ["head", n] => (nodeId n).map (fun n => some (.rHead f 0 n))
  | "w", ["head", n] => (nodeId n).map (fun n => some (.wHead f 0 n))
  | "r", ["head1", n] => (nodeId n).map (fun n => some (.rHead f 1 n))
  | "w", ["head1", n] => (nodeId n).map (fun n => some (.wHead f 1 n))
  | k, [c, v] =>
    match splitCell c with
    | some (a, "state") => do
        let g ← cellFiber a; let v ← v.toNat?
        if k = "w" then pure (some (.wState f g v)) else if k = "r" then pure (some (.rState f g v)) else none
    | some (a, "node") => do
        let g ← cellFiber a; let n ← nodeId v
        if k = "w" then pure (some (.wNode f g n)) else if k = "r" then pure (some (.rNode f g n)) else none
    | some (a, "next") => do
        let n ← cellNode a; let x ← nodeId v
        if k = "w" then pure (some (.wNext f n x)) else if k = "r" then pure (some (.rNext f n x)) else none
    | some (a, "data") => do
        let n ← cellNode a
        let g ← (if v = "0" then some 0 else fiberId v)
        if k = "w" then pure (some (.wData f n g)) else if k = "r" then pure (some (.rData f n g)) else none
    | _ => if k = "switch" ∨ k = "fcreate" ∨ k = "fdestroy" then some none else none
  | "switch", _ => some none
  | "fcreate", _ => some none
  | "fdestroy", _ => some none
  | _, _ => none

/-! ### monitor: the property C12 on the API notes + the arrival instants

  Rounds are the callers' rounds (k = the fiber's k-th `fiber_barrier_wait`, from the notes);
  a fiber has *entered* its k-th wait at its `fetch_add` (the `call wait k` note precedes it).
  Definite violations only:
  * `no_early_pass`  — `ret wait k` by a fiber while fewer than `count` fibers have entered
                        their k-th wait;
  * `two_serial`     — a second `ret wait k 1` for the same k;
  * `no_serial`      — all `count` fibers returned from wait k and none was told serial.
  ("all of them do return" is decided by the run's status: HANG / BUDGET.)

  For a `no_early_pass` failure the monitor also reports HOW the fiber got out, from the
  queue traffic it has seen: `cause=reuse_race` = its queue entry, enqueued by an arrival of
  counter round m+1, was popped by the serial fiber of counter round m while a waiter of
  round m was still outstanding (fetch_add done, entry not yet enqueued or queued behind):
  the F-C12 shape, the round-(m+1) arrival displaces the round-m waiter.  Anything else
  (e.g. a serial fiber that pops more entries than its round has waiters) is `cause=other`. -/

structure Mon where
  count : Nat
  /-- fiber ↦ its current round (from `call wait k`) -/
  cur : List (Nat × Nat) := []
  /-- round ↦ number of fibers that have entered it (fetch_add done) -/
  arr : List (Nat × Nat) := []
  ser : List (Nat × Nat) := []
  ret : List (Nat × Nat) := []
  /-- fiber ↦ counter round of its latest arrival -/
  cr : List (Nat × Nat) := []
  /-- non-serial arrivals whose queue entry has not been popped yet: (fiber, counter round) -/
  pending : List (Nat × Nat) := []
  /-- per queue: entries (fiber, counter round) in xchg order, not yet popped -/
  qs : List (Nat × List (Nat × Nat)) := []
  /-- fiber ↦ how it was last popped: (counter round of the popper, counter round of the
      entry, was a waiter of the popper's round still outstanding?) -/
  how : List (Nat × (Nat × Nat × Bool)) := []

def lookupD {α : Type} (l : List (Nat × α)) (k : Nat) (d : α) : α := (l.lookup k).getD d
def setKV {α : Type} (l : List (Nat × α)) (k : Nat) (v : α) : List (Nat × α) :=
  (k, v) :: l.filter (fun p => p.1 ≠ k)

def Mon.step (m : Mon) : Ev → Except String Mon
  | .callWait f k => .ok { m with cur := setKV m.cur f k }
  | .fadd f old =>
    let k := lookupD m.cur f 0
    let c := old / m.count
    let m := { m with arr := setKV m.arr k (lookupD m.arr k 0 + 1), cr := setKV m.cr f c }
    if (old + 1) % m.count = 0 then .ok m else .ok { m with pending := (f, c) :: m.pending }
  | .xchgTail f q _ _ =>
    let c := lookupD m.cr f 0
    .ok { m with qs := setKV m.qs q (lookupD m.qs q [] ++ [(f, c)]) }
  | .wHead f q _ =>
    match lookupD m.qs q [] with
    | (g, c) :: rest =>
      let cp := lookupD m.cr f 0
      let pend := m.pending.filter (fun p => p.1 ≠ g)
      .ok { m with qs := setKV m.qs q rest, pending := pend,
                   how := setKV m.how g (cp, c, pend.any (fun p => p.2 = cp)) }
    | [] => .ok m
  | .retWait f k serial =>
    let a := lookupD m.arr k 0
    if a < m.count then
      let (cp, c, disp) := lookupD m.how f (0, 0, false)
      let cause := if c = cp + 1 ∧ disp ∧ ¬ serial then "reuse_race" else "other"
      .error s!"no_early_pass: fiber {f} returned from its wait {k} (serial={serial}) when only {a} of {m.count} fibers had entered their wait {k}; cause={cause} (its queue entry of counter round {c} was popped by the serial fiber of counter round {cp}; a round-{cp} waiter was still outstanding: {disp})"
    else
      let s := lookupD m.ser k 0 + (if serial then 1 else 0)
      let r := lookupD m.ret k 0 + 1
      if s > 1 then .error s!"two_serial: fiber {f} is the second fiber told to be the serial fiber of round {k}"
      else if r = m.count ∧ s = 0 then .error s!"no_serial: all {m.count} fibers returned from wait {k} and none was told to be the serial fiber"
      else .ok { m with ser := setKV m.ser k s, ret := setKV m.ret k r }
  | _ => .ok m

def monitor (count : Nat) (evs : List Ev) : Option String :=
  let rec go (m : Mon) : List Ev → Option String
    | [] => none
    | e :: es => match m.step e with
      | .ok m' => go m' es
      | .error msg => some msg
  go { count := count } evs

/-! ### end-of-log oracle for "all of them do return"

  A run that did not finish (status HANG / BUDGET) is a *definite* failure only if the state
  the model has reached cannot make progress under ANY further schedule: every fiber has
  started, each one is either finished (`rounds` waits done), or parked with its queue entry
  not popped, or a serial fiber polling a queue with nothing to pop - and at least one is not
  finished.  (A budget exhausted while some fiber is in the middle of an operation, e.g.
  starved by a strict-priority schedule, is inconclusive and not flagged.) -/

def blockedOrDone (rounds : Nat) (s : St) (f : Nat) : Bool :=
  match s.pc f with
  | .idle => s.rnd f = rounds
  | .parked _ _ => true
  | .wakeLoop q _ _ => (s.q q).headNext = 0
  | .popGotHead q _ _ _ => (s.q q).headNext = 0
  | _ => false

def stuck (count rounds : Nat) (s : St) : Option String :=
  if s.members.length = count ∧ s.members.all (blockedOrDone rounds s)
      ∧ s.members.any (fun f => !(s.pc f = .idle)) then
    let parked := s.members.filter (fun f => match s.pc f with | .parked _ _ => true | _ => false)
    let polling := s.members.filter (fun f => match s.pc f with
      | .wakeLoop _ _ _ => true | .popGotHead _ _ _ _ => true | _ => false)
    some s!"stranded: the run can never complete: counter={s.counter}, fibers {parked} are parked with their queue entries never popped, serial fibers {polling} poll for waiters that cannot arrive"
  else none

/-- last state the model reaches on the decoded events (stops at a divergence) -/
def finalState (M : Sys St Ev) : St → List Ev → St
  | s, [] => s
  | s, e :: es => match M.step s e with
    | some s' => finalState M s' es
    | none => s

def drive (lines : List String) : IO UInt32 := do
  let args := initArgs lines
  let count := (args[1]?.bind String.toNat?).getD 1
  let queues := (args[2]?.bind String.toNat?).getD 1
  let rounds := (args[3]?.bind String.toNat?).getD 0
  -- the harness may start `counter` at a multiple of `count` (a long-lived barrier near the
  -- 32-bit boundary); the model counts arrivals from 0, so logged counter values are rebased
  let base := (args[5]?.bind String.toNat?).getD 0
  let rebase (r : RawEv) : Option (Option Ev) :=
    match ofRaw r with
    | some (some (.fadd f o)) => if o ≥ base then some (some (.fadd f (o - base))) else none
    | x => x
  let body := lines.filter (fun l => !isInit l)
  -- every fiber F<k> starts out owning node N<k>
  let M := sys count queues (fun k => k + 3)
  let v := validateP M rebase body
  let evs := body.filterMap (fun l => (parseLine l).bind (fun r => (rebase r).join))
  let mon := match monitor count evs with
    | some m => some m
    | none =>
      -- the end-of-log oracle is meaningful only for a log the model followed to the end
      if v.2.isSome then none else stuck count rounds (finalState M M.init evs)
  report "Barrier" v mon

end LibfiberVerif.Barrier
