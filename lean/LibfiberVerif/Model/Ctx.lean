/-
  Model/Ctx.lean — machine model for the x86-64 context switch (property C19).

  Layer C of DESIGN.md: registers, 64-bit memory, the instruction forms that occur in the
  inline assembly of `fiber_context_swap` (src/fiber_context.c, `__x86_64__ &&
  FIBER_FAST_SWITCHING` section) and the `*--sp = …` store sequence of `fiber_context_init`.

  The *programs* (instruction list, store sequence, operand bindings, stack-size guarantees)
  are NOT in this file: they are regenerated from the C source by `extract/ctx_extract.py`
  into `Gen/CtxAsm.lean` on every check.  Everything here is parameterised by them.

  Memory: `BitVec 64 → BitVec 64`, keyed by byte address, one 8-byte cell per accessed
  address.  Every access of the modelled code is an 8-byte access through a stack pointer;
  two accesses are taken to overlap iff their addresses are equal.  This is exact when all
  stack pointers are 8-byte aligned (x86-64 psABI; fresh frames are 16-byte aligned by
  `Ctx.fresh_frame_valid`, `Ctx.swap_keeps_alignment`, and push/pop/add $8 keep 8-byte alignment).
  All address arithmetic is modular 64-bit (`BitVec 64`).

  Core Lean only (no Mathlib).
-/
namespace LibfiberVerif.Ctx

abbrev W := BitVec 64

/-- The registers the switch touches. -/
inductive Reg
  | rax | rcx | rdi | rsi | rsp | rbp | rbx | r12 | r13 | r14 | r15
  deriving DecidableEq, Repr

/-- Exactly the instruction forms that occur in the generated list
    (AT&T operand order: source first). -/
inductive Instr
  /-- `leaq <n>f(%rip), %dst` — address of local label `n` -/
  | leaLabel (n : Nat) (dst : Reg)
  /-- `movq off(%base), %dst` -/
  | load (off : Nat) (base dst : Reg)
  /-- `movq %src, off(%base)` -/
  | store (src : Reg) (off : Nat) (base : Reg)
  /-- `movq %src, %dst` -/
  | movReg (src dst : Reg)
  /-- `pushq %src` -/
  | push (src : Reg)
  /-- `popq %dst` -/
  | pop (dst : Reg)
  /-- `add $imm, %dst` -/
  | addImm (imm : Nat) (dst : Reg)
  /-- `jmp *%target` -/
  | jmpReg (target : Reg)
  /-- `<n>:` -/
  | label (n : Nat)
  deriving DecidableEq, Repr

/-- Where control is.  `inAsm`: still inside (or fallen off the end of) the asm statement;
    `atAddr a`: an indirect jump left the statement for code address `a`
    (`a = lbl 0` ⇒ the resume point behind the asm of a suspended fiber — "atLabel0";
     otherwise the entry of a run function — "atFunction a"). -/
inductive Rip
  | inAsm
  | atAddr (a : W)
  deriving DecidableEq, Repr

structure Machine where
  reg : Reg → W
  mem : W → W
  rip : Rip

/-- register / memory update -/
def setR (f : Reg → W) (r : Reg) (v : W) : Reg → W := fun x => if x = r then v else f x
def setM (m : W → W) (a v : W) : W → W := fun x => if x = a then v else m x

@[simp] theorem setR_same (f : Reg → W) (r : Reg) (v : W) : setR f r v r = v := by simp [setR]
@[simp] theorem setM_same (m : W → W) (a v : W) : setM m a v a = v := by simp [setM]
theorem setM_other (m : W → W) (a v x : W) (h : x ≠ a) : setM m a v x = m x := by
  simp [setM, h]

/-- One instruction; `lbl n` is the code address of local label `n`.
    `jmpReg` is handled by `run` (it ends the block). -/
def exec (lbl : Nat → W) : Instr → Machine → Machine
  | .leaLabel n d, m => { m with reg := setR m.reg d (lbl n) }
  | .load off b d, m => { m with reg := setR m.reg d (m.mem (m.reg b + BitVec.ofNat 64 off)) }
  | .store s off b, m => { m with mem := setM m.mem (m.reg b + BitVec.ofNat 64 off) (m.reg s) }
  | .movReg s d, m => { m with reg := setR m.reg d (m.reg s) }
  | .push s, m =>
      let sp := m.reg .rsp - 8
      { m with reg := setR m.reg .rsp sp, mem := setM m.mem sp (m.reg s) }
  | .pop d, m =>
      let v := m.mem (m.reg .rsp)
      { m with reg := setR (setR m.reg .rsp (m.reg .rsp + 8)) d v }
  | .addImm imm d, m => { m with reg := setR m.reg d (m.reg d + BitVec.ofNat 64 imm) }
  | .jmpReg t, m => { m with rip := .atAddr (m.reg t) }
  | .label _, m => m

/-- Straight-line execution; an indirect jump ends the block with `rip = atAddr target`. -/
def run (lbl : Nat → W) : List Instr → Machine → Machine
  | [], m => m
  | .jmpReg t :: _, m => { m with rip := .atAddr (m.reg t) }
  | i :: is, m => run lbl is (exec lbl i m)

/-! ### Entry into the asm statement: operand bindings -/

inductive Who | fromCtx | toCtx
  deriving DecidableEq, Repr

/-- what C expression an input operand is bound to -/
inductive SpExpr
  /-- `&X->ctx_stack_pointer` -/
  | slotAddr (c : Who)
  /-- `X->ctx_stack_pointer` (value, read before the asm) -/
  | slotValue (c : Who)
  deriving DecidableEq, Repr

/-- one input operand of the asm: symbolic name, register chosen by the constraint letter,
    bound expression -/
structure AsmIn where
  name : String
  reg : Reg
  expr : SpExpr
  deriving DecidableEq, Repr

def slotOf (fromSlot toSlot : W) : Who → W
  | .fromCtx => fromSlot
  | .toCtx => toSlot

def evalSp (fromSlot toSlot : W) (mem : W → W) : SpExpr → W
  | .slotAddr c => slotOf fromSlot toSlot c
  | .slotValue c => mem (slotOf fromSlot toSlot c)

/-- load the input operands (evaluated on the memory *before* the asm runs) -/
def enter (ins : List AsmIn) (fromSlot toSlot : W) (m : Machine) : Machine :=
  { m with
    reg := ins.foldl (fun rf i => setR rf i.reg (evalSp fromSlot toSlot m.mem i.expr)) m.reg,
    rip := .inAsm }

/-- `fiber_context_swap(from, to)` where `fromSlot`/`toSlot` are the addresses of the two
    contexts' `ctx_stack_pointer` fields. -/
def swapWith (prog : List Instr) (ins : List AsmIn) (lbl : Nat → W)
    (fromSlot toSlot : W) (m : Machine) : Machine :=
  run lbl prog (enter ins fromSlot toSlot m)

/-! ### The fresh frame written by `fiber_context_init` -/

inductive InitVal | param | null | runFunction | zero
  deriving DecidableEq, Repr

/-- the pointer statements of `fiber_context_init` after the stack allocation -/
inductive InitOp
  /-- `sp = (char*)ctx_stack + ctx_stack_size` -/
  | top
  /-- `sp = (void**)sp - n` -/
  | subSlots (n : Nat)
  /-- `sp = sp & ~mask` -/
  | andNot (mask : Nat)
  /-- `--sp` -/
  | dec
  /-- `*--sp = v` -/
  | storeDec (v : InitVal)
  deriving DecidableEq, Repr

structure InitSt where
  sp : W
  mem : W → W
  /-- addresses stored to, most recent first (ghost, for the bounds obligation) -/
  writes : List W

def initVal (fn param : W) : InitVal → W
  | .param => param
  | .null => 0
  | .runFunction => fn
  | .zero => 0

def initStep (stack size fn param : W) (s : InitSt) : InitOp → InitSt
  | .top => { s with sp := stack + size }
  | .subSlots n => { s with sp := s.sp - BitVec.ofNat 64 (8 * n) }
  | .andNot mask => { s with sp := s.sp &&& ~~~(BitVec.ofNat 64 mask) }
  | .dec => { s with sp := s.sp - 8 }
  | .storeDec v =>
      let sp := s.sp - 8
      { sp := sp, mem := setM s.mem sp (initVal fn param v), writes := sp :: s.writes }

/-- run the store sequence; the result's `sp` is the value left in `ctx_stack_pointer` -/
def initRun (ops : List InitOp) (stack size fn param : W) (mem : W → W) : InitSt :=
  ops.foldl (initStep stack size fn param) { sp := 0, mem := mem, writes := [] }

/-! ### Stack-size guarantees of the allocation strategies (decision values) -/

/-- what `fiber_context_alloc_stack` guarantees about `ctx_stack_size` for one strategy -/
inductive StackMin
  /-- size = requested size, no lower bound beyond the `!stack_size` argument check -/
  | requested
  /-- `if (stack_size < n) stack_size = n;` before allocating -/
  | clamp (n : Nat)
  /-- `fiber_round_to_page_size`: at least `minPages` pages of `pagesize - slack` bytes;
      `guard`: the lowest page is made inaccessible with `mprotect` -/
  | pages (minPages slack : Nat) (guard : Bool)
  /-- the size is chosen and reported by libgcc's `__splitstack_makecontext` -/
  | external
  deriving DecidableEq, Repr

/-- smallest page size of the platform (x86-64 Linux).  The bound below is increasing in
    the page size for `minPages ≥ 1`. -/
def minPageSize : Nat := 4096
/-- ASSUMED lower bound for a libgcc split-stack segment (`allocate_segment` rounds up to a
    page and subtracts its header); re-checked dynamically by the harness for every context. -/
def libgccMinSegment : Nat := 4096 - 256

/-- usable stack bytes the strategy guarantees for ANY accepted request (request ≥ 1) -/
def StackMin.guaranteed : StackMin → Nat
  | .requested => 1
  | .clamp n => max n 1
  | .pages k slack guard => k * (minPageSize - slack) - (if guard then minPageSize else 0)
  | .external => libgccMinSegment

/-- allocation / release primitive used by a strategy -/
inductive AllocKind | malloc | mmap | splitstackMake
  deriving DecidableEq, Repr
inductive FreeKind | free | munmap | splitstackRelease
  deriving DecidableEq, Repr

def AllocKind.matching : AllocKind → FreeKind
  | .malloc => .free
  | .mmap => .munmap
  | .splitstackMake => .splitstackRelease

/-- what the translator found for one stack strategy -/
structure Strategy where
  name : String
  /-- allocation calls in the strategy's branch of `fiber_context_alloc_stack`, in order -/
  allocs : List AllocKind
  /-- release calls in the strategy's branch of `fiber_free_stack`, in order -/
  frees : List FreeKind
  min : StackMin
  deriving DecidableEq, Repr

/-- what the translator found for `fiber_context_destroy` of one switching back-end -/
structure DestroyShape where
  backend : String
  /-- number of `fiber_free_stack(context)` calls -/
  freeStackCalls : Nat
  /-- the call is guarded by `!context->is_thread` (thread contexts own no stack) -/
  guardedByNotThread : Bool
  /-- `fiber_context_init` of this back-end sets `is_thread = 0` -/
  initClearsIsThread : Bool
  /-- `fiber_context_init` calls `fiber_context_alloc_stack` exactly once -/
  initAllocCalls : Nat
  deriving DecidableEq, Repr

/-! ### Abstract life-cycle of one context's stack (release-exactly-once) -/

structure Life where
  allocated : Nat := 0
  released : Nat := 0
  isThread : Bool := false
  deriving DecidableEq, Repr

/-- `fiber_context_init` as found by the translator -/
def Life.init (d : DestroyShape) (_ : Life) : Life :=
  { allocated := d.initAllocCalls, released := 0, isThread := !d.initClearsIsThread }
/-- `fiber_context_init_from_thread` -/
def Life.initFromThread (_ : Life) : Life := { allocated := 0, released := 0, isThread := true }
/-- `fiber_context_destroy` as found by the translator -/
def Life.destroy (d : DestroyShape) (l : Life) : Life :=
  if d.guardedByNotThread && l.isThread then l
  else { l with released := l.released + d.freeStackCalls }

end LibfiberVerif.Ctx
