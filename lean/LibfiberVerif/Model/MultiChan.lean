/-
  Model/MultiChan.lean — fiber_multi_channel_t of include/fiber_multi_channel.h (C11):
  a ring `buffer[size]` with plain counters `high`/`low` and ONE intrusive list `waiters`
  (linked through fiber_t.scratch) of blocked senders AND blocked receivers, all under a
  fiber mutex; many senders, many receivers.

  C code (one step per shared access, in the order of the instrumented build's log):
    send(m):     loop { lock; h = high; l = low; if (h - l < size) break; internal_wait; }
                 buffer[h & mask] = m; high = h + 1; internal_wake; unlock
    receive:     loop { lock; h = high; l = low; if (h > l) break; internal_wait; }
                 m = buffer[l & mask]; buffer[l & mask] = 0; low = l + 1; internal_wake; unlock
    internal_wait:  this->scratch = waiters; waiters = this; this->state = WAITING;
                    manager->mutex_to_unlock = &lock; yield      // the SUCCESSOR unlocks
    internal_wake:  if (w = waiters) { waiters = w->scratch; w->scratch = NULL;
                                       w->state = READY; schedule(w); }       // head only!

  THE MUTEX is kept ABSTRACT here: `lock : Option Nat` (owner) plus its `counter` word
  (1 − holders − waiters), with three events taken from the log:
    `fsub m.counter` (old = 1: acquired; else the caller queues up inside the mutex),
    `fadd m.counter` (release; old + 1 ≠ 1: a hand-off is owed by the releasing fiber),
    `w F<g>.node` in fiber_manager_wake_from_mpsc_queue (the hand-off: g now owns the lock).
  The mutex's waiter queue cells (m.head, m.tail, node next/data, and the state/node words
  touched inside fiber_manager_wait_in_mpsc_queue / _wake_from_mpsc_queue) are skipped BY
  NAME in `ofRaw`; that a fiber mutex behaves like this lock is C03 (`Mutex.refines_lock`),
  listed as composition assumption.  A release performed by a fiber that is not itself in
  the unlock step of an operation is the DEFERRED unlock (`mutex_to_unlock`) executed by the
  successor in fiber_manager_do_maintenance on behalf of the current owner, which must be in
  `wPending`.

  LIST DISCIPLINE (`St.two`, fixed at `init`, reported by the harness from the struct layout):
    two = false  ONE mixed list `waiters` for blocked senders and receivers; every successful
                 operation wakes its head — the code before /repo commit b18179b.  The model
                 ACCEPTS what that code does, so its lost wake-up (F-C11) is a reachable state:
                 Props/C11.lean `MultiChan.no_lost_wake_false`.
    two = true   `waiters` holds blocked RECEIVERS, `send_waiters` blocked SENDERS; a send wakes
                 the head of `waiters`, a receive the head of `send_waiters` — /repo HEAD.
                 Props/C11.lean `MultiChan.no_lost_wake` (full statement).
  Ghosts for the two-list proof: `wk` (which list the internal_wake in progress works on),
  `pw` (a wake-up is owed by the operation that just changed `high`/`low`), `awR`/`awS` (the
  receivers / senders that are awake and have not yet taken / put their message).
-/
import LibfiberVerif.Core.Sys
import LibfiberVerif.Core.Event
import LibfiberVerif.Driver
import LibfiberVerif.Model.Signal
import LibfiberVerif.Model.Chan

namespace LibfiberVerif.MultiChan

/-- operation in progress: `send v` or `recv` -/
inductive Op
  | send (v : Nat)
  | recv
  deriving Repr, DecidableEq, Inhabited

inductive Pc
  | idle
  | lock (o : Op)                       -- top of the loop: `fsub m.counter` next
  | lockWait (o : Op)                   -- queued inside the mutex, waiting for the hand-off
  | gotHigh (o : Op) (h : Nat)          -- (lock held from here on)
  | gotLow (o : Op) (h l : Nat)
  -- blocked path (internal_wait)
  | wGot (o : Op) (w : Nat)             -- read waiters = w
  | wLinked (o : Op)                    -- scratch := w
  | wListed (o : Op)                    -- waiters := self
  | wPending (o : Op)                   -- state := WAITING; the successor owes the unlock
  | wAsleep (o : Op)                    -- lock released on our behalf; asleep until woken
  -- send
  | sWrote (v h : Nat)                  -- buffer[h % size] := v
  -- receive
  | rRead (l m : Nat)                   -- read buffer[l % size] = m
  | rCleared (l m : Nat)                -- buffer[l % size] := 0
  -- internal_wake (res = value received, 0 for a send)
  | kTop (res : Nat)
  | kGot (res w : Nat)                  -- waiters = w ≠ 0
  | kNext (res w x : Nat)               -- read w.scratch = x
  | kUnl (res w : Nat)                  -- waiters := x
  | kClr (res w : Nat)                  -- w.scratch := NULL
  | unlock (res : Nat)                  -- `fadd m.counter` next
  | handing (res : Nat)                 -- released, a hand-off is owed
  | done (res : Nat)
  deriving Repr, DecidableEq, Inhabited

inductive Ev
  | callSend (f v : Nat) | retSend (f : Nat)
  | callRecv (f : Nat) | retRecv (f v : Nat)
  | fsub (f : Nat) (old : Int)
  | fadd (f : Nat) (old : Int)
  | handoff (f g : Nat)
  | rHigh (f h : Nat) | rLow (f l : Nat)
  | wHigh (f h : Nat) | wLow (f l : Nat)
  | rBuf (f i x : Nat) | wBuf (f i x : Nat)
  | rWaiters (f w : Nat) | wWaiters (f w : Nat)
  | rSWaiters (f w : Nat) | wSWaiters (f w : Nat)       -- the `send_waiters` list head (two-list code)
  | rScratch (f g x : Nat) | wScratch (f g x : Nat)
  | wStateWaiting (f : Nat)
  | wStateReady (f g : Nat)
  deriving Repr, DecidableEq, Inhabited

structure St where
  cap : Nat
  /-- list discipline: false = one mixed waiter list, true = receivers' and senders' lists -/
  two : Bool
  /-- abstract mutex -/
  lock : Option Nat
  counter : Int
  /-- the fiber that released the lock with waiters queued and owes the hand-off -/
  handoffBy : Option Nat
  high : Nat
  low : Nat
  buf : Nat → Nat
  waiters : Nat
  /-- head of `send_waiters` (two-list code only) -/
  swaiters : Nat
  scr : Nat → Nat
  pc : Nat → Pc
  /-- `woken f`: an internal_wake made f READY since it last fell asleep -/
  woken : Nat → Bool
  /-- ghost: fibers that ever called an operation (so quiescence is a finite check) -/
  fibers : List Nat
  /-- ghost: the waiter list `waiters`, head first -/
  wl : List Nat
  /-- ghost: the list `send_waiters`, head first -/
  swl : List Nat
  /-- ghost: the internal_wake in progress works on `send_waiters` (it follows a receive) -/
  wk : Bool
  /-- ghost: the operation that just advanced `high`/`low` still owes its internal_wake -/
  pw : Bool
  /-- ghost: receivers / senders that are awake and have not yet taken / put their message -/
  awR : List Nat
  awS : List Nat
  /-- ghost: the fiber an internal_wake has unlinked and not yet made READY -/
  waking : Option Nat
  /-- ghost: a sender / a receiver has blocked at least once -/
  everS : Bool
  everR : Bool
  /-- ghost: (sender, value) in the order `high` was advanced; values in the order taken -/
  sent : List (Nat × Nat)
  recvd : List Nat
  calls : Nat → List Nat

def init (two : Bool) (cap : Nat) : St :=
  { cap := cap, two := two, lock := none, counter := 1, handoffBy := none, high := 0, low := 0,
    buf := fun _ => 0, waiters := 0, swaiters := 0, scr := fun _ => 0, pc := fun _ => .idle,
    woken := fun _ => false, fibers := [], wl := [], swl := [], wk := false, pw := false,
    awR := [], awS := [], waking := none, everS := false, everR := false,
    sent := [], recvd := [], calls := fun _ => [] }

def addFiber (l : List Nat) (f : Nat) : List Nat := if l.contains f then l else l ++ [f]

/-- is `p` the unlock step of an operation of its own? -/
def Pc.isUnlock : Pc → Bool
  | .unlock _ => true
  | _ => false

def step (s : St) : Ev → Option St
  | .callSend f v =>
    if s.pc f = .idle ∧ v ≠ 0 ∧ f ≠ 0 then
      some { s with fibers := addFiber s.fibers f, calls := upd s.calls f (s.calls f ++ [v]),
                    awS := f :: s.awS, pc := upd s.pc f (.lock (.send v)) }
    else none
  | .callRecv f =>
    if s.pc f = .idle ∧ f ≠ 0 then
      some { s with fibers := addFiber s.fibers f, awR := f :: s.awR, pc := upd s.pc f (.lock .recv) }
    else none
  | .retSend f =>
    match s.pc f with
    | .done 0 => some { s with pc := upd s.pc f .idle }
    | _ => none
  | .retRecv f v =>
    match s.pc f with
    | .done m => if v = m ∧ m ≠ 0 then some { s with pc := upd s.pc f .idle } else none
    | _ => none
  -- ------------------------------------------------------------------ the abstract mutex
  | .fsub f old =>
    if old ≠ s.counter then none else
    match s.pc f with
    | .lock o =>
      if old = 1 then
        if s.lock = none ∧ s.handoffBy = none then
          some { s with counter := old - 1, lock := some f, pc := upd s.pc f (.lockWait o) }
        else none
      else some { s with counter := old - 1, pc := upd s.pc f (.lockWait o) }
    | .wAsleep o =>
      -- woken: back to the top of the loop, lock again
      if s.woken f then
        if old = 1 then
          if s.lock = none ∧ s.handoffBy = none then
            some { s with counter := old - 1, lock := some f, woken := upd s.woken f false, pc := upd s.pc f (.lockWait o) }
          else none
        else some { s with counter := old - 1, woken := upd s.woken f false, pc := upd s.pc f (.lockWait o) }
      else none
    | _ => none
  | .fadd f old =>
    if old ≠ s.counter then none else
    match s.pc f with
    | .unlock res =>
      if s.lock = some f then
        if old + 1 = 1 then some { s with counter := old + 1, lock := none, pc := upd s.pc f (.done res) }
        else some { s with counter := old + 1, lock := none, handoffBy := some f, pc := upd s.pc f (.handing res) }
      else none
    | _ =>
      -- deferred unlock by the successor, on behalf of the blocked owner
      match s.lock with
      | some p =>
        match s.pc p with
        | .wPending o =>
          if p ≠ f then
            some { s with counter := old + 1, lock := none,
                          handoffBy := if old + 1 = 1 then none else some f,
                          pc := upd s.pc p (.wAsleep o) }
          else none
        | _ => none
      | none => none
  | .handoff f g =>
    if s.handoffBy = some f ∧ s.lock = none then
      match s.pc g with
      | .lockWait _ =>
        let s1 := { s with lock := some g, handoffBy := none }
        match s.pc f with
        | .handing res => if f ≠ g then some { s1 with pc := upd s.pc f (.done res) } else none
        | _ => some s1
      | _ => none
    else none
  -- ------------------------------------------------------------------ under the lock
  | .rHigh f h =>
    match s.pc f with
    | .lockWait o =>
      if s.lock = some f ∧ h = s.high then some { s with pc := upd s.pc f (.gotHigh o h) } else none
    | _ => none
  | .rLow f l =>
    match s.pc f with
    | .gotHigh o h => if l = s.low then some { s with pc := upd s.pc f (.gotLow o h l) } else none
    | _ => none
  | .rWaiters f w =>
    if w ≠ s.waiters then none else
    match s.pc f with
    | .gotLow (.send v) h l =>
      -- a blocked sender reads `waiters` only in the one-list code
      if ¬ (h - l < s.cap) ∧ s.two = false then
        some { s with everS := true, awS := s.awS.erase f, pc := upd s.pc f (.wGot (.send v) w) }
      else none
    | .gotLow .recv h l =>
      if ¬ (h > l) then some { s with everR := true, awR := s.awR.erase f, pc := upd s.pc f (.wGot .recv w) } else none
    | .kTop res =>
      -- two-list code: only the internal_wake after a SEND looks at `waiters`
      if s.two = true ∧ s.wk = true then none else
      if w = 0 then some { s with pw := false, pc := upd s.pc f (.unlock res) }
      else some { s with pc := upd s.pc f (.kGot res w) }
    | _ => none
  | .rSWaiters f w =>
    if w ≠ s.swaiters ∨ s.two = false then none else
    match s.pc f with
    | .gotLow (.send v) h l =>
      if ¬ (h - l < s.cap) then
        some { s with everS := true, awS := s.awS.erase f, pc := upd s.pc f (.wGot (.send v) w) }
      else none
    | .kTop res =>
      -- only the internal_wake after a RECEIVE looks at `send_waiters`
      if s.wk = false then none else
      if w = 0 then some { s with pw := false, pc := upd s.pc f (.unlock res) }
      else some { s with pc := upd s.pc f (.kGot res w) }
    | _ => none
  | .wScratch f g x =>
    match s.pc f with
    | .wGot o w => if g = f ∧ x = w then some { s with scr := upd s.scr f w, pc := upd s.pc f (.wLinked o) } else none
    | .kUnl res w => if g = w ∧ x = 0 then some { s with scr := upd s.scr w 0, pc := upd s.pc f (.kClr res w) } else none
    | _ => none
  | .wWaiters f w =>
    match s.pc f with
    | .wLinked o =>
      if w = f ∧ (s.two = true → o = .recv) then
        some { s with waiters := f, wl := f :: s.wl, pc := upd s.pc f (.wListed o) }
      else none
    | .kNext res g x =>
      if w = x ∧ ¬ (s.two = true ∧ s.wk = true) then
        some { s with waiters := x, wl := s.wl.drop 1, waking := some g, pc := upd s.pc f (.kUnl res g) }
      else none
    | _ => none
  | .wSWaiters f w =>
    if s.two = false then none else
    match s.pc f with
    | .wLinked (.send v) =>
      if w = f then some { s with swaiters := f, swl := f :: s.swl, pc := upd s.pc f (.wListed (.send v)) } else none
    | .kNext res g x =>
      if w = x ∧ s.wk = true then
        some { s with swaiters := x, swl := s.swl.drop 1, waking := some g, pc := upd s.pc f (.kUnl res g) }
      else none
    | _ => none
  | .wStateWaiting f =>
    match s.pc f with
    | .wListed o => some { s with pc := upd s.pc f (.wPending o) }
    | _ => none
  | .wBuf f i x =>
    match s.pc f with
    | .gotLow (.send v) h l =>
      if h - l < s.cap ∧ i = h % s.cap ∧ x = v then some { s with buf := upd s.buf i v, pc := upd s.pc f (.sWrote v h) } else none
    | .rRead l m =>
      if i = l % s.cap ∧ x = 0 then some { s with buf := upd s.buf i 0, pc := upd s.pc f (.rCleared l m) } else none
    | _ => none
  | .wHigh f h =>
    match s.pc f with
    | .sWrote v h' =>
      if h = h' + 1 then
        some { s with high := h, sent := s.sent ++ [(f, v)], awS := s.awS.erase f, pw := true, wk := false,
                      pc := upd s.pc f (.kTop 0) }
      else none
    | _ => none
  | .rBuf f i x =>
    match s.pc f with
    | .gotLow .recv h l =>
      if h > l ∧ i = l % s.cap ∧ x = s.buf i then some { s with pc := upd s.pc f (.rRead l x) } else none
    | _ => none
  | .wLow f l =>
    match s.pc f with
    | .rCleared l' m =>
      if l = l' + 1 then
        some { s with low := l, recvd := s.recvd ++ [m], awR := s.awR.erase f, pw := true, wk := true,
                      pc := upd s.pc f (.kTop m) }
      else none
    | _ => none
  | .rScratch f g x =>
    match s.pc f with
    | .kGot res w => if g = w ∧ x = s.scr w then some { s with pc := upd s.pc f (.kNext res w x) } else none
    | _ => none
  | .wStateReady f g =>
    match s.pc f with
    | .kClr res w =>
      if g = w then
        -- the woken fiber is awake again (and has still to take / put its message)
        match s.pc w with
        | .wAsleep .recv =>
          some { s with woken := upd s.woken w true, waking := none, pw := false, awR := w :: s.awR,
                        pc := upd s.pc f (.unlock res) }
        | .wAsleep (.send _) =>
          some { s with woken := upd s.woken w true, waking := none, pw := false, awS := w :: s.awS,
                        pc := upd s.pc f (.unlock res) }
        | _ => none
      else none
    | _ => none

def sys (two : Bool) (cap : Nat) : Sys St Ev := { init := init two cap, step := step }

/-! ### quiescence, sleepers (the vocabulary of `no_lost_wake`) -/

def Pc.asleepOp : Pc → Option Op
  | .wAsleep o => some o
  | _ => none

/-- f is blocked inside an operation and nobody has woken it -/
def sleeping (s : St) (f : Nat) : Bool := (s.pc f).asleepOp.isSome && !s.woken f

/-- nobody is active: every fiber is outside any operation or asleep un-woken, and the lock
    is free with no hand-off owed -/
def quiescent (s : St) : Bool :=
  s.fibers.all (fun f => s.pc f = .idle || sleeping s f) && s.lock.isNone && s.handoffBy.isNone

def full (s : St) : Bool := decide (s.high - s.low ≥ s.cap)
def empty (s : St) : Bool := decide (s.high ≤ s.low)

/-- a sleeper that could proceed if only somebody woke it -/
def stranded (s : St) (f : Nat) : Bool :=
  sleeping s f &&
    (match (s.pc f).asleepOp with
     | some (.send _) => !full s
     | some .recv => !empty s
     | none => false)

/-! ### log decoding -/

open Signal (fiberId cellFiber schedulerFuncs skipKinds)
open Chan (bufIdx)

def mutexQueueFuncs : List String :=
  ["fiber_manager_wait_in_mpsc_queue", "mpsc_fifo_push", "mpsc_fifo_trypop"]

def parseInt32 (s : String) : Option Int :=
  s.toNat?.map (fun n => if n ≥ 2147483648 then (n : Int) - 4294967296 else (n : Int))

def fibOrNull (s : String) : Option Nat := if s = "0" then some 0 else fiberId s

def ofRaw (r : RawEv) : Option (Option Ev) :=
  let f := r.fiber
  -- the mutex: its counter word and the hand-off are modelled, its queue is skipped by name
  if r.kind = "fsub" then
    match r.args with
    | ["m.counter", old, "1", _] => (parseInt32 old).map (fun o => some (.fsub f o))
    | _ => none
  else if r.kind = "fadd" then
    match r.args with
    | ["m.counter", old, "1", _] => (parseInt32 old).map (fun o => some (.fadd f o))
    | _ => none
  else if r.func = "fiber_manager_wake_from_mpsc_queue" then
    match r.kind, r.args with
    | "w", [c, _] =>
      match cellFiber c "node" with
      | some g => some (some (.handoff f g))
      | none => some none
    | _, _ => some none
  else if mutexQueueFuncs.contains r.func then some none
  else if schedulerFuncs.contains r.func || skipKinds.contains r.kind then some none else
  match r.kind, r.args with
  | "note", ["call", "push", v] => v.toNat?.map (fun v => some (.callSend f v))
  | "note", ["ret", "push", _] => some (some (.retSend f))
  | "note", ["call", "pop"] => some (some (.callRecv f))
  | "note", ["ret", "pop", v] => v.toNat?.map (fun v => some (.retRecv f v))
  | "note", _ => some none
  | "r", ["high", v] => v.toNat?.map (fun v => some (.rHigh f v))
  | "r", ["low", v] => v.toNat?.map (fun v => some (.rLow f v))
  | "w", ["high", v] => v.toNat?.map (fun v => some (.wHigh f v))
  | "w", ["low", v] => v.toNat?.map (fun v => some (.wLow f v))
  | "r", ["waiters", v] => (fibOrNull v).map (fun w => some (.rWaiters f w))
  | "w", ["waiters", v] => (fibOrNull v).map (fun w => some (.wWaiters f w))
  | "r", ["send_waiters", v] => (fibOrNull v).map (fun w => some (.rSWaiters f w))
  | "w", ["send_waiters", v] => (fibOrNull v).map (fun w => some (.wSWaiters f w))
  | k, [c, v] =>
    match bufIdx c, cellFiber c "scratch", cellFiber c "state" with
    | some i, _, _ => v.toNat?.bind fun x =>
        if k = "r" then some (some (.rBuf f i x)) else if k = "w" then some (some (.wBuf f i x)) else none
    | _, some g, _ => (fibOrNull v).bind fun x =>
        if k = "r" then some (some (.rScratch f g x)) else if k = "w" then some (some (.wScratch f g x)) else none
    | _, _, some g =>
        if k = "w" ∧ v = "3" ∧ g = f ∧ r.func = "fiber_multi_channel_internal_wait" then some (some (.wStateWaiting f))
        else if k = "w" ∧ v = "2" ∧ r.func = "fiber_multi_channel_internal_wake" then some (some (.wStateReady f g))
        else none
    | _, _, _ => none
  | _, _ => none

/-- `init multichan <size> <number of waiter lists>` -/
def capOf : List String → Nat
  | "multichan" :: c :: _ => c.toNat?.getD 0
  | _ => 0

def twoOf : List String → Bool
  | ["multichan", _, n] => n = "2"
  | _ => false

/-- model state after the whole log (`none` if the model rejects some event) -/
def finalState (two : Bool) (cap : Nat) (lines : List String) : Option St :=
  lines.foldl (fun acc l =>
    match acc with
    | none => none
    | some s =>
      match (parseLine l).bind ofRaw with
      | some (some e) => step s e
      | _ => some s) (some (init two cap))

def opName : Option Op → String
  | some (.send v) => s!"sender(of {v})"
  | some .recv => "receiver"
  | none => "?"

/-- the hang oracle, evaluated on the model state the log ends in: a run that did not
    complete and ended with nobody active and a fiber asleep that could proceed is a LOST
    WAKE-UP; `lostwake-mixed` = one-list code and blocked senders and blocked receivers shared
    the list in this run (the F-C11 pattern), `lostwake-pure` = anything else -/
def hangOracle (s : St) : Option String :=
  if quiescent s then
    match s.fibers.find? (stranded s) with
    | some f =>
      let kind := if s.two == false && s.everS && s.everR then "lostwake-mixed" else "lostwake-pure"
      some s!"{kind}: nobody active, {opName (s.pc f).asleepOp} fiber {f} asleep with {s.high - s.low} of {s.cap} slots used; waiter lists {s.wl} {s.swl}"
    | none => if s.fibers.any (sleeping s) then some "asleep-unservable: sleepers left that no peer can serve (script not matched?)" else none
  else some "stuck-active: the run stopped while some fiber was still active"

def drive (lines : List String) : IO UInt32 := do
  let cap := capOf (initArgs lines)
  let two := twoOf (initArgs lines)
  let body := lines.filter (fun l => !isInit l)
  let v := validateP (sys two cap) ofRaw body
  let complete := Chan.allReturned body
  -- FIFO: the ring is served in `high` order under one lock, so the order is total
  let cfg : QueueHist.Cfg :=
    { disc := .fifo, capacity := cap, drained := complete, checkEmpty := false }
  let mon := match Chan.fiberQueueMonitor cfg body with
    | some m => some m
    | none => if complete then none else (finalState two cap body).bind hangOracle
  report "MultiChan" v mon

end LibfiberVerif.MultiChan
