/-
  Driver.lean — generic trace validation: fold a model's `step` over an implementation log.
  Compiled into the `verifdrv` executable (core Lean only).
-/
import LibfiberVerif.Core.Sys
import LibfiberVerif.Core.Event
import LibfiberVerif.Core.QueueHist

namespace LibfiberVerif

structure Outcome where
  events : Nat := 0
  diverge : Option (Nat × String × String) := none
  monitor : Option String := none

/-- Validate `lines` (already stripped of `#` comment lines and the `init` note) against `M`. -/
def validate {σ ε : Type} (M : Sys σ ε) (ofRaw : RawEv → Option ε) (lines : List String) :
    Nat × Option (Nat × String × String) :=
  let rec go (s : σ) (n : Nat) : List String → Nat × Option (Nat × String × String)
    | [] => (n, none)
    | l :: ls =>
      match parseLine l with
      | none => (n, some (n + 1, l, "unparsable line"))
      | some r =>
        match ofRaw r with
        | none => (n, some (n + 1, l, "event not in the model's vocabulary"))
        | some e =>
          match M.step s e with
          | none => (n, some (n + 1, l, "model cannot take this step here"))
          | some s' => go s' (n + 1) ls
  go M.init 0 lines

/-- Validation with projection: `ofRaw r = some none` means "not this model's business, skip";
    `none` means the line should have been understood and was not (divergence). -/
def validateP {σ ε : Type} (M : Sys σ ε) (ofRaw : RawEv → Option (Option ε)) (lines : List String) :
    Nat × Option (Nat × String × String) :=
  let rec go (s : σ) (n : Nat) (ln : Nat) : List String → Nat × Option (Nat × String × String)
    | [] => (n, none)
    | l :: ls =>
      match parseLine l with
      | none => (n, some (ln + 1, l, "unparsable line"))
      | some r =>
        match ofRaw r with
        | none =>
          -- run-queue API events (rt/shim.h, VR_WSD_WRAP) are the runtime model's vocabulary;
          -- a primitive's model that does not know them skips them
          if r.kind = "rqpush" || r.kind = "rqpop" || r.kind = "rqsteal" then go s n (ln + 1) ls
          else (n, some (ln + 1, l, "event not in the model's vocabulary"))
        | some none => go s n (ln + 1) ls
        | some (some e) =>
          match M.step s e with
          | none => (n, some (ln + 1, l, "model cannot take this step here"))
          | some s' => go s' (n + 1) (ln + 1) ls
  go M.init 0 0 lines

def queueMonitor (cfg : QueueHist.Cfg) (lines : List String) : Option String :=
  let notes := lines.filterMap (fun l => (parseLine l).bind QueueHist.noteOfRaw)
  QueueHist.check cfg (QueueHist.opsOf notes)

def isComment (l : String) : Bool := l.startsWith "#" || l.trimAscii.toString.isEmpty

/-- the `note init …` line, if any, gives the model parameters -/
def initArgs (lines : List String) : List String :=
  match lines.findSome? (fun l => match parseLine l with
      | some r => if r.kind = "note" && r.args.head? = some "init" then some (r.args.drop 1) else none
      | none => none) with
  | some a => a
  | none => []

def isInit (l : String) : Bool :=
  match parseLine l with
  | some r => r.kind = "note" && r.args.head? = some "init"
  | none => false

def report (name : String) (v : Nat × Option (Nat × String × String)) (mon : Option String) : IO UInt32 := do
  match v.2 with
  | none => IO.println s!"VALIDATE OK model={name} events={v.1}"
  | some (ln, txt, why) => IO.println s!"VALIDATE DIVERGE model={name} event={ln} why=\"{why}\" line=\"{txt}\""
  match mon with
  | none => IO.println "MONITOR OK"
  | some m => IO.println s!"MONITOR FAIL {m}"
  return (if v.2.isSome || mon.isSome then 1 else 0)

end LibfiberVerif
