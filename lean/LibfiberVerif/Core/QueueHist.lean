/-
  Core/QueueHist.lean — API-level monitor for queue-like containers with distinct values.

  It looks only at the call/return notes the harness itself logs around each operation of
  the real implementation, and flags patterns that NO correct container of the given
  discipline can produce (definite violations — so it cannot raise a false alarm):

  * `invented`   a pop returned a value whose push had not been called yet
  * `duplicate`  a value was returned by two pops
  * `order`      (FIFO) push a returned before push b was called, yet pop→b returned before pop→a was called
                 (LIFO) push a returned, then push b was called and returned, then pop→a was called and
                 returned before the pop that took b was called (b was on top of a all the time)
  * `lost`       (at quiescence, after the harness drained the container) a successfully pushed value was never popped
  * `emptyLie`   a pop reported empty although some value was present during the whole call
                 (its push had returned before the pop was called and no pop that started
                 before this pop returned took it)
  * `overfull`   more successful pushes completed than capacity + pops ever started
  * `fullLie`    a bounded push that overlapped no other operation failed although there was room
-/
import LibfiberVerif.Core.Event

namespace LibfiberVerif.QueueHist

structure Op where
  thread : Nat
  isPush : Bool
  val : Nat
  ok : Bool
  call : Nat
  ret : Nat
  deriving Repr, Inhabited

inductive Note
  | callPush (t v : Nat)
  | retPush (t r : Nat)
  | callPop (t : Nat)
  | retPop (t v : Nat)
  deriving Repr

def noteOfRaw (r : RawEv) : Option Note :=
  if r.kind ≠ "note" then none else
  match r.args with
  | ["call", "push", v] => v.toNat?.map (Note.callPush r.tid)
  | ["ret", "push", v] => v.toNat?.map (Note.retPush r.tid)
  | ["call", "pop"] => some (Note.callPop r.tid)
  | ["ret", "pop", v] => v.toNat?.map (Note.retPop r.tid)
  | _ => none

structure Acc where
  pend : List (Nat × Bool × Nat × Nat) := []   -- thread, isPush, value, call position
  ops : List Op := []
  pos : Nat := 0

def accStep (a : Acc) (n : Note) : Acc :=
  let a := { a with pos := a.pos + 1 }
  match n with
  | .callPush t v => { a with pend := (t, true, v, a.pos) :: a.pend }
  | .callPop t => { a with pend := (t, false, 0, a.pos) :: a.pend }
  | .retPush t r =>
    match a.pend.find? (fun p => p.1 = t) with
    | some (_, _, v, c) =>
      { a with pend := a.pend.filter (fun p => p.1 ≠ t),
               ops := a.ops ++ [{ thread := t, isPush := true, val := v, ok := r ≠ 0, call := c, ret := a.pos }] }
    | none => a
  | .retPop t v =>
    match a.pend.find? (fun p => p.1 = t) with
    | some (_, _, _, c) =>
      { a with pend := a.pend.filter (fun p => p.1 ≠ t),
               ops := a.ops ++ [{ thread := t, isPush := false, val := v, ok := v ≠ 0, call := c, ret := a.pos }] }
    | none => a

def opsOf (ns : List Note) : List Op := (ns.foldl accStep {}).ops

inductive Discipline | fifo | lifo | bag
  deriving Repr, DecidableEq

structure Cfg where
  disc : Discipline := .fifo
  /-- 0 = unbounded -/
  capacity : Nat := 0
  /-- the harness drained the container at the end, so nothing may be left -/
  drained : Bool := true
  /-- empty may only be reported if the container was empty/in-flight at some instant -/
  checkEmpty : Bool := true
  /-- operations may also fail merely because another operation overlaps them (ring buffer,
      try-variants built on a single weak CAS): only judge failures of operations that
      overlapped no other operation at all -/
  failOnlyAlone : Bool := false
  /-- (with `disc := .fifo`) only per-producer FIFO is promised: an order violation needs the
      two pushes to come from the same thread (relaxed MPSC queue) -/
  perProducerFifo : Bool := false
  /-- (optimistic MPMC FIFO, C13) EMPTY is also legitimate while any push is in flight:
      judge only an EMPTY whose pop overlapped no push operation at all -/
  emptyOkInFlight : Bool := false

def check (cfg : Cfg) (ops : List Op) : Option String :=
  let pushes := ops.filter (fun o => o.isPush && o.ok)
  let pops := ops.filter (fun o => !o.isPush && o.ok)
  let empties := ops.filter (fun o => !o.isPush && !o.ok)
  let allPushCalls := ops.filter (fun o => o.isPush)
  let alone (e : Op) : Bool := ops.all (fun o => o.call = e.call || o.ret < e.call || e.ret < o.call)
  -- invented
  match pops.find? (fun p => !(allPushCalls.any (fun q => q.val = p.val && q.call < p.ret))) with
  | some p => some s!"invented: pop returned {p.val} which was not pushed before"
  | none =>
  -- duplicate
  match pops.find? (fun p => pops.any (fun q => q.val = p.val && q.call ≠ p.call)) with
  | some p => some s!"duplicate: value {p.val} popped twice"
  | none =>
  -- popped value of a push that reported failure
  match pops.find? (fun p => allPushCalls.any (fun q => q.val = p.val && !q.ok)) with
  | some p => some s!"phantom: value {p.val} popped although its push reported failure"
  | none =>
  -- order
  let popOf (v : Nat) : Option Op := pops.find? (fun p => p.val = v)
  let orderBad : Option String :=
    if cfg.disc = .fifo then
      (pushes.findSome? fun a => pushes.findSome? fun b =>
        if a.ret < b.call && (!cfg.perProducerFifo || a.thread = b.thread) then
          match popOf a.val, popOf b.val with
          | some pa, some pb =>
            if pb.ret < pa.call then some s!"order: {a.val} pushed before {b.val} but popped after it" else none
          | _, _ => none
        else none)
    else if cfg.disc = .lifo then
      -- push a completed, THEN push b was called and completed, THEN pop→a was called and
      -- completed before the pop that took b was even called (or b was never taken): b sat
      -- on top of a during the whole pop→a, so no stack can have returned a
      (pushes.findSome? fun a => pushes.findSome? fun b =>
        if a.ret < b.call then
          match popOf a.val with
          | some pa =>
            if b.ret < pa.call && (match popOf b.val with
                | some pb => pa.ret < pb.call
                | none => true) then
              some s!"order: {b.val} was pushed on top of {a.val} but {a.val} was popped from under it"
            else none
          | none => none
        else none)
    else none
  match orderBad with
  | some m => some m
  | none =>
  -- lost
  let lost := if cfg.drained then pushes.find? (fun a => (popOf a.val).isNone) else none
  match lost with
  | some a => some s!"lost: value {a.val} was pushed successfully but never popped"
  | none =>
  -- emptyLie
  let lie := if cfg.checkEmpty then
      empties.find? (fun e => (!cfg.failOnlyAlone || alone e) &&
        (!cfg.emptyOkInFlight || allPushCalls.all (fun q => q.ret < e.call || e.ret < q.call)) && pushes.any (fun a => a.ret < e.call &&
        match popOf a.val with
        | some p => e.ret < p.call
        | none => true))
    else none
  match lie with
  | some e => some s!"emptyLie: thread {e.thread} pop at {e.call} reported empty while a value was present throughout"
  | none =>
  -- overfull
  if cfg.capacity > 0 then
    let bad := pushes.find? (fun a =>
      let donePushes := (pushes.filter (fun q => q.ret ≤ a.ret)).length
      let startedPops := (pops.filter (fun q => q.call < a.ret)).length
      donePushes > cfg.capacity + startedPops)
    match bad with
    | some a => some s!"overfull: after push of {a.val} more than {cfg.capacity} items are present"
    | none =>
      -- fullLie: a push that overlapped nothing failed although there was room
      let failedPushes := ops.filter (fun o => o.isPush && !o.ok)
      match failedPushes.find? (fun f => alone f &&
          (pushes.filter (fun q => q.ret < f.call)).length
            < cfg.capacity + (pops.filter (fun q => q.ret < f.call)).length) with
      | some f => some s!"fullLie: push of {f.val} failed alone although the buffer had room"
      | none => none
  else none

end LibfiberVerif.QueueHist
