/-
  Core/Event.lean — the one-line-per-event protocol shared by the instrumentation
  runtime (rt/vrt.c) and the models.

  line ::= <kernel thread> <fiber> <function> <kind> <arg>*
  A value is a decimal integer or `@name[+off]` (a canonicalised pointer).
-/
namespace LibfiberVerif

structure RawEv where
  tid : Nat
  fiber : Nat
  func : String
  kind : String
  args : List String
  deriving Repr, BEq, Inhabited

def parseLine (line : String) : Option RawEv :=
  match (line.trimAscii.toString.splitOn " ").filter (· ≠ "") with
  | t :: f :: fn :: k :: args =>
    match t.toNat?, f.toNat? with
    | some t, some f => some { tid := t, fiber := f, func := fn, kind := k, args := args }
    | _, _ => none
  | _ => none

/-- Pointer names: `@n3` ↦ object "n3" at offset 0; `@n3+8` ↦ offset 8. -/
inductive Val
  | int (i : Int)
  | ptr (name : String) (off : Nat)
  deriving Repr, BEq, DecidableEq, Inhabited

def parseVal (s : String) : Option Val :=
  if s.startsWith "@" then
    let body := (s.drop 1).toString
    match body.splitOn "+" with
    | [n] => some (.ptr n 0)
    | [n, o] => o.toNat?.map (fun o => .ptr n o)
    | _ => none
  else s.toInt?.map .int

def parseNat (s : String) : Option Nat := s.toNat?

/-- Result of validating an implementation log against a model. -/
inductive Verdict
  | ok (events : Nat)
  | diverge (line : Nat) (text : String) (why : String)
  deriving Repr

end LibfiberVerif
