/-
  Core/Sys.lean — labelled transition systems with a partial, executable step function.

  Every model in this library is a `Sys σ ε`: an initial state and
  `step : σ → ε → Option σ`.  `none` means "the model cannot do this event here".
  Trace validation folds `step` over the event log of the instrumented implementation;
  the theorems quantify over every event list the model accepts (`run … = some _`),
  for an unbounded number of threads, operations and steps.
-/
namespace LibfiberVerif

structure Sys (σ ε : Type) where
  init : σ
  step : σ → ε → Option σ

namespace Sys
variable {σ ε : Type}

/-- Fold `step` from an arbitrary state. -/
def runFrom (M : Sys σ ε) : σ → List ε → Option σ
  | s, [] => some s
  | s, e :: es => match M.step s e with
    | none => none
    | some s' => runFrom M s' es

/-- Fold `step` from the initial state. -/
def run (M : Sys σ ε) (es : List ε) : Option σ := M.runFrom M.init es

/-- States reachable from `init` by accepted events. -/
inductive Reachable (M : Sys σ ε) : σ → Prop
  | init : Reachable M M.init
  | step {s s' e} : Reachable M s → M.step s e = some s' → Reachable M s'

theorem runFrom_append (M : Sys σ ε) (s : σ) (es fs : List ε) :
    M.runFrom s (es ++ fs) = (M.runFrom s es).bind (fun s' => M.runFrom s' fs) := by
  induction es generalizing s with
  | nil => simp [runFrom]
  | cons e es ih =>
    simp only [List.cons_append, runFrom]
    cases h : M.step s e with
    | none => simp
    | some s' => simp [ih]

theorem reachable_of_runFrom (M : Sys σ ε) {s s' : σ} {es : List ε}
    (hs : Reachable M s) (h : M.runFrom s es = some s') : Reachable M s' := by
  induction es generalizing s with
  | nil => simp [runFrom] at h; subst h; exact hs
  | cons e es ih =>
    simp only [runFrom] at h
    cases hst : M.step s e with
    | none => simp [hst] at h
    | some s1 =>
      simp [hst] at h
      exact ih (Reachable.step hs hst) h

theorem reachable_of_run (M : Sys σ ε) {s : σ} {es : List ε}
    (h : M.run es = some s) : Reachable M s :=
  reachable_of_runFrom M Reachable.init h

theorem run_of_reachable (M : Sys σ ε) {s : σ} (h : Reachable M s) :
    ∃ es, M.run es = some s := by
  induction h with
  | init => exact ⟨[], rfl⟩
  | @step s1 s2 e _ hst ih =>
    obtain ⟨es, hes⟩ := ih
    refine ⟨es ++ [e], ?_⟩
    simp only [run] at hes
    simp [run, runFrom_append, hes, runFrom, hst]

/-- The induction principle every invariant proof uses. -/
theorem inv_of_step (M : Sys σ ε) (I : σ → Prop)
    (h0 : I M.init)
    (hstep : ∀ s e s', I s → M.step s e = some s' → I s')
    {s : σ} (hr : Reachable M s) : I s := by
  induction hr with
  | init => exact h0
  | step _ hst ih => exact hstep _ _ _ ih hst

/-- Invariants along a run: every state reached by an accepted event list satisfies `I`. -/
theorem inv_of_run (M : Sys σ ε) (I : σ → Prop)
    (h0 : I M.init)
    (hstep : ∀ s e s', I s → M.step s e = some s' → I s')
    {es : List ε} {s : σ} (h : M.run es = some s) : I s :=
  inv_of_step M I h0 hstep (reachable_of_run M h)

/-- Invariant of (state, trace-so-far) pairs: for history predicates. -/
theorem hist_inv_of_run (M : Sys σ ε) (I : σ → List ε → Prop)
    (h0 : I M.init [])
    (hstep : ∀ s es e s', I s es → M.step s e = some s' → I s' (es ++ [e]))
    {es : List ε} {s : σ} (h : M.run es = some s) : I s es := by
  suffices ∀ (pre : List ε) (s0 : σ) (es : List ε) (s : σ), I s0 pre →
      M.runFrom s0 es = some s → I s (pre ++ es) by
    simpa using this [] M.init es s h0 h
  intro pre s0 es
  induction es generalizing pre s0 with
  | nil => intro s hI h; simp [runFrom] at h; subst h; simpa using hI
  | cons e es ih =>
    intro s hI h
    simp only [runFrom] at h
    cases hst : M.step s0 e with
    | none => simp [hst] at h
    | some s1 =>
      simp [hst] at h
      have := ih (pre ++ [e]) s1 s (hstep _ _ _ _ hI hst) h
      simpa using this

end Sys

/-- Pointwise update of a `Nat`-indexed family (thread-local state, slots, flags). -/
def upd {α : Type} (f : Nat → α) (i : Nat) (v : α) : Nat → α :=
  fun j => if j = i then v else f j

@[simp] theorem upd_same {α : Type} (f : Nat → α) (i : Nat) (v : α) : upd f i v i = v := by
  simp [upd]

@[simp] theorem upd_other {α : Type} (f : Nat → α) (i j : Nat) (v : α) (h : j ≠ i) :
    upd f i v j = f j := by
  simp [upd, h]

theorem upd_apply {α : Type} (f : Nat → α) (i j : Nat) (v : α) :
    upd f i v j = if j = i then v else f j := rfl

end LibfiberVerif
