/-
  Registry.lean — maps a model name (first argument of `verifdrv`) to its validator.
  One line per model; each validator lives next to its model in `Model/<X>.lean`
  (function `<X>.drive : List String → IO UInt32`).
-/
import LibfiberVerif.Driver
import LibfiberVerif.Model.Ring
import LibfiberVerif.Model.RingW
import LibfiberVerif.Model.Hp
import LibfiberVerif.Model.Mpmc
import LibfiberVerif.Model.Mpscr
import LibfiberVerif.Model.Lifo
import LibfiberVerif.Model.DistFifo
import LibfiberVerif.Model.Stack
import LibfiberVerif.Model.Sched
import LibfiberVerif.Model.SchedN
import LibfiberVerif.Model.Mutex
import LibfiberVerif.Model.Cond
import LibfiberVerif.Model.Join
import LibfiberVerif.Model.JoinCas
import LibfiberVerif.Model.Rt
import LibfiberVerif.Model.Sem
import LibfiberVerif.Model.Barrier
import LibfiberVerif.Model.RwLock
import LibfiberVerif.Model.Sleep
import LibfiberVerif.Model.Spin
import LibfiberVerif.Model.SpinTso
import LibfiberVerif.Model.WorkQueue
import LibfiberVerif.Model.Wsd
import LibfiberVerif.Model.Signal
import LibfiberVerif.Model.MultiSignal
import LibfiberVerif.Model.Chan
import LibfiberVerif.Model.MultiChan
import LibfiberVerif.Model.IoShim

namespace LibfiberVerif

def registry : List (String × (List String → IO UInt32)) := [
  ("Ring", RingW.drive),  -- Ring + the 64-bit counter machine (init note carries the base)
  ("Hp", Hp.drive),
  ("Mpmc", Mpmc.drive),
  ("Mpsc", Mpsc.drive), ("Spsc", Spsc.drive), ("Mpscr", Mpscr.drive),
  ("Lifo", Lifo.drive),
  ("DistFifo", DistFifo.drive),
  ("Stack", Stack.drive),
  ("Sched", Sched.drive), ("SchedN", SchedN.drive),
  ("Mutex", Mutex.drive), ("Cond", Cond.drive),
  ("Join", Join.drive), ("JoinCas", JoinCas.drive),
  ("Rt", Rt.drive),
  ("Sem", Sem.drive),
  ("Barrier", Barrier.drive),
  ("RwLock", RwLock.drive), ("RwWord", RwLock.driveWord),
  ("Sleep", Sleep.drive),
  ("Spin", Spin.drive),
  ("SpinTso", SpinTso.drive),
  ("WorkQueue", WorkQueue.drive),
  ("Wsd", Wsd.drive),
  ("Signal", Signal.drive), ("MultiSignal", MultiSignal.drive),
  ("Chan", Chan.drive), ("MultiChan", MultiChan.drive),
  ("IoShim", IoShim.drive)
]

end LibfiberVerif
