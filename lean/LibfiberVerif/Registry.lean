/-
  Registry.lean — maps a model name (first argument of `verifdrv`) to its validator.
  One line per model; each validator lives next to its model in `Model/<X>.lean`
  (function `<X>.drive : List String → IO UInt32`).
-/
import LibfiberVerif.Driver
import LibfiberVerif.Model.Ring

namespace LibfiberVerif

def registry : List (String × (List String → IO UInt32)) := [
  ("Ring", Ring.drive)
]

end LibfiberVerif
