import LibfiberVerif.Model.Join
set_option warn.sorry false
namespace LibfiberVerif.Join

@[simp, grind] def finX : Pc → Bool
  | .fPark0 | .fParking | .fParked | .fWoken | .fTake | .fGot _ | .fGotRes _ _ | .fGave _ | .fMark | .fDone => true
  | _ => false
@[simp, grind] def parkF : Pc → Bool
  | .fPark0 | .fParking | .fParked => true
  | _ => false
@[simp, grind] def joinerPath (c : Pc) (g : Nat) : Bool :=
  match c with
  | .jPark0 t | .jParking t | .jParked t | .jWoken t | .jGotRes t _ => t == g
  | _ => false
@[simp, grind] def takePh (c : Pc) (g : Nat) : Bool :=
  match c with
  | .take0 _ t | .take _ t _ | .wake _ t _ _ => t == g
  | _ => false
@[simp, grind] def claimPath (c : Pc) (g : Nat) : Bool :=
  match c with
  | .jPark0 t | .jParking t | .jParked t | .jWoken t | .jGotRes t _ => t == g
  | .take0 _ t | .take _ t _ | .wake _ t _ _ => t == g
  | .retn op t ok _ => t == g && ok && op != .detach
  | _ => false

@[grind →] theorem jp_cp {c g} (h : joinerPath c g = true) : claimPath c g = true := by
  cases c <;> simp_all
@[grind →] theorem tp_cp {c g} (h : takePh c g = true) : claimPath c g = true := by
  cases c <;> simp_all

syntax "step_cases " ident " with " ident : tactic
macro_rules
  | `(tactic| step_cases $e with $hc) => `(tactic| (
      cases $e:ident <;> simp only [stepCore] at $hc:ident
      all_goals (repeat' split at $hc:ident)
      all_goals (try (simp at $hc:ident))
      all_goals (try subst $hc:ident)))

structure Inv0 (s : St) : Prop where
  wfj : ∀ g, s.det g = WFJ → finX (s.pc g) = true
  detx : ∀ g, s.det g = DET → s.detX g = true
  fret : ∀ g v, s.pc g = .fRet v → s.retval g = some v
  tl : ∀ a g, s.pc a = .loaded .tryjoin g → s.det g ≠ NONE
  cpn : ∀ a g, claimPath (s.pc a) g = true → s.det g ≠ NONE
  scn : ∀ g, s.succ g ≠ [] → s.det g ≠ NONE
  fxn : ∀ g, finX (s.pc g) = true → s.det g ≠ NONE
  dst : ∀ g, s.destroyed g = true → s.pc g = .fDone
  fj : ∀ p g, joinerPath (s.pc p) g = true → s.first g = some p
  ff : ∀ g, (parkF (s.pc g) = true ∨ s.pc g = .fWoken) → s.first g = some g
  tcl : ∀ b g, takePh (s.pc b) g = true → (s.claimed g = true ∨ s.detX g = true)

variable {s s1 : St} {e : Ev}

theorem inv0_fj (hI : Inv0 s) (hc : stepCore s e = some s1) : ∀ p g, joinerPath (s1.pc p) g = true → s1.first g = some p := by
  obtain ⟨h1, h2, h3, h4, h5, h6, h7, h8, h9, h10, h11⟩ := hI
  step_cases e with hc
  all_goals (intros; simp only [upd_apply, WFJ, DET, NONE, WTJ] at *; try grind)

end LibfiberVerif.Join
