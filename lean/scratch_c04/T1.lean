import LibfiberVerif.Model.Join
namespace LibfiberVerif.Join

@[simp] def finX : Pc → Bool
  | .fPark0 | .fParking | .fParked | .fWoken | .fTake | .fGot _ | .fGotRes _ _ | .fGave _ | .fMark | .fDone => true
  | _ => false

theorem step_some {s : St} {e : Ev} {s' : St} (h : step s e = some s') :
    ∃ s1, stepCore s e = some s1 ∧
      s' = { s1 with late := if e.counted ∧ s1.destroyed e.cellOf then upd s1.late e.cellOf (s1.late e.cellOf + 1) else s1.late } := by
  unfold step at h
  cases hc : stepCore s e with
  | none => simp [hc] at h
  | some s1 => simp [hc] at h; exact ⟨s1, rfl, h.symm⟩

structure Inv0 (s : St) : Prop where
  wfj : ∀ g, s.det g = WFJ → finX (s.pc g) = true
  detx : ∀ g, s.det g = DET → s.detX g = true

set_option maxHeartbeats 1000000 in
theorem inv0_step (s : St) (e : Ev) (s' : St) (hI : Inv0 s) (h : step s e = some s') : Inv0 s' := by
  obtain ⟨s1, hc, rfl⟩ := step_some h
  obtain ⟨h1, h2⟩ := hI
  cases e <;> simp only [stepCore] at hc
  all_goals (repeat' split at hc)
  all_goals (try (simp at hc))
  all_goals (try subst hc)
  all_goals (constructor <;> intro g <;> simp [upd_apply, WFJ, DET, NONE, WTJ] at * <;> grind)

end LibfiberVerif.Join
