/-
  Proof/Join.lean — invariants of the join / tryjoin / detach / completion protocol model
  (Model/Join.lean), property C04.   (generated layout: one theorem per conjunct so that Lean
  elaborates them in parallel; every conjunct is proved by case analysis on the event and the
  acting fiber's program counter followed by `grind`.)

  Layers, all by induction over accepted events (`Sys.inv_of_run`), for an unbounded number of
  fibers, targets and calls:
    Inv0  simple unconditional facts about detach_state and the ghost fields
    Inv1  the mailbox discipline (a parked fiber is in at most one place: its mailbox, or in the
          hands of exactly one holder) and the value facts that follow from it
    Inv2  the protocol proper, for every target on which none of the three windows
          (tDetach / tThird / tOver, see Model/Join.lean) has been opened
    Inv3  no post-exchange access to a destroyed fiber (same hypothesis)
-/
import LibfiberVerif.Model.Join

set_option linter.unusedSimpArgs false
set_option linter.unusedVariables false

namespace LibfiberVerif.Join

/-! ### predicates on program counters -/

/-- the fiber is past the exchange (or the DETACHED short-cut) of its own completion -/
@[simp, grind] def finX : Pc → Bool
  | .fPark0 | .fParking | .fParked | .fWoken | .fTake | .fGot _ | .fGotRes _ _ | .fGave _ | .fMark | .fDone => true
  | _ => false

/-- the fiber has stored its result -/
@[simp, grind] def stored : Pc → Bool
  | .fStored | .fLoaded => true
  | .fPark0 | .fParking | .fParked | .fWoken | .fTake | .fGot _ | .fGotRes _ _ | .fGave _ | .fMark | .fDone => true
  | _ => false

/-- the finished fiber is on its way into its own mailbox, or in it -/
@[simp, grind] def parkF : Pc → Bool
  | .fPark0 | .fParking | .fParked => true
  | _ => false

/-- a joiner on its way into g's mailbox, or in it -/
@[simp, grind] def joinerPark (c : Pc) (g : Nat) : Bool :=
  match c with
  | .jPark0 t | .jParking t | .jParked t => t == g
  | _ => false

@[simp, grind] def joinerPath (c : Pc) (g : Nat) : Bool :=
  match c with
  | .jPark0 t | .jParking t | .jParked t | .jWoken t | .jGotRes t _ => t == g
  | _ => false

/-- a client that claimed the finished fiber and has not woken it yet -/
@[simp, grind] def takePh (c : Pc) (g : Nat) : Bool :=
  match c with
  | .take0 _ t | .take _ t _ | .wake _ t _ _ => t == g
  | _ => false

/-- every program point from which a client still acts on g's mailbox / will report SUCCESS -/
@[simp, grind] def claimPath (c : Pc) (g : Nat) : Bool :=
  match c with
  | .jPark0 t | .jParking t | .jParked t | .jWoken t | .jGotRes t _ => t == g
  | .take0 _ t | .take _ t _ | .wake _ t _ _ => t == g
  | .retn op t ok _ => t == g && ok && op != .detach
  | _ => false

/-- a detach that takes the finished fiber out of its mailbox -/
@[simp, grind] def detTake (c : Pc) (g : Nat) : Bool :=
  match c with
  | .take .detach t _ | .wake .detach t _ _ => t == g
  | _ => false

/-- a holds p: it took p out of a mailbox and is about to wake it -/
@[simp, grind] def holds (c : Pc) (p : Nat) : Bool :=
  match c with
  | .wake _ _ _ q | .fGot q | .fGotRes q _ | .fGave q => q == p
  | _ => false

/-- the finishing fiber holds its joiner p -/
@[simp, grind] def holdsF (c : Pc) (p : Nat) : Bool :=
  match c with
  | .fGot q | .fGotRes q _ | .fGave q => q == p
  | _ => false

@[simp, grind] def holdsFAny : Pc → Bool
  | .fGot _ | .fGotRes _ _ | .fGave _ => true
  | _ => false

/-- q is parked in g's mailbox protocol-wise -/
@[simp, grind] def parkedIn (c : Pc) (q g : Nat) : Bool :=
  match c with
  | .jParked t => t == g
  | .fParked => q == g
  | _ => false

/-- the finishing fiber is busy delivering to its joiner p -/
@[simp, grind] def delivering (c : Pc) (p : Nat) : Bool :=
  match c with
  | .fTake => true
  | .fGot q | .fGotRes q _ | .fGave q => q == p
  | _ => false

@[grind →] theorem jpk_jp {c g} (h : joinerPark c g = true) : joinerPath c g = true := by
  cases c <;> simp_all
@[grind →] theorem jp_cp {c g} (h : joinerPath c g = true) : claimPath c g = true := by
  cases c <;> simp_all
@[grind →] theorem tp_cp {c g} (h : takePh c g = true) : claimPath c g = true := by
  cases c <;> simp_all
@[grind →] theorem hf_h {c p} (h : holdsF c p = true) : holds c p = true := by
  cases c <;> simp_all
@[grind →] theorem hf_hfa {c p} (h : holdsF c p = true) : holdsFAny c = true := by
  cases c <;> simp_all
@[grind →] theorem parkedIn_inj {c q g g'} (h : parkedIn c q g = true) (h' : parkedIn c q g' = true) : g = g' := by
  cases c <;> simp_all
@[grind →] theorem parkedIn_inv {c q g} (h : parkedIn c q g = true) : c = .jParked g ∨ (c = .fParked ∧ q = g) := by
  cases c <;> simp_all
@[grind →] theorem holds_inv {c p} (h : holds c p = true) :
    (∃ op g v, c = .wake op g v p) ∨ c = .fGot p ∨ (∃ v, c = .fGotRes p v) ∨ c = .fGave p := by
  cases c <;> simp_all
@[grind →] theorem detTake_inv {c g} (h : detTake c g = true) :
    (∃ v, c = .take .detach g v) ∨ (∃ v p, c = .wake .detach g v p) := by
  cases c with
  | take op t v => cases op <;> simp_all
  | wake op t v p => cases op <;> simp_all
  | _ => simp_all
@[grind →] theorem fx_st {c} (h : finX c = true) : stored c = true := by
  cases c <;> simp_all
@[grind →] theorem pf_fx {c} (h : parkF c = true) : finX c = true := by
  cases c <;> simp_all

/-! ### from `step` to `stepCore` -/

theorem step_some {s : St} {e : Ev} {s' : St} (h : step s e = some s') :
    ∃ s1, stepCore s e = some s1 ∧
      s' = { s1 with late := if e.counted ∧ s1.destroyed e.cellOf then upd s1.late e.cellOf (s1.late e.cellOf + 1) else s1.late } := by
  unfold step at h
  cases hc : stepCore s e with
  | none => simp [hc] at h
  | some s1 => simp [hc] at h; exact ⟨s1, rfl, h.symm⟩

/-- case analysis on the event and on the acting fiber's program counter; leaves one goal per
    accepted branch of `stepCore`, with the successor state substituted -/
syntax "step_cases " ident " with " ident : tactic
macro_rules
  | `(tactic| step_cases $e with $hc) => `(tactic| (
      cases $e:ident <;> simp only [stepCore] at $hc:ident
      all_goals (repeat' split at $hc:ident)
      all_goals (try (simp at $hc:ident))
      all_goals (try subst $hc:ident)))

/-! scratch -/
structure Inv0 (s : St) : Prop where
  dr : ∀ g, s.det g ≤ 3
  wfj : ∀ g, s.det g = WFJ → finX (s.pc g) = true
  detx : ∀ g, s.det g = DET → s.detX g = true
  fret : ∀ g v, s.pc g = .fRet v → s.retval g = some v
  tl : ∀ a op g, s.pc a = .loaded op g → op ≠ .join → s.det g ≠ NONE
  cpn : ∀ a g, claimPath (s.pc a) g = true → s.det g ≠ NONE
  scn : ∀ g, s.succ g ≠ [] → s.det g ≠ NONE
  fxn : ∀ g, finX (s.pc g) = true → s.det g ≠ NONE
  dst : ∀ g, s.destroyed g = true → s.pc g = .fDone
  fj : ∀ p g, joinerPath (s.pc p) g = true → s.first g = some p
  ff : ∀ g, (parkF (s.pc g) = true ∨ s.pc g = .fWoken) → s.first g = some g
  tcl : ∀ b g, takePh (s.pc b) g = true → (s.claimed g = true ∨ s.detX g = true)
  fc : ∀ g, holdsFAny (s.pc g) = true → s.claimed g = true

structure Inv1 (s : St) : Prop where
  mb : ∀ g, s.ji g ≠ 0 → parkedIn (s.pc (s.ji g)) (s.ji g) g = true ∧ s.holder (s.ji g) = none
  hw : ∀ a op g v p, s.pc a = .wake op g v p → s.holder p = some a ∧ parkedIn (s.pc p) p g = true
  hf : (∀ a p, s.pc a = .fGot p → s.holder p = some a ∧ s.pc p = .jParked a) ∧ (∀ a p v, s.pc a = .fGotRes p v → s.holder p = some a ∧ s.pc p = .jParked a) ∧ (∀ a p, s.pc a = .fGave p → s.holder p = some a ∧ s.pc p = .jParked a)
  hh : ∀ p, s.holder p = none ∨ ∃ a, s.holder p = some a ∧ holds (s.pc a) p = true
  st : ∀ g, stored (s.pc g) = true → s.retval g = some (s.res g)
  t0 : ∀ a op g, s.pc a = .take0 op g → finX (s.pc g) = true
  tv : ∀ a op g v, s.pc a = .take op g v → op ≠ .detach → s.retval g = some v
  wv : ∀ a op g v p, s.pc a = .wake op g v p → op ≠ .detach → s.retval g = some v
  gr : ∀ g p v, s.pc g = .fGotRes p v → s.retval g = some v
  gv : ∀ g p, s.pc g = .fGave p → s.retval g = some (s.res p)
  dj : ∀ g, (s.pc g = .fWoken ∨ s.pc g = .fMark ∨ s.pc g = .fDone) → (s.claimed g = true ∨ s.detX g = true)

structure Inv2 (s : St) : Prop where
  k3 : ∀ g a, untainted s g → claimPath (s.pc a) g = true → (s.det g ≠ WFJ ∨ s.finTook g = true)
  k4 : ∀ g, untainted s g → s.succ g ≠ [] → (s.det g ≠ WFJ ∨ s.finTook g = true)
  k5 : ∀ g p, untainted s g → joinerPark (s.pc p) g = true → (s.det g = WTJ ∨ (s.det g = WFJ ∧ s.finTook g = true))
  uq : ∀ g a a', untainted s g → claimPath (s.pc a) g = true → claimPath (s.pc a') g = true → a = a'
  sq : ∀ g a, untainted s g → s.succ g ≠ [] → claimPath (s.pc a) g = false
  sl : ∀ g, untainted s g → (s.succ g).length ≤ 1
  cv1 : ∀ g p, untainted s g → s.pc p = .jWoken g → s.retval g = some (s.res p)
  cv2 : ∀ g p v, untainted s g → s.pc p = .jGotRes g v → s.retval g = some v
  cv3 : ∀ g a op v, untainted s g → s.pc a = .retn op g true v → op ≠ .detach → s.retval g = some v
  sv : ∀ g v, untainted s g → v ∈ s.succ g → s.retval g = some v
  c1 : ∀ g b, untainted s g → takePh (s.pc b) g = true → parkF (s.pc g) = true
  c4 : ∀ g, untainted s g → s.det g = WFJ → (s.finTook g = true ∨ parkF (s.pc g) = true)
  c9 : ∀ g, untainted s g → s.det g = WTJ → finX (s.pc g) = false → (s.first g ≠ none ∧ ∀ p, s.first g = some p → joinerPark (s.pc p) g = true)
  ii : ∀ g, untainted s g → s.pc g = .fTake → (s.first g ≠ none ∧ ∀ p, s.first g = some p → joinerPark (s.pc p) g = true)
  iii : ∀ g p, untainted s g → joinerPark (s.pc p) g = true → finX (s.pc g) = true → delivering (s.pc g) p = true
  iv : ∀ g, untainted s g → parkF (s.pc g) = true → s.det g ≠ WFJ → (s.taker g ≠ none ∧ ∀ b, s.taker g = some b → takePh (s.pc b) g = true)
  t4 : ∀ g, untainted s g → s.detX g = true → s.det g = DET
  dx1 : ∀ g, untainted s g → s.detX g = true → s.succ g = []
  dx2 : ∀ g a, untainted s g → s.detX g = true → claimPath (s.pc a) g = true → detTake (s.pc a) g = true

variable {s s1 : St} {e : Ev}

theorem inv0_dr (h0 : Inv0 s) (hc : stepCore s e = some s1) : ∀ g, s1.det g ≤ 3 := by
  sorry

theorem inv0_wfj (h0 : Inv0 s) (hc : stepCore s e = some s1) : ∀ g, s1.det g = WFJ → finX (s1.pc g) = true := by
  sorry

theorem inv0_detx (h0 : Inv0 s) (hc : stepCore s e = some s1) : ∀ g, s1.det g = DET → s1.detX g = true := by
  sorry

theorem inv0_fret (h0 : Inv0 s) (hc : stepCore s e = some s1) : ∀ g v, s1.pc g = .fRet v → s1.retval g = some v := by
  sorry

theorem inv0_tl (h0 : Inv0 s) (hc : stepCore s e = some s1) : ∀ a op g, s1.pc a = .loaded op g → op ≠ .join → s1.det g ≠ NONE := by
  sorry

theorem inv0_cpn (h0 : Inv0 s) (hc : stepCore s e = some s1) : ∀ a g, claimPath (s1.pc a) g = true → s1.det g ≠ NONE := by
  sorry

theorem inv0_scn (h0 : Inv0 s) (hc : stepCore s e = some s1) : ∀ g, s1.succ g ≠ [] → s1.det g ≠ NONE := by
  sorry

theorem inv0_fxn (h0 : Inv0 s) (hc : stepCore s e = some s1) : ∀ g, finX (s1.pc g) = true → s1.det g ≠ NONE := by
  sorry

theorem inv0_dst (h0 : Inv0 s) (hc : stepCore s e = some s1) : ∀ g, s1.destroyed g = true → s1.pc g = .fDone := by
  sorry

theorem inv0_fj (h0 : Inv0 s) (hc : stepCore s e = some s1) : ∀ p g, joinerPath (s1.pc p) g = true → s1.first g = some p := by
  sorry

theorem inv0_ff (h0 : Inv0 s) (hc : stepCore s e = some s1) : ∀ g, (parkF (s1.pc g) = true ∨ s1.pc g = .fWoken) → s1.first g = some g := by
  sorry

theorem inv0_tcl (h0 : Inv0 s) (hc : stepCore s e = some s1) : ∀ b g, takePh (s1.pc b) g = true → (s1.claimed g = true ∨ s1.detX g = true) := by
  sorry

theorem inv0_fc (h0 : Inv0 s) (hc : stepCore s e = some s1) : ∀ g, holdsFAny (s1.pc g) = true → s1.claimed g = true := by
  sorry

theorem inv1_mb (mb : ∀ g, s.ji g ≠ 0 → parkedIn (s.pc (s.ji g)) (s.ji g) g = true ∧ s.holder (s.ji g) = none) (hh : ∀ p, s.holder p = none ∨ ∃ a, s.holder p = some a ∧ holds (s.pc a) p = true) (hw : ∀ a op g v p, s.pc a = .wake op g v p → s.holder p = some a ∧ parkedIn (s.pc p) p g = true) (hf : (∀ a p, s.pc a = .fGot p → s.holder p = some a ∧ s.pc p = .jParked a) ∧ (∀ a p v, s.pc a = .fGotRes p v → s.holder p = some a ∧ s.pc p = .jParked a) ∧ (∀ a p, s.pc a = .fGave p → s.holder p = some a ∧ s.pc p = .jParked a)) (hc : stepCore s e = some s1) : ∀ g, s1.ji g ≠ 0 → parkedIn (s1.pc (s1.ji g)) (s1.ji g) g = true ∧ s1.holder (s1.ji g) = none := by
  sorry

theorem inv1_hw (hw : ∀ a op g v p, s.pc a = .wake op g v p → s.holder p = some a ∧ parkedIn (s.pc p) p g = true) (mb : ∀ g, s.ji g ≠ 0 → parkedIn (s.pc (s.ji g)) (s.ji g) g = true ∧ s.holder (s.ji g) = none) (hf : (∀ a p, s.pc a = .fGot p → s.holder p = some a ∧ s.pc p = .jParked a) ∧ (∀ a p v, s.pc a = .fGotRes p v → s.holder p = some a ∧ s.pc p = .jParked a) ∧ (∀ a p, s.pc a = .fGave p → s.holder p = some a ∧ s.pc p = .jParked a)) (hh : ∀ p, s.holder p = none ∨ ∃ a, s.holder p = some a ∧ holds (s.pc a) p = true) (hc : stepCore s e = some s1) : ∀ a op g v p, s1.pc a = .wake op g v p → s1.holder p = some a ∧ parkedIn (s1.pc p) p g = true := by
  sorry

theorem inv1_hf (hf : (∀ a p, s.pc a = .fGot p → s.holder p = some a ∧ s.pc p = .jParked a) ∧ (∀ a p v, s.pc a = .fGotRes p v → s.holder p = some a ∧ s.pc p = .jParked a) ∧ (∀ a p, s.pc a = .fGave p → s.holder p = some a ∧ s.pc p = .jParked a)) (mb : ∀ g, s.ji g ≠ 0 → parkedIn (s.pc (s.ji g)) (s.ji g) g = true ∧ s.holder (s.ji g) = none) (hw : ∀ a op g v p, s.pc a = .wake op g v p → s.holder p = some a ∧ parkedIn (s.pc p) p g = true) (hh : ∀ p, s.holder p = none ∨ ∃ a, s.holder p = some a ∧ holds (s.pc a) p = true) (hc : stepCore s e = some s1) : (∀ a p, s1.pc a = .fGot p → s1.holder p = some a ∧ s1.pc p = .jParked a) ∧ (∀ a p v, s1.pc a = .fGotRes p v → s1.holder p = some a ∧ s1.pc p = .jParked a) ∧ (∀ a p, s1.pc a = .fGave p → s1.holder p = some a ∧ s1.pc p = .jParked a) := by
  sorry

theorem inv1_hh (hh : ∀ p, s.holder p = none ∨ ∃ a, s.holder p = some a ∧ holds (s.pc a) p = true) (hw : ∀ a op g v p, s.pc a = .wake op g v p → s.holder p = some a ∧ parkedIn (s.pc p) p g = true) (hf : (∀ a p, s.pc a = .fGot p → s.holder p = some a ∧ s.pc p = .jParked a) ∧ (∀ a p v, s.pc a = .fGotRes p v → s.holder p = some a ∧ s.pc p = .jParked a) ∧ (∀ a p, s.pc a = .fGave p → s.holder p = some a ∧ s.pc p = .jParked a)) (mb : ∀ g, s.ji g ≠ 0 → parkedIn (s.pc (s.ji g)) (s.ji g) g = true ∧ s.holder (s.ji g) = none) (hc : stepCore s e = some s1) : ∀ p, s1.holder p = none ∨ ∃ a, s1.holder p = some a ∧ holds (s1.pc a) p = true := by
  sorry

theorem inv1_st (st : ∀ g, stored (s.pc g) = true → s.retval g = some (s.res g)) (fret : ∀ g v, s.pc g = .fRet v → s.retval g = some v) (hf : (∀ a p, s.pc a = .fGot p → s.holder p = some a ∧ s.pc p = .jParked a) ∧ (∀ a p v, s.pc a = .fGotRes p v → s.holder p = some a ∧ s.pc p = .jParked a) ∧ (∀ a p, s.pc a = .fGave p → s.holder p = some a ∧ s.pc p = .jParked a)) (hc : stepCore s e = some s1) : ∀ g, stored (s1.pc g) = true → s1.retval g = some (s1.res g) := by
  sorry

theorem inv1_t0 (t0 : ∀ a op g, s.pc a = .take0 op g → finX (s.pc g) = true) (wfj : ∀ g, s.det g = WFJ → finX (s.pc g) = true) (hc : stepCore s e = some s1) : ∀ a op g, s1.pc a = .take0 op g → finX (s1.pc g) = true := by
  sorry

theorem inv1_tv (tv : ∀ a op g v, s.pc a = .take op g v → op ≠ .detach → s.retval g = some v) (st : ∀ g, stored (s.pc g) = true → s.retval g = some (s.res g)) (t0 : ∀ a op g, s.pc a = .take0 op g → finX (s.pc g) = true) (hc : stepCore s e = some s1) : ∀ a op g v, s1.pc a = .take op g v → op ≠ .detach → s1.retval g = some v := by
  sorry

theorem inv1_wv (wv : ∀ a op g v p, s.pc a = .wake op g v p → op ≠ .detach → s.retval g = some v) (tv : ∀ a op g v, s.pc a = .take op g v → op ≠ .detach → s.retval g = some v) (hc : stepCore s e = some s1) : ∀ a op g v p, s1.pc a = .wake op g v p → op ≠ .detach → s1.retval g = some v := by
  sorry

theorem inv1_gr (gr : ∀ g p v, s.pc g = .fGotRes p v → s.retval g = some v) (st : ∀ g, stored (s.pc g) = true → s.retval g = some (s.res g)) (hc : stepCore s e = some s1) : ∀ g p v, s1.pc g = .fGotRes p v → s1.retval g = some v := by
  sorry

theorem inv1_gv (gv : ∀ g p, s.pc g = .fGave p → s.retval g = some (s.res p)) (gr : ∀ g p v, s.pc g = .fGotRes p v → s.retval g = some v) (hf : (∀ a p, s.pc a = .fGot p → s.holder p = some a ∧ s.pc p = .jParked a) ∧ (∀ a p v, s.pc a = .fGotRes p v → s.holder p = some a ∧ s.pc p = .jParked a) ∧ (∀ a p, s.pc a = .fGave p → s.holder p = some a ∧ s.pc p = .jParked a)) (hc : stepCore s e = some s1) : ∀ g p, s1.pc g = .fGave p → s1.retval g = some (s1.res p) := by
  sorry

theorem inv1_dj (dj : ∀ g, (s.pc g = .fWoken ∨ s.pc g = .fMark ∨ s.pc g = .fDone) → (s.claimed g = true ∨ s.detX g = true)) (detx : ∀ g, s.det g = DET → s.detX g = true) (wfj : ∀ g, s.det g = WFJ → finX (s.pc g) = true) (tcl : ∀ b g, takePh (s.pc b) g = true → (s.claimed g = true ∨ s.detX g = true)) (fc : ∀ g, holdsFAny (s.pc g) = true → s.claimed g = true) (hw : ∀ a op g v p, s.pc a = .wake op g v p → s.holder p = some a ∧ parkedIn (s.pc p) p g = true) (dr : ∀ g, s.det g ≤ 3) (hc : stepCore s e = some s1) : ∀ g, (s1.pc g = .fWoken ∨ s1.pc g = .fMark ∨ s1.pc g = .fDone) → (s1.claimed g = true ∨ s1.detX g = true) := by
  sorry

theorem inv2_k3 (k3 : ∀ g a, untainted s g → claimPath (s.pc a) g = true → (s.det g ≠ WFJ ∨ s.finTook g = true)) (cpn : ∀ a g, claimPath (s.pc a) g = true → s.det g ≠ NONE) (dr : ∀ g, s.det g ≤ 3) (wfj : ∀ g, s.det g = WFJ → finX (s.pc g) = true) (hc : stepCore s e = some s1) : ∀ g a, untainted s1 g → claimPath (s1.pc a) g = true → (s1.det g ≠ WFJ ∨ s1.finTook g = true) := by
  sorry

theorem inv2_k4 (k4 : ∀ g, untainted s g → s.succ g ≠ [] → (s.det g ≠ WFJ ∨ s.finTook g = true)) (k3 : ∀ g a, untainted s g → claimPath (s.pc a) g = true → (s.det g ≠ WFJ ∨ s.finTook g = true)) (scn : ∀ g, s.succ g ≠ [] → s.det g ≠ NONE) (dr : ∀ g, s.det g ≤ 3) (wfj : ∀ g, s.det g = WFJ → finX (s.pc g) = true) (hc : stepCore s e = some s1) : ∀ g, untainted s1 g → s1.succ g ≠ [] → (s1.det g ≠ WFJ ∨ s1.finTook g = true) := by
  sorry

theorem inv2_k5 (k5 : ∀ g p, untainted s g → joinerPark (s.pc p) g = true → (s.det g = WTJ ∨ (s.det g = WFJ ∧ s.finTook g = true))) (cpn : ∀ a g, claimPath (s.pc a) g = true → s.det g ≠ NONE) (hc : stepCore s e = some s1) : ∀ g p, untainted s1 g → joinerPark (s1.pc p) g = true → (s1.det g = WTJ ∨ (s1.det g = WFJ ∧ s1.finTook g = true)) := by
  sorry

theorem inv2_uq (uq : ∀ g a a', untainted s g → claimPath (s.pc a) g = true → claimPath (s.pc a') g = true → a = a') (cpn : ∀ a g, claimPath (s.pc a) g = true → s.det g ≠ NONE) (k3 : ∀ g a, untainted s g → claimPath (s.pc a) g = true → (s.det g ≠ WFJ ∨ s.finTook g = true)) (hc : stepCore s e = some s1) : ∀ g a a', untainted s1 g → claimPath (s1.pc a) g = true → claimPath (s1.pc a') g = true → a = a' := by
  sorry

theorem inv2_sq (sq : ∀ g a, untainted s g → s.succ g ≠ [] → claimPath (s.pc a) g = false) (uq : ∀ g a a', untainted s g → claimPath (s.pc a) g = true → claimPath (s.pc a') g = true → a = a') (scn : ∀ g, s.succ g ≠ [] → s.det g ≠ NONE) (k4 : ∀ g, untainted s g → s.succ g ≠ [] → (s.det g ≠ WFJ ∨ s.finTook g = true)) (hc : stepCore s e = some s1) : ∀ g a, untainted s1 g → s1.succ g ≠ [] → claimPath (s1.pc a) g = false := by
  sorry

theorem inv2_sl (sl : ∀ g, untainted s g → (s.succ g).length ≤ 1) (sq : ∀ g a, untainted s g → s.succ g ≠ [] → claimPath (s.pc a) g = false) (hc : stepCore s e = some s1) : ∀ g, untainted s1 g → (s1.succ g).length ≤ 1 := by
  sorry

theorem inv2_cv1 (cv1 : ∀ g p, untainted s g → s.pc p = .jWoken g → s.retval g = some (s.res p)) (gv : ∀ g p, s.pc g = .fGave p → s.retval g = some (s.res p)) (hf : (∀ a p, s.pc a = .fGot p → s.holder p = some a ∧ s.pc p = .jParked a) ∧ (∀ a p v, s.pc a = .fGotRes p v → s.holder p = some a ∧ s.pc p = .jParked a) ∧ (∀ a p, s.pc a = .fGave p → s.holder p = some a ∧ s.pc p = .jParked a)) (hw : ∀ a op g v p, s.pc a = .wake op g v p → s.holder p = some a ∧ parkedIn (s.pc p) p g = true) (uq : ∀ g a a', untainted s g → claimPath (s.pc a) g = true → claimPath (s.pc a') g = true → a = a') (hc : stepCore s e = some s1) : ∀ g p, untainted s1 g → s1.pc p = .jWoken g → s1.retval g = some (s1.res p) := by
  sorry

theorem inv2_cv2 (cv2 : ∀ g p v, untainted s g → s.pc p = .jGotRes g v → s.retval g = some v) (cv1 : ∀ g p, untainted s g → s.pc p = .jWoken g → s.retval g = some (s.res p)) (hc : stepCore s e = some s1) : ∀ g p v, untainted s1 g → s1.pc p = .jGotRes g v → s1.retval g = some v := by
  sorry

theorem inv2_cv3 (cv3 : ∀ g a op v, untainted s g → s.pc a = .retn op g true v → op ≠ .detach → s.retval g = some v) (cv2 : ∀ g p v, untainted s g → s.pc p = .jGotRes g v → s.retval g = some v) (wv : ∀ a op g v p, s.pc a = .wake op g v p → op ≠ .detach → s.retval g = some v) (hc : stepCore s e = some s1) : ∀ g a op v, untainted s1 g → s1.pc a = .retn op g true v → op ≠ .detach → s1.retval g = some v := by
  sorry

theorem inv2_sv (sv : ∀ g v, untainted s g → v ∈ s.succ g → s.retval g = some v) (cv3 : ∀ g a op v, untainted s g → s.pc a = .retn op g true v → op ≠ .detach → s.retval g = some v) (hc : stepCore s e = some s1) : ∀ g v, untainted s1 g → v ∈ s1.succ g → s1.retval g = some v := by
  sorry

theorem inv2_c1 (c1 : ∀ g b, untainted s g → takePh (s.pc b) g = true → parkF (s.pc g) = true) (c4 : ∀ g, untainted s g → s.det g = WFJ → (s.finTook g = true ∨ parkF (s.pc g) = true)) (uq : ∀ g a a', untainted s g → claimPath (s.pc a) g = true → claimPath (s.pc a') g = true → a = a') (hw : ∀ a op g v p, s.pc a = .wake op g v p → s.holder p = some a ∧ parkedIn (s.pc p) p g = true) (hc : stepCore s e = some s1) : ∀ g b, untainted s1 g → takePh (s1.pc b) g = true → parkF (s1.pc g) = true := by
  sorry

theorem inv2_c4 (c4 : ∀ g, untainted s g → s.det g = WFJ → (s.finTook g = true ∨ parkF (s.pc g) = true)) (k3 : ∀ g a, untainted s g → claimPath (s.pc a) g = true → (s.det g ≠ WFJ ∨ s.finTook g = true)) (hw : ∀ a op g v p, s.pc a = .wake op g v p → s.holder p = some a ∧ parkedIn (s.pc p) p g = true) (wfj : ∀ g, s.det g = WFJ → finX (s.pc g) = true) (dr : ∀ g, s.det g ≤ 3) (hc : stepCore s e = some s1) : ∀ g, untainted s1 g → s1.det g = WFJ → (s1.finTook g = true ∨ parkF (s1.pc g) = true) := by
  sorry

set_option maxHeartbeats 4000000 in
theorem inv2_c9 (c9 : ∀ g, untainted s g → s.det g = WTJ → finX (s.pc g) = false → (s.first g ≠ none ∧ ∀ p, s.first g = some p → joinerPark (s.pc p) g = true)) (fj : ∀ p g, joinerPath (s.pc p) g = true → s.first g = some p) (tl : ∀ a op g, s.pc a = .loaded op g → op ≠ .join → s.det g ≠ NONE) (wfj : ∀ g, s.det g = WFJ → finX (s.pc g) = true) (uq : ∀ g a a', untainted s g → claimPath (s.pc a) g = true → claimPath (s.pc a') g = true → a = a') (hw : ∀ a op g v p, s.pc a = .wake op g v p → s.holder p = some a ∧ parkedIn (s.pc p) p g = true) (hf : (∀ a p, s.pc a = .fGot p → s.holder p = some a ∧ s.pc p = .jParked a) ∧ (∀ a p v, s.pc a = .fGotRes p v → s.holder p = some a ∧ s.pc p = .jParked a) ∧ (∀ a p, s.pc a = .fGave p → s.holder p = some a ∧ s.pc p = .jParked a)) (cpn : ∀ a g, claimPath (s.pc a) g = true → s.det g ≠ NONE) (dr : ∀ g, s.det g ≤ 3) (hc : stepCore s e = some s1) : ∀ g, untainted s1 g → s1.det g = WTJ → finX (s1.pc g) = false → (s1.first g ≠ none ∧ ∀ p, s1.first g = some p → joinerPark (s1.pc p) g = true) := by
  step_cases e with hc
  all_goals (intros; (try simp only [upd_apply, WFJ, DET, NONE, WTJ, untainted] at *); first | grind | grind (splits := 25) | grind (splits := 80) | ((repeat' split) <;> grind (splits := 80)) | skip)

set_option maxHeartbeats 4000000 in
theorem inv2_ii (ii : ∀ g, untainted s g → s.pc g = .fTake → (s.first g ≠ none ∧ ∀ p, s.first g = some p → joinerPark (s.pc p) g = true)) (c9 : ∀ g, untainted s g → s.det g = WTJ → finX (s.pc g) = false → (s.first g ≠ none ∧ ∀ p, s.first g = some p → joinerPark (s.pc p) g = true)) (uq : ∀ g a a', untainted s g → claimPath (s.pc a) g = true → claimPath (s.pc a') g = true → a = a') (hw : ∀ a op g v p, s.pc a = .wake op g v p → s.holder p = some a ∧ parkedIn (s.pc p) p g = true) (hf : (∀ a p, s.pc a = .fGot p → s.holder p = some a ∧ s.pc p = .jParked a) ∧ (∀ a p v, s.pc a = .fGotRes p v → s.holder p = some a ∧ s.pc p = .jParked a) ∧ (∀ a p, s.pc a = .fGave p → s.holder p = some a ∧ s.pc p = .jParked a)) (hc : stepCore s e = some s1) : ∀ g, untainted s1 g → s1.pc g = .fTake → (s1.first g ≠ none ∧ ∀ p, s1.first g = some p → joinerPark (s1.pc p) g = true) := by
  step_cases e with hc
  all_goals (intros; (try simp only [upd_apply, WFJ, DET, NONE, WTJ, untainted] at *); first | grind | grind (splits := 25) | grind (splits := 80) | ((repeat' split) <;> grind (splits := 80)) | skip)

theorem inv2_iii (iii : ∀ g p, untainted s g → joinerPark (s.pc p) g = true → finX (s.pc g) = true → delivering (s.pc g) p = true) (k5 : ∀ g p, untainted s g → joinerPark (s.pc p) g = true → (s.det g = WTJ ∨ (s.det g = WFJ ∧ s.finTook g = true))) (cpn : ∀ a g, claimPath (s.pc a) g = true → s.det g ≠ NONE) (fxn : ∀ g, finX (s.pc g) = true → s.det g ≠ NONE) (wfj : ∀ g, s.det g = WFJ → finX (s.pc g) = true) (mb : ∀ g, s.ji g ≠ 0 → parkedIn (s.pc (s.ji g)) (s.ji g) g = true ∧ s.holder (s.ji g) = none) (uq : ∀ g a a', untainted s g → claimPath (s.pc a) g = true → claimPath (s.pc a') g = true → a = a') (hf : (∀ a p, s.pc a = .fGot p → s.holder p = some a ∧ s.pc p = .jParked a) ∧ (∀ a p v, s.pc a = .fGotRes p v → s.holder p = some a ∧ s.pc p = .jParked a) ∧ (∀ a p, s.pc a = .fGave p → s.holder p = some a ∧ s.pc p = .jParked a)) (hc : stepCore s e = some s1) : ∀ g p, untainted s1 g → joinerPark (s1.pc p) g = true → finX (s1.pc g) = true → delivering (s1.pc g) p = true := by
  sorry

set_option maxHeartbeats 4000000 in
theorem inv2_iv (iv : ∀ g, untainted s g → parkF (s.pc g) = true → s.det g ≠ WFJ → (s.taker g ≠ none ∧ ∀ b, s.taker g = some b → takePh (s.pc b) g = true)) (hw : ∀ a op g v p, s.pc a = .wake op g v p → s.holder p = some a ∧ parkedIn (s.pc p) p g = true) (uq : ∀ g a a', untainted s g → claimPath (s.pc a) g = true → claimPath (s.pc a') g = true → a = a') (wfj : ∀ g, s.det g = WFJ → finX (s.pc g) = true) (c1 : ∀ g b, untainted s g → takePh (s.pc b) g = true → parkF (s.pc g) = true) (hc : stepCore s e = some s1) : ∀ g, untainted s1 g → parkF (s1.pc g) = true → s1.det g ≠ WFJ → (s1.taker g ≠ none ∧ ∀ b, s1.taker g = some b → takePh (s1.pc b) g = true) := by
  step_cases e with hc
  all_goals (intros; (try simp only [upd_apply, WFJ, DET, NONE, WTJ, untainted] at *); first | grind | grind (splits := 25) | grind (splits := 80) | ((repeat' split) <;> grind (splits := 80)) | skip)

theorem inv2_t4 (t4 : ∀ g, untainted s g → s.detX g = true → s.det g = DET) (hc : stepCore s e = some s1) : ∀ g, untainted s1 g → s1.detX g = true → s1.det g = DET := by
  sorry

theorem inv2_dx1 (dx1 : ∀ g, untainted s g → s.detX g = true → s.succ g = []) (dx2 : ∀ g a, untainted s g → s.detX g = true → claimPath (s.pc a) g = true → detTake (s.pc a) g = true) (scn : ∀ g, s.succ g ≠ [] → s.det g ≠ NONE) (k4 : ∀ g, untainted s g → s.succ g ≠ [] → (s.det g ≠ WFJ ∨ s.finTook g = true)) (t4 : ∀ g, untainted s g → s.detX g = true → s.det g = DET) (detx : ∀ g, s.det g = DET → s.detX g = true) (dr : ∀ g, s.det g ≤ 3) (hc : stepCore s e = some s1) : ∀ g, untainted s1 g → s1.detX g = true → s1.succ g = [] := by
  sorry

theorem inv2_dx2 (dx2 : ∀ g a, untainted s g → s.detX g = true → claimPath (s.pc a) g = true → detTake (s.pc a) g = true) (cpn : ∀ a g, claimPath (s.pc a) g = true → s.det g ≠ NONE) (k3 : ∀ g a, untainted s g → claimPath (s.pc a) g = true → (s.det g ≠ WFJ ∨ s.finTook g = true)) (t4 : ∀ g, untainted s g → s.detX g = true → s.det g = DET) (detx : ∀ g, s.det g = DET → s.detX g = true) (dr : ∀ g, s.det g ≤ 3) (hc : stepCore s e = some s1) : ∀ g a, untainted s1 g → s1.detX g = true → claimPath (s1.pc a) g = true → detTake (s1.pc a) g = true := by
  sorry

theorem inv0_core (h0 : Inv0 s) (hc : stepCore s e = some s1) : Inv0 s1 :=
  ⟨inv0_dr h0 hc, inv0_wfj h0 hc, inv0_detx h0 hc, inv0_fret h0 hc, inv0_tl h0 hc, inv0_cpn h0 hc, inv0_scn h0 hc, inv0_fxn h0 hc, inv0_dst h0 hc, inv0_fj h0 hc, inv0_ff h0 hc, inv0_tcl h0 hc, inv0_fc h0 hc⟩

theorem inv1_core (h0 : Inv0 s) (h1 : Inv1 s) (hc : stepCore s e = some s1) : Inv1 s1 :=
  ⟨inv1_mb h1.mb h1.hh h1.hw h1.hf hc, inv1_hw h1.hw h1.mb h1.hf h1.hh hc, inv1_hf h1.hf h1.mb h1.hw h1.hh hc, inv1_hh h1.hh h1.hw h1.hf h1.mb hc, inv1_st h1.st h0.fret h1.hf hc, inv1_t0 h1.t0 h0.wfj hc, inv1_tv h1.tv h1.st h1.t0 hc, inv1_wv h1.wv h1.tv hc, inv1_gr h1.gr h1.st hc, inv1_gv h1.gv h1.gr h1.hf hc, inv1_dj h1.dj h0.detx h0.wfj h0.tcl h0.fc h1.hw h0.dr hc⟩

theorem inv2_core (h0 : Inv0 s) (h1 : Inv1 s) (h2 : Inv2 s) (hc : stepCore s e = some s1) : Inv2 s1 :=
  ⟨inv2_k3 h2.k3 h0.cpn h0.dr h0.wfj hc, inv2_k4 h2.k4 h2.k3 h0.scn h0.dr h0.wfj hc, inv2_k5 h2.k5 h0.cpn hc, inv2_uq h2.uq h0.cpn h2.k3 hc, inv2_sq h2.sq h2.uq h0.scn h2.k4 hc, inv2_sl h2.sl h2.sq hc, inv2_cv1 h2.cv1 h1.gv h1.hf h1.hw h2.uq hc, inv2_cv2 h2.cv2 h2.cv1 hc, inv2_cv3 h2.cv3 h2.cv2 h1.wv hc, inv2_sv h2.sv h2.cv3 hc, inv2_c1 h2.c1 h2.c4 h2.uq h1.hw hc, inv2_c4 h2.c4 h2.k3 h1.hw h0.wfj h0.dr hc, inv2_c9 h2.c9 h0.fj h0.tl h0.wfj h2.uq h1.hw h1.hf h0.cpn h0.dr hc, inv2_ii h2.ii h2.c9 h2.uq h1.hw h1.hf hc, inv2_iii h2.iii h2.k5 h0.cpn h0.fxn h0.wfj h1.mb h2.uq h1.hf hc, inv2_iv h2.iv h1.hw h2.uq h0.wfj h2.c1 hc, inv2_t4 h2.t4 hc, inv2_dx1 h2.dx1 h2.dx2 h0.scn h2.k4 h2.t4 h0.detx h0.dr hc, inv2_dx2 h2.dx2 h0.cpn h2.k3 h2.t4 h0.detx h0.dr hc⟩

/-! ### layer 3: no post-exchange access to a destroyed fiber -/

theorem core_late (hc : stepCore s e = some s1) : s1.late = s.late := by
  step_cases e with hc
  all_goals rfl

theorem ut_mono (hc : stepCore s e = some s1) : ∀ g, untainted s1 g → untainted s g := by
  step_cases e with hc
  all_goals (intros; (try simp only [upd_apply, WFJ, DET, NONE, WTJ, untainted] at *); grind)

theorem destroyed_mono (hc : stepCore s e = some s1) (hcnt : e.counted = true) : s1.destroyed = s.destroyed := by
  step_cases e with hc
  all_goals (first | rfl | simp [Ev.counted] at hcnt)

set_option maxHeartbeats 4000000 in
/-- a counted (post-exchange) access never hits a destroyed fiber on which no window was opened -/
theorem no_late (dst : ∀ g, s.destroyed g = true → s.pc g = .fDone)
    (c1 : ∀ g b, untainted s g → takePh (s.pc b) g = true → parkF (s.pc g) = true)
    (iii : ∀ g p, untainted s g → joinerPark (s.pc p) g = true → finX (s.pc g) = true → delivering (s.pc g) p = true)
    (hw : ∀ a op g v p, s.pc a = .wake op g v p → s.holder p = some a ∧ parkedIn (s.pc p) p g = true)
    (hf : (∀ a p, s.pc a = .fGot p → s.holder p = some a ∧ s.pc p = .jParked a) ∧ (∀ a p v, s.pc a = .fGotRes p v → s.holder p = some a ∧ s.pc p = .jParked a) ∧ (∀ a p, s.pc a = .fGave p → s.holder p = some a ∧ s.pc p = .jParked a))
    (hc : stepCore s e = some s1) (hcnt : e.counted = true) (hd : s.destroyed e.cellOf = true)
    (hu : untainted s e.cellOf) : False := by
  step_cases e with hc
  all_goals (first | (simp [Ev.counted] at hcnt; done) | skip)
  all_goals (simp only [Ev.cellOf, untainted] at *; grind)

def Inv3 (s : St) : Prop := ∀ g, untainted s g → s.late g = 0

/-! ### the invariant of all reachable states -/

structure Inv (s : St) : Prop where
  i0 : Inv0 s
  i1 : Inv1 s
  i2 : Inv2 s
  i3 : Inv3 s

theorem inv0_late {s : St} (l : Nat → Nat) (h : Inv0 s) : Inv0 { s with late := l } := by
  cases h; constructor <;> assumption
theorem inv1_late {s : St} (l : Nat → Nat) (h : Inv1 s) : Inv1 { s with late := l } := by
  cases h; constructor <;> assumption
theorem inv2_late {s : St} (l : Nat → Nat) (h : Inv2 s) : Inv2 { s with late := l } := by
  cases h; constructor <;> assumption

theorem inv_init (isT : Nat → Bool) : Inv (init isT) := by
  refine ⟨?_, ?_, ?_, ?_⟩
  · constructor <;> intros <;> simp_all [init, DET, NONE, WFJ, WTJ] <;> grind
  · constructor <;> intros <;> simp_all [init, DET, NONE, WFJ, WTJ]
  · constructor <;> intros <;> simp_all [init, DET, NONE, WFJ, WTJ, untainted] <;> grind
  · intro g _; rfl

theorem inv_step (isT : Nat → Bool) (s : St) (e : Ev) (s' : St) (hI : Inv s)
    (h : (sys isT).step s e = some s') : Inv s' := by
  obtain ⟨s1, hc, rfl⟩ := step_some h
  obtain ⟨h0, h1, h2, h3⟩ := hI
  refine ⟨inv0_late _ (inv0_core h0 hc), inv1_late _ (inv1_core h0 h1 hc), inv2_late _ (inv2_core h0 h1 h2 hc), ?_⟩
  intro g hu
  have hu1 : untainted s1 g := hu
  have hus : untainted s g := ut_mono hc g hu1
  have hl : s1.late = s.late := core_late hc
  show (if e.counted = true ∧ s1.destroyed e.cellOf = true then upd s1.late e.cellOf (s1.late e.cellOf + 1) else s1.late) g = 0
  by_cases hcd : e.counted = true ∧ s1.destroyed e.cellOf = true
  · by_cases hg : g = e.cellOf
    · exfalso
      subst hg
      have hd : s.destroyed e.cellOf = true := by rw [← destroyed_mono hc hcd.1]; exact hcd.2
      exact no_late h0.dst h2.c1 h2.iii h1.hw h1.hf hc hcd.1 hd hus
    · rw [if_pos hcd, upd_other _ _ _ _ hg, hl]; exact h3 g hus
  · rw [if_neg hcd, hl]; exact h3 g hus

theorem inv_of_run {isT : Nat → Bool} {es : List Ev} {s : St} (h : (sys isT).run es = some s) : Inv s :=
  Sys.inv_of_run (sys isT) Inv (inv_init isT) (inv_step isT) h

end LibfiberVerif.Join
