/-
  Proof/JoinCasBase.lean — invariants of the CANDIDATE FIX of the join / tryjoin / detach /
  completion protocol (Model/JoinCas.lean, docs/fix-C04.diff), property C04.

  Same structure as Proof/JoinBase.lean, but nothing is conditional any more: with every
  transition of detach_state a compare-and-swap there is no window to exclude.
    Inv0  simple facts about detach_state and the ghost fields
    Inv1  the mailbox discipline (a parked fiber is in its mailbox or in the hands of exactly
          one holder) and the values that travel
    Inv2  the protocol proper
    Inv3  no post-swap access to a destroyed fiber
-/
import LibfiberVerif.Model.JoinCas

set_option linter.unusedSimpArgs false
set_option linter.unusedVariables false

namespace LibfiberVerif.JoinCas
open LibfiberVerif.Join (Op NONE WFJ WTJ DET READY WAITING DONE)

/-! ### predicates on program counters -/

@[simp, grind] def finX : Pc → Bool
  | .fPark0 | .fParking | .fParked | .fWoken | .fTake | .fGot _ | .fGotRes _ _ | .fGave _ | .fMark | .fDone => true
  | _ => false

@[simp, grind] def stored : Pc → Bool
  | .fStored | .fCas _ => true
  | .fPark0 | .fParking | .fParked | .fWoken | .fTake | .fGot _ | .fGotRes _ _ | .fGave _ | .fMark | .fDone => true
  | _ => false

@[simp, grind] def parkF : Pc → Bool
  | .fPark0 | .fParking | .fParked => true
  | _ => false

@[simp, grind] def joinerPark (c : Pc) (g : Nat) : Bool :=
  match c with
  | .jPark0 t | .jParking t | .jParked t => t == g
  | _ => false

@[simp, grind] def joinerPath (c : Pc) (g : Nat) : Bool :=
  match c with
  | .jPark0 t | .jParking t | .jParked t | .jWoken t | .jGotRes t _ => t == g
  | _ => false

@[simp, grind] def takePh (c : Pc) (g : Nat) : Bool :=
  match c with
  | .take0 _ t | .take _ t _ | .wake _ t _ _ => t == g
  | _ => false

@[simp, grind] def claimPath (c : Pc) (g : Nat) : Bool :=
  match c with
  | .jPark0 t | .jParking t | .jParked t | .jWoken t | .jGotRes t _ => t == g
  | .take0 _ t | .take _ t _ | .wake _ t _ _ => t == g
  | .retn op t ok _ => t == g && ok && op != .detach
  | _ => false

@[simp, grind] def detTake (c : Pc) (g : Nat) : Bool :=
  match c with
  | .take .detach t _ | .wake .detach t _ _ => t == g
  | _ => false

@[simp, grind] def holds (c : Pc) (p : Nat) : Bool :=
  match c with
  | .wake _ _ _ q | .fGot q | .fGotRes q _ | .fGave q => q == p
  | _ => false

@[simp, grind] def holdsFAny : Pc → Bool
  | .fTake | .fGot _ | .fGotRes _ _ | .fGave _ => true
  | _ => false

@[simp, grind] def parkedIn (c : Pc) (q g : Nat) : Bool :=
  match c with
  | .jParked t => t == g
  | .fParked => q == g
  | _ => false

@[simp, grind] def delivering (c : Pc) (p : Nat) : Bool :=
  match c with
  | .fTake => true
  | .fGot q | .fGotRes q _ | .fGave q => q == p
  | _ => false

@[grind →] theorem jpk_jp {c g} (h : joinerPark c g = true) : joinerPath c g = true := by
  cases c <;> simp_all
@[grind →] theorem jp_cp {c g} (h : joinerPath c g = true) : claimPath c g = true := by
  cases c <;> simp_all
@[grind →] theorem tp_cp {c g} (h : takePh c g = true) : claimPath c g = true := by
  cases c <;> simp_all
@[grind →] theorem parkedIn_inj {c q g g'} (h : parkedIn c q g = true) (h' : parkedIn c q g' = true) : g = g' := by
  cases c <;> simp_all
@[grind →] theorem parkedIn_inv {c q g} (h : parkedIn c q g = true) : c = .jParked g ∨ (c = .fParked ∧ q = g) := by
  cases c <;> simp_all
@[grind →] theorem holds_inv {c p} (h : holds c p = true) :
    (∃ op g v, c = .wake op g v p) ∨ c = .fGot p ∨ (∃ v, c = .fGotRes p v) ∨ c = .fGave p := by
  cases c <;> simp_all
@[grind →] theorem detTake_inv {c g} (h : detTake c g = true) :
    (∃ v, c = .take .detach g v) ∨ (∃ v p, c = .wake .detach g v p) := by
  cases c with
  | take op t v => cases op <;> simp_all
  | wake op t v p => cases op <;> simp_all
  | _ => simp_all
@[grind →] theorem fx_st {c} (h : finX c = true) : stored c = true := by
  cases c <;> simp_all
@[grind →] theorem pf_fx {c} (h : parkF c = true) : finX c = true := by
  cases c <;> simp_all

/-! ### from `step` to `stepCore` -/

theorem step_some {s : St} {e : Ev} {s' : St} (h : step s e = some s') :
    ∃ s1, stepCore s e = some s1 ∧
      s' = { s1 with late := if e.counted ∧ s1.destroyed e.cellOf then upd s1.late e.cellOf (s1.late e.cellOf + 1) else s1.late } := by
  unfold step at h
  cases hc : stepCore s e with
  | none => simp [hc] at h
  | some s1 => simp [hc] at h; exact ⟨s1, rfl, h.symm⟩

/-- case analysis on the event and on the acting fiber's program counter; leaves one goal per
    accepted branch of `stepCore`, with the successor state substituted -/
syntax "step_cases " ident " with " ident : tactic
macro_rules
  | `(tactic| step_cases $e with $hc) => `(tactic| (
      cases $e:ident <;> simp only [stepCore, joinCas, detCas, finCas] at $hc:ident
      all_goals (repeat' split at $hc:ident)
      all_goals (try (simp at $hc:ident))
      all_goals (try subst $hc:ident)))

set_option warn.sorry false
structure Inv0 (s : St) : Prop where
  dr : ∀ g, s.det g ≤ 3
  wfj : ∀ g, s.det g = WFJ → parkF (s.pc g) = true
  detx : ∀ g, s.det g = DET → (s.detX g = true ∨ s.claimed g = true)
  fret : ∀ g v, s.pc g = .fRet v → s.retval g = some v
  cxj : ∀ a g x, s.pc a = .jCas g x → x ≠ WTJ ∧ x ≠ DET
  cxd : ∀ a g x, s.pc a = .dCas g x → x ≠ WTJ ∧ x ≠ DET
  cxf : ∀ a x, s.pc a = .fCas x → x ≠ DET
  cpn : ∀ a g, claimPath (s.pc a) g = true → s.det g ≠ NONE
  scn : ∀ g, s.succ g ≠ [] → s.det g ≠ NONE
  fxn : ∀ g, finX (s.pc g) = true → s.det g ≠ NONE
  dst : ∀ g, s.destroyed g = true → s.pc g = .fDone
  fj : ∀ p g, joinerPath (s.pc p) g = true → s.first g = some p
  ff : ∀ g, (parkF (s.pc g) = true ∨ s.pc g = .fWoken) → s.first g = some g
  tcl : ∀ b g, takePh (s.pc b) g = true → (s.claimed g = true ∨ s.detX g = true)
  fc : ∀ g, holdsFAny (s.pc g) = true → s.claimed g = true

structure Inv1 (s : St) : Prop where
  mb : ∀ g, s.ji g ≠ 0 → parkedIn (s.pc (s.ji g)) (s.ji g) g = true ∧ s.holder (s.ji g) = none
  hw : ∀ a op g v p, s.pc a = .wake op g v p → s.holder p = some a ∧ parkedIn (s.pc p) p g = true
  hf : (∀ a p, s.pc a = .fGot p → s.holder p = some a ∧ s.pc p = .jParked a) ∧ (∀ a p v, s.pc a = .fGotRes p v → s.holder p = some a ∧ s.pc p = .jParked a) ∧ (∀ a p, s.pc a = .fGave p → s.holder p = some a ∧ s.pc p = .jParked a)
  hh : ∀ p, s.holder p = none ∨ ∃ a, s.holder p = some a ∧ holds (s.pc a) p = true
  st : ∀ g, stored (s.pc g) = true → s.retval g = some (s.res g)
  t0 : ∀ a op g, s.pc a = .take0 op g → finX (s.pc g) = true
  tv : ∀ a op g v, s.pc a = .take op g v → op ≠ .detach → s.retval g = some v
  wv : ∀ a op g v p, s.pc a = .wake op g v p → op ≠ .detach → s.retval g = some v
  gr : ∀ g p v, s.pc g = .fGotRes p v → s.retval g = some v
  gv : ∀ g p, s.pc g = .fGave p → s.retval g = some (s.res p)
  dj : ∀ g, (s.pc g = .fWoken ∨ s.pc g = .fMark ∨ s.pc g = .fDone) → (s.claimed g = true ∨ s.detX g = true)

structure Inv2 (s : St) : Prop where
  k3 : ∀ g a, claimPath (s.pc a) g = true → s.det g ≠ WFJ
  k4 : ∀ g, s.succ g ≠ [] → s.det g = DET
  k5 : ∀ g p, joinerPark (s.pc p) g = true → ((s.det g = WTJ ∧ finX (s.pc g) = false) ∨ (s.det g = DET ∧ finX (s.pc g) = true))
  wtj : ∀ g, s.det g = WTJ → finX (s.pc g) = false
  uq : ∀ g a a', claimPath (s.pc a) g = true → claimPath (s.pc a') g = true → a = a'
  sq : ∀ g a, s.succ g ≠ [] → claimPath (s.pc a) g = false
  sl : ∀ g, (s.succ g).length ≤ 1
  cv1 : ∀ g p, s.pc p = .jWoken g → s.retval g = some (s.res p)
  cv2 : ∀ g p v, s.pc p = .jGotRes g v → s.retval g = some v
  cv3 : ∀ g a op v, s.pc a = .retn op g true v → op ≠ .detach → s.retval g = some v
  sv : ∀ g v, v ∈ s.succ g → s.retval g = some v
  c1 : ∀ g b, takePh (s.pc b) g = true → parkF (s.pc g) = true
  c9 : ∀ g, s.det g = WTJ → (s.first g ≠ none ∧ ∀ p, s.first g = some p → joinerPark (s.pc p) g = true)
  ii : ∀ g, s.pc g = .fTake → (s.first g ≠ none ∧ ∀ p, s.first g = some p → joinerPark (s.pc p) g = true)
  iii : ∀ g p, joinerPark (s.pc p) g = true → finX (s.pc g) = true → delivering (s.pc g) p = true
  iv : ∀ g, parkF (s.pc g) = true → s.det g ≠ WFJ → (s.taker g ≠ none ∧ ∀ b, s.taker g = some b → takePh (s.pc b) g = true)
  t4 : ∀ g, s.detX g = true → s.det g = DET
  dx1 : ∀ g, s.detX g = true → s.succ g = []
  dx2 : ∀ g a, s.detX g = true → claimPath (s.pc a) g = true → detTake (s.pc a) g = true

variable {s s1 : St} {e : Ev}

theorem inv0_dr (h0 : Inv0 s) (hc : stepCore s e = some s1) : ∀ g, s1.det g ≤ 3 := by
  sorry

theorem inv0_wfj (wfj : ∀ g, s.det g = WFJ → parkF (s.pc g) = true) (k3 : ∀ g a, claimPath (s.pc a) g = true → s.det g ≠ WFJ) (hw : ∀ a op g v p, s.pc a = .wake op g v p → s.holder p = some a ∧ parkedIn (s.pc p) p g = true) (cxj : ∀ a g x, s.pc a = .jCas g x → x ≠ WTJ ∧ x ≠ DET) (cxd : ∀ a g x, s.pc a = .dCas g x → x ≠ WTJ ∧ x ≠ DET) (cxf : ∀ a x, s.pc a = .fCas x → x ≠ DET) (dr : ∀ g, s.det g ≤ 3) (hc : stepCore s e = some s1) : ∀ g, s1.det g = WFJ → parkF (s1.pc g) = true := by
  sorry

theorem inv0_detx (h0 : Inv0 s) (hc : stepCore s e = some s1) : ∀ g, s1.det g = DET → (s1.detX g = true ∨ s1.claimed g = true) := by
  sorry

theorem inv0_fret (h0 : Inv0 s) (hc : stepCore s e = some s1) : ∀ g v, s1.pc g = .fRet v → s1.retval g = some v := by
  sorry

theorem inv0_cxj (h0 : Inv0 s) (hc : stepCore s e = some s1) : ∀ a g x, s1.pc a = .jCas g x → x ≠ WTJ ∧ x ≠ DET := by
  sorry

theorem inv0_cxd (h0 : Inv0 s) (hc : stepCore s e = some s1) : ∀ a g x, s1.pc a = .dCas g x → x ≠ WTJ ∧ x ≠ DET := by
  sorry

theorem inv0_cxf (h0 : Inv0 s) (hc : stepCore s e = some s1) : ∀ a x, s1.pc a = .fCas x → x ≠ DET := by
  sorry

theorem inv0_cpn (h0 : Inv0 s) (hc : stepCore s e = some s1) : ∀ a g, claimPath (s1.pc a) g = true → s1.det g ≠ NONE := by
  sorry

theorem inv0_scn (h0 : Inv0 s) (hc : stepCore s e = some s1) : ∀ g, s1.succ g ≠ [] → s1.det g ≠ NONE := by
  sorry

theorem inv0_fxn (h0 : Inv0 s) (hc : stepCore s e = some s1) : ∀ g, finX (s1.pc g) = true → s1.det g ≠ NONE := by
  sorry

theorem inv0_dst (h0 : Inv0 s) (hc : stepCore s e = some s1) : ∀ g, s1.destroyed g = true → s1.pc g = .fDone := by
  sorry

theorem inv0_fj (h0 : Inv0 s) (hc : stepCore s e = some s1) : ∀ p g, joinerPath (s1.pc p) g = true → s1.first g = some p := by
  sorry

theorem inv0_ff (h0 : Inv0 s) (hc : stepCore s e = some s1) : ∀ g, (parkF (s1.pc g) = true ∨ s1.pc g = .fWoken) → s1.first g = some g := by
  sorry

theorem inv0_tcl (h0 : Inv0 s) (hc : stepCore s e = some s1) : ∀ b g, takePh (s1.pc b) g = true → (s1.claimed g = true ∨ s1.detX g = true) := by
  sorry

theorem inv0_fc (h0 : Inv0 s) (hc : stepCore s e = some s1) : ∀ g, holdsFAny (s1.pc g) = true → s1.claimed g = true := by
  sorry

theorem inv1_mb (mb : ∀ g, s.ji g ≠ 0 → parkedIn (s.pc (s.ji g)) (s.ji g) g = true ∧ s.holder (s.ji g) = none) (hh : ∀ p, s.holder p = none ∨ ∃ a, s.holder p = some a ∧ holds (s.pc a) p = true) (hw : ∀ a op g v p, s.pc a = .wake op g v p → s.holder p = some a ∧ parkedIn (s.pc p) p g = true) (hf : (∀ a p, s.pc a = .fGot p → s.holder p = some a ∧ s.pc p = .jParked a) ∧ (∀ a p v, s.pc a = .fGotRes p v → s.holder p = some a ∧ s.pc p = .jParked a) ∧ (∀ a p, s.pc a = .fGave p → s.holder p = some a ∧ s.pc p = .jParked a)) (hc : stepCore s e = some s1) : ∀ g, s1.ji g ≠ 0 → parkedIn (s1.pc (s1.ji g)) (s1.ji g) g = true ∧ s1.holder (s1.ji g) = none := by
  sorry

theorem inv1_hw (hw : ∀ a op g v p, s.pc a = .wake op g v p → s.holder p = some a ∧ parkedIn (s.pc p) p g = true) (mb : ∀ g, s.ji g ≠ 0 → parkedIn (s.pc (s.ji g)) (s.ji g) g = true ∧ s.holder (s.ji g) = none) (hf : (∀ a p, s.pc a = .fGot p → s.holder p = some a ∧ s.pc p = .jParked a) ∧ (∀ a p v, s.pc a = .fGotRes p v → s.holder p = some a ∧ s.pc p = .jParked a) ∧ (∀ a p, s.pc a = .fGave p → s.holder p = some a ∧ s.pc p = .jParked a)) (hh : ∀ p, s.holder p = none ∨ ∃ a, s.holder p = some a ∧ holds (s.pc a) p = true) (hc : stepCore s e = some s1) : ∀ a op g v p, s1.pc a = .wake op g v p → s1.holder p = some a ∧ parkedIn (s1.pc p) p g = true := by
  sorry

theorem inv1_hf (hf : (∀ a p, s.pc a = .fGot p → s.holder p = some a ∧ s.pc p = .jParked a) ∧ (∀ a p v, s.pc a = .fGotRes p v → s.holder p = some a ∧ s.pc p = .jParked a) ∧ (∀ a p, s.pc a = .fGave p → s.holder p = some a ∧ s.pc p = .jParked a)) (mb : ∀ g, s.ji g ≠ 0 → parkedIn (s.pc (s.ji g)) (s.ji g) g = true ∧ s.holder (s.ji g) = none) (hw : ∀ a op g v p, s.pc a = .wake op g v p → s.holder p = some a ∧ parkedIn (s.pc p) p g = true) (hh : ∀ p, s.holder p = none ∨ ∃ a, s.holder p = some a ∧ holds (s.pc a) p = true) (hc : stepCore s e = some s1) : (∀ a p, s1.pc a = .fGot p → s1.holder p = some a ∧ s1.pc p = .jParked a) ∧ (∀ a p v, s1.pc a = .fGotRes p v → s1.holder p = some a ∧ s1.pc p = .jParked a) ∧ (∀ a p, s1.pc a = .fGave p → s1.holder p = some a ∧ s1.pc p = .jParked a) := by
  sorry

theorem inv1_hh (hh : ∀ p, s.holder p = none ∨ ∃ a, s.holder p = some a ∧ holds (s.pc a) p = true) (hw : ∀ a op g v p, s.pc a = .wake op g v p → s.holder p = some a ∧ parkedIn (s.pc p) p g = true) (hf : (∀ a p, s.pc a = .fGot p → s.holder p = some a ∧ s.pc p = .jParked a) ∧ (∀ a p v, s.pc a = .fGotRes p v → s.holder p = some a ∧ s.pc p = .jParked a) ∧ (∀ a p, s.pc a = .fGave p → s.holder p = some a ∧ s.pc p = .jParked a)) (mb : ∀ g, s.ji g ≠ 0 → parkedIn (s.pc (s.ji g)) (s.ji g) g = true ∧ s.holder (s.ji g) = none) (hc : stepCore s e = some s1) : ∀ p, s1.holder p = none ∨ ∃ a, s1.holder p = some a ∧ holds (s1.pc a) p = true := by
  sorry

theorem inv1_st (st : ∀ g, stored (s.pc g) = true → s.retval g = some (s.res g)) (fret : ∀ g v, s.pc g = .fRet v → s.retval g = some v) (hf : (∀ a p, s.pc a = .fGot p → s.holder p = some a ∧ s.pc p = .jParked a) ∧ (∀ a p v, s.pc a = .fGotRes p v → s.holder p = some a ∧ s.pc p = .jParked a) ∧ (∀ a p, s.pc a = .fGave p → s.holder p = some a ∧ s.pc p = .jParked a)) (hc : stepCore s e = some s1) : ∀ g, stored (s1.pc g) = true → s1.retval g = some (s1.res g) := by
  sorry

set_option maxHeartbeats 4000000 in
theorem inv1_t0 (t0 : ∀ a op g, s.pc a = .take0 op g → finX (s.pc g) = true) (wfj : ∀ g, s.det g = WFJ → parkF (s.pc g) = true) (cxj : ∀ a g x, s.pc a = .jCas g x → x ≠ WTJ ∧ x ≠ DET) (cxd : ∀ a g x, s.pc a = .dCas g x → x ≠ WTJ ∧ x ≠ DET) (cxf : ∀ a x, s.pc a = .fCas x → x ≠ DET) (dr : ∀ g, s.det g ≤ 3) (hc : stepCore s e = some s1) : ∀ a op g, s1.pc a = .take0 op g → finX (s1.pc g) = true := by
  step_cases e with hc
  all_goals (intros; (try simp only [upd_apply, WFJ, DET, NONE, WTJ] at *); first | grind | grind (splits := 25) | grind (splits := 80) | ((repeat' split) <;> grind (splits := 80)) | skip)

theorem inv1_tv (tv : ∀ a op g v, s.pc a = .take op g v → op ≠ .detach → s.retval g = some v) (st : ∀ g, stored (s.pc g) = true → s.retval g = some (s.res g)) (t0 : ∀ a op g, s.pc a = .take0 op g → finX (s.pc g) = true) (hc : stepCore s e = some s1) : ∀ a op g v, s1.pc a = .take op g v → op ≠ .detach → s1.retval g = some v := by
  sorry

theorem inv1_wv (wv : ∀ a op g v p, s.pc a = .wake op g v p → op ≠ .detach → s.retval g = some v) (tv : ∀ a op g v, s.pc a = .take op g v → op ≠ .detach → s.retval g = some v) (hc : stepCore s e = some s1) : ∀ a op g v p, s1.pc a = .wake op g v p → op ≠ .detach → s1.retval g = some v := by
  sorry

theorem inv1_gr (gr : ∀ g p v, s.pc g = .fGotRes p v → s.retval g = some v) (st : ∀ g, stored (s.pc g) = true → s.retval g = some (s.res g)) (hc : stepCore s e = some s1) : ∀ g p v, s1.pc g = .fGotRes p v → s1.retval g = some v := by
  sorry

theorem inv1_gv (gv : ∀ g p, s.pc g = .fGave p → s.retval g = some (s.res p)) (gr : ∀ g p v, s.pc g = .fGotRes p v → s.retval g = some v) (hf : (∀ a p, s.pc a = .fGot p → s.holder p = some a ∧ s.pc p = .jParked a) ∧ (∀ a p v, s.pc a = .fGotRes p v → s.holder p = some a ∧ s.pc p = .jParked a) ∧ (∀ a p, s.pc a = .fGave p → s.holder p = some a ∧ s.pc p = .jParked a)) (hc : stepCore s e = some s1) : ∀ g p, s1.pc g = .fGave p → s1.retval g = some (s1.res p) := by
  sorry

theorem inv1_dj (dj : ∀ g, (s.pc g = .fWoken ∨ s.pc g = .fMark ∨ s.pc g = .fDone) → (s.claimed g = true ∨ s.detX g = true)) (detx : ∀ g, s.det g = DET → (s.detX g = true ∨ s.claimed g = true)) (wfj : ∀ g, s.det g = WFJ → parkF (s.pc g) = true) (tcl : ∀ b g, takePh (s.pc b) g = true → (s.claimed g = true ∨ s.detX g = true)) (fc : ∀ g, holdsFAny (s.pc g) = true → s.claimed g = true) (hw : ∀ a op g v p, s.pc a = .wake op g v p → s.holder p = some a ∧ parkedIn (s.pc p) p g = true) (dr : ∀ g, s.det g ≤ 3) (hc : stepCore s e = some s1) : ∀ g, (s1.pc g = .fWoken ∨ s1.pc g = .fMark ∨ s1.pc g = .fDone) → (s1.claimed g = true ∨ s1.detX g = true) := by
  sorry

set_option maxHeartbeats 4000000 in
theorem inv2_k3 (k3 : ∀ g a, claimPath (s.pc a) g = true → s.det g ≠ WFJ) (cpn : ∀ a g, claimPath (s.pc a) g = true → s.det g ≠ NONE) (wfj : ∀ g, s.det g = WFJ → parkF (s.pc g) = true) (cxj : ∀ a g x, s.pc a = .jCas g x → x ≠ WTJ ∧ x ≠ DET) (cxd : ∀ a g x, s.pc a = .dCas g x → x ≠ WTJ ∧ x ≠ DET) (cxf : ∀ a x, s.pc a = .fCas x → x ≠ DET) (dr : ∀ g, s.det g ≤ 3) (hc : stepCore s e = some s1) : ∀ g a, claimPath (s1.pc a) g = true → s1.det g ≠ WFJ := by
  step_cases e with hc
  all_goals (intros; (try simp only [upd_apply, WFJ, DET, NONE, WTJ] at *); first | grind | grind (splits := 25) | grind (splits := 80) | ((repeat' split) <;> grind (splits := 80)) | skip)

set_option maxHeartbeats 4000000 in
theorem inv2_k4 (k4 : ∀ g, s.succ g ≠ [] → s.det g = DET) (k3 : ∀ g a, claimPath (s.pc a) g = true → s.det g ≠ WFJ) (scn : ∀ g, s.succ g ≠ [] → s.det g ≠ NONE) (cpn : ∀ a g, claimPath (s.pc a) g = true → s.det g ≠ NONE) (wfj : ∀ g, s.det g = WFJ → parkF (s.pc g) = true) (cxj : ∀ a g x, s.pc a = .jCas g x → x ≠ WTJ ∧ x ≠ DET) (cxd : ∀ a g x, s.pc a = .dCas g x → x ≠ WTJ ∧ x ≠ DET) (cxf : ∀ a x, s.pc a = .fCas x → x ≠ DET) (dr : ∀ g, s.det g ≤ 3) (hc : stepCore s e = some s1) : ∀ g, s1.succ g ≠ [] → s1.det g = DET := by
  step_cases e with hc
  all_goals (intros; (try simp only [upd_apply, WFJ, DET, NONE, WTJ] at *); first | grind | grind (splits := 25) | grind (splits := 80) | ((repeat' split) <;> grind (splits := 80)) | skip)

set_option maxHeartbeats 4000000 in
theorem inv2_k5 (k5 : ∀ g p, joinerPark (s.pc p) g = true → ((s.det g = WTJ ∧ finX (s.pc g) = false) ∨ (s.det g = DET ∧ finX (s.pc g) = true))) (cpn : ∀ a g, claimPath (s.pc a) g = true → s.det g ≠ NONE) (wfj : ∀ g, s.det g = WFJ → parkF (s.pc g) = true) (hw : ∀ a op g v p, s.pc a = .wake op g v p → s.holder p = some a ∧ parkedIn (s.pc p) p g = true) (hf : (∀ a p, s.pc a = .fGot p → s.holder p = some a ∧ s.pc p = .jParked a) ∧ (∀ a p v, s.pc a = .fGotRes p v → s.holder p = some a ∧ s.pc p = .jParked a) ∧ (∀ a p, s.pc a = .fGave p → s.holder p = some a ∧ s.pc p = .jParked a)) (uq : ∀ g a a', claimPath (s.pc a) g = true → claimPath (s.pc a') g = true → a = a') (fxn : ∀ g, finX (s.pc g) = true → s.det g ≠ NONE) (cxj : ∀ a g x, s.pc a = .jCas g x → x ≠ WTJ ∧ x ≠ DET) (cxd : ∀ a g x, s.pc a = .dCas g x → x ≠ WTJ ∧ x ≠ DET) (cxf : ∀ a x, s.pc a = .fCas x → x ≠ DET) (dr : ∀ g, s.det g ≤ 3) (hc : stepCore s e = some s1) : ∀ g p, joinerPark (s1.pc p) g = true → ((s1.det g = WTJ ∧ finX (s1.pc g) = false) ∨ (s1.det g = DET ∧ finX (s1.pc g) = true)) := by
  step_cases e with hc
  all_goals (intros; (try simp only [upd_apply, WFJ, DET, NONE, WTJ] at *); first | grind | grind (splits := 25) | grind (splits := 80) | ((repeat' split) <;> grind (splits := 80)) | skip)

set_option maxHeartbeats 4000000 in
theorem inv2_wtj (wtj : ∀ g, s.det g = WTJ → finX (s.pc g) = false) (wfj : ∀ g, s.det g = WFJ → parkF (s.pc g) = true) (fxn : ∀ g, finX (s.pc g) = true → s.det g ≠ NONE) (cxj : ∀ a g x, s.pc a = .jCas g x → x ≠ WTJ ∧ x ≠ DET) (cxd : ∀ a g x, s.pc a = .dCas g x → x ≠ WTJ ∧ x ≠ DET) (cxf : ∀ a x, s.pc a = .fCas x → x ≠ DET) (dr : ∀ g, s.det g ≤ 3) (hc : stepCore s e = some s1) : ∀ g, s1.det g = WTJ → finX (s1.pc g) = false := by
  step_cases e with hc
  all_goals (intros; (try simp only [upd_apply, WFJ, DET, NONE, WTJ] at *); first | grind | grind (splits := 25) | grind (splits := 80) | ((repeat' split) <;> grind (splits := 80)) | skip)

set_option maxHeartbeats 4000000 in
theorem inv2_uq (uq : ∀ g a a', claimPath (s.pc a) g = true → claimPath (s.pc a') g = true → a = a') (cpn : ∀ a g, claimPath (s.pc a) g = true → s.det g ≠ NONE) (k3 : ∀ g a, claimPath (s.pc a) g = true → s.det g ≠ WFJ) (cxj : ∀ a g x, s.pc a = .jCas g x → x ≠ WTJ ∧ x ≠ DET) (cxd : ∀ a g x, s.pc a = .dCas g x → x ≠ WTJ ∧ x ≠ DET) (cxf : ∀ a x, s.pc a = .fCas x → x ≠ DET) (dr : ∀ g, s.det g ≤ 3) (hc : stepCore s e = some s1) : ∀ g a a', claimPath (s1.pc a) g = true → claimPath (s1.pc a') g = true → a = a' := by
  step_cases e with hc
  all_goals (intros; (try simp only [upd_apply, WFJ, DET, NONE, WTJ] at *); first | grind | grind (splits := 25) | grind (splits := 80) | ((repeat' split) <;> grind (splits := 80)) | skip)

set_option maxHeartbeats 4000000 in
theorem inv2_sq (sq : ∀ g a, s.succ g ≠ [] → claimPath (s.pc a) g = false) (uq : ∀ g a a', claimPath (s.pc a) g = true → claimPath (s.pc a') g = true → a = a') (scn : ∀ g, s.succ g ≠ [] → s.det g ≠ NONE) (k4 : ∀ g, s.succ g ≠ [] → s.det g = DET) (k3 : ∀ g a, claimPath (s.pc a) g = true → s.det g ≠ WFJ) (cxj : ∀ a g x, s.pc a = .jCas g x → x ≠ WTJ ∧ x ≠ DET) (cxd : ∀ a g x, s.pc a = .dCas g x → x ≠ WTJ ∧ x ≠ DET) (cxf : ∀ a x, s.pc a = .fCas x → x ≠ DET) (dr : ∀ g, s.det g ≤ 3) (hc : stepCore s e = some s1) : ∀ g a, s1.succ g ≠ [] → claimPath (s1.pc a) g = false := by
  step_cases e with hc
  all_goals (intros; (try simp only [upd_apply, WFJ, DET, NONE, WTJ] at *); first | grind | grind (splits := 25) | grind (splits := 80) | ((repeat' split) <;> grind (splits := 80)) | skip)

set_option maxHeartbeats 4000000 in
theorem inv2_sl (sl : ∀ g, (s.succ g).length ≤ 1) (sq : ∀ g a, s.succ g ≠ [] → claimPath (s.pc a) g = false) (hc : stepCore s e = some s1) : ∀ g, (s1.succ g).length ≤ 1 := by
  step_cases e with hc
  all_goals (intros; (try simp only [upd_apply, WFJ, DET, NONE, WTJ] at *); first | grind | grind (splits := 25) | grind (splits := 80) | ((repeat' split) <;> grind (splits := 80)) | skip)

set_option maxHeartbeats 4000000 in
theorem inv2_cv1 (cv1 : ∀ g p, s.pc p = .jWoken g → s.retval g = some (s.res p)) (gv : ∀ g p, s.pc g = .fGave p → s.retval g = some (s.res p)) (hf : (∀ a p, s.pc a = .fGot p → s.holder p = some a ∧ s.pc p = .jParked a) ∧ (∀ a p v, s.pc a = .fGotRes p v → s.holder p = some a ∧ s.pc p = .jParked a) ∧ (∀ a p, s.pc a = .fGave p → s.holder p = some a ∧ s.pc p = .jParked a)) (hw : ∀ a op g v p, s.pc a = .wake op g v p → s.holder p = some a ∧ parkedIn (s.pc p) p g = true) (uq : ∀ g a a', claimPath (s.pc a) g = true → claimPath (s.pc a') g = true → a = a') (hc : stepCore s e = some s1) : ∀ g p, s1.pc p = .jWoken g → s1.retval g = some (s1.res p) := by
  step_cases e with hc
  all_goals (intros; (try simp only [upd_apply, WFJ, DET, NONE, WTJ] at *); first | grind | grind (splits := 25) | grind (splits := 80) | ((repeat' split) <;> grind (splits := 80)) | skip)

set_option maxHeartbeats 4000000 in
theorem inv2_cv2 (cv2 : ∀ g p v, s.pc p = .jGotRes g v → s.retval g = some v) (cv1 : ∀ g p, s.pc p = .jWoken g → s.retval g = some (s.res p)) (hc : stepCore s e = some s1) : ∀ g p v, s1.pc p = .jGotRes g v → s1.retval g = some v := by
  step_cases e with hc
  all_goals (intros; (try simp only [upd_apply, WFJ, DET, NONE, WTJ] at *); first | grind | grind (splits := 25) | grind (splits := 80) | ((repeat' split) <;> grind (splits := 80)) | skip)

set_option maxHeartbeats 4000000 in
theorem inv2_cv3 (cv3 : ∀ g a op v, s.pc a = .retn op g true v → op ≠ .detach → s.retval g = some v) (cv2 : ∀ g p v, s.pc p = .jGotRes g v → s.retval g = some v) (wv : ∀ a op g v p, s.pc a = .wake op g v p → op ≠ .detach → s.retval g = some v) (hc : stepCore s e = some s1) : ∀ g a op v, s1.pc a = .retn op g true v → op ≠ .detach → s1.retval g = some v := by
  step_cases e with hc
  all_goals (intros; (try simp only [upd_apply, WFJ, DET, NONE, WTJ] at *); first | grind | grind (splits := 25) | grind (splits := 80) | ((repeat' split) <;> grind (splits := 80)) | skip)

set_option maxHeartbeats 4000000 in
theorem inv2_sv (sv : ∀ g v, v ∈ s.succ g → s.retval g = some v) (cv3 : ∀ g a op v, s.pc a = .retn op g true v → op ≠ .detach → s.retval g = some v) (hc : stepCore s e = some s1) : ∀ g v, v ∈ s1.succ g → s1.retval g = some v := by
  step_cases e with hc
  all_goals (intros; (try simp only [upd_apply, WFJ, DET, NONE, WTJ] at *); first | grind | grind (splits := 25) | grind (splits := 80) | ((repeat' split) <;> grind (splits := 80)) | skip)

set_option maxHeartbeats 4000000 in
theorem inv2_c1 (c1 : ∀ g b, takePh (s.pc b) g = true → parkF (s.pc g) = true) (wfj : ∀ g, s.det g = WFJ → parkF (s.pc g) = true) (uq : ∀ g a a', claimPath (s.pc a) g = true → claimPath (s.pc a') g = true → a = a') (hw : ∀ a op g v p, s.pc a = .wake op g v p → s.holder p = some a ∧ parkedIn (s.pc p) p g = true) (cxj : ∀ a g x, s.pc a = .jCas g x → x ≠ WTJ ∧ x ≠ DET) (cxd : ∀ a g x, s.pc a = .dCas g x → x ≠ WTJ ∧ x ≠ DET) (cxf : ∀ a x, s.pc a = .fCas x → x ≠ DET) (dr : ∀ g, s.det g ≤ 3) (hc : stepCore s e = some s1) : ∀ g b, takePh (s1.pc b) g = true → parkF (s1.pc g) = true := by
  step_cases e with hc
  all_goals (intros; (try simp only [upd_apply, WFJ, DET, NONE, WTJ] at *); first | grind | grind (splits := 25) | grind (splits := 80) | ((repeat' split) <;> grind (splits := 80)) | skip)

set_option maxHeartbeats 4000000 in
theorem inv2_c9 (c9 : ∀ g, s.det g = WTJ → (s.first g ≠ none ∧ ∀ p, s.first g = some p → joinerPark (s.pc p) g = true)) (fj : ∀ p g, joinerPath (s.pc p) g = true → s.first g = some p) (wfj : ∀ g, s.det g = WFJ → parkF (s.pc g) = true) (uq : ∀ g a a', claimPath (s.pc a) g = true → claimPath (s.pc a') g = true → a = a') (hw : ∀ a op g v p, s.pc a = .wake op g v p → s.holder p = some a ∧ parkedIn (s.pc p) p g = true) (hf : (∀ a p, s.pc a = .fGot p → s.holder p = some a ∧ s.pc p = .jParked a) ∧ (∀ a p v, s.pc a = .fGotRes p v → s.holder p = some a ∧ s.pc p = .jParked a) ∧ (∀ a p, s.pc a = .fGave p → s.holder p = some a ∧ s.pc p = .jParked a)) (cpn : ∀ a g, claimPath (s.pc a) g = true → s.det g ≠ NONE) (wtj : ∀ g, s.det g = WTJ → finX (s.pc g) = false) (k5 : ∀ g p, joinerPark (s.pc p) g = true → ((s.det g = WTJ ∧ finX (s.pc g) = false) ∨ (s.det g = DET ∧ finX (s.pc g) = true))) (cxj : ∀ a g x, s.pc a = .jCas g x → x ≠ WTJ ∧ x ≠ DET) (cxd : ∀ a g x, s.pc a = .dCas g x → x ≠ WTJ ∧ x ≠ DET) (cxf : ∀ a x, s.pc a = .fCas x → x ≠ DET) (dr : ∀ g, s.det g ≤ 3) (hc : stepCore s e = some s1) : ∀ g, s1.det g = WTJ → (s1.first g ≠ none ∧ ∀ p, s1.first g = some p → joinerPark (s1.pc p) g = true) := by
  step_cases e with hc
  all_goals (intros; (try simp only [upd_apply, WFJ, DET, NONE, WTJ] at *); first | grind | grind (splits := 25) | grind (splits := 80) | ((repeat' split) <;> grind (splits := 80)) | skip)

set_option maxHeartbeats 4000000 in
theorem inv2_ii (ii : ∀ g, s.pc g = .fTake → (s.first g ≠ none ∧ ∀ p, s.first g = some p → joinerPark (s.pc p) g = true)) (c9 : ∀ g, s.det g = WTJ → (s.first g ≠ none ∧ ∀ p, s.first g = some p → joinerPark (s.pc p) g = true)) (uq : ∀ g a a', claimPath (s.pc a) g = true → claimPath (s.pc a') g = true → a = a') (hw : ∀ a op g v p, s.pc a = .wake op g v p → s.holder p = some a ∧ parkedIn (s.pc p) p g = true) (hf : (∀ a p, s.pc a = .fGot p → s.holder p = some a ∧ s.pc p = .jParked a) ∧ (∀ a p v, s.pc a = .fGotRes p v → s.holder p = some a ∧ s.pc p = .jParked a) ∧ (∀ a p, s.pc a = .fGave p → s.holder p = some a ∧ s.pc p = .jParked a)) (cxj : ∀ a g x, s.pc a = .jCas g x → x ≠ WTJ ∧ x ≠ DET) (cxd : ∀ a g x, s.pc a = .dCas g x → x ≠ WTJ ∧ x ≠ DET) (cxf : ∀ a x, s.pc a = .fCas x → x ≠ DET) (dr : ∀ g, s.det g ≤ 3) (hc : stepCore s e = some s1) : ∀ g, s1.pc g = .fTake → (s1.first g ≠ none ∧ ∀ p, s1.first g = some p → joinerPark (s1.pc p) g = true) := by
  step_cases e with hc
  all_goals (intros; (try simp only [upd_apply, WFJ, DET, NONE, WTJ] at *); first | grind | grind (splits := 25) | grind (splits := 80) | ((repeat' split) <;> grind (splits := 80)) | skip)

set_option maxHeartbeats 4000000 in
theorem inv2_iii (iii : ∀ g p, joinerPark (s.pc p) g = true → finX (s.pc g) = true → delivering (s.pc g) p = true) (k5 : ∀ g p, joinerPark (s.pc p) g = true → ((s.det g = WTJ ∧ finX (s.pc g) = false) ∨ (s.det g = DET ∧ finX (s.pc g) = true))) (cpn : ∀ a g, claimPath (s.pc a) g = true → s.det g ≠ NONE) (fxn : ∀ g, finX (s.pc g) = true → s.det g ≠ NONE) (wfj : ∀ g, s.det g = WFJ → parkF (s.pc g) = true) (mb : ∀ g, s.ji g ≠ 0 → parkedIn (s.pc (s.ji g)) (s.ji g) g = true ∧ s.holder (s.ji g) = none) (uq : ∀ g a a', claimPath (s.pc a) g = true → claimPath (s.pc a') g = true → a = a') (hf : (∀ a p, s.pc a = .fGot p → s.holder p = some a ∧ s.pc p = .jParked a) ∧ (∀ a p v, s.pc a = .fGotRes p v → s.holder p = some a ∧ s.pc p = .jParked a) ∧ (∀ a p, s.pc a = .fGave p → s.holder p = some a ∧ s.pc p = .jParked a)) (cxj : ∀ a g x, s.pc a = .jCas g x → x ≠ WTJ ∧ x ≠ DET) (cxd : ∀ a g x, s.pc a = .dCas g x → x ≠ WTJ ∧ x ≠ DET) (cxf : ∀ a x, s.pc a = .fCas x → x ≠ DET) (dr : ∀ g, s.det g ≤ 3) (hc : stepCore s e = some s1) : ∀ g p, joinerPark (s1.pc p) g = true → finX (s1.pc g) = true → delivering (s1.pc g) p = true := by
  step_cases e with hc
  all_goals (intros; (try simp only [upd_apply, WFJ, DET, NONE, WTJ] at *); first | grind | grind (splits := 25) | grind (splits := 80) | ((repeat' split) <;> grind (splits := 80)) | skip)

set_option maxHeartbeats 4000000 in
theorem inv2_iv (iv : ∀ g, parkF (s.pc g) = true → s.det g ≠ WFJ → (s.taker g ≠ none ∧ ∀ b, s.taker g = some b → takePh (s.pc b) g = true)) (hw : ∀ a op g v p, s.pc a = .wake op g v p → s.holder p = some a ∧ parkedIn (s.pc p) p g = true) (uq : ∀ g a a', claimPath (s.pc a) g = true → claimPath (s.pc a') g = true → a = a') (wfj : ∀ g, s.det g = WFJ → parkF (s.pc g) = true) (c1 : ∀ g b, takePh (s.pc b) g = true → parkF (s.pc g) = true) (cxj : ∀ a g x, s.pc a = .jCas g x → x ≠ WTJ ∧ x ≠ DET) (cxd : ∀ a g x, s.pc a = .dCas g x → x ≠ WTJ ∧ x ≠ DET) (cxf : ∀ a x, s.pc a = .fCas x → x ≠ DET) (dr : ∀ g, s.det g ≤ 3) (hc : stepCore s e = some s1) : ∀ g, parkF (s1.pc g) = true → s1.det g ≠ WFJ → (s1.taker g ≠ none ∧ ∀ b, s1.taker g = some b → takePh (s1.pc b) g = true) := by
  step_cases e with hc
  all_goals (intros; (try simp only [upd_apply, WFJ, DET, NONE, WTJ] at *); first | grind | grind (splits := 25) | grind (splits := 80) | ((repeat' split) <;> grind (splits := 80)) | skip)

set_option maxHeartbeats 4000000 in
theorem inv2_t4 (t4 : ∀ g, s.detX g = true → s.det g = DET) (cxj : ∀ a g x, s.pc a = .jCas g x → x ≠ WTJ ∧ x ≠ DET) (cxd : ∀ a g x, s.pc a = .dCas g x → x ≠ WTJ ∧ x ≠ DET) (cxf : ∀ a x, s.pc a = .fCas x → x ≠ DET) (dr : ∀ g, s.det g ≤ 3) (hc : stepCore s e = some s1) : ∀ g, s1.detX g = true → s1.det g = DET := by
  step_cases e with hc
  all_goals (intros; (try simp only [upd_apply, WFJ, DET, NONE, WTJ] at *); first | grind | grind (splits := 25) | grind (splits := 80) | ((repeat' split) <;> grind (splits := 80)) | skip)

set_option maxHeartbeats 4000000 in
theorem inv2_dx1 (dx1 : ∀ g, s.detX g = true → s.succ g = []) (dx2 : ∀ g a, s.detX g = true → claimPath (s.pc a) g = true → detTake (s.pc a) g = true) (scn : ∀ g, s.succ g ≠ [] → s.det g ≠ NONE) (k4 : ∀ g, s.succ g ≠ [] → s.det g = DET) (t4 : ∀ g, s.detX g = true → s.det g = DET) (detx : ∀ g, s.det g = DET → (s.detX g = true ∨ s.claimed g = true)) (cxj : ∀ a g x, s.pc a = .jCas g x → x ≠ WTJ ∧ x ≠ DET) (cxd : ∀ a g x, s.pc a = .dCas g x → x ≠ WTJ ∧ x ≠ DET) (cxf : ∀ a x, s.pc a = .fCas x → x ≠ DET) (dr : ∀ g, s.det g ≤ 3) (hc : stepCore s e = some s1) : ∀ g, s1.detX g = true → s1.succ g = [] := by
  step_cases e with hc
  all_goals (intros; (try simp only [upd_apply, WFJ, DET, NONE, WTJ] at *); first | grind | grind (splits := 25) | grind (splits := 80) | ((repeat' split) <;> grind (splits := 80)) | skip)

set_option maxHeartbeats 4000000 in
theorem inv2_dx2 (dx2 : ∀ g a, s.detX g = true → claimPath (s.pc a) g = true → detTake (s.pc a) g = true) (cpn : ∀ a g, claimPath (s.pc a) g = true → s.det g ≠ NONE) (k3 : ∀ g a, claimPath (s.pc a) g = true → s.det g ≠ WFJ) (t4 : ∀ g, s.detX g = true → s.det g = DET) (detx : ∀ g, s.det g = DET → (s.detX g = true ∨ s.claimed g = true)) (cxj : ∀ a g x, s.pc a = .jCas g x → x ≠ WTJ ∧ x ≠ DET) (cxd : ∀ a g x, s.pc a = .dCas g x → x ≠ WTJ ∧ x ≠ DET) (cxf : ∀ a x, s.pc a = .fCas x → x ≠ DET) (dr : ∀ g, s.det g ≤ 3) (hc : stepCore s e = some s1) : ∀ g a, s1.detX g = true → claimPath (s1.pc a) g = true → detTake (s1.pc a) g = true := by
  step_cases e with hc
  all_goals (intros; (try simp only [upd_apply, WFJ, DET, NONE, WTJ] at *); first | grind | grind (splits := 25) | grind (splits := 80) | ((repeat' split) <;> grind (splits := 80)) | skip)

theorem inv0_core (h0 : Inv0 s) (h1 : Inv1 s) (h2 : Inv2 s) (hc : stepCore s e = some s1) : Inv0 s1 :=
  ⟨inv0_dr h0 hc, inv0_wfj h0.wfj h2.k3 h1.hw h0.cxj h0.cxd h0.cxf h0.dr hc, inv0_detx h0 hc, inv0_fret h0 hc, inv0_cxj h0 hc, inv0_cxd h0 hc, inv0_cxf h0 hc, inv0_cpn h0 hc, inv0_scn h0 hc, inv0_fxn h0 hc, inv0_dst h0 hc, inv0_fj h0 hc, inv0_ff h0 hc, inv0_tcl h0 hc, inv0_fc h0 hc⟩

theorem inv1_core (h0 : Inv0 s) (h1 : Inv1 s) (h2 : Inv2 s) (hc : stepCore s e = some s1) : Inv1 s1 :=
  ⟨inv1_mb h1.mb h1.hh h1.hw h1.hf hc, inv1_hw h1.hw h1.mb h1.hf h1.hh hc, inv1_hf h1.hf h1.mb h1.hw h1.hh hc, inv1_hh h1.hh h1.hw h1.hf h1.mb hc, inv1_st h1.st h0.fret h1.hf hc, inv1_t0 h1.t0 h0.wfj h0.cxj h0.cxd h0.cxf h0.dr hc, inv1_tv h1.tv h1.st h1.t0 hc, inv1_wv h1.wv h1.tv hc, inv1_gr h1.gr h1.st hc, inv1_gv h1.gv h1.gr h1.hf hc, inv1_dj h1.dj h0.detx h0.wfj h0.tcl h0.fc h1.hw h0.dr hc⟩

theorem inv2_core (h0 : Inv0 s) (h1 : Inv1 s) (h2 : Inv2 s) (hc : stepCore s e = some s1) : Inv2 s1 :=
  ⟨inv2_k3 h2.k3 h0.cpn h0.wfj h0.cxj h0.cxd h0.cxf h0.dr hc, inv2_k4 h2.k4 h2.k3 h0.scn h0.cpn h0.wfj h0.cxj h0.cxd h0.cxf h0.dr hc, inv2_k5 h2.k5 h0.cpn h0.wfj h1.hw h1.hf h2.uq h0.fxn h0.cxj h0.cxd h0.cxf h0.dr hc, inv2_wtj h2.wtj h0.wfj h0.fxn h0.cxj h0.cxd h0.cxf h0.dr hc, inv2_uq h2.uq h0.cpn h2.k3 h0.cxj h0.cxd h0.cxf h0.dr hc, inv2_sq h2.sq h2.uq h0.scn h2.k4 h2.k3 h0.cxj h0.cxd h0.cxf h0.dr hc, inv2_sl h2.sl h2.sq hc, inv2_cv1 h2.cv1 h1.gv h1.hf h1.hw h2.uq hc, inv2_cv2 h2.cv2 h2.cv1 hc, inv2_cv3 h2.cv3 h2.cv2 h1.wv hc, inv2_sv h2.sv h2.cv3 hc, inv2_c1 h2.c1 h0.wfj h2.uq h1.hw h0.cxj h0.cxd h0.cxf h0.dr hc, inv2_c9 h2.c9 h0.fj h0.wfj h2.uq h1.hw h1.hf h0.cpn h2.wtj h2.k5 h0.cxj h0.cxd h0.cxf h0.dr hc, inv2_ii h2.ii h2.c9 h2.uq h1.hw h1.hf h0.cxj h0.cxd h0.cxf h0.dr hc, inv2_iii h2.iii h2.k5 h0.cpn h0.fxn h0.wfj h1.mb h2.uq h1.hf h0.cxj h0.cxd h0.cxf h0.dr hc, inv2_iv h2.iv h1.hw h2.uq h0.wfj h2.c1 h0.cxj h0.cxd h0.cxf h0.dr hc, inv2_t4 h2.t4 h0.cxj h0.cxd h0.cxf h0.dr hc, inv2_dx1 h2.dx1 h2.dx2 h0.scn h2.k4 h2.t4 h0.detx h0.cxj h0.cxd h0.cxf h0.dr hc, inv2_dx2 h2.dx2 h0.cpn h2.k3 h2.t4 h0.detx h0.cxj h0.cxd h0.cxf h0.dr hc⟩

/-! ### layer 3: no post-swap access to a destroyed fiber -/

theorem core_late (hc : stepCore s e = some s1) : s1.late = s.late := by
  step_cases e with hc
  all_goals rfl

theorem destroyed_mono (hc : stepCore s e = some s1) (hcnt : e.counted = true) : s1.destroyed = s.destroyed := by
  step_cases e with hc
  all_goals (first | rfl | simp [Ev.counted] at hcnt)

set_option maxHeartbeats 4000000 in
/-- a counted (post-swap) access never hits a destroyed fiber -/
theorem no_late (dst : ∀ g, s.destroyed g = true → s.pc g = .fDone)
    (c1 : ∀ g b, takePh (s.pc b) g = true → parkF (s.pc g) = true)
    (iii : ∀ g p, s.pc p = .jParking g → finX (s.pc g) = true → delivering (s.pc g) p = true)
    (hw : ∀ a op g v p, s.pc a = .wake op g v p → s.holder p = some a ∧ parkedIn (s.pc p) p g = true)
    (hf : (∀ a p, s.pc a = .fGot p → s.holder p = some a ∧ s.pc p = .jParked a) ∧ (∀ a p v, s.pc a = .fGotRes p v → s.holder p = some a ∧ s.pc p = .jParked a) ∧ (∀ a p, s.pc a = .fGave p → s.holder p = some a ∧ s.pc p = .jParked a))
    (hc : stepCore s e = some s1) (hcnt : e.counted = true) (hd : s.destroyed e.cellOf = true) : False := by
  step_cases e with hc
  all_goals (first | (simp [Ev.counted] at hcnt; done) | skip)
  all_goals (simp only [Ev.cellOf] at *; grind)

def Inv3 (s : St) : Prop := ∀ g, s.late g = 0

/-! ### the invariant of all reachable states -/

structure Inv (s : St) : Prop where
  i0 : Inv0 s
  i1 : Inv1 s
  i2 : Inv2 s
  i3 : Inv3 s

theorem inv0_late {s : St} (l : Nat → Nat) (h : Inv0 s) : Inv0 { s with late := l } := by
  cases h; constructor <;> assumption
theorem inv1_late {s : St} (l : Nat → Nat) (h : Inv1 s) : Inv1 { s with late := l } := by
  cases h; constructor <;> assumption
theorem inv2_late {s : St} (l : Nat → Nat) (h : Inv2 s) : Inv2 { s with late := l } := by
  cases h; constructor <;> assumption

theorem inv_init (isT : Nat → Bool) : Inv (init isT) := by
  refine ⟨?_, ?_, ?_, ?_⟩
  · constructor <;> intros <;> simp_all [init, DET, NONE, WFJ, WTJ] <;> grind
  · constructor <;> intros <;> simp_all [init, DET, NONE, WFJ, WTJ]
  · constructor <;> intros <;> simp_all [init, DET, NONE, WFJ, WTJ] <;> grind
  · intro g; rfl

theorem inv_step (isT : Nat → Bool) (s : St) (e : Ev) (s' : St) (hI : Inv s)
    (h : (sys isT).step s e = some s') : Inv s' := by
  obtain ⟨s1, hc, rfl⟩ := step_some h
  obtain ⟨h0, h1, h2, h3⟩ := hI
  refine ⟨inv0_late _ (inv0_core h0 h1 h2 hc), inv1_late _ (inv1_core h0 h1 h2 hc), inv2_late _ (inv2_core h0 h1 h2 hc), ?_⟩
  intro g
  have hl : s1.late = s.late := core_late hc
  show (if e.counted = true ∧ s1.destroyed e.cellOf = true then upd s1.late e.cellOf (s1.late e.cellOf + 1) else s1.late) g = 0
  by_cases hcd : e.counted = true ∧ s1.destroyed e.cellOf = true
  · exfalso
    have hd : s.destroyed e.cellOf = true := by rw [← destroyed_mono hc hcd.1]; exact hcd.2
    exact no_late h0.dst h2.c1 (fun g p hp => h2.iii g p (by simp [hp])) h1.hw h1.hf hc hcd.1 hd
  · rw [if_neg hcd, hl]; exact h3 g

theorem inv_of_run {isT : Nat → Bool} {es : List Ev} {s : St} (h : (sys isT).run es = some s) : Inv s :=
  Sys.inv_of_run (sys isT) Inv (inv_init isT) (inv_step isT) h

end LibfiberVerif.JoinCas
