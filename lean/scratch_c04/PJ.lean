/-
  Proof/Join.lean — invariants of the join / tryjoin / detach / completion protocol model
  (Model/Join.lean), property C04.   (generated layout: one theorem per conjunct so that Lean
  elaborates them in parallel; every conjunct is proved by case analysis on the event and the
  acting fiber's program counter followed by `grind`.)

  Layers, all by induction over accepted events (`Sys.inv_of_run`), for an unbounded number of
  fibers, targets and calls:
    Inv0  simple unconditional facts about detach_state and the ghost fields
    Inv1  the mailbox discipline (a parked fiber is in at most one place: its mailbox, or in the
          hands of exactly one holder) and the value facts that follow from it
    Inv2  the protocol proper, for every target on which none of the three windows
          (tDetach / tThird / tOver, see Model/Join.lean) has been opened
    Inv3  no post-exchange access to a destroyed fiber (same hypothesis)
-/
import LibfiberVerif.Model.Join

namespace LibfiberVerif.Join

/-! ### predicates on program counters -/

/-- the fiber is past the exchange (or the DETACHED short-cut) of its own completion -/
@[simp, grind] def finX : Pc → Bool
  | .fPark0 | .fParking | .fParked | .fWoken | .fTake | .fGot _ | .fGotRes _ _ | .fGave _ | .fMark | .fDone => true
  | _ => false

/-- the fiber has stored its result -/
@[simp, grind] def stored : Pc → Bool
  | .fStored | .fLoaded => true
  | .fPark0 | .fParking | .fParked | .fWoken | .fTake | .fGot _ | .fGotRes _ _ | .fGave _ | .fMark | .fDone => true
  | _ => false

/-- the finished fiber is on its way into its own mailbox, or in it -/
@[simp, grind] def parkF : Pc → Bool
  | .fPark0 | .fParking | .fParked => true
  | _ => false

/-- a joiner on its way into g's mailbox, or in it -/
@[simp, grind] def joinerPark (c : Pc) (g : Nat) : Bool :=
  match c with
  | .jPark0 t | .jParking t | .jParked t => t == g
  | _ => false

@[simp, grind] def joinerPath (c : Pc) (g : Nat) : Bool :=
  match c with
  | .jPark0 t | .jParking t | .jParked t | .jWoken t | .jGotRes t _ => t == g
  | _ => false

/-- a client that claimed the finished fiber and has not woken it yet -/
@[simp, grind] def takePh (c : Pc) (g : Nat) : Bool :=
  match c with
  | .take0 _ t | .take _ t _ | .wake _ t _ _ => t == g
  | _ => false

/-- every program point from which a client still acts on g's mailbox / will report SUCCESS -/
@[simp, grind] def claimPath (c : Pc) (g : Nat) : Bool :=
  match c with
  | .jPark0 t | .jParking t | .jParked t | .jWoken t | .jGotRes t _ => t == g
  | .take0 _ t | .take _ t _ | .wake _ t _ _ => t == g
  | .retn op t ok _ => t == g && ok && op != .detach
  | _ => false

/-- a holds p: it took p out of a mailbox and is about to wake it -/
@[simp, grind] def holds (c : Pc) (p : Nat) : Bool :=
  match c with
  | .wake _ _ _ q | .fGot q | .fGotRes q _ | .fGave q => q == p
  | _ => false

/-- the finishing fiber holds its joiner p -/
@[simp, grind] def holdsF (c : Pc) (p : Nat) : Bool :=
  match c with
  | .fGot q | .fGotRes q _ | .fGave q => q == p
  | _ => false

/-- q is parked in g's mailbox protocol-wise -/
@[simp, grind] def parkedIn (c : Pc) (q g : Nat) : Bool :=
  match c with
  | .jParked t => t == g
  | .fParked => q == g
  | _ => false

/-- the finishing fiber is busy delivering to its joiner p -/
@[simp, grind] def delivering (c : Pc) (p : Nat) : Bool :=
  match c with
  | .fTake => true
  | .fGot q | .fGotRes q _ | .fGave q => q == p
  | _ => false

@[grind →] theorem jpk_jp {c g} (h : joinerPark c g = true) : joinerPath c g = true := by
  cases c <;> simp_all
@[grind →] theorem jp_cp {c g} (h : joinerPath c g = true) : claimPath c g = true := by
  cases c <;> simp_all
@[grind →] theorem tp_cp {c g} (h : takePh c g = true) : claimPath c g = true := by
  cases c <;> simp_all
@[grind →] theorem hf_h {c p} (h : holdsF c p = true) : holds c p = true := by
  cases c <;> simp_all
@[grind →] theorem fx_st {c} (h : finX c = true) : stored c = true := by
  cases c <;> simp_all
@[grind →] theorem pf_fx {c} (h : parkF c = true) : finX c = true := by
  cases c <;> simp_all

/-! ### from `step` to `stepCore` -/

theorem step_some {s : St} {e : Ev} {s' : St} (h : step s e = some s') :
    ∃ s1, stepCore s e = some s1 ∧
      s' = { s1 with late := if e.counted ∧ s1.destroyed e.cellOf then upd s1.late e.cellOf (s1.late e.cellOf + 1) else s1.late } := by
  unfold step at h
  cases hc : stepCore s e with
  | none => simp [hc] at h
  | some s1 => simp [hc] at h; exact ⟨s1, rfl, h.symm⟩

/-- case analysis on the event and on the acting fiber's program counter; leaves one goal per
    accepted branch of `stepCore`, with the successor state substituted -/
syntax "step_cases " ident " with " ident : tactic
macro_rules
  | `(tactic| step_cases $e with $hc) => `(tactic| (
      cases $e:ident <;> simp only [stepCore] at $hc:ident
      all_goals (repeat' split at $hc:ident)
      all_goals (try (simp at $hc:ident))
      all_goals (try subst $hc:ident)))

/-! ### layer 0: simple unconditional facts -/

structure Inv0 (s : St) : Prop where
  dr : ∀ g, s.det g ≤ 3
  wfj : ∀ g, s.det g = WFJ → finX (s.pc g) = true
  detx : ∀ g, s.det g = DET → s.detX g = true
  fret : ∀ g v, s.pc g = .fRet v → s.retval g = some v
  tl : ∀ a g, s.pc a = .loaded .tryjoin g → s.det g ≠ NONE
  cpn : ∀ a g, claimPath (s.pc a) g = true → s.det g ≠ NONE
  scn : ∀ g, s.succ g ≠ [] → s.det g ≠ NONE
  fxn : ∀ g, finX (s.pc g) = true → s.det g ≠ NONE
  dst : ∀ g, s.destroyed g = true → s.pc g = .fDone
  fj : ∀ p g, joinerPath (s.pc p) g = true → s.first g = some p
  ff : ∀ g, (parkF (s.pc g) = true ∨ s.pc g = .fWoken) → s.first g = some g
  tcl : ∀ b g, takePh (s.pc b) g = true → (s.claimed g = true ∨ s.detX g = true)
  fc : ∀ g p, holdsF (s.pc g) p = true → s.claimed g = true

variable {s s1 : St} {e : Ev}

set_option maxHeartbeats 4000000 in
theorem inv0_dr (h0 : Inv0 s) (hc : stepCore s e = some s1) : ∀ g, s1.det g ≤ 3 := by
  step_cases e with hc
  all_goals (intros; simp only [upd_apply, WFJ, DET, NONE, WTJ, untainted] at *; try grind)

set_option maxHeartbeats 4000000 in
theorem inv0_wfj (h0 : Inv0 s) (hc : stepCore s e = some s1) : ∀ g, s1.det g = WFJ → finX (s1.pc g) = true := by
  step_cases e with hc
  all_goals (intros; simp only [upd_apply, WFJ, DET, NONE, WTJ, untainted] at *; try grind)

set_option maxHeartbeats 4000000 in
theorem inv0_detx (h0 : Inv0 s) (hc : stepCore s e = some s1) : ∀ g, s1.det g = DET → s1.detX g = true := by
  step_cases e with hc
  all_goals (intros; simp only [upd_apply, WFJ, DET, NONE, WTJ, untainted] at *; try grind)

set_option maxHeartbeats 4000000 in
theorem inv0_fret (h0 : Inv0 s) (hc : stepCore s e = some s1) : ∀ g v, s1.pc g = .fRet v → s1.retval g = some v := by
  step_cases e with hc
  all_goals (intros; simp only [upd_apply, WFJ, DET, NONE, WTJ, untainted] at *; try grind)

set_option maxHeartbeats 4000000 in
theorem inv0_tl (h0 : Inv0 s) (hc : stepCore s e = some s1) : ∀ a g, s1.pc a = .loaded .tryjoin g → s1.det g ≠ NONE := by
  step_cases e with hc
  all_goals (intros; simp only [upd_apply, WFJ, DET, NONE, WTJ, untainted] at *; try grind)

set_option maxHeartbeats 4000000 in
theorem inv0_cpn (h0 : Inv0 s) (hc : stepCore s e = some s1) : ∀ a g, claimPath (s1.pc a) g = true → s1.det g ≠ NONE := by
  step_cases e with hc
  all_goals (intros; simp only [upd_apply, WFJ, DET, NONE, WTJ, untainted] at *; try grind)

set_option maxHeartbeats 4000000 in
theorem inv0_scn (h0 : Inv0 s) (hc : stepCore s e = some s1) : ∀ g, s1.succ g ≠ [] → s1.det g ≠ NONE := by
  step_cases e with hc
  all_goals (intros; simp only [upd_apply, WFJ, DET, NONE, WTJ, untainted] at *; try grind)

set_option maxHeartbeats 4000000 in
theorem inv0_fxn (h0 : Inv0 s) (hc : stepCore s e = some s1) : ∀ g, finX (s1.pc g) = true → s1.det g ≠ NONE := by
  step_cases e with hc
  all_goals (intros; simp only [upd_apply, WFJ, DET, NONE, WTJ, untainted] at *; try grind)

set_option maxHeartbeats 4000000 in
theorem inv0_dst (h0 : Inv0 s) (hc : stepCore s e = some s1) : ∀ g, s1.destroyed g = true → s1.pc g = .fDone := by
  step_cases e with hc
  all_goals (intros; simp only [upd_apply, WFJ, DET, NONE, WTJ, untainted] at *; try grind)

set_option maxHeartbeats 4000000 in
theorem inv0_fj (h0 : Inv0 s) (hc : stepCore s e = some s1) : ∀ p g, joinerPath (s1.pc p) g = true → s1.first g = some p := by
  step_cases e with hc
  all_goals (intros; simp only [upd_apply, WFJ, DET, NONE, WTJ, untainted] at *; try grind)

set_option maxHeartbeats 4000000 in
theorem inv0_ff (h0 : Inv0 s) (hc : stepCore s e = some s1) : ∀ g, (parkF (s1.pc g) = true ∨ s1.pc g = .fWoken) → s1.first g = some g := by
  step_cases e with hc
  all_goals (intros; simp only [upd_apply, WFJ, DET, NONE, WTJ, untainted] at *; try grind)

set_option maxHeartbeats 4000000 in
theorem inv0_tcl (h0 : Inv0 s) (hc : stepCore s e = some s1) : ∀ b g, takePh (s1.pc b) g = true → (s1.claimed g = true ∨ s1.detX g = true) := by
  step_cases e with hc
  all_goals (intros; simp only [upd_apply, WFJ, DET, NONE, WTJ, untainted] at *; try grind)

set_option maxHeartbeats 4000000 in
theorem inv0_fc (h0 : Inv0 s) (hc : stepCore s e = some s1) : ∀ g p, holdsF (s1.pc g) p = true → s1.claimed g = true := by
  step_cases e with hc
  all_goals (intros; simp only [upd_apply, WFJ, DET, NONE, WTJ, untainted] at *; try grind)

theorem inv0_core (h0 : Inv0 s) (hc : stepCore s e = some s1) : Inv0 s1 :=
  ⟨inv0_dr h0 hc, inv0_wfj h0 hc, inv0_detx h0 hc, inv0_fret h0 hc, inv0_tl h0 hc, inv0_cpn h0 hc, inv0_scn h0 hc, inv0_fxn h0 hc, inv0_dst h0 hc, inv0_fj h0 hc, inv0_ff h0 hc, inv0_tcl h0 hc, inv0_fc h0 hc⟩

/-! ### layer 1: mailbox discipline (holder uniqueness) and the values that travel -/

structure Inv1 (s : St) : Prop where
  mb : ∀ g q, s.ji g = q → q ≠ 0 → parkedIn (s.pc q) q g = true ∧ s.holder q = none
  hw : ∀ a op g v p, s.pc a = .wake op g v p → s.holder p = some a ∧ parkedIn (s.pc p) p g = true
  hf : ∀ a p, holdsF (s.pc a) p = true → s.holder p = some a ∧ s.pc p = .jParked a
  hh : ∀ p a, s.holder p = some a → holds (s.pc a) p = true
  st : ∀ g, stored (s.pc g) = true → s.retval g = some (s.res g)
  t0 : ∀ a op g, s.pc a = .take0 op g → finX (s.pc g) = true
  tv : ∀ a op g v, s.pc a = .take op g v → op ≠ .detach → s.retval g = some v
  wv : ∀ a op g v p, s.pc a = .wake op g v p → op ≠ .detach → s.retval g = some v
  gr : ∀ g p v, s.pc g = .fGotRes p v → s.retval g = some v
  gv : ∀ g p, s.pc g = .fGave p → s.retval g = some (s.res p)
  dj : ∀ g, (s.pc g = .fWoken ∨ s.pc g = .fMark ∨ s.pc g = .fDone) → (s.claimed g = true ∨ s.detX g = true)

theorem inv1_mb (h0 : Inv0 s) (h1 : Inv1 s) (hc : stepCore s e = some s1) : ∀ g q, s1.ji g = q → q ≠ 0 → parkedIn (s1.pc q) q g = true ∧ s1.holder q = none := by
  sorry

theorem inv1_hw (h0 : Inv0 s) (h1 : Inv1 s) (hc : stepCore s e = some s1) : ∀ a op g v p, s1.pc a = .wake op g v p → s1.holder p = some a ∧ parkedIn (s1.pc p) p g = true := by
  sorry

theorem inv1_hf (h0 : Inv0 s) (h1 : Inv1 s) (hc : stepCore s e = some s1) : ∀ a p, holdsF (s1.pc a) p = true → s1.holder p = some a ∧ s1.pc p = .jParked a := by
  sorry

theorem inv1_hh (h0 : Inv0 s) (h1 : Inv1 s) (hc : stepCore s e = some s1) : ∀ p a, s1.holder p = some a → holds (s1.pc a) p = true := by
  sorry

theorem inv1_st (h0 : Inv0 s) (h1 : Inv1 s) (hc : stepCore s e = some s1) : ∀ g, stored (s1.pc g) = true → s1.retval g = some (s1.res g) := by
  sorry

theorem inv1_t0 (h0 : Inv0 s) (h1 : Inv1 s) (hc : stepCore s e = some s1) : ∀ a op g, s1.pc a = .take0 op g → finX (s1.pc g) = true := by
  sorry

theorem inv1_tv (h0 : Inv0 s) (h1 : Inv1 s) (hc : stepCore s e = some s1) : ∀ a op g v, s1.pc a = .take op g v → op ≠ .detach → s1.retval g = some v := by
  sorry

theorem inv1_wv (h0 : Inv0 s) (h1 : Inv1 s) (hc : stepCore s e = some s1) : ∀ a op g v p, s1.pc a = .wake op g v p → op ≠ .detach → s1.retval g = some v := by
  sorry

theorem inv1_gr (h0 : Inv0 s) (h1 : Inv1 s) (hc : stepCore s e = some s1) : ∀ g p v, s1.pc g = .fGotRes p v → s1.retval g = some v := by
  sorry

theorem inv1_gv (h0 : Inv0 s) (h1 : Inv1 s) (hc : stepCore s e = some s1) : ∀ g p, s1.pc g = .fGave p → s1.retval g = some (s1.res p) := by
  sorry

theorem inv1_dj (h0 : Inv0 s) (h1 : Inv1 s) (hc : stepCore s e = some s1) : ∀ g, (s1.pc g = .fWoken ∨ s1.pc g = .fMark ∨ s1.pc g = .fDone) → (s1.claimed g = true ∨ s1.detX g = true) := by
  sorry

theorem inv1_core (h0 : Inv0 s) (h1 : Inv1 s) (hc : stepCore s e = some s1) : Inv1 s1 :=
  ⟨inv1_mb h0 h1 hc, inv1_hw h0 h1 hc, inv1_hf h0 h1 hc, inv1_hh h0 h1 hc, inv1_st h0 h1 hc, inv1_t0 h0 h1 hc, inv1_tv h0 h1 hc, inv1_wv h0 h1 hc, inv1_gr h0 h1 hc, inv1_gv h0 h1 hc, inv1_dj h0 h1 hc⟩

/-! ### layer 2: the protocol on targets without an opened window -/

structure Inv2 (s : St) : Prop where
  k3 : ∀ g a, untainted s g → claimPath (s.pc a) g = true → (s.det g ≠ WFJ ∨ s.finTook g = true)
  k4 : ∀ g, untainted s g → s.succ g ≠ [] → (s.det g ≠ WFJ ∨ s.finTook g = true)
  k5 : ∀ g p, untainted s g → joinerPark (s.pc p) g = true → (s.det g = WTJ ∨ (s.det g = WFJ ∧ s.finTook g = true))
  uq : ∀ g a a', untainted s g → claimPath (s.pc a) g = true → claimPath (s.pc a') g = true → a = a'
  sq : ∀ g a, untainted s g → s.succ g ≠ [] → claimPath (s.pc a) g = false
  sl : ∀ g, untainted s g → (s.succ g).length ≤ 1
  cv1 : ∀ g p, untainted s g → s.pc p = .jWoken g → s.retval g = some (s.res p)
  cv2 : ∀ g p v, untainted s g → s.pc p = .jGotRes g v → s.retval g = some v
  cv3 : ∀ g a op v, untainted s g → s.pc a = .retn op g true v → op ≠ .detach → s.retval g = some v
  sv : ∀ g v, untainted s g → v ∈ s.succ g → s.retval g = some v
  c1 : ∀ g b, untainted s g → takePh (s.pc b) g = true → parkF (s.pc g) = true
  c4 : ∀ g, untainted s g → s.det g = WFJ → (s.finTook g = true ∨ parkF (s.pc g) = true)
  c9 : ∀ g, untainted s g → s.det g = WTJ → finX (s.pc g) = false → (s.first g ≠ none ∧ ∀ p, s.first g = some p → joinerPark (s.pc p) g = true)
  ii : ∀ g, untainted s g → s.pc g = .fTake → (s.first g ≠ none ∧ ∀ p, s.first g = some p → joinerPark (s.pc p) g = true)
  iii : ∀ g p, untainted s g → joinerPark (s.pc p) g = true → finX (s.pc g) = true → delivering (s.pc g) p = true
  iv : ∀ g, untainted s g → parkF (s.pc g) = true → s.det g ≠ WFJ → (s.taker g ≠ none ∧ ∀ b, s.taker g = some b → takePh (s.pc b) g = true)
  t4 : ∀ g, untainted s g → s.detX g = true → s.det g = DET

theorem inv2_k3 (h0 : Inv0 s) (h1 : Inv1 s) (h2 : Inv2 s) (hc : stepCore s e = some s1) : ∀ g a, untainted s1 g → claimPath (s1.pc a) g = true → (s1.det g ≠ WFJ ∨ s1.finTook g = true) := by
  sorry

theorem inv2_k4 (h0 : Inv0 s) (h1 : Inv1 s) (h2 : Inv2 s) (hc : stepCore s e = some s1) : ∀ g, untainted s1 g → s1.succ g ≠ [] → (s1.det g ≠ WFJ ∨ s1.finTook g = true) := by
  sorry

theorem inv2_k5 (h0 : Inv0 s) (h1 : Inv1 s) (h2 : Inv2 s) (hc : stepCore s e = some s1) : ∀ g p, untainted s1 g → joinerPark (s1.pc p) g = true → (s1.det g = WTJ ∨ (s1.det g = WFJ ∧ s1.finTook g = true)) := by
  sorry

theorem inv2_uq (h0 : Inv0 s) (h1 : Inv1 s) (h2 : Inv2 s) (hc : stepCore s e = some s1) : ∀ g a a', untainted s1 g → claimPath (s1.pc a) g = true → claimPath (s1.pc a') g = true → a = a' := by
  sorry

theorem inv2_sq (h0 : Inv0 s) (h1 : Inv1 s) (h2 : Inv2 s) (hc : stepCore s e = some s1) : ∀ g a, untainted s1 g → s1.succ g ≠ [] → claimPath (s1.pc a) g = false := by
  sorry

theorem inv2_sl (h0 : Inv0 s) (h1 : Inv1 s) (h2 : Inv2 s) (hc : stepCore s e = some s1) : ∀ g, untainted s1 g → (s1.succ g).length ≤ 1 := by
  sorry

theorem inv2_cv1 (h0 : Inv0 s) (h1 : Inv1 s) (h2 : Inv2 s) (hc : stepCore s e = some s1) : ∀ g p, untainted s1 g → s1.pc p = .jWoken g → s1.retval g = some (s1.res p) := by
  sorry

theorem inv2_cv2 (h0 : Inv0 s) (h1 : Inv1 s) (h2 : Inv2 s) (hc : stepCore s e = some s1) : ∀ g p v, untainted s1 g → s1.pc p = .jGotRes g v → s1.retval g = some v := by
  sorry

theorem inv2_cv3 (h0 : Inv0 s) (h1 : Inv1 s) (h2 : Inv2 s) (hc : stepCore s e = some s1) : ∀ g a op v, untainted s1 g → s1.pc a = .retn op g true v → op ≠ .detach → s1.retval g = some v := by
  sorry

theorem inv2_sv (h0 : Inv0 s) (h1 : Inv1 s) (h2 : Inv2 s) (hc : stepCore s e = some s1) : ∀ g v, untainted s1 g → v ∈ s1.succ g → s1.retval g = some v := by
  sorry

theorem inv2_c1 (h0 : Inv0 s) (h1 : Inv1 s) (h2 : Inv2 s) (hc : stepCore s e = some s1) : ∀ g b, untainted s1 g → takePh (s1.pc b) g = true → parkF (s1.pc g) = true := by
  sorry

theorem inv2_c4 (h0 : Inv0 s) (h1 : Inv1 s) (h2 : Inv2 s) (hc : stepCore s e = some s1) : ∀ g, untainted s1 g → s1.det g = WFJ → (s1.finTook g = true ∨ parkF (s1.pc g) = true) := by
  sorry

theorem inv2_c9 (h0 : Inv0 s) (h1 : Inv1 s) (h2 : Inv2 s) (hc : stepCore s e = some s1) : ∀ g, untainted s1 g → s1.det g = WTJ → finX (s1.pc g) = false → (s1.first g ≠ none ∧ ∀ p, s1.first g = some p → joinerPark (s1.pc p) g = true) := by
  sorry

theorem inv2_ii (h0 : Inv0 s) (h1 : Inv1 s) (h2 : Inv2 s) (hc : stepCore s e = some s1) : ∀ g, untainted s1 g → s1.pc g = .fTake → (s1.first g ≠ none ∧ ∀ p, s1.first g = some p → joinerPark (s1.pc p) g = true) := by
  sorry

theorem inv2_iii (h0 : Inv0 s) (h1 : Inv1 s) (h2 : Inv2 s) (hc : stepCore s e = some s1) : ∀ g p, untainted s1 g → joinerPark (s1.pc p) g = true → finX (s1.pc g) = true → delivering (s1.pc g) p = true := by
  sorry

theorem inv2_iv (h0 : Inv0 s) (h1 : Inv1 s) (h2 : Inv2 s) (hc : stepCore s e = some s1) : ∀ g, untainted s1 g → parkF (s1.pc g) = true → s1.det g ≠ WFJ → (s1.taker g ≠ none ∧ ∀ b, s1.taker g = some b → takePh (s1.pc b) g = true) := by
  sorry

theorem inv2_t4 (h0 : Inv0 s) (h1 : Inv1 s) (h2 : Inv2 s) (hc : stepCore s e = some s1) : ∀ g, untainted s1 g → s1.detX g = true → s1.det g = DET := by
  sorry

theorem inv2_core (h0 : Inv0 s) (h1 : Inv1 s) (h2 : Inv2 s) (hc : stepCore s e = some s1) : Inv2 s1 :=
  ⟨inv2_k3 h0 h1 h2 hc, inv2_k4 h0 h1 h2 hc, inv2_k5 h0 h1 h2 hc, inv2_uq h0 h1 h2 hc, inv2_sq h0 h1 h2 hc, inv2_sl h0 h1 h2 hc, inv2_cv1 h0 h1 h2 hc, inv2_cv2 h0 h1 h2 hc, inv2_cv3 h0 h1 h2 hc, inv2_sv h0 h1 h2 hc, inv2_c1 h0 h1 h2 hc, inv2_c4 h0 h1 h2 hc, inv2_c9 h0 h1 h2 hc, inv2_ii h0 h1 h2 hc, inv2_iii h0 h1 h2 hc, inv2_iv h0 h1 h2 hc, inv2_t4 h0 h1 h2 hc⟩

end LibfiberVerif.Join
