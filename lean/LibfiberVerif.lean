import LibfiberVerif.Core.Sys
import LibfiberVerif.Core.Event
import LibfiberVerif.Core.QueueHist
import LibfiberVerif.Driver
import LibfiberVerif.Registry
