"""C01 (and the runtime half of C02) — whole-runtime model `Rt`: kernel threads, run queues,
fiber life-cycle, parking protocols."""
from specs import sched_env, n_cases


def gen_script(rng, maxf, maxops):
    nf = rng.randrange(2, maxf + 1)
    fibers = [[] for _ in range(nf)]
    # blocking ops and the op that releases them: semaphore wait/post, pipe k read/write
    release = {"w": "p", "r0": "x0", "r1": "x1"}
    need = {"p": 0, "x0": 0, "x1": 0}
    for i in range(nf):
        for _ in range(rng.randrange(1, maxops + 1)):
            r = rng.random()
            if r < 0.26:
                fibers[i] += ["l"] + (["y"] if rng.random() < 0.5 else []) + ["u"]
            elif r < 0.44:
                fibers[i].append("y")
            elif r < 0.56:
                fibers[i].append("s")
            elif r < 0.70:
                fibers[i].append("p")
            elif r < 0.80:
                fibers[i].append(rng.choice(["x0", "x1"]))
            elif r < 0.88:
                fibers[i].append("w")
            elif r < 0.93:
                # a wait on a descriptor epoll refuses (must fail cleanly), and a close of it
                fibers[i].append(rng.choice(["e", "e", "c"]))
            else:
                fibers[i].append(rng.choice(["r0", "r1"]))
    for f in fibers:
        for op in f:
            if op in release:
                need[release[op]] += 1
    # every blocking op must be matched by a release somewhere: give the missing ones to a
    # fiber that never blocks, up front, so no wait can block for ever
    noblock = [i for i in range(nf) if not any(op in release for op in fibers[i])]
    have = {k: sum(f.count(k) for f in fibers) for k in need}
    missing = [k for k in need for _ in range(max(0, need[k] - have[k]))]
    if missing and not noblock:
        fibers.append([])
        noblock = [len(fibers) - 1]
    for k in missing:
        fibers[rng.choice(noblock)].insert(0, k)
    # releases placed after a blocking op of the same fiber could deadlock when every fiber
    # blocks first: move all releases of blocking fibers before their first blocking op
    for f in fibers:
        if any(op in release for op in f):
            rel = [x for x in f if x in need]
            rest = [x for x in f if x not in need]
            f[:] = rel + rest
    return "|".join(",".join(f) if f else "y" for f in fibers)


STALL_FUNCS = ["fiber_manager_set_and_wait", "fiber_manager_wait_in_mpsc_queue", "fiber_manager_wait_in_mpmc_queue",
               "fiber_sleep", "fiber_mark_completed", "fiber_manager_wake_from_mpsc_queue", "fiber_manager_switch_to",
               "fiber_manager_clear_or_wait", "fiber_join", "fiber_manager_do_maintenance"]


def gen(rng, tier):
    cases = []
    for _ in range(n_cases(tier, 300, 4000)):
        k = rng.choice([1, 2, 2, 3, 3, 4])
        cases.append({"args": [k, gen_script(rng, 5 if tier == "quick" else 7, 3 if tier == "quick" else 5)],
                      "env": sched_env(rng, budget=600000)})
    # directed schedules: park a kernel thread inside one of the suspension / wake-up windows
    # (right after a write in that function) and let the others run - "every placement of a
    # wake-up or steal relative to the suspending context switch"
    for _ in range(n_cases(tier, 300, 3000)):
        k = rng.choice([2, 3, 3, 4])
        env = {"VR_SEED": rng.randrange(1, 1 << 30), "VR_SCHED": "rand", "VR_SWITCH": rng.choice([2, 3]),
               "VR_BUDGET": 600000, "VR_STALL_FUNC": rng.choice(STALL_FUNCS),
               "VR_STALL_LEN": rng.choice([60, 200, 600]), "VR_STALL_DEN": rng.choice([1, 2, 3])}
        cases.append({"args": [k, gen_script(rng, 6, 2)], "env": env})
    # join windows: several short-lived fibers and a few long yielders on 3-4 kernel threads, the
    # finishing fiber parked between its detach_state exchange and its context switch, so the
    # joiner polls the mailbox repeatedly and can be stolen between two polls
    for _ in range(n_cases(tier, 1500, 12000)):
        short = ["y"] * rng.randrange(2, 5)
        long_ = [",".join(["y"] * rng.randrange(5, 10)) for _ in range(rng.randrange(2, 4))]
        env = {"VR_SEED": rng.randrange(1, 1 << 30), "VR_SCHED": "rand", "VR_SWITCH": 2, "VR_BUDGET": 600000,
               "VR_STALL_FUNC": rng.choice(["fiber_mark_completed", "fiber_mark_completed", "fiber_manager_set_and_wait"]),
               "VR_STALL_LEN": rng.choice([200, 300, 600]), "VR_STALL_DEN": rng.choice([1, 2])}
        cases.append({"args": [rng.choice([3, 4]), "|".join(short + long_)], "env": env})
    return cases


def build():
    import vlib
    return vlib.build_harness("rt", runtime=True)


PART_RT = {"name": "rt", "harness": "rt", "model": "Rt", "runtime": True, "gen": gen, "build": build,
           "nontrivial": lambda s: s["hist"].get("rqsteal @Q#b", 0) + s["hist"].get("rqsteal @Q#a", 0) >= 1 or s["hist"].get("w F#.state", 0) >= 12}

def _borrow(pid, pname, n_quick, n_thorough, harness=None):
    """run another property's runtime harness (its scripts and schedules) and follow its log
    with the RUNTIME model: C01 quantifies over programs mixing all primitives"""
    def gen(rng, tier):
        import importlib
        m = importlib.import_module("specs_" + pid.lower())
        part = [p for p in m.SPEC[pid]["parts"] if p["name"] == pname][0]
        return part["gen"](rng, tier)[: (n_thorough if tier == "thorough" else n_quick)]
    part = {"name": "rt-" + pname, "harness": harness or pname, "model": "Rt", "runtime": True, "gen": gen,
            "nontrivial": lambda s: s["hist"].get("w F#.state", 0) >= 8}

    def build():
        import importlib
        m = importlib.import_module("specs_" + pid.lower())
        src = [p for p in m.SPEC[pid]["parts"] if p["name"] == pname][0]
        if callable(src.get("build")):
            return src["build"]()
        import vlib
        return vlib.build_harness(harness or pname, runtime=True)
    part["build"] = build
    return part


def _deque_parts():
    """C01 treats the run queues as bags at the deque API; that the deque hands every entry to
    exactly one taker (also while it grows, also at scale) is C02's - its deque correspondence and
    its scale part are re-run here, so that a deque that duplicates an entry (one fiber in two
    run queues = on two kernel threads) is reported by this check too"""
    def lazy(name):
        import importlib
        m = importlib.import_module("specs_c02")
        return [p for p in m.SPEC["C02"]["parts"] if p["name"] == name][0]

    def gen_wsd(rng, tier):
        cs = lazy("wsd")["gen"](rng, tier)
        rng.shuffle(cs)
        return cs[: (3000 if tier == "thorough" else 300)]

    def post_wsd(log, case):
        return lazy("wsd")["post"](log, case)

    def gen_scale(rng, tier):
        return lazy("wsd-scale")["gen"](rng, tier)

    import vlib
    return [{"name": "deque", "harness": "wsd", "model": "Wsd", "gen": gen_wsd, "post": post_wsd},
            {"name": "deque-scale", "harness": "wsdscale", "model": None, "gen": gen_scale, "post": vlib.oracle_note}]


def _cond_signallers():
    """two or more fibers signalling the same condition variable WITHOUT the user mutex while
    several fibers wait on it, 3-4 kernel threads: the wake path of one primitive entered by
    several kernel threads at once (its waiter queue has a single consumer only as long as
    the primitive serialises its signallers)"""
    part = _borrow("C05", "cond", 0, 0)

    def gen(rng, tier):
        cases = []
        for _ in range(n_cases(tier, 150, 1500)):
            nw = rng.randrange(2, 5)
            ns = rng.randrange(2, 4)
            fibers = ["w"] * nw + [",".join(rng.choice(["S", "S", "B"]) for _ in range(rng.randrange(2, 5))) for _ in range(ns)]
            rng.shuffle(fibers)
            env = sched_env(rng, budget=60000)
            if rng.random() < 0.5:
                env = {"VR_SEED": rng.randrange(1, 1 << 30), "VR_SCHED": "rand", "VR_SWITCH": 2, "VR_BUDGET": 60000}
            cases.append({"args": [rng.choice([3, 4]), "|".join(fibers)], "env": env})
        return cases
    part["name"] = "rt-cond-signallers"
    part["gen"] = gen
    return part


SPEC = {
    "C01": {
        "parts": [PART_RT,
                  _borrow("C03", "mutex", 80, 1000), _borrow("C05", "cond", 120, 1500), _cond_signallers(),
                  _borrow("C07", "rwlock", 80, 1000), _borrow("C12", "barrier", 80, 1000),
                  _borrow("C11", "signal", 80, 1000, harness="signal"),
                  _borrow("C11", "chan-bounded", 60, 800, harness="chan"),
                  _borrow("C11", "chan-unbounded", 60, 800, harness="chan"),
                  _borrow("C11", "chan-sp", 60, 800, harness="chan"),
                  _borrow("C11", "multichan", 80, 1000, harness="multichan"),
                  _borrow("C06", "sem", 80, 1000), _borrow("C20", "multisignal", 80, 1000),
                  _borrow("C09", "sleep", 80, 1000)] + _deque_parts(),
        "rule": "cases = (mixed program over yield/mutex/semaphore/sleep/join/pipe read+write (fd waits) for 2-7 fibers, plus the scripts of the mutex, condition-variable, rwlock, barrier, signal, channel (bounded/unbounded/sp), multi-channel, semaphore, multi-signal and sleep (virtual clock) harnesses followed by the runtime model, 1-4 kernel threads, scheduler kind+seed) from VERIF_SEED; distinct = different (script, sha1 of the access sequence); non-trivial = a fiber was stolen by another kernel thread or at least 12 state-word writes happened",
        "trusted_base": [
            "run queues as bags at the deque API (rqpush/rqpop/rqsteal call-site events; deque internals = model Wsd, C02)",
            "publication of a waiting fiber reduces to two rules (self-published with SAVING / published by the successor's maintenance); a primitive publishing otherwise is rejected at run time by the model's wake guard",
            "upstream's __tsan_switch_to_fiber call is placed before the stack switch in fiber_context_swap; no registered access lies between them"],
        "assumptions": ["scripts are deadlock-free by construction (posts reachable without waiting cover all waits; lock/unlock paired)"],
    },
}
