"""parts_multisignal.py — the multi-signal part of C20 (fiber_multi_signal_t of
include/fiber_signal.h: wait / raise / raise_strict on a (counter, head) pair updated by
compare_and_swap2).  Needs the fiber runtime, hence its own file; it is appended to
SPEC["C20"]["parts"] by tools/specs_c20_multisignal.py through specs_c20.add_part.

Two deadlock-free script families (never mixed, see harness/multisignal.c):
  token mode   waiters `t` (take a token: wait while none; pass the baton on if tokens are
               left), publishers `p` (publish, then raise), spurious raises `R`
  strict mode  waiters `W` (unconditional wait), ONE raiser doing `S` (raise_strict) or `s` (yield until
               a waiter is listed, then raise_strict), #W == #S+#s
"""
from specs import sched_env, n_cases


def _env(rng):
    env = sched_env(rng, budget=300000)
    # snapshot .. CAS2 is 3-4 scheduling points wide: switch a lot
    if env["VR_SCHED"] == "rand":
        env["VR_SWITCH"] = rng.choice([2, 2, 3, 4])
    elif env["VR_SCHED"] == "freeze":
        env["VR_FREEZE_DEN"] = rng.choice([3, 6, 12])
        env["VR_FREEZE_LEN"] = rng.choice([10, 25, 60, 200])
    else:
        env["VR_PCT_LEN"] = rng.choice([30, 80, 200])
    return env


def _sprinkle(rng, ops, p=0.2):
    out = []
    for o in ops:
        out.append(o)
        if rng.random() < p:
            out.append("y")
    return out


def _split(rng, n, parts):
    c = [0] * parts
    for _ in range(n):
        c[rng.randrange(parts)] += 1
    return c


def gen_multisignal(rng, tier):
    cases = []
    for _ in range(n_cases(tier, 600, 5000)):
        k = rng.choice([1, 2, 2, 3, 3])
        n = rng.randrange(1, 7 if tier == "quick" else 12)
        nw = rng.choice([1, 2, 2, 3])
        nr = rng.choice([1, 2, 2, 3])
        fibers = []
        if rng.random() < 0.7:
            for c in _split(rng, n, nw):
                fibers.append(",".join(_sprinkle(rng, ["t"] * c)) or "y")
            for c in _split(rng, n, nr):
                ops = ["p"] * c + ["R"] * rng.choice([0, 0, 1, 2])
                rng.shuffle(ops)
                fibers.append(",".join(_sprinkle(rng, ops)) or "y")
        else:
            for c in _split(rng, n, nw):
                fibers.append(",".join(_sprinkle(rng, ["W"] * c)) or "y")
            # raise_strict busy-waits without yielding its kernel thread: ONE raising fiber;
            # on one kernel thread it first yields until a waiter is listed (`s`)
            ops = [("s" if (k == 1 or rng.random() < 0.5) else "S") for _ in range(n)]
            fibers.append(",".join(_sprinkle(rng, ops)))
        rng.shuffle(fibers)
        cases.append({"args": [k, "|".join(fibers)], "env": _env(rng)})
    return cases


PART_MULTISIGNAL = {
    "name": "multisignal", "harness": "multisignal", "model": "MultiSignal", "runtime": True,
    "gen": gen_multisignal,
    "nontrivial": lambda s: s["casfail"] > 0 or s["hist"].get("w F#.state", 0) >= 1,
}

TRUSTED_BASE_MULTISIGNAL = [
    "multi-signal: scheduler traffic on fiber state words is skipped (runtime model, C01/C02) except the deferred set_wait_location write executed by the successor, which is a model step; a woken fiber is eventually run (C02)",
]
ASSUMPTIONS_MULTISIGNAL = [
    "multi-signal: a waiting fiber's node (its own mpsc_fifo_node) stays readable while raisers may hold a stale snapshot (the TODO in fiber_multi_signal_raise: fibers are not freed while a raise is in flight)",
]
