"""C04 — fiber_join / fiber_tryjoin / fiber_detach against fiber completion (src/fiber.c,
set_and_wait / clear_or_wait / deferred set_wait_location / done_fiber in src/fiber_manager.c)."""
import os

from specs import sched_env, n_cases
import vlib

# "Join" = the code in /repo; "JoinCas" = the candidate fix docs/fix-C04.diff (only together
# with VERIF_REPO=<tree with the fix applied>)
MODEL = os.environ.get("VERIF_C04_MODEL", "Join")


def gen_case(rng, tier):
    nt = rng.choice([1, 1, 1, 2, 2, 3])
    yields = [rng.choice([0, 0, 1, 1, 2, 3, 5]) for _ in range(nt)]
    na = rng.randrange(2, 6)
    maxops = 3 if tier == "quick" else 5
    style = rng.random()
    actors = []
    for _ in range(na):
        ops = []
        for _ in range(rng.randrange(0, 3)):
            ops.append("y")
        for _ in range(rng.randrange(1, maxops + 1)):
            i = rng.randrange(nt)
            r = rng.random()
            if style < 0.25:
                # no detach at all: joiners and try-joiners only
                op = "j" if r < 0.45 else ("t" if r < 0.85 else "y")
            elif style < 0.45:
                # tryjoin polling against detach
                op = "t" if r < 0.6 else ("d" if r < 0.8 else "y")
            else:
                op = "j" if r < 0.3 else ("t" if r < 0.6 else ("d" if r < 0.8 else "y"))
            # a quarter of the joins / try-joins pass a NULL result pointer (ops J / T): the code
            # then skips its reads of the result cells but must still clear the joiner's hand-over
            # slot.  The candidate-fix model (JoinCas) has no NULL-result steps yet.
            if op in ("j", "t") and MODEL == "Join" and rng.random() < 0.25:
                op = op.upper()
            ops.append(op if op == "y" else "%s%d" % (op, i))
        actors.append(",".join(ops))
    k = rng.choice([1, 2, 2, 3])
    env = sched_env(rng, budget=600000)
    while k > 1 and env["VR_SCHED"] == "pct":
        # strict-priority schedules are unfair by design: once one of the known hangs has
        # happened (two fibers ping-ponging in clear_or_wait on one kernel thread never look idle)
        # a lower-priority kernel thread is starved for the rest of the run and an unrelated,
        # perfectly healthy join on ANOTHER target is reported as stranded
        env = sched_env(rng, budget=600000)
    return {"args": [k, ",".join(map(str, yields)), "|".join(actors)], "env": env}


def gen(rng, tier):
    return [gen_case(rng, tier) for _ in range(n_cases(tier, 400, 6000))]


def nontrivial(sig):
    h = sig["hist"]
    # a mailbox hand-over happened and at least two client calls were made
    calls = sum(v for k, v in h.items() if k.startswith("note call"))
    took = sum(v for k, v in h.items() if k.startswith("w F#.join_info"))
    return took >= 1 and calls >= 2


SPEC = {
    "C04": {
        "parts": [{"name": "join", "harness": "join", "model": MODEL, "runtime": True, "gen": gen,
                   # STRANDED = the harness gave up polling; what is stranded, and whether that is held
                   # against the library, is the monitor's verdict on the log
                   "ok_status": ("OK", "STRANDED"),
                   # the model is of the code AS IT IS, windows of the known findings included: a run
                   # excused by a known finding must still be accepted by the model, otherwise a change
                   # that only acts inside such a window would hide behind the finding
                   "known_must_validate": True,
                   "nontrivial": nontrivial}],
        "rule": "cases = (1-3 target fibers with 0-5 yields each, 2-5 actor fibers with scripts over join/tryjoin/detach/yield (a quarter of the joins/tryjoins with a NULL result pointer), 1-3 kernel threads, scheduler kind+seed) from VERIF_SEED; distinct = different (args, sha1 of access sequence); non-trivial = a fiber was parked in a join_info mailbox and taken out by another one, with at least two client calls in the run",
        "trusted_base": [
            "scheduler traffic on fiber state words (yield / switch / run queues) is not modelled here (C01/C02); it is only watched for accesses to a destroyed fiber",
            "freed fiber_t / queue node of the target fibers are quarantined by the harness (free interposed for exactly those blocks) so that a late access is observable instead of undefined",
            "the targets' stacks: reclaimed-once is observed through upstream's __tsan_destroy_fiber call in fiber_context_destroy; 'not touched afterwards' = no switch to and no event by the destroyed fiber"],
        "assumptions": [
            "client contract (handle validity): no call on a target is ISSUED after a join/tryjoin on it returned SUCCESS, after a detach on it returned, or once the harness knows the fiber_t has been freed; calls issued earlier may overlap arbitrarily (N joiners, join-then-detach, tryjoin x k, detach vs finish)",
            "a call that has not yet exchanged detach_state when the target is (legitimately) destroyed has no claim on the fiber: its handle was invalid, what it does afterwards is not held against the library (raw-pointer handles; the client cannot know) - such calls are marked in the monitor and nothing they do is reported",
            "return values of the target functions are distinct non-NULL tokens",
            "strict-priority (pct) schedules are used with one kernel thread only (they starve healthy fibers once one of the known hangs has occurred)"],
    },
}
