#!/usr/bin/env python3
"""Regenerate the per-property table in DESIGN.md (between PROP-TABLE markers) from the specs,
the Props files and known_findings.json."""
import json
import os
import re
import sys

sys.path.insert(0, os.path.dirname(os.path.abspath(__file__)))
import specs
import vlib

VERIF = os.path.dirname(os.path.dirname(os.path.abspath(__file__)))
TRANSLATORS = {"C08": "extract/io_extract.py → Gen/IoDecisions.lean",
               "C09": "extract/sleep_extract.py → Gen/SleepDecisions.lean; extract/poll_extract.py (idle polling never switched off)",
               "C19": "extract/ctx_extract.py → Gen/CtxAsm.lean; extract/create_extract.py (failed-init branch)",
               "C03": "extract/wake_extract.py (wake loops: no exit but the count, count untouched)",
               "C05": "extract/wake_extract.py", "C06": "extract/wake_extract.py", "C07": "extract/wake_extract.py", "C12": "extract/wake_extract.py",
               "C17": "extract/wq_extract.py (counter widths, wait-loop exits; fails closed)",
               "C13": "extract/mpmc_extract.py (push/trypop retry loops: exits exactly CAS success and `!prev`; fails closed)",
               "C18": "extract/spin_extract.py (spin loop single exit, lock-word layout and widths, loop-free trylock/unlock; fails closed)",
               "C16": "extract/ring_extract.py → harness argument → init note (selects RingW variant)"}


def main():
    kf = json.load(open(os.path.join(VERIF, "known_findings.json")))
    rows = ["| property | theorems (Props/<id> + shared obligations) | correspondence parts (harness→model) | translator | fix commits | known findings |",
            "|---|---|---|---|---|---|"]
    allspecs = specs.load_specs()
    for pid in sorted(allspecs):
        sp = allspecs[pid]
        own = len(vlib.prop_theorems(pid))
        extra = ["%s %d" % (e, len(vlib.prop_theorems(e))) for e in sp.get("extra_props", ())]
        parts = []
        for p in sp["parts"]:
            s = "%s→%s" % (p.get("harness") or p["name"], p.get("model") or "oracle")
            if s not in parts:
                parts.append(s)
        fixes = [f["commit"] for f in kf.get("fixed", []) if f["property"] == pid]
        finds = [f["id"] for f in kf.get("findings", []) if f["property"] == pid]
        rows.append("| %s | %d%s | %s | %s | %s | %s |" % (
            pid, own, (" + " + ", ".join(extra)) if extra else "", ", ".join(parts)[:300],
            "; ".join([x for x in (TRANSLATORS.get(pid), "extract/loops.py (control skeleton vs tools/loop_profile/%s.json)" % pid
                                   if os.path.exists(os.path.join(VERIF, "tools", "loop_profile", pid + ".json")) else None) if x]) or "—",
            ", ".join(fixes) or "—", ", ".join(finds) or "—"))
    p = os.path.join(VERIF, "DESIGN.md")
    s = open(p).read()
    b, e = "<!-- PROP-TABLE-BEGIN -->", "<!-- PROP-TABLE-END -->"
    i, j = s.index(b), s.index(e)
    s = s[:i + len(b)] + "\n" + "\n".join(rows) + "\n" + s[j:]
    open(p, "w").write(s)
    print(len(rows) - 2, "rows")


if __name__ == "__main__":
    main()
