#!/usr/bin/env python3
"""mkmanifest.py — regenerate /verif/MANIFEST.json from tools/specs_*.py + tools/levels.json."""
import json
import os
import sys

sys.path.insert(0, os.path.dirname(os.path.abspath(__file__)))
from specs import load_specs  # noqa: E402

VERIF = os.path.dirname(os.path.dirname(os.path.abspath(__file__)))
levels = json.load(open(os.path.join(VERIF, "tools", "levels.json")))
specs = load_specs()
props = [json.loads(l)["id"] for l in open(os.path.join(VERIF, "properties.jsonl"))]
checks = []
na = []
for pid in props:
    lv = levels.get(pid)
    if pid in specs and lv and lv.get("claimed", True):
        checks.append({
            "property_id": pid,
            "quick_cmd": "python3 tools/check.py %s --tier quick" % pid,
            "thorough_cmd": "python3 tools/check.py %s --tier thorough" % pid,
            "evidence_file": "evidence/%s.json" % pid,
            "replay_cmd_template": "python3 tools/check.py %s --replay {path}" % pid,
            "engine": "lean-proof+detsched-correspondence",
            "level_claimed": {"category": "proof", "text": lv["text"], "design_ref": lv.get("design_ref", "DESIGN.md §5 " + pid)},
            "level_note": lv["note"],
            "technique": lv.get("technique", "Lean 4 invariant proof over an executable model + trace validation of the instrumented implementation against the model"),
        })
    else:
        na.append({"property_id": pid, "reason": (lv or {}).get("na_reason", "check not built yet (work in progress; see DESIGN.md §9 build order) — not claimed")})
m = {
    "version": 1,
    "setup_cmd": "python3 tools/setup.py",
    "hooks": {
        "guard": "BRIANWATLING_LIBFIBER_VERIF",
        "enable": "no source hooks: /repo sources are compiled unmodified with gcc -fsanitize=thread -DBRIANWATLING_LIBFIBER_VERIF and linked against rt/vrt.c (our TSan-ABI runtime); inline-asm primitives are wrapped by -include rt/shim.h",
        "baseline_off_cmd": "cmake -G Ninja -S /repo -B /repo/_build && cmake --build /repo/_build && ctest --test-dir /repo/_build -j8 --timeout 900",
        "source_commits": [],
        "add_only": True,
    },
    "engines": [
        {"name": "lean-proofs", "path": "lean/", "serves_properties": [c["property_id"] for c in checks],
         "kind_free_text": "Lean 4 models (Model/), invariants (Proof/), property theorems (Props/), axiom audit"},
        {"name": "detsched-correspondence", "path": "rt/ harness/ tools/", "serves_properties": [c["property_id"] for c in checks],
         "kind_free_text": "instrumented real code under a deterministic baton scheduler; every shared access replayed through the Lean model's step function (verifdrv); API-level monitors as failing-input search"},
    ],
    "checks": checks,
    "not_applicable": na,
    "notes": "See DESIGN.md. known_findings.json lists recorded defects and fixes.",
}
json.dump(m, open(os.path.join(VERIF, "MANIFEST.json"), "w"), indent=1)
print("checks:", [c["property_id"] for c in checks])
print("not claimed:", [n["property_id"] for n in na])
