"""C15 — MPSC / SPSC / relaxed MPSC queues (include/mpsc_fifo.h, spsc_fifo.h,
mpsc_relaxed_fifo.h).

Script thread 0 is the single consumer, every other thread is a producer (exactly one for
SPSC; producer number = thread - 1 for the relaxed queue).  Values are distinct positive
integers.  The MPSC consumer mixes `k` = mpsc_fifo_peek into its pops (the other two headers
have no peek); the driver's peek oracle (Mpsc.peekMonitor) demands that a peek which reported v
is followed by the consumer's next pop returning v, with every peek in between reporting v
again.  `spare` = nodes on the harness's LIFO free list at start; popped stubs go back on
it, so node identities are reused as early as the API contract allows."""
from specs import sched_env, n_cases


def _script(rng, tier, nprod, nxt, peek=False):
    maxops = 8 if tier == "quick" else 20
    total = 0
    prods = []
    for _ in range(nprod):
        k = rng.randrange(1, maxops + 1)
        ops = []
        for _ in range(k):
            ops.append("p%d" % nxt[0])
            nxt[0] += 1
        total += k
        prods.append(",".join(ops))
    # the consumer pops a bit less / a bit more than what is pushed, so that both "empty"
    # answers during the run and a non-trivial final drain occur
    npop = max(1, min(maxops if tier == "quick" else 60, total + rng.randrange(-3, 4)))
    cons = ["o"] * npop
    if peek:
        # mpsc_fifo_peek (consumer side only): a minority of the consumer's ops; often a peek
        # right before a pop, sometimes several peeks in a row (stability)
        out = []
        frac = rng.choice([0.0, 0.15, 0.3, 0.45])
        for op in cons:
            while rng.random() < frac and len(out) < 3 * npop:
                out.append("k")
            out.append(op)
        if rng.random() < 0.3:
            out.append("k")
        cons = out
    return "|".join([",".join(cons)] + prods)


def gen_mpsc(rng, tier):
    cases = []
    for _ in range(n_cases(tier, 500, 6000)):
        nprod = rng.choice([2, 2, 3, 3, 4])
        spare = rng.choice([2, 3]) * nprod if rng.random() < 0.7 else rng.choice([0, 1, 2])
        cases.append(_null_payload(rng, {"args": [spare, _script(rng, tier, nprod, [1], peek=True)], "env": sched_env(rng)}))
    return cases


def _null_payload(rng, case, share=0.3):
    """for a share of the cases one pushed item travels through the real code as a NULL payload
    (legal: payloads are opaque `void*`; only the NODE returned by trypop says "not empty"): the
    harness stores payload word v - k and the runtime prints the data cells plus k again
    (VR_BIAS), so the model — to which payloads are opaque — keeps seeing the distinct positive
    abstract values.  k is one of the pushed values, mostly not the first one of its producer
    (the initial stub is zero-filled, which hides a payload that was not copied)."""
    if rng.random() >= share:
        return case
    script = [a for a in case["args"] if isinstance(a, str) and "|" in a][0]
    vals = []
    for prod in script.split("|")[1:]:
        pv = [int(op[1:]) for op in prod.split(",") if op.startswith("p")]
        vals += pv[1:] if len(pv) > 1 and rng.random() < 0.85 else pv
    if vals:
        case["env"] = dict(case["env"], VR_BIAS=".data:%d" % rng.choice(vals))
    return case


def gen_spsc(rng, tier):
    cases = []
    for _ in range(n_cases(tier, 250, 3000)):
        spare = rng.choice([0, 1, 2, 3])
        cases.append(_null_payload(rng, {"args": [spare, _script(rng, tier, 1, [1])], "env": sched_env(rng)}))
    return cases


def gen_mpscr(rng, tier):
    cases = []
    for _ in range(n_cases(tier, 400, 5000)):
        nprod = rng.choice([2, 2, 3, 4])
        np_ = nprod + (1 if rng.random() < 0.2 else 0)  # sometimes an unused producer slot
        spare = rng.choice([2, 3]) * nprod if rng.random() < 0.7 else rng.choice([0, 1, 2])
        cases.append(_null_payload(rng, {"args": [np_, spare, _script(rng, tier, nprod, [1])], "env": sched_env(rng)}))
    # many producer numbers, few threads: the racing producers' numbers are 256 or 65536 apart
    # (a narrowed index would make them share one sub-queue)
    for _ in range(n_cases(tier, 40, 400)):
        stride = rng.choice([256, 256, 255, 257, 512])
        nprod = rng.choice([2, 2, 3])
        first = rng.randrange(0, 5)
        np_ = first + (nprod - 1) * stride + 1 + rng.randrange(0, 3)
        cases.append({"args": [np_, rng.choice([0, 2, 4]), _script(rng, tier, nprod, [1]), first, stride], "env": sched_env(rng)})
    return cases


SPEC = {
    "C15": {
        "extra_props": ("AbsQueue", "QueueHist",),
        "parts": [
            {"name": "mpsc", "harness": "mpsc", "model": "Mpsc", "gen": gen_mpsc},
            {"name": "spsc", "harness": "spsc", "model": "Spsc", "gen": gen_spsc},
            {"name": "mpscr", "harness": "mpscr", "model": "Mpscr", "gen": gen_mpscr},
        ],
        "trusted_base": [
            "node identities are the harness's names n<k> (a node = its address); 64-bit wrap of "
            "mpscr `counter` not modelled",
        ],
        "assumptions": [
            "client obligations of the headers, rejected by the model's step and never violated by "
            "the harness: one trypop / peek at a time (single consumer); SPSC / each MPSCR producer number: one push at a time; "
            "a node being pushed is owned by the pusher (not in the queue, not in another push, not "
            "still inside the trypop that returns it)",
            "payloads are distinct non-NULL tokens (so that exactly-once and order are observable)",
        ],
    },
}
