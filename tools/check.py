#!/usr/bin/env python3
"""check.py <property id> [--tier quick|thorough] [--replay path]

One check = (1) Lean proof obligations of Props/<id>.lean (build, axiom audit, forbidden
tokens; thorough: leanchecker), (2) correspondence: the instrumented implementation, built
from /repo's working tree, is run under the deterministic scheduler and every logged
shared-memory access is replayed through the Lean model's `step` (verifdrv), (3) API-level
monitors / oracles on the same runs = the failing-input search.

exit 0  : every obligation discharged, no divergence, no monitor/oracle failure
exit 1  : `VIOLATION property=<id> replay=<path>` (ends with no-failing-input-found when an
          obligation or the correspondence broke but no concrete failing input was found)
"""
import argparse
import concurrent.futures as cf
import json
import os
import random
import re
import shutil
import sys
import time

sys.path.insert(0, os.path.dirname(os.path.abspath(__file__)))
import vlib  # noqa: E402
from specs import SPECS  # noqa: E402


def run_one(job):
    """one case; a run that ends TIMEOUT, or whose log the driver gave no verdict on, is repeated
    once (every run is deterministic in its arguments and seed: only a starved machine makes the
    second attempt differ, and a real hang or divergence shows again)"""
    res = _run_one(job)
    drv = res.get("drv") or {}
    no_verdict = job[0].get("model") and not drv.get("validate_ok") and "diverge" in drv and drv["diverge"].get("why") == "driver produced no verdict"
    if (res["status"] == "TIMEOUT" and "TIMEOUT" not in job[0].get("ok_status", ())) or no_verdict:
        res2 = _run_one(job)
        res2["retried"] = res["status"] if res["status"] == "TIMEOUT" else "no-verdict"
        return res2
    return res


def _run_one(job):
    part, exe, case, workdir, idx = job
    r = vlib.run_case(exe, case["args"], case["env"], workdir, "c%05d" % idx, timeout=case.get("timeout", 120))
    res = {"case": case, "status": r["status"], "rc": r["rc"], "log": r["log"], "part": part["name"], "idx": idx}
    fail = None
    if r["status"] not in ("OK",):
        ok_status = part.get("ok_status", ("OK",))
        if r["status"] not in ok_status:
            fail = "status " + r["status"]
            res["out"] = r["out"]
    if not part.get("model"):
        # oracle-only part (no Lean model consumes this log): the run's own status / post() decide
        res["drv"] = {"validate_ok": True, "monitor_ok": True, "events": 0}
        if os.path.exists(r["log"]):
            res["sig"] = vlib.log_signature(r["log"])
    elif os.path.exists(r["log"]) and r["status"] not in ("CRASH", "TIMEOUT"):
        v = vlib.drv(part["model"], r["log"])
        res["drv"] = {k: v[k] for k in v if k != "raw"}
        if not v["validate_ok"] and "diverge" not in v:
            res["drv"]["diverge"] = {"event": 0, "why": "driver produced no verdict", "line": v["raw"][-200:]}
        if v.get("monitor_fail"):
            fail = (fail + "; " if fail else "") + "monitor " + v["monitor_fail"]
        sig = vlib.log_signature(r["log"])
        res["sig"] = sig
    else:
        res["drv"] = {"validate_ok": False, "monitor_ok": False}
    post = part.get("post")
    if post and os.path.exists(r["log"]):
        extra = post(r["log"], case)
        if extra:
            fail = (fail + "; " if fail else "") + extra
    res["fail"] = fail
    return res


def build_part(part):
    """a part either names an instrumented harness (harness/<name>.c) or brings its own
    `build()` (e.g. sanitizer builds with a different stack strategy)"""
    if callable(part.get("build")):
        return part["build"]()
    return vlib.build_harness(part["harness"], runtime=part.get("runtime", False),
                              extra_defs=part.get("defs", ()), extra_srcs=part.get("extra_srcs", ()))


def classify(msg):
    """failure class used to match known findings: first word(s) of the message"""
    m = re.match(r"(status \S+|monitor \w+|oracle \w+|\w+)", msg)
    return m.group(1) if m else msg[:30]


def main():
    ap = argparse.ArgumentParser()
    ap.add_argument("pid")
    ap.add_argument("--tier", default=os.environ.get("VERIF_TIER", "quick"))
    ap.add_argument("--replay")
    ap.add_argument("--no-lean", action="store_true")
    ap.add_argument("--keep", action="store_true")
    a = ap.parse_args()
    pid = a.pid
    tier = a.tier if a.tier in ("quick", "thorough") else "quick"
    seed = int(os.environ.get("VERIF_SEED", "1") or 1)
    spec = SPECS[pid]
    t0 = time.time()
    workdir = os.path.join(vlib.CACHE, "run_%s_%d" % (pid, os.getpid()))
    shutil.rmtree(workdir, ignore_errors=True)
    os.makedirs(workdir, exist_ok=True)

    if a.replay:
        rp = json.load(open(a.replay))
        part = [p for p in spec["parts"] if p["name"] == rp.get("part")]
        if not part:
            print("replay names no runnable case (obligation-only replay): %s" % rp.get("what"))
            return 0
        part = part[0]
        exe = build_part(part)
        res = run_one((part, exe, rp["case"], workdir, 0))
        print(json.dumps({k: res[k] for k in ("status", "fail", "drv")}, indent=1))
        print("\n".join(vlib.tail_lines(res["log"], 30)))
        return 1 if res["fail"] or not res["drv"].get("validate_ok") else 0

    # stale replay files of this tier would be mistaken for current findings
    rdir = os.path.join(vlib.VERIF, "replays", pid)
    if os.path.isdir(rdir):
        for fn in os.listdir(rdir):
            if ("_%s_" % tier) in fn:
                try:
                    os.unlink(os.path.join(rdir, fn))
                except OSError:
                    pass
    # 0. translator: regenerate Lean data (Gen/*.lean) from /repo's current sources
    pre_errors = []
    pre_facts = None
    if spec.get("pre"):
        try:
            pre_facts = spec["pre"](vlib.REPO)
        except Exception as e:  # extraction failed closed = obligation broken
            pre_errors.append("extraction failed: %s" % str(e)[-1500:])
    # 0b. control skeleton (extract/loops.py): the loops of the anchored functions and every way
    # out of them, compared with tools/loop_profile/<id>.json — what no run shows (bounded retry)
    skeleton = None
    if os.path.exists(os.path.join(vlib.VERIF, "tools", "loop_profile", "%s.json" % pid)):
        sys.path.insert(0, os.path.join(vlib.VERIF, "extract"))
        import loops as loops_extract
        try:
            skeleton = loops_extract.check(vlib.REPO, pid)
        except Exception as e:
            pre_errors.append("extraction failed: %s" % str(e)[-1500:])
    # 1. proof obligations
    lean = {"ok": True, "obligations": [], "module": None}
    if not a.no_lean:
        lean = vlib.lean_obligations(pid, leanchecker=(tier == "thorough"), extra=spec.get("extra_props", ()))
    # extraction-style obligations (generated Lean data compared by `decide`) are part of the Props module

    # 2/3. correspondence + monitors
    drv_error = None
    try:
        vlib.verifdrv_path()
    except vlib.BuildError as e:
        drv_error = str(e)[-2000:]
    rng = random.Random(seed * 7919 + 13)
    jobs = []
    build_errors = []
    for part in ([] if drv_error else spec["parts"]):
        try:
            exe = build_part(part)
        except vlib.BuildError as e:
            build_errors.append({"part": part["name"], "error": str(e)[-3000:]})
            continue
        cases = part["gen"](rng, tier)
        for c in cases:
            jobs.append((part, exe, c, workdir, len(jobs)))
    results = []
    with cf.ThreadPoolExecutor(vlib.NCPU) as ex:
        for r in ex.map(run_one, jobs):
            results.append(r)

    fails = [r for r in results if r["fail"]]
    diverges = [r for r in results if not r["fail"] and not r["drv"].get("validate_ok")]
    known = vlib.load_known()
    kf = [k for k in known.get("findings", []) if k["property"] == pid]

    def known_match_one(r, fail):
        for k in kf:
            m = k.get("match", {})
            if m.get("part") and m["part"] != r["part"]:
                continue
            if m.get("pattern") and not re.search(m["pattern"], fail or ""):
                continue
            if m.get("args_pattern") and not re.search(m["args_pattern"], " ".join(map(str, r["case"]["args"]))):
                continue
            return k
        return None

    def known_match(r):
        """a run is a known finding only if EVERYTHING it reports is listed: a monitor may report
        several classified anomalies of one run (joined by ' && '); each must match a listed
        finding, and a bad status (HANG/BUDGET/...) must be explained by one of them (a pattern
        that accepts that status prefix)"""
        fail = r["fail"] or ""
        if " && " not in fail:
            return known_match_one(r, fail)
        m = re.match(r"^(status \w+; )?monitor (.*)$", fail, re.S)
        if not m:
            return known_match_one(r, fail)
        status, msgs = m.group(1) or "", m.group(2).split(" && ")
        first = None
        status_explained = not status
        for msg in msgs:
            k = known_match_one(r, status + "monitor " + msg) if status else None
            if k:
                status_explained = True
            else:
                k = known_match_one(r, "monitor " + msg)
            if not k:
                return None
            first = first or k
        return first if status_explained else None

    # parts whose model describes the known finding itself (spec key `known_must_validate`): a
    # run that fails only by a known finding must still be accepted event by event by the model
    strict_parts = {p["name"] for p in spec["parts"] if p.get("known_must_validate")}
    diverges += [r for r in results if r["fail"] and r["part"] in strict_parts
                 and not r["drv"].get("validate_ok") and known_match(r)]

    if os.environ.get("VERIF_DUMP_FAILS"):
        # development aid: every failing run with its classification, one JSON object per line
        with open(os.environ["VERIF_DUMP_FAILS"], "a") as df:
            for r in fails:
                k = known_match(r)
                df.write(json.dumps({"part": r["part"], "fail": r["fail"], "args": r["case"]["args"], "env": r["case"]["env"],
                                     "known": k["id"] if k else None}) + "\n")
    known_hits = {}
    new_fails = []
    for r in fails:
        k = known_match(r)
        if k:
            known_hits.setdefault(k["id"], []).append(r)
        else:
            new_fails.append(r)

    # evidence
    sigs = {}
    hist = {}
    status_hist = {}
    for r in results:
        status_hist[r["status"]] = status_hist.get(r["status"], 0) + 1
        s = r.get("sig")
        if not s:
            continue
        for k, v in s["hist"].items():
            hist[k] = hist.get(k, 0) + v
        part_of = {p["name"]: p for p in spec["parts"]}[r["part"]]
        nt = part_of.get("nontrivial")
        nontrivial = nt(s) if nt else (s["interleaved"] or s["casfail"] > 0)
        key = (r["part"], " ".join(map(str, r["case"]["args"])), s["sig"])
        if nontrivial:
            sigs[key] = 1
    # memory-order profile: every atomic site (function, kind, cell) must be at least as strong
    # as recorded for it (tools/mo_profile/<id>.json) - a weakened order changes no x86 code
    # and no interleaving, so only this comparison can see it
    mo_obs = {}
    for r in results:
        for k, v in (r.get("sig") or {}).get("mo", {}).items():
            mo_obs.setdefault(k, set()).update(v)
    if os.environ.get("VERIF_WRITE_MO_PROFILE"):
        os.makedirs(os.path.dirname(vlib.mo_profile_path(pid)), exist_ok=True)
        json.dump({k: sorted(v) for k, v in sorted(mo_obs.items())}, open(vlib.mo_profile_path(pid), "w"), indent=1)
    mo_bad = vlib.mo_compare(pid, mo_obs)
    # informational: which functions of the anchored files ever performed a logged access
    funcs_seen = set()
    for r in results:
        funcs_seen.update((r.get("sig") or {}).get("funcs", []))
    anchored = vlib.anchored_functions(pid)
    funcs_unseen = sorted(f for f in anchored if f not in funcs_seen)
    validated = sum(1 for r in results if r["drv"].get("validate_ok"))
    events_validated = sum(r["drv"].get("events", 0) for r in results if r["drv"].get("validate_ok"))
    obligations = lean["obligations"]
    n_obl = len(obligations) + 1  # + the correspondence obligation (incl. the memory-order profile)
    n_dis = sum(1 for o in obligations if o["ok"]) + (1 if (results and not diverges and not build_errors and not new_fails and not mo_bad) else 0)
    samples = []
    for o in obligations[:6]:
        samples.append({"theorem": o["name"], "axioms": o["axioms"]})
    for r in results[:2]:
        samples.append({"part": r["part"], "args": r["case"]["args"], "env": r["case"]["env"],
                        "status": r["status"], "validated_events": r["drv"].get("events"),
                        "log_head": vlib.head_lines(r["log"], 12)})
    violations = []

    def emit(kind, what, r=None, nofail=False):
        name = "%s_%s_%d" % (kind, tier, len(violations))
        obj = {"property": pid, "kind": kind, "what": what, "tier": tier, "seed": seed}
        if r is not None:
            obj.update({"part": r["part"], "case": r["case"], "status": r["status"], "fail": r["fail"],
                        "drv": r.get("drv"), "log_tail": vlib.tail_lines(r["log"], 60)})
            obj["replay_cmd"] = "python3 tools/check.py %s --replay <this file>" % pid
        path = vlib.write_replay(pid, name, obj)
        line = "VIOLATION property=%s replay=%s" % (pid, path)
        if nofail:
            line += " no-failing-input-found"
        violations.append(line)

    # concrete failing inputs first
    seen_classes = set()
    for r in new_fails:
        c = (r["part"], classify(r["fail"]))
        if c in seen_classes:
            continue
        seen_classes.add(c)
        emit("failing_input", "%s: %s" % (r["part"], r["fail"]), r)
    broken = []
    if not lean["ok"]:
        bad = [o["name"] for o in obligations if not o["ok"]]
        broken.append("proof obligations not discharged: %s %s %s" % (
            ", ".join(bad) if bad else lean.get("module"), "; ".join(lean.get("errors", [])[:5]),
            "; forbidden tokens: " + "; ".join(lean.get("forbidden", [])[:5]) if lean.get("forbidden") else ""))
    for pe in pre_errors:
        broken.append(pe)
    if drv_error:
        broken.append("model driver does not build: " + drv_error)
    if mo_bad:
        broken.append("memory order weakened at an atomic site the model's SC/TSO argument relies on: " + "; ".join(mo_bad[:6]))
    for b in build_errors:
        broken.append("instrumented build failed for %s: %s" % (b["part"], b["error"][-600:]))
    if diverges:
        d = diverges[0]
        broken.append("correspondence broken (%d of %d runs): model %s rejects event %s: %s [%s]" % (
            len(diverges), len(results), d["part"], d["drv"].get("diverge", {}).get("event"),
            d["drv"].get("diverge", {}).get("line"), d["drv"].get("diverge", {}).get("why")))
    if broken and not new_fails:
        # extended failing-input search with the monitors only
        extra_fail = None
        if not build_errors:
            rng2 = random.Random(seed * 104729 + 7)
            jobs2 = []
            for part in spec["parts"]:
                exe = build_part(part)
                for c in part["gen"](rng2, "thorough"):
                    jobs2.append((part, exe, c, workdir, 100000 + len(jobs2)))
            with cf.ThreadPoolExecutor(vlib.NCPU) as ex:
                for r in ex.map(run_one, jobs2):
                    if r["fail"] and not known_match(r):
                        extra_fail = r
                        break
        if extra_fail:
            emit("failing_input", "%s: %s (found by the extended search after: %s)" % (
                extra_fail["part"], extra_fail["fail"], broken[0][:300]), extra_fail)
        else:
            emit("obligation", " | ".join(broken), diverges[0] if diverges else None, nofail=True)

    for kid, rs in known_hits.items():
        k = [x for x in kf if x["id"] == kid][0]
        print("KNOWN-FINDING: property=%s %s (%d runs)" % (pid, k["what"], len(rs)))
    # a known finding that is listed but does not show up any more is just reported
    ev = {
        "property_id": pid, "tier": tier, "seed": seed, "level": "proof",
        "coverage": {
            "obligations": n_obl, "discharged": n_dis,
            "checker_cmd": "cd lean && lake build LibfiberVerif.Props.%s && lake env lean <#print axioms audit>%s ; python3 tools/check.py %s" % (
                pid, " && lake env leanchecker LibfiberVerif.Props.%s" % pid if tier == "thorough" else "", pid),
            "trusted_base": spec.get("trusted_base", []) + [
                "Lean 4.33.0 kernel; axioms allowed: propext, Classical.choice, Quot.sound (audited per theorem below)",
                "rt/vrt.c (TSan-ABI runtime, baton scheduler, cell registry), harness/*.c, tools/check.py, lean Driver/ofRaw decoding",
                "sequentially consistent interleavings of the modelled accesses (x86-TSO argument in DESIGN.md §3)"],
            "theorems": [{"name": o["name"], "axioms": o["axioms"], "ok": o["ok"]} for o in obligations],
            "evaluations": len(results),
            "distinct_nontrivial": len(sigs),
            "rule": spec.get("rule", "cases = (script, scheduler kind, seed) generated from VERIF_SEED; distinct = different (harness args, sha1 of the (thread,kind,cell) access sequence); non-trivial = a thread switch happened inside an operation or a CAS failed"),
            "traces_validated_against_impl": validated,
            "events_validated": events_validated,
            "status_histogram": status_hist,
            "event_histogram": dict(sorted(hist.items(), key=lambda kv: -kv[1])[:60]),
            "samples": samples,
            "known_findings_printed": sorted(known_hits.keys()),
            "correspondence_divergences": len(diverges),
            "memory_order_sites_checked": len(mo_obs),
            "memory_order_weakenings": mo_bad,
            "monitor_failures": len(fails),
            "translator_step": {"ran": bool(spec.get("pre")), "ok": not pre_errors,
                                "what": (spec["pre"].__doc__ or "").strip() if spec.get("pre") else None,
                                "facts": str(pre_facts)[:600] if pre_facts is not None else None},
            "control_skeleton": skeleton,
            "anchored_functions": len(anchored),
            "anchored_functions_with_logged_accesses": len(anchored) - len(funcs_unseen),
            "anchored_functions_without_logged_accesses": funcs_unseen,
        },
        "assumptions": spec.get("assumptions", []),
        "wall_s": round(time.time() - t0, 2),
        "violations": len(violations),
    }
    vlib.write_evidence(pid, ev)
    if not a.keep:
        shutil.rmtree(workdir, ignore_errors=True)
    for v in violations:
        print(v)
    print("%s %s: obligations %d/%d, runs %d (validated %d, events %d), distinct non-trivial %d, %.1fs" % (
        pid, tier, n_dis, n_obl, len(results), validated, events_validated, len(sigs), time.time() - t0))
    return 1 if violations else 0


if __name__ == "__main__":
    sys.exit(main())
