"""Appends the multi-signal part (tools/parts_multisignal.py) to SPEC["C20"] of
tools/specs_c20.py through its `add_part` hook.  Contributes no property of its own."""
import specs_c20
from parts_multisignal import PART_MULTISIGNAL, TRUSTED_BASE_MULTISIGNAL, ASSUMPTIONS_MULTISIGNAL

_c20 = specs_c20.SPEC["C20"]
if not any(p.get("name") == PART_MULTISIGNAL["name"] for p in _c20["parts"]):
    specs_c20.add_part(PART_MULTISIGNAL)
    _c20.setdefault("trusted_base", []).extend(TRUSTED_BASE_MULTISIGNAL)
    _c20.setdefault("assumptions", []).extend(ASSUMPTIONS_MULTISIGNAL)

SPEC = {}
