#!/usr/bin/env python3
"""seeded.py <seeded dir or patch> [property ids...] — run checks against a seeded change.

The patch is applied to a scratch copy of /repo's include/ and src/ (outside /repo and
/verif), the checks run with VERIF_REPO pointing at it, and the copy is removed.  Prints one
line per property: CAUGHT (exit 1 + VIOLATION line) / MISSED (exit 0) and how it was caught.
With --in-repo the patch is applied to /repo itself (git apply) and reverted afterwards
(git checkout -- .) — only do that when nothing else is using /repo."""
import json
import os
import re
import shutil
import subprocess
import sys
import tempfile

VERIF = os.path.dirname(os.path.dirname(os.path.abspath(__file__)))


def main():
    args = [a for a in sys.argv[1:] if not a.startswith("--")]
    in_repo = "--in-repo" in sys.argv
    tier = "thorough" if "--thorough" in sys.argv else "quick"
    target = args[0]
    if os.path.isdir(target):
        patch = os.path.join(target, "patch.diff")
        meta = os.path.join(target, "meta.json")
        pids = args[1:] or ([json.load(open(meta))["property"]] if os.path.exists(meta) else [])
    else:
        patch = target
        pids = args[1:]
    patch = os.path.abspath(patch)
    if in_repo:
        repo = "/repo"
        subprocess.run(["git", "-C", repo, "apply", patch], check=True)
    else:
        repo = tempfile.mkdtemp(prefix="seeded_")
        for d in ("include", "src"):
            shutil.copytree(os.path.join("/repo", d), os.path.join(repo, d))
        r = subprocess.run(["patch", "-p1", "-s", "-d", repo, "-i", patch])
        if r.returncode != 0:
            print("patch does not apply")
            shutil.rmtree(repo, ignore_errors=True)
            return 2
    results = {}
    try:
        for pid in pids:
            env = dict(os.environ, VERIF_REPO=repo)
            evf = os.path.join(VERIF, "evidence", pid + ".json")
            saved = open(evf).read() if os.path.exists(evf) else None
            p = subprocess.run([sys.executable, os.path.join(VERIF, "tools", "check.py"), pid, "--tier", tier],
                               cwd=VERIF, env=env, stdout=subprocess.PIPE, stderr=subprocess.STDOUT, text=True)
            viol = [l for l in p.stdout.split("\n") if l.startswith("VIOLATION")]
            how = []
            for v in viol:
                m = re.search(r"replay=(\S+)", v)
                if m and os.path.exists(m.group(1)):
                    try:
                        how.append(json.load(open(m.group(1)))["what"][:300])
                    except Exception:
                        pass
            status = "CAUGHT" if p.returncode == 1 and viol else ("MISSED" if p.returncode == 0 else "ERROR rc=%d" % p.returncode)
            results[pid] = {"status": status, "violations": viol, "how": how, "summary": p.stdout.strip().split("\n")[-1]}
            print("%s %s %s" % (pid, status, "; ".join(how)[:400]))
            print("   " + results[pid]["summary"])
            # committed evidence must come from runs against /repo itself: put it back
            if saved is not None:
                open(evf, "w").write(saved)
    finally:
        # the translators regenerate lean/LibfiberVerif/Gen/*.lean from whatever tree a check runs
        # against: put back what /repo itself yields (the next check would do so anyway)
        subprocess.run(["git", "-C", VERIF, "checkout", "--", "lean/LibfiberVerif/Gen"], stdout=subprocess.DEVNULL, stderr=subprocess.DEVNULL)
        if in_repo:
            subprocess.run(["git", "-C", repo, "checkout", "--", "."], check=True)
        else:
            shutil.rmtree(repo, ignore_errors=True)
    print(json.dumps({k: {"status": v["status"], "how": v["how"]} for k, v in results.items()}))
    return 0


if __name__ == "__main__":
    sys.exit(main())
