"""C06 — fiber semaphore (src/fiber_semaphore.c + wait_in_mpmc_queue / wake_from_mpmc_queue /
the deferred mpmc_to_push of fiber_manager_do_maintenance in src/fiber_manager.c)."""
from specs import sched_env, n_cases


def gen_script(rng, maxf, maxops):
    nf = rng.randrange(2, maxf + 1)
    # a few different mixes: wait-heavy (contention, blocked waiters), post-heavy (units
    # accumulate: trywait / fast path), balanced
    mix = rng.choice([(0.50, 0.15, 0.30), (0.30, 0.20, 0.45), (0.35, 0.35, 0.25), (0.40, 0.10, 0.40)])
    fibers = []
    for _ in range(nf):
        ops = []
        for _ in range(rng.randrange(1, maxops + 1)):
            r = rng.random()
            if r < mix[0]:
                ops.append("w")
            elif r < mix[0] + mix[1]:
                ops.append("t")
            elif r < mix[0] + mix[1] + mix[2]:
                ops.append("p")
            else:
                ops.append("y")
        fibers.append(",".join(ops))
    return "|".join(fibers)


def gen(rng, tier):
    cases = []
    quick = tier == "quick"
    for _ in range(n_cases(tier, 300, 4000)):
        k = rng.choice([1, 2, 2, 3])
        init = rng.choice([0, 0, 1, 1, 2, 3])
        cases.append({"args": [k, init, gen_script(rng, 5 if quick else 6, 4 if quick else 6)],
                      "env": sched_env(rng, budget=400000)})
    # unusual scales: initial values around the widths a narrowed local or field would have
    # (2^7, 2^8, 2^15, 2^16, 2^31), and more simultaneous waiters than 127 / 255
    BIG = [126, 127, 128, 129, 130, 200, 255, 256, 257, 32767, 32768, 65535, 65536, 65537, (1 << 31) - 3]
    for _ in range(n_cases(tier, 40, 400)):
        script = gen_script(rng, 4, 4)
        init = rng.choice(BIG)
        # the value must stay representable (assumption of C06: the int counter does not wrap):
        # the harness's own deadlock-avoiding posts included, leave room for every post
        init = min(init, (1 << 31) - 1 - 2 * (script.count("p") + script.count("w") + 2))
        cases.append({"args": [rng.choice([1, 2]), init, script],
                      "env": sched_env(rng, budget=400000)})
    for nf in ([130, 260] if quick else [129, 130, 140, 257, 260, 300]):
        fibers = ["w"] * nf
        for _ in range(rng.randrange(0, 4)):
            fibers[rng.randrange(nf)] = rng.choice(["w,p", "t,w", "w,w"])
        cases.append({"args": [rng.choice([1, 2]), 0, "|".join(fibers)], "timeout": 300,
                      "env": {"VR_SEED": rng.randrange(1, 1 << 30), "VR_SCHED": "rand", "VR_SWITCH": 4, "VR_BUDGET": 6000000, "VR_MAXEV": 4000000}})
    return cases


def nontrivial(s):
    h = s["hist"]
    # a waiter really blocked and was enqueued by its successor, or a counter CAS lost a race
    return h.get("cas tail", 0) >= 1 or s["casfail"] > 0


def _queue_part():
    """the composition assumption checked in this property's own run: the waiter queue the
    semaphore is built on (include/mpmc_fifo.h with hazard-pointer reclamation and node reuse)
    is replayed through the MPMC model, with the scripts and oracle of C13"""
    import specs_c13
    src = specs_c13.SPEC["C13"]["parts"][0]

    def gen_q(rng, tier):
        return src["gen"](rng, tier)[: (2000 if tier == "thorough" else 400)]
    return {"name": "waiter-queue", "harness": "mpmc", "model": "Mpmc", "gen": gen_q, "post": src.get("post")}


import os as _os
import sys as _sys

_sys.path.insert(0, _os.path.join(_os.path.dirname(_os.path.dirname(_os.path.abspath(__file__))), "extract"))
import wake_extract  # noqa: E402


def pre(repo):
    """translator step (facts no trace shows): the manager's wake loops wait without bound for an
    announced waiter and wake exactly the number asked for"""
    return wake_extract.check(repo)


SPEC = {
    "C06": {
        "pre": pre,
        "parts": [{"name": "sem", "harness": "sem", "model": "Sem", "runtime": True, "gen": gen,
                   "nontrivial": nontrivial}, _queue_part()],
        "rule": "cases = (initial value 0-3, script of 2-6 fibers doing wait/trywait/post/yield, 1-3 kernel threads, scheduler kind+seed) from VERIF_SEED; the main fiber posts whenever every unfinished fiber is inside wait and too few units were made available (and the monitor counts those posts); distinct = different (args, sha1 of access sequence); non-trivial = at least one waiter blocked and was enqueued by its successor, or a CAS failed",
        "trusted_base": [
            "waiter queue (include/mpmc_fifo.h with hazard pointers and the free-node ring buffer) kept abstractly at its two linearisation points (successful tail CAS = enqueue, successful head CAS = dequeue of the oldest entry), node addresses opaque, every logged head/tail value checked against the ghost FIFO; a trypop may return NULL after validating head (superset of the implementation); adequacy for all interleavings is C13 (Mpmc.linearizable; its correspondence is re-run here as part `waiter-queue`) with C14 (Hp.no_reclaim_protected) and C16 (ring buffer of free nodes)",
            "the deferred push is performed by the next fiber_manager_do_maintenance on the waiter's kernel thread, i.e. after the waiter's context was saved (runtime model, C01: Rt.switch_target_saved)",
            "scheduler traffic on fiber state words is skipped here and covered by the runtime model (C01/C02); a waiter whose state was set READY and that was passed to fiber_manager_schedule does run again (C02)"],
        "assumptions": ["initial value >= 0", "the counter does not wrap (fewer than 2^31 simultaneous waiters / units)"],
    },
}
