#!/usr/bin/env python3
"""runall.py [--tier quick|thorough] [ids...] — run every claimed check (MANIFEST.json) and
print one line each; exit 1 if any check exits non-zero."""
import concurrent.futures as cf
import json
import os
import subprocess
import sys
import time

VERIF = os.path.dirname(os.path.dirname(os.path.abspath(__file__)))
tier = "quick"
args = sys.argv[1:]
if "--tier" in args:
    tier = args[args.index("--tier") + 1]
    del args[args.index("--tier"):args.index("--tier") + 2]
man = json.load(open(os.path.join(VERIF, "MANIFEST.json")))
ids = args or [c["property_id"] for c in man["checks"]]


def run(pid):
    t = time.time()
    p = subprocess.run([sys.executable, os.path.join(VERIF, "tools", "check.py"), pid, "--tier", tier],
                       cwd=VERIF, stdout=subprocess.PIPE, stderr=subprocess.STDOUT, text=True)
    lines = [l for l in p.stdout.strip().split("\n") if l and not l.startswith("WARNING")]
    kf = sum(1 for l in lines if l.startswith("KNOWN-FINDING"))
    viol = [l for l in lines if l.startswith("VIOLATION")]
    return pid, p.returncode, (lines[-1] if lines else ""), kf, viol, time.time() - t


bad = 0
with cf.ThreadPoolExecutor(int(os.environ.get("RUNALL_JOBS", "4"))) as ex:
    for pid, rc, last, kf, viol, dt in ex.map(run, ids):
        print("%s rc=%d known=%d %s" % (pid, rc, kf, last))
        for v in viol:
            print("    " + v)
        bad += rc != 0
sys.exit(1 if bad else 0)
