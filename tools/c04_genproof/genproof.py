#!/usr/bin/env python3
"""generate lean/LibfiberVerif/Proof/Join.lean: one theorem per invariant conjunct"""
import os
import sys
HERE = os.path.dirname(os.path.abspath(__file__))
LEAN = os.environ.get('C04_LEAN') or os.path.join(os.path.dirname(os.path.dirname(HERE)), 'lean')
TRY = len(sys.argv) > 1 and sys.argv[1] == "try"
ONLY = sys.argv[2].split(",") if len(sys.argv) > 2 else None

HEAD = open(os.path.join(HERE, 'proof_head.lean')).read()

UT = "untainted s g"
INV0 = [
 ("dr",   "∀ g, s.det g ≤ 3"),
 ("wfj",  "∀ g, s.det g = WFJ → finX (s.pc g) = true"),
 ("detx", "∀ g, s.det g = DET → s.detX g = true"),
 ("fret", "∀ g v, s.pc g = .fRet v → s.retval g = some v"),
 ("tl",   "∀ a op g, s.pc a = .loaded op g → op ≠ .join → s.det g ≠ NONE"),
 ("cpn",  "∀ a g, claimPath (s.pc a) g = true → s.det g ≠ NONE"),
 ("scn",  "∀ g, s.succ g ≠ [] → s.det g ≠ NONE"),
 ("fxn",  "∀ g, finX (s.pc g) = true → s.det g ≠ NONE"),
 ("dst",  "∀ g, s.destroyed g = true → s.pc g = .fDone"),
 ("fj",   "∀ p g, joinerPath (s.pc p) g = true → s.first g = some p"),
 ("ff",   "∀ g, (parkF (s.pc g) = true ∨ s.pc g = .fWoken) → s.first g = some g"),
 ("tcl",  "∀ b g, takePh (s.pc b) g = true → (s.claimed g = true ∨ s.detX g = true)"),
 ("fc",   "∀ g, holdsFAny (s.pc g) = true → s.claimed g = true"),
]
INV1 = [
 ("mb",  "∀ g, s.ji g ≠ 0 → parkedIn (s.pc (s.ji g)) (s.ji g) g = true ∧ s.holder (s.ji g) = none"),
 ("hw",  "∀ a op g v p, s.pc a = .wake op g v p → s.holder p = some a ∧ parkedIn (s.pc p) p g = true"),
 ("hf",  "(∀ a p, s.pc a = .fGot p → s.holder p = some a ∧ s.pc p = .jParked a) ∧ (∀ a p v, s.pc a = .fGotRes p v → s.holder p = some a ∧ s.pc p = .jParked a) ∧ (∀ a p, s.pc a = .fGave p → s.holder p = some a ∧ s.pc p = .jParked a)"),
 ("hh",  "∀ p, s.holder p = none ∨ ∃ a, s.holder p = some a ∧ holds (s.pc a) p = true"),
 ("st",  "∀ g, stored (s.pc g) = true → s.retval g = some (s.res g)"),
 ("t0",  "∀ a op g, s.pc a = .take0 op g → finX (s.pc g) = true"),
 ("tv",  "∀ a op g v, s.pc a = .take op g v → op ≠ .detach → s.retval g = some v"),
 ("wv",  "∀ a op g v p, s.pc a = .wake op g v p → op ≠ .detach → s.retval g = some v"),
 ("gr",  "∀ g p v, s.pc g = .fGotRes p v → s.retval g = some v"),
 ("gv",  "∀ g p, s.pc g = .fGave p → s.retval g = some (s.res p)"),
 ("dj",  "∀ g, (s.pc g = .fWoken ∨ s.pc g = .fMark ∨ s.pc g = .fDone) → (s.claimed g = true ∨ s.detX g = true)"),
 # the joiner's own hand-over slot (`fiber_t.result` of a fiber that makes calls)
 ("sc",  "∀ a, slotFree (s.pc a) = true → s.res a = 0"),
 ("jo1", "∀ p t, s.pc p = .jParked t → (s.res p = 0 ∨ s.retval t = some (s.res p))"),
 ("jo2", "∀ p t, s.pc p = .jWoken t → (s.res p = 0 ∨ s.retval t = some (s.res p))"),
 ("jo3", "∀ p t v, s.pc p = .jGotRes t v → (v = 0 ∨ s.retval t = some v)"),
 ("jo4", "∀ a op t v, s.pc a = .retn op t true v → op ≠ .detach → (v = 0 ∨ s.retval t = some v)"),
 ("jo5", "∀ t v, v ∈ s.succ t → (v = 0 ∨ s.retval t = some v)"),
]
INV2 = [
 ("k3",  "∀ g a, %s → claimPath (s.pc a) g = true → (s.det g ≠ WFJ ∨ s.finTook g = true)" % UT),
 ("k4",  "∀ g, %s → s.succ g ≠ [] → (s.det g ≠ WFJ ∨ s.finTook g = true)" % UT),
 ("k5",  "∀ g p, %s → joinerPark (s.pc p) g = true → (s.det g = WTJ ∨ (s.det g = WFJ ∧ s.finTook g = true))" % UT),
 ("uq",  "∀ g a a', %s → claimPath (s.pc a) g = true → claimPath (s.pc a') g = true → a = a'" % UT),
 ("sq",  "∀ g a, %s → s.succ g ≠ [] → claimPath (s.pc a) g = false" % UT),
 ("sl",  "∀ g, %s → (s.succ g).length ≤ 1" % UT),
 ("cv1", "∀ g p, %s → s.pc p = .jWoken g → s.retval g = some (s.res p)" % UT),
 ("cv2", "∀ g p v, %s → s.pc p = .jGotRes g v → s.retval g = some v" % UT),
 ("cv3", "∀ g a op v, %s → s.pc a = .retn op g true v → op ≠ .detach → s.retval g = some v" % UT),
 ("sv",  "∀ g v, %s → v ∈ s.succ g → s.retval g = some v" % UT),
 ("c1",  "∀ g b, %s → takePh (s.pc b) g = true → parkF (s.pc g) = true" % UT),
 ("c4",  "∀ g, %s → s.det g = WFJ → (s.finTook g = true ∨ parkF (s.pc g) = true)" % UT),
 ("c9",  "∀ g, %s → s.det g = WTJ → finX (s.pc g) = false → (s.first g ≠ none ∧ ∀ p, s.first g = some p → joinerPark (s.pc p) g = true)" % UT),
 ("ii",  "∀ g, %s → s.pc g = .fTake → (s.first g ≠ none ∧ ∀ p, s.first g = some p → joinerPark (s.pc p) g = true)" % UT),
 ("iii", "∀ g p, %s → joinerPark (s.pc p) g = true → finX (s.pc g) = true → delivering (s.pc g) p = true" % UT),
 ("iv",  "∀ g, %s → parkF (s.pc g) = true → s.det g ≠ WFJ → (s.taker g ≠ none ∧ ∀ b, s.taker g = some b → takePh (s.pc b) g = true)" % UT),
 ("t4",  "∀ g, %s → s.detX g = true → s.det g = DET" % UT),
 ("dx1", "∀ g, %s → s.detX g = true → s.succ g = []" % UT),
 ("dx2", "∀ g a, %s → s.detX g = true → claimPath (s.pc a) g = true → detTake (s.pc a) g = true" % UT),
]


ALL = dict(INV0 + INV1 + INV2)
LAYER = {}
for n, _ in INV0: LAYER[n] = "h0"
for n, _ in INV1: LAYER[n] = "h1"
for n, _ in INV2: LAYER[n] = "h2"

DEPS = {
 # layer 1
 "mb": ["mb", "hh", "hw", "hf"], "hw": ["hw", "mb", "hf", "hh"], "hf": ["hf", "mb", "hw", "hh"],
 "hh": ["hh", "hw", "hf", "mb"], "st": ["st", "fret", "hf"], "t0": ["t0", "wfj"],
 "tv": ["tv", "st", "t0", "wfj"], "wv": ["wv", "tv"], "gr": ["gr", "st"], "gv": ["gv", "gr", "hf"],
 "dj": ["dj", "detx", "wfj", "tcl", "fc", "hw", "dr"],
 "sc": ["sc", "hf"], "jo1": ["jo1", "sc", "hf", "gr"], "jo2": ["jo2", "jo1", "hf"], "jo3": ["jo3", "jo2"],
 "jo4": ["jo4", "jo3", "jo2", "wv"], "jo5": ["jo5", "jo4"],
 # layer 2
 "k3": ["k3", "cpn", "dr", "wfj"], "k4": ["k4", "k3", "scn", "dr", "wfj"], "k5": ["k5", "cpn"],
 "uq": ["uq", "cpn", "k3"], "sq": ["sq", "uq", "scn", "k4"], "sl": ["sl", "sq"],
 "cv1": ["cv1", "gv", "hf", "hw", "uq"], "cv2": ["cv2", "cv1"], "cv3": ["cv3", "cv2", "cv1", "wv"],
 "sv": ["sv", "cv3"], "c1": ["c1", "c4", "uq", "hw"], "c4": ["c4", "k3", "hw", "wfj", "dr"],
 "c9": ["c9", "fj", "tl", "wfj", "uq", "hw", "hf", "cpn", "dr"], "ii": ["ii", "c9", "uq", "hw", "hf"],
 "iii": ["iii", "k5", "cpn", "fxn", "wfj", "mb", "uq", "hf"], "iv": ["iv", "hw", "uq", "wfj", "c1"],
 "t4": ["t4"],
 "dx1": ["dx1", "dx2", "scn", "k4", "t4", "detx", "dr"], "dx2": ["dx2", "cpn", "k3", "t4", "detx", "dr"],
}

def struct(name, fields):
    out = "structure %s (s : St) : Prop where\n" % name
    for n, t in fields:
        out += "  %s : %s\n" % (n, t)
    return out

def thm(layer, n, t, hyps, extra=""):
    t1 = t.replace("s.", "s1.").replace("untainted s g", "untainted s1 g")
    tac = "first | grind | grind (splits := 25) | grind (splits := 80) | ((repeat' split) <;> grind (splits := 80))" + (" | skip" if TRY else "")
    body = "  all_goals (intros; (try simp only [upd_apply, WFJ, DET, NONE, WTJ, untainted] at *); %s%s)" % (tac, extra)
    if n in DEPS:
        binders = " ".join("(%s : %s)" % (d, ALL[d]) for d in DEPS[n])
        pre = ""
    else:
        binders = hyps
        pre = "".join("  cases %s\n" % h for h in ["h0", "h1", "h2"] if "(" + h + " " in hyps)
    if ONLY and n not in ONLY:
        return "theorem %s_%s %s (hc : stepCore s e = some s1) : %s := by\n  sorry\n\n" % (layer, n, binders, t1)
    return ("set_option maxHeartbeats 4000000 in\ntheorem %s_%s %s (hc : stepCore s e = some s1) : %s := by\n"
            "%s  step_cases e with hc\n%s\n\n") % (layer, n, binders, t1, pre, body)

def app(layer, n, hyps):
    if n in DEPS:
        return "%s_%s %s hc" % (layer, n, " ".join("%s.%s" % (LAYER[d], d) for d in DEPS[n]))
    return "%s_%s %s hc" % (layer, n, hyps)


DOC = HEAD[:HEAD.index("import LibfiberVerif.Model.Join")]
PRE = "set_option linter.unusedSimpArgs false\nset_option linter.unusedVariables false\n\nnamespace LibfiberVerif.Join\n\nvariable {s s1 : St} {e : Ev}\n\n"
END = "end LibfiberVerif.Join\n"

base = HEAD
base += "/-! ### the invariant, in three layers (statements; proofs in JoinL0 / JoinL1 / JoinL2a / JoinL2b) -/\n\n"
base += "/-- layer 0: simple unconditional facts -/\n" + struct("Inv0", INV0) + "\n"
base += "/-- layer 1: mailbox discipline (holder uniqueness) and the values that travel -/\n" + struct("Inv1", INV1) + "\n"
base += "/-- layer 2: the protocol on targets without an opened window -/\n" + struct("Inv2", INV2) + "\n" + END

def module(title, layer, items, hyps):
    o = "/-\n  %s (generated layout: one theorem per conjunct of the invariant of Proof/JoinBase.lean,\n  each by case analysis on the event and the acting fiber's program counter, then `grind`;\n  the hypotheses of each theorem are exactly the conjuncts it depends on)\n-/\nimport LibfiberVerif.Proof.JoinBase\n\n" % title + PRE
    for n, t in items:
        o += thm(layer, n, t, hyps)
    return o + END

half = len(INV2) // 2
mods = {
  "JoinBase": base,
  "JoinL0": module("Proof/JoinL0.lean — preservation of layer 0", "inv0", INV0, "(h0 : Inv0 s)"),
  "JoinL1": module("Proof/JoinL1.lean — preservation of layer 1", "inv1", INV1, "(h0 : Inv0 s) (h1 : Inv1 s)"),
  "JoinL2a": module("Proof/JoinL2a.lean — preservation of layer 2 (first half)", "inv2", INV2[:half], "(h0 : Inv0 s) (h1 : Inv1 s) (h2 : Inv2 s)"),
  "JoinL2b": module("Proof/JoinL2b.lean — preservation of layer 2 (second half)", "inv2", INV2[half:], "(h0 : Inv0 s) (h1 : Inv1 s) (h2 : Inv2 s)"),
}
top = DOC + "import LibfiberVerif.Proof.JoinL0\nimport LibfiberVerif.Proof.JoinL1\nimport LibfiberVerif.Proof.JoinL2a\nimport LibfiberVerif.Proof.JoinL2b\n\n" + PRE
top += "theorem inv0_core (h0 : Inv0 s) (hc : stepCore s e = some s1) : Inv0 s1 :=\n  ⟨%s⟩\n\n" % ", ".join(app("inv0", n, "h0") for n, _ in INV0)
top += "theorem inv1_core (h0 : Inv0 s) (h1 : Inv1 s) (hc : stepCore s e = some s1) : Inv1 s1 :=\n  ⟨%s⟩\n\n" % ", ".join(app("inv1", n, "h0 h1") for n, _ in INV1)
top += "theorem inv2_core (h0 : Inv0 s) (h1 : Inv1 s) (h2 : Inv2 s) (hc : stepCore s e = some s1) : Inv2 s1 :=\n  ⟨%s⟩\n\n" % ", ".join(app("inv2", n, "h0 h1 h2") for n, _ in INV2)
top += open(os.path.join(HERE, 'proof_tail.lean')).read()
mods["Join"] = top
import os
if TRY:
    out = HEAD + "/-! scratch -/\n" + struct("Inv0", INV0) + "\n" + struct("Inv1", INV1) + "\n" + struct("Inv2", INV2) + "\nvariable {s s1 : St} {e : Ev}\n\n"
    for n, t in INV0: out += thm("inv0", n, t, "(h0 : Inv0 s)")
    for n, t in INV1: out += thm("inv1", n, t, "(h0 : Inv0 s) (h1 : Inv1 s)")
    for n, t in INV2: out += thm("inv2", n, t, "(h0 : Inv0 s) (h1 : Inv1 s) (h2 : Inv2 s)")
    out += top[top.index("theorem inv0_core"):]
    open(os.path.join(LEAN, 'scratch_c04', 'PJ.lean'), 'w').write(out)
else:
    for k, v in mods.items():
        open(os.path.join(LEAN, 'LibfiberVerif', 'Proof', '%s.lean' % k), 'w').write(v)
