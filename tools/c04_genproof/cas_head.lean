/-
  Proof/JoinCasBase.lean — invariants of the CANDIDATE FIX of the join / tryjoin / detach /
  completion protocol (Model/JoinCas.lean, docs/fix-C04.diff), property C04.

  Same structure as Proof/JoinBase.lean, but nothing is conditional any more: with every
  transition of detach_state a compare-and-swap there is no window to exclude.
    Inv0  simple facts about detach_state and the ghost fields
    Inv1  the mailbox discipline (a parked fiber is in its mailbox or in the hands of exactly
          one holder) and the values that travel
    Inv2  the protocol proper
    Inv3  no post-swap access to a destroyed fiber
-/
import LibfiberVerif.Model.JoinCas

set_option linter.unusedSimpArgs false
set_option linter.unusedVariables false

namespace LibfiberVerif.JoinCas
open LibfiberVerif.Join (Op NONE WFJ WTJ DET READY WAITING DONE)

/-! ### predicates on program counters -/

@[simp, grind] def finX : Pc → Bool
  | .fPark0 | .fParking | .fParked | .fWoken | .fTake | .fGot _ | .fGotRes _ _ | .fGave _ | .fMark | .fDone => true
  | _ => false

@[simp, grind] def stored : Pc → Bool
  | .fStored | .fCas _ => true
  | .fPark0 | .fParking | .fParked | .fWoken | .fTake | .fGot _ | .fGotRes _ _ | .fGave _ | .fMark | .fDone => true
  | _ => false

@[simp, grind] def parkF : Pc → Bool
  | .fPark0 | .fParking | .fParked => true
  | _ => false

@[simp, grind] def joinerPark (c : Pc) (g : Nat) : Bool :=
  match c with
  | .jPark0 t | .jParking t | .jParked t => t == g
  | _ => false

@[simp, grind] def joinerPath (c : Pc) (g : Nat) : Bool :=
  match c with
  | .jPark0 t | .jParking t | .jParked t | .jWoken t | .jGotRes t _ => t == g
  | _ => false

@[simp, grind] def takePh (c : Pc) (g : Nat) : Bool :=
  match c with
  | .take0 _ t | .take _ t _ | .wake _ t _ _ => t == g
  | _ => false

@[simp, grind] def claimPath (c : Pc) (g : Nat) : Bool :=
  match c with
  | .jPark0 t | .jParking t | .jParked t | .jWoken t | .jGotRes t _ => t == g
  | .take0 _ t | .take _ t _ | .wake _ t _ _ => t == g
  | .retn op t ok _ => t == g && ok && op != .detach
  | _ => false

/-- the claim has been made: the state is DETACHED for good -/
@[simp, grind] def postClaim (c : Pc) (g : Nat) : Bool :=
  match c with
  | .take0 _ t | .take _ t _ | .wake _ t _ _ | .jWoken t | .jGotRes t _ => t == g
  | .retn op t ok _ => t == g && ok && op != .detach
  | _ => false

@[simp, grind] def detTake (c : Pc) (g : Nat) : Bool :=
  match c with
  | .take .detach t _ | .wake .detach t _ _ => t == g
  | _ => false

@[simp, grind] def holds (c : Pc) (p : Nat) : Bool :=
  match c with
  | .wake _ _ _ q | .fGot q | .fGotRes q _ | .fGave q => q == p
  | _ => false

@[simp, grind] def holdsFAny : Pc → Bool
  | .fTake | .fGot _ | .fGotRes _ _ | .fGave _ => true
  | _ => false

@[simp, grind] def parkedIn (c : Pc) (q g : Nat) : Bool :=
  match c with
  | .jParked t => t == g
  | .fParked => q == g
  | _ => false

@[simp, grind] def delivering (c : Pc) (p : Nat) : Bool :=
  match c with
  | .fTake => true
  | .fGot q | .fGotRes q _ | .fGave q => q == p
  | _ => false

@[grind →] theorem jpk_jp {c g} (h : joinerPark c g = true) : joinerPath c g = true := by
  cases c <;> simp_all
@[grind →] theorem jp_cp {c g} (h : joinerPath c g = true) : claimPath c g = true := by
  cases c <;> simp_all
@[grind →] theorem tp_cp {c g} (h : takePh c g = true) : claimPath c g = true := by
  cases c <;> simp_all
@[grind →] theorem parkedIn_inj {c q g g'} (h : parkedIn c q g = true) (h' : parkedIn c q g' = true) : g = g' := by
  cases c <;> simp_all
@[grind →] theorem parkedIn_inv {c q g} (h : parkedIn c q g = true) : c = .jParked g ∨ (c = .fParked ∧ q = g) := by
  cases c <;> simp_all
@[grind →] theorem holds_inv {c p} (h : holds c p = true) :
    (∃ op g v, c = .wake op g v p) ∨ c = .fGot p ∨ (∃ v, c = .fGotRes p v) ∨ c = .fGave p := by
  cases c <;> simp_all
@[grind →] theorem detTake_inv {c g} (h : detTake c g = true) :
    (∃ v, c = .take .detach g v) ∨ (∃ v p, c = .wake .detach g v p) := by
  cases c with
  | take op t v => cases op <;> simp_all
  | wake op t v p => cases op <;> simp_all
  | _ => simp_all
@[grind →] theorem fx_st {c} (h : finX c = true) : stored c = true := by
  cases c <;> simp_all
@[grind →] theorem pf_fx {c} (h : parkF c = true) : finX c = true := by
  cases c <;> simp_all

/-! ### from `step` to `stepCore` -/

theorem step_some {s : St} {e : Ev} {s' : St} (h : step s e = some s') :
    ∃ s1, stepCore s e = some s1 ∧
      s' = { s1 with late := if e.counted ∧ s1.destroyed e.cellOf then upd s1.late e.cellOf (s1.late e.cellOf + 1) else s1.late } := by
  unfold step at h
  cases hc : stepCore s e with
  | none => simp [hc] at h
  | some s1 => simp [hc] at h; exact ⟨s1, rfl, h.symm⟩

/-- case analysis on the event and on the acting fiber's program counter; leaves one goal per
    accepted branch of `stepCore`, with the successor state substituted -/
syntax "step_cases " ident " with " ident : tactic
macro_rules
  | `(tactic| step_cases $e with $hc) => `(tactic| (
      cases $e:ident <;> simp only [stepCore, joinCas, detCas, finCas] at $hc:ident
      all_goals (repeat' split at $hc:ident)
      all_goals (try (simp at $hc:ident))
      all_goals (try subst $hc:ident)))

