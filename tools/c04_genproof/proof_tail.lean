/-! ### layer 3: no post-exchange access to a destroyed fiber -/

theorem core_late (hc : stepCore s e = some s1) : s1.late = s.late := by
  step_cases e with hc
  all_goals rfl

theorem ut_mono (hc : stepCore s e = some s1) : ∀ g, untainted s1 g → untainted s g := by
  step_cases e with hc
  all_goals (intros; (try simp only [upd_apply, WFJ, DET, NONE, WTJ, untainted] at *); grind)

theorem destroyed_mono (hc : stepCore s e = some s1) (hcnt : e.counted = true) : s1.destroyed = s.destroyed := by
  step_cases e with hc
  all_goals (first | rfl | simp [Ev.counted] at hcnt)

set_option maxHeartbeats 4000000 in
/-- a counted (post-exchange) access never hits a destroyed fiber on which no window was opened -/
theorem no_late (dst : ∀ g, s.destroyed g = true → s.pc g = .fDone)
    (c1 : ∀ g b, untainted s g → takePh (s.pc b) g = true → parkF (s.pc g) = true)
    (iii : ∀ g p, untainted s g → joinerPark (s.pc p) g = true → finX (s.pc g) = true → delivering (s.pc g) p = true)
    (hw : ∀ a op g v p, s.pc a = .wake op g v p → s.holder p = some a ∧ parkedIn (s.pc p) p g = true)
    (hf : (∀ a p, s.pc a = .fGot p → s.holder p = some a ∧ s.pc p = .jParked a) ∧ (∀ a p v, s.pc a = .fGotRes p v → s.holder p = some a ∧ s.pc p = .jParked a) ∧ (∀ a p, s.pc a = .fGave p → s.holder p = some a ∧ s.pc p = .jParked a))
    (hc : stepCore s e = some s1) (hcnt : e.counted = true) (hd : s.destroyed e.cellOf = true)
    (hu : untainted s e.cellOf) : False := by
  step_cases e with hc
  all_goals (first | (simp [Ev.counted] at hcnt; done) | skip)
  all_goals (simp only [Ev.cellOf, untainted] at *; grind)

def Inv3 (s : St) : Prop := ∀ g, untainted s g → s.late g = 0

/-! ### the invariant of all reachable states -/

structure Inv (s : St) : Prop where
  i0 : Inv0 s
  i1 : Inv1 s
  i2 : Inv2 s
  i3 : Inv3 s

theorem inv0_late {s : St} (l : Nat → Nat) (h : Inv0 s) : Inv0 { s with late := l } := by
  cases h; constructor <;> assumption
theorem inv1_late {s : St} (l : Nat → Nat) (h : Inv1 s) : Inv1 { s with late := l } := by
  cases h; constructor <;> assumption
theorem inv2_late {s : St} (l : Nat → Nat) (h : Inv2 s) : Inv2 { s with late := l } := by
  cases h; constructor <;> assumption

theorem inv_init (isT : Nat → Bool) : Inv (init isT) := by
  refine ⟨?_, ?_, ?_, ?_⟩
  · constructor <;> intros <;> simp_all [init, DET, NONE, WFJ, WTJ] <;> grind
  · constructor <;> intros <;> simp_all [init, DET, NONE, WFJ, WTJ]
  · constructor <;> intros <;> simp_all [init, DET, NONE, WFJ, WTJ, untainted] <;> grind
  · intro g _; rfl

theorem inv_step (isT : Nat → Bool) (s : St) (e : Ev) (s' : St) (hI : Inv s)
    (h : (sys isT).step s e = some s') : Inv s' := by
  obtain ⟨s1, hc, rfl⟩ := step_some h
  obtain ⟨h0, h1, h2, h3⟩ := hI
  refine ⟨inv0_late _ (inv0_core h0 hc), inv1_late _ (inv1_core h0 h1 hc), inv2_late _ (inv2_core h0 h1 h2 hc), ?_⟩
  intro g hu
  have hu1 : untainted s1 g := hu
  have hus : untainted s g := ut_mono hc g hu1
  have hl : s1.late = s.late := core_late hc
  show (if e.counted = true ∧ s1.destroyed e.cellOf = true then upd s1.late e.cellOf (s1.late e.cellOf + 1) else s1.late) g = 0
  by_cases hcd : e.counted = true ∧ s1.destroyed e.cellOf = true
  · by_cases hg : g = e.cellOf
    · exfalso
      subst hg
      have hd : s.destroyed e.cellOf = true := by rw [← destroyed_mono hc hcd.1]; exact hcd.2
      exact no_late h0.dst h2.c1 h2.iii h1.hw h1.hf hc hcd.1 hd hus
    · rw [if_pos hcd, upd_other _ _ _ _ hg, hl]; exact h3 g hus
  · rw [if_neg hcd, hl]; exact h3 g hus

theorem inv_of_run {isT : Nat → Bool} {es : List Ev} {s : St} (h : (sys isT).run es = some s) : Inv s :=
  Sys.inv_of_run (sys isT) Inv (inv_init isT) (inv_step isT) h

end LibfiberVerif.Join
