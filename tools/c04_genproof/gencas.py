#!/usr/bin/env python3
"""generate lean/LibfiberVerif/Proof/JoinCas*.lean (candidate fix): one theorem per invariant conjunct"""
import os
import sys
HERE = os.path.dirname(os.path.abspath(__file__))
LEAN = os.path.join(os.path.dirname(os.path.dirname(HERE)), 'lean')
TRY = len(sys.argv) > 1 and sys.argv[1] == "try"
ONLY = sys.argv[2].split(",") if len(sys.argv) > 2 else None
HEAD = open(os.path.join(HERE, 'cas_head.lean')).read()

INV0 = [
 ("dr",   "∀ g, s.det g ≤ 3"),
 ("wfj",  "∀ g, s.det g = WFJ → parkF (s.pc g) = true"),
 ("detx", "∀ g, s.det g = DET → (s.detX g = true ∨ s.claimed g = true)"),
 ("fret", "∀ g v, s.pc g = .fRet v → s.retval g = some v"),
 ("cxj",  "∀ a g x, s.pc a = .jCas g x → x ≠ WTJ ∧ x ≠ DET"),
 ("cxd",  "∀ a g x, s.pc a = .dCas g x → x ≠ WTJ ∧ x ≠ DET"),
 ("cxf",  "∀ a x, s.pc a = .fCas x → x ≠ DET"),
 ("cpn",  "∀ a g, claimPath (s.pc a) g = true → s.det g ≠ NONE"),
 ("scn",  "∀ g, s.succ g ≠ [] → s.det g ≠ NONE"),
 ("fxn",  "∀ g, finX (s.pc g) = true → s.det g ≠ NONE"),
 ("dst",  "∀ g, s.destroyed g = true → s.pc g = .fDone"),
 ("fj",   "∀ p g, joinerPath (s.pc p) g = true → s.first g = some p"),
 ("ff",   "∀ g, (parkF (s.pc g) = true ∨ s.pc g = .fWoken) → s.first g = some g"),
 ("tcl",  "∀ b g, takePh (s.pc b) g = true → (s.claimed g = true ∨ s.detX g = true)"),
 ("fc",   "∀ g, holdsFAny (s.pc g) = true → s.claimed g = true"),
]
INV1 = [
 ("mb",  "∀ g, s.ji g ≠ 0 → parkedIn (s.pc (s.ji g)) (s.ji g) g = true ∧ s.holder (s.ji g) = none"),
 ("hw",  "∀ a op g v p, s.pc a = .wake op g v p → s.holder p = some a ∧ parkedIn (s.pc p) p g = true"),
 ("hf",  "(∀ a p, s.pc a = .fGot p → s.holder p = some a ∧ s.pc p = .jParked a) ∧ (∀ a p v, s.pc a = .fGotRes p v → s.holder p = some a ∧ s.pc p = .jParked a) ∧ (∀ a p, s.pc a = .fGave p → s.holder p = some a ∧ s.pc p = .jParked a)"),
 ("hh",  "∀ p, s.holder p = none ∨ ∃ a, s.holder p = some a ∧ holds (s.pc a) p = true"),
 ("st",  "∀ g, stored (s.pc g) = true → s.retval g = some (s.res g)"),
 ("t0",  "∀ a op g, s.pc a = .take0 op g → finX (s.pc g) = true"),
 ("tv",  "∀ a op g v, s.pc a = .take op g v → op ≠ .detach → s.retval g = some v"),
 ("wv",  "∀ a op g v p, s.pc a = .wake op g v p → op ≠ .detach → s.retval g = some v"),
 ("gr",  "∀ g p v, s.pc g = .fGotRes p v → s.retval g = some v"),
 ("gv",  "∀ g p, s.pc g = .fGave p → s.retval g = some (s.res p)"),
 ("dj",  "∀ g, (s.pc g = .fWoken ∨ s.pc g = .fMark ∨ s.pc g = .fDone) → (s.claimed g = true ∨ s.detX g = true)"),
]
INV2 = [
 ("k3",  "∀ g a, claimPath (s.pc a) g = true → s.det g ≠ WFJ"),
 ("k6",  "∀ g a, postClaim (s.pc a) g = true → s.det g = DET"),
 ("k7",  "∀ g, holdsFAny (s.pc g) = true → s.det g = DET"),
 ("k4",  "∀ g, s.succ g ≠ [] → s.det g = DET"),
 ("k5",  "∀ g p, joinerPark (s.pc p) g = true → ((s.det g = WTJ ∧ finX (s.pc g) = false) ∨ (s.det g = DET ∧ finX (s.pc g) = true))"),
 ("wtj", "∀ g, s.det g = WTJ → finX (s.pc g) = false"),
 ("uq",  "∀ g a a', claimPath (s.pc a) g = true → claimPath (s.pc a') g = true → a = a'"),
 ("sq",  "∀ g a, s.succ g ≠ [] → claimPath (s.pc a) g = false"),
 ("sl",  "∀ g, (s.succ g).length ≤ 1"),
 ("cv1", "∀ g p, s.pc p = .jWoken g → s.retval g = some (s.res p)"),
 ("cv2", "∀ g p v, s.pc p = .jGotRes g v → s.retval g = some v"),
 ("cv3", "∀ g a op v, s.pc a = .retn op g true v → op ≠ .detach → s.retval g = some v"),
 ("sv",  "∀ g v, v ∈ s.succ g → s.retval g = some v"),
 ("c1",  "∀ g b, takePh (s.pc b) g = true → parkF (s.pc g) = true"),
 ("c9",  "∀ g, s.det g = WTJ → (s.first g ≠ none ∧ ∀ p, s.first g = some p → joinerPark (s.pc p) g = true)"),
 ("ii",  "∀ g, s.pc g = .fTake → (s.first g ≠ none ∧ ∀ p, s.first g = some p → joinerPark (s.pc p) g = true)"),
 ("iii", "∀ g p, joinerPark (s.pc p) g = true → finX (s.pc g) = true → delivering (s.pc g) p = true"),
 ("iv",  "∀ g, parkF (s.pc g) = true → s.det g ≠ WFJ → (s.taker g ≠ none ∧ ∀ b, s.taker g = some b → takePh (s.pc b) g = true)"),
 ("t4",  "∀ g, s.detX g = true → s.det g = DET"),
 ("dx1", "∀ g, s.detX g = true → s.succ g = []"),
 ("dx2", "∀ g a, s.detX g = true → claimPath (s.pc a) g = true → detTake (s.pc a) g = true"),
]
ALL = dict(INV0 + INV1 + INV2)
LAYER = {}
for n, _ in INV0: LAYER[n] = "h0"
for n, _ in INV1: LAYER[n] = "h1"
for n, _ in INV2: LAYER[n] = "h2"
CX = ["cxj", "cxd", "cxf", "dr"]
DEPS = {
 "mb": ["mb", "hh", "hw", "hf"], "hw": ["hw", "mb", "hf", "hh"], "hf": ["hf", "mb", "hw", "hh"],
 "hh": ["hh", "hw", "hf", "mb"], "st": ["st", "fret", "hf"], "t0": ["t0", "wfj"] + CX,
 "tv": ["tv", "st", "t0"], "wv": ["wv", "tv"], "gr": ["gr", "st"], "gv": ["gv", "gr", "hf"],
 "dj": ["dj", "detx", "wfj", "tcl", "fc", "hw", "dr"],
 "wfj": ["wfj", "k3", "hw"] + CX,
 "k3": ["k3", "cpn", "wfj"] + CX, "k4": ["k4", "k6"] + CX, "k6": ["k6", "k7", "hf", "hw"] + CX, "k7": ["k7"] + CX,
 "k5": ["k5", "cpn", "wfj", "hw", "hf", "uq", "fxn"] + CX, "wtj": ["wtj", "wfj", "fxn"] + CX,
 "uq": ["uq", "cpn", "k3"] + CX, "sq": ["sq", "uq", "scn", "k4", "k3"] + CX, "sl": ["sl", "sq"],
 "cv1": ["cv1", "gv", "hf", "hw", "uq"], "cv2": ["cv2", "cv1"], "cv3": ["cv3", "cv2", "wv"],
 "sv": ["sv", "cv3"], "c1": ["c1", "wfj", "uq", "hw"] + CX,
 "c9": ["c9", "fj", "wfj", "uq", "hw", "hf", "cpn", "wtj", "k5"] + CX, "ii": ["ii", "c9", "uq", "hw", "hf", "wfj"] + CX,
 "iii": ["iii", "k5", "cpn", "fxn", "wfj", "mb", "uq", "hf"] + CX, "iv": ["iv", "hw", "uq", "wfj", "c1"] + CX,
 "t4": ["t4"] + CX, "dx1": ["dx1", "dx2", "scn", "k4", "t4", "detx"] + CX, "dx2": ["dx2", "cpn", "k3", "t4", "detx"] + CX,
}

def struct(name, fields):
    out = "structure %s (s : St) : Prop where\n" % name
    for n, t in fields:
        out += "  %s : %s\n" % (n, t)
    return out

def thm(layer, n, t, hyps):
    t1 = t.replace("s.", "s1.")
    tac = "first | grind | grind (splits := 25) | grind (splits := 80) | ((repeat' split) <;> grind (splits := 80))" + (" | skip" if TRY else "")
    body = "  all_goals (intros; (try simp only [upd_apply, WFJ, DET, NONE, WTJ] at *); %s)" % tac
    if n in DEPS:
        ds = []
        for d in DEPS[n]:
            if d not in ds: ds.append(d)
        binders = " ".join("(%s : %s)" % (d, ALL[d]) for d in ds)
        pre = ""
    else:
        binders = hyps
        pre = "".join("  cases %s\n" % h for h in ["h0", "h1", "h2"] if "(" + h + " " in hyps)
    if ONLY and n not in ONLY:
        return "theorem %s_%s %s (hc : stepCore s e = some s1) : %s := by\n  sorry\n\n" % (layer, n, binders, t1)
    return ("set_option maxHeartbeats 4000000 in\ntheorem %s_%s %s (hc : stepCore s e = some s1) : %s := by\n"
            "%s  step_cases e with hc\n%s\n\n") % (layer, n, binders, t1, pre, body)

def app(layer, n, hyps):
    if n in DEPS:
        ds = []
        for d in DEPS[n]:
            if d not in ds: ds.append(d)
        return "%s_%s %s hc" % (layer, n, " ".join("%s.%s" % (LAYER[d], d) for d in ds))
    return "%s_%s %s hc" % (layer, n, hyps)

DOC = HEAD[:HEAD.index("import LibfiberVerif.Model.JoinCas")]
PRE = "set_option linter.unusedSimpArgs false\nset_option linter.unusedVariables false\n\nnamespace LibfiberVerif.JoinCas\nopen LibfiberVerif.Join (Op NONE WFJ WTJ DET READY WAITING DONE)\n\nvariable {s s1 : St} {e : Ev}\n\n"
END = "end LibfiberVerif.JoinCas\n"
base = HEAD + "/-! ### the invariant (statements; proofs in JoinCasL0 / L1 / L2a / L2b) -/\n\n"
base += struct("Inv0", INV0) + "\n" + struct("Inv1", INV1) + "\n" + struct("Inv2", INV2) + "\n" + END

def module(title, layer, items, hyps):
    o = "/-\n  %s (candidate fix; generated layout: one theorem per conjunct of the invariant of\n  Proof/JoinCasBase.lean, by case analysis on the event and the acting fiber's program counter,\n  then `grind`; the hypotheses of each theorem are exactly the conjuncts it depends on)\n-/\nimport LibfiberVerif.Proof.JoinCasBase\n\n" % title + PRE
    for n, t in items:
        o += thm(layer, n, t, hyps)
    return o + END

half = len(INV2) // 2
top = DOC.replace("Proof/JoinCasBase.lean", "Proof/JoinCas.lean") + "import LibfiberVerif.Proof.JoinCasL0\nimport LibfiberVerif.Proof.JoinCasL1\nimport LibfiberVerif.Proof.JoinCasL2a\nimport LibfiberVerif.Proof.JoinCasL2b\n\n" + PRE
top += "theorem inv0_core (h0 : Inv0 s) (h1 : Inv1 s) (h2 : Inv2 s) (hc : stepCore s e = some s1) : Inv0 s1 :=\n  ⟨%s⟩\n\n" % ", ".join(app("inv0", n, "h0") for n, _ in INV0)
top += "theorem inv1_core (h0 : Inv0 s) (h1 : Inv1 s) (h2 : Inv2 s) (hc : stepCore s e = some s1) : Inv1 s1 :=\n  ⟨%s⟩\n\n" % ", ".join(app("inv1", n, "h0 h1") for n, _ in INV1)
top += "theorem inv2_core (h0 : Inv0 s) (h1 : Inv1 s) (h2 : Inv2 s) (hc : stepCore s e = some s1) : Inv2 s1 :=\n  ⟨%s⟩\n\n" % ", ".join(app("inv2", n, "h0 h1 h2") for n, _ in INV2)
top += open(os.path.join(HERE, 'cas_tail.lean')).read()
mods = {
  "JoinCasBase": base,
  "JoinCasL0": module("Proof/JoinCasL0.lean — preservation of layer 0", "inv0", INV0, "(h0 : Inv0 s)"),
  "JoinCasL1": module("Proof/JoinCasL1.lean — preservation of layer 1", "inv1", INV1, "(h0 : Inv0 s) (h1 : Inv1 s)"),
  "JoinCasL2a": module("Proof/JoinCasL2a.lean — preservation of layer 2 (first half)", "inv2", INV2[:half], "(h0 : Inv0 s) (h1 : Inv1 s) (h2 : Inv2 s)"),
  "JoinCasL2b": module("Proof/JoinCasL2b.lean — preservation of layer 2 (second half)", "inv2", INV2[half:], "(h0 : Inv0 s) (h1 : Inv1 s) (h2 : Inv2 s)"),
  "JoinCas": top,
}
if TRY:
    out = HEAD + "set_option warn.sorry false\n" + struct("Inv0", INV0) + "\n" + struct("Inv1", INV1) + "\n" + struct("Inv2", INV2) + "\nvariable {s s1 : St} {e : Ev}\n\n"
    for n, t in INV0: out += thm("inv0", n, t, "(h0 : Inv0 s)")
    for n, t in INV1: out += thm("inv1", n, t, "(h0 : Inv0 s) (h1 : Inv1 s)")
    for n, t in INV2: out += thm("inv2", n, t, "(h0 : Inv0 s) (h1 : Inv1 s) (h2 : Inv2 s)")
    out += top[top.index("theorem inv0_core"):]
    open(os.path.join(LEAN, 'scratch_c04', 'PJ.lean'), 'w').write(out)
else:
    for k, v in mods.items():
        open(os.path.join(LEAN, 'LibfiberVerif', 'Proof', '%s.lean' % k), 'w').write(v)
