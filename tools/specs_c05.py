"""C05 — fiber condition variable (src/fiber_cond.c + wait_in_mpsc_queue_and_unlock /
wake_from_mpsc_queue / the deferred mutex_to_unlock in src/fiber_manager.c + src/fiber_mutex.c)."""
from specs import sched_env, n_cases

# named windows, as weighted script shapes (the harness appends the sweeper fiber itself)
SHAPES = [
    "w|s", "w|S", "w|b", "w|B", "w,w|s,s", "w,w|S,y,S", "w|w|b", "w|w|B", "w|w|s,s", "w|w|S,S",
    "w|w|w|b", "w|w|w|s,S,s", "w,w|w|b,y,b", "w|S|S", "w|s|B", "w,w,w|S,S,S", "w|w,s|s", "w,S|w,S",
]


def gen_script(rng, maxf, maxops):
    if rng.random() < 0.25:
        return rng.choice(SHAPES)
    nf = rng.randrange(2, maxf + 1)
    fibers = []
    nwait = 0
    for _ in range(nf):
        ops = []
        for _ in range(rng.randrange(1, maxops + 1)):
            r = rng.random()
            if r < 0.40:
                ops.append("w")
                nwait += 1
            elif r < 0.55:
                ops.append("s")
            elif r < 0.70:
                ops.append("S")
            elif r < 0.80:
                ops.append("b")
            elif r < 0.90:
                ops.append("B")
            else:
                ops.append("y")
        fibers.append(",".join(ops))
    if nwait == 0:
        fibers[0] = "w," + fibers[0]
    return "|".join(fibers)


def gen(rng, tier):
    cases = []
    for _ in range(n_cases(tier, 1500, 12000)):
        k = rng.choice([1, 2, 2, 3])
        cases.append({"args": [k, gen_script(rng, 4 if tier == "quick" else 5, 3 if tier == "quick" else 5)],
                      "env": sched_env(rng, budget=40000)})
    # several fibers signalling / broadcasting WITHOUT the user mutex while several wait, on 3-4
    # kernel threads: signallers block on the internal mutex, are resumed on another kernel
    # thread (migration inside fiber_cond_signal), and find a waiter that has registered but not
    # yet enqueued itself
    for _ in range(n_cases(tier, 200, 1500)):
        nw = rng.randrange(2, 5)
        ns = rng.randrange(2, 4)
        fibers = ["w"] * nw + [",".join(rng.choice(["S", "S", "B"]) for _ in range(rng.randrange(2, 5))) for _ in range(ns)]
        rng.shuffle(fibers)
        env = sched_env(rng, budget=60000)
        if rng.random() < 0.5:
            env = {"VR_SEED": rng.randrange(1, 1 << 30), "VR_SCHED": "rand", "VR_SWITCH": 2, "VR_BUDGET": 60000}
        cases.append({"args": [rng.choice([3, 4]), "|".join(fibers)], "env": env})
    # crowds: 130-300 fibers wait on the condition variable at once; one broadcast (the sweeper's,
    # or a script fiber's) must release every one of them
    for nf in ([130, 260] if tier == "quick" else [129, 130, 257, 260, 300]):
        fibers = ["w"] * nf + [rng.choice(["y,y,b", "y,B", "y,y,y,s,s,b"])]
        cases.append({"args": [rng.choice([1, 2]), "|".join(fibers)], "timeout": 300,
                      "env": {"VR_SEED": rng.randrange(1, 1 << 30), "VR_SCHED": "rand", "VR_SWITCH": 4, "VR_BUDGET": 12000000, "VR_MAXEV": 8000000}})
    return cases


import os as _os
import sys as _sys

_sys.path.insert(0, _os.path.join(_os.path.dirname(_os.path.dirname(_os.path.abspath(__file__))), "extract"))
import wake_extract  # noqa: E402


def pre(repo):
    """translator step (facts no trace shows): the manager's wake loops wait without bound for an
    announced waiter and wake exactly the number asked for"""
    return wake_extract.check(repo)


SPEC = {
    "C05": {
        "pre": pre,
        "parts": [{"name": "cond", "harness": "cond", "model": "Cond", "runtime": True, "gen": gen,
                   "nontrivial": lambda s: s["hist"].get("xchg C.tail", 0) >= 1 and
                   (s["hist"].get("fsub C.count", 0) + s["hist"].get("xchg C.count", 0)) >= 1}],
        "rule": "cases = (script of 2-5 fibers + the sweeper fiber doing wait / signal / broadcast with and without the user mutex / yield on one condition variable, 1-3 kernel threads, plus a family of 2-4 waiters and 2-3 unlocked signallers/broadcasters on 3-4 kernel threads, scheduler kind+seed) from VERIF_SEED; distinct = different (script, sha1 of access sequence); non-trivial = at least one waiter was enqueued and at least one signal or broadcast examined the waiter count",
        "trusted_base": [
            "the cond's waiter queue and the two mutexes' waiter queues are kept abstractly (ghost order + linked flags), validated against every logged access; adequacy for all interleavings is C15 (Mpsc.pop_is_next_in_order / empty_justified)",
            "the internal mutex I and the user mutex M are the C03 model (Mutex.step) itself, replayed on every I/M access; C05's theorems use only the small mutex invariant proved in Proof/Cond.lean (Cond.MI)",
            "scheduler traffic on fiber state words is skipped here and covered by the runtime model (C01/C02); that a parked waiter runs again only after a signaller popped and scheduled it is C01/C02's (the model accepts a waiter's first post-wait access only in pc `woken`)",
            "manager->mutex_to_unlock is not a registered cell: the deferred unlock is recognised as the fetch_add on M.counter by the next fiber on the same kernel thread that is not inside a harness-level unlock"],
        "assumptions": ["client contract: wait is called holding M; one user mutex per condition variable; M is unlocked only by its owner",
                        "at most one deferred unlock is in flight per successor fiber (single user mutex)"],
    },
}
