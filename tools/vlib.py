"""vlib.py — shared machinery of the libfiber verification checks.

Everything is rebuilt from /repo's current working tree (content-hash cache under
/verif/.cache, never under /tmp).  See DESIGN.md §4 and §7.
"""
import concurrent.futures as cf
import fcntl
import hashlib
import json
import os
import re
import shutil
import subprocess
import sys
import time

VERIF = os.path.dirname(os.path.dirname(os.path.abspath(__file__)))
REPO = os.environ.get("VERIF_REPO", "/repo")
CACHE = os.path.join(VERIF, ".cache")
LEAN = os.path.join(VERIF, "lean")
GUARD = "BRIANWATLING_LIBFIBER_VERIF"
NCPU = int(os.environ.get("VERIF_JOBS", os.cpu_count() or 4))

# the pinned configuration's library sources (CMakeLists.txt: native events, wsd scheduler)
LIB_SOURCES = [
    "fiber_context.c", "fiber_manager.c", "fiber_mutex.c", "fiber_semaphore.c",
    "fiber_spinlock.c", "fiber_cond.c", "fiber.c", "fiber_barrier.c", "fiber_io.c",
    "fiber_rwlock.c", "hazard_pointer.c", "work_stealing_deque.c", "work_queue.c",
    "fiber_scheduler_wsd.c", "fiber_event_native.c",
]
PINNED_DEFS = ["-DFIBER_FAST_SWITCHING", "-DFIBER_STACK_SPLIT", "-DNDEBUG"]
# per-file extra flags: the scheduler's deque call sites are wrapped into run-queue events
FILE_DEFS = {"fiber_scheduler_wsd.c": ["-DVR_WSD_WRAP"]}
INSTR = ["-O1", "-fno-inline", "-g", "-std=gnu11", "-w", "-fsanitize=thread", "-D" + GUARD]


def sh(cmd, cwd=None, timeout=None, env=None, check=False, capture=True):
    e = dict(os.environ)
    if env:
        e.update(env)
    p = subprocess.run(cmd, cwd=cwd, timeout=timeout, env=e, shell=isinstance(cmd, str),
                       stdout=subprocess.PIPE if capture else None,
                       stderr=subprocess.STDOUT if capture else None, text=True)
    if check and p.returncode != 0:
        raise RuntimeError("command failed (%d): %s\n%s" % (p.returncode, cmd, p.stdout))
    return p


class FileLock:
    def __init__(self, name):
        os.makedirs(CACHE, exist_ok=True)
        self.path = os.path.join(CACHE, name + ".lock")

    def __enter__(self):
        self.f = open(self.path, "w")
        fcntl.flock(self.f, fcntl.LOCK_EX)
        return self

    def __exit__(self, *a):
        fcntl.flock(self.f, fcntl.LOCK_UN)
        self.f.close()


def hash_files(paths, extra=""):
    h = hashlib.sha1()
    h.update(extra.encode())
    for p in sorted(paths):
        h.update(p.encode())
        try:
            with open(p, "rb") as f:
                h.update(f.read())
        except OSError:
            h.update(b"<missing>")
    return h.hexdigest()[:16]


def repo_files():
    out = []
    for d in ("include", "src"):
        dd = os.path.join(REPO, d)
        for n in sorted(os.listdir(dd)):
            if n.endswith((".c", ".h")):
                out.append(os.path.join(dd, n))
    return out


def rt_files():
    d = os.path.join(VERIF, "rt")
    return [os.path.join(d, n) for n in sorted(os.listdir(d)) if n.endswith((".c", ".h"))]


def prune_cache(keep=40):
    """keep the cache small: drop old harness build dirs (never anything a concurrently
    running check may still be using: only `h_*` dirs untouched for 30 minutes, and run
    work dirs that a crashed check left behind more than 3 hours ago)"""
    now = time.time()
    try:
        names = os.listdir(CACHE)
    except OSError:
        return
    hs = []
    for n in names:
        d = os.path.join(CACHE, n)
        if not os.path.isdir(d):
            continue
        try:
            age = now - os.path.getmtime(d)
        except OSError:
            continue
        if n.startswith("h_") and age > 1800:
            hs.append((age, d))
        elif n.startswith("run_") and age > 3 * 3600:
            shutil.rmtree(d, ignore_errors=True)
    hs.sort()
    for _, d in hs[keep:]:
        shutil.rmtree(d, ignore_errors=True)


class BuildError(Exception):
    pass


def build_harness(name, runtime=False, extra_defs=(), extra_srcs=(), cc="gcc", lang_flags=None):
    """Build harness/<name>.c against /repo's working tree with compiler instrumentation and
    link it with our TSan-ABI runtime.  runtime=True also compiles the whole library
    (pinned flags incl. -fsplit-stack).  Returns the executable path."""
    if runtime and not any(os.path.basename(x).startswith("wrap_fiber_scheduler_wsd") for x in extra_srcs):
        # every whole-runtime build carries the scheduler wrapper: it names the run queues
        # (Q<k>a / Q<k>b) so the runtime model Rt can follow any runtime harness's log
        extra_srcs = tuple(extra_srcs) + ("wrap_fiber_scheduler_wsd.c",)
    hsrc = os.path.join(VERIF, "harness", name + ".c")
    hfiles = [hsrc, os.path.join(VERIF, "harness", "common.h"), os.path.join(VERIF, "harness", "rtcommon.h")]
    hfiles += [os.path.join(VERIF, "harness", s) for s in extra_srcs]
    key = hash_files(repo_files() + rt_files() + hfiles, extra=repr((name, runtime, tuple(extra_defs))))
    out = os.path.join(CACHE, "h_%s_%s" % (name, key))
    exe = os.path.join(out, name)
    with FileLock("build_" + name):
        if os.path.exists(exe):
            os.utime(out)
            return exe
        tmp = out + ".tmp%d" % os.getpid()
        shutil.rmtree(tmp, ignore_errors=True)
        os.makedirs(tmp)
        inc = ["-I" + os.path.join(REPO, "include"), "-I" + os.path.join(VERIF, "rt"),
               "-I" + os.path.join(VERIF, "harness"), "-I" + os.path.join(REPO, "src"),
               "-include", os.path.join(VERIF, "rt", "shim.h")]
        defs = list(PINNED_DEFS) + list(extra_defs)
        split = ["-fsplit-stack"] if runtime else []
        jobs = []
        objs = []
        rto = os.path.join(tmp, "vrt.o")
        jobs.append([cc, "-O1", "-g", "-w", "-c", os.path.join(VERIF, "rt", "vrt.c"), "-o", rto])
        objs.append(rto)
        ho = os.path.join(tmp, name + ".o")
        jobs.append([cc] + INSTR + defs + split + inc + ["-c", hsrc, "-o", ho])
        objs.append(ho)
        for s in extra_srcs:
            o = os.path.join(tmp, os.path.basename(s) + ".o")
            fd = FILE_DEFS.get(os.path.basename(s)[len("wrap_"):], []) if os.path.basename(s).startswith("wrap_") else []
            jobs.append([cc] + INSTR + defs + split + inc + fd + ["-c", os.path.join(VERIF, "harness", s), "-o", o])
            objs.append(o)
        if runtime:
            skip = set(os.environ.get("VR_SKIP_LIB", "").split(","))
            # a unity wrapper harness/wrap_<name>.c (`#include "<name>.c"` + accessors for
            # file-static state) replaces the library's own copy of <name>.c
            for w in extra_srcs:
                b = os.path.basename(w)
                if b.startswith("wrap_"):
                    skip.add(b[len("wrap_"):])
            for s in LIB_SOURCES:
                if s in skip:
                    continue
                o = os.path.join(tmp, s + ".o")
                jobs.append([cc] + INSTR + defs + split + inc + FILE_DEFS.get(s, []) +
                            ["-c", os.path.join(REPO, "src", s), "-o", o])
                objs.append(o)
        with cf.ThreadPoolExecutor(NCPU) as ex:
            res = list(ex.map(lambda c: sh(c), jobs))
        for c, r in zip(jobs, res):
            if r.returncode != 0:
                shutil.rmtree(tmp, ignore_errors=True)
                raise BuildError("compile failed: %s\n%s" % (" ".join(c), r.stdout[-3000:]))
        link = [cc, "-no-pie"] + split + objs + ["-o", os.path.join(tmp, name), "-lpthread", "-ldl"]
        r = sh(link)
        if r.returncode != 0:
            shutil.rmtree(tmp, ignore_errors=True)
            raise BuildError("link failed: %s\n%s" % (" ".join(link), r.stdout[-3000:]))
        shutil.rmtree(out, ignore_errors=True)
        os.rename(tmp, out)
        prune_cache(int(os.environ.get("VERIF_CACHE_KEEP", "40")))
        return exe


# ----------------------------------------------------------------------------- Lean side

def lean_setup():
    """build the Lean library and the verifdrv executable (idempotent)."""
    with FileLock("lake"):
        r = sh(["lake", "build", "LibfiberVerif", "verifdrv"], cwd=LEAN, timeout=3600)
    return r


_DRV = None


def verifdrv_path():
    """Build verifdrv (no-op when up to date) and use a private copy of the binary for this
    process, so a concurrent re-link by another check cannot pull it away mid-run."""
    global _DRV
    if _DRV and os.path.exists(_DRV):
        return _DRV
    p = os.path.join(LEAN, ".lake", "build", "bin", "verifdrv")
    with FileLock("lake"):
        r = sh(["lake", "build", "verifdrv"], cwd=LEAN, timeout=3600)
        if r.returncode != 0 or not os.path.exists(p):
            raise BuildError("lake build verifdrv failed:\n" + r.stdout[-4000:])
        os.makedirs(CACHE, exist_ok=True)
        dst = os.path.join(CACHE, "verifdrv_%d" % os.getpid())
        shutil.copy2(p, dst)
    _DRV = dst
    import atexit
    atexit.register(lambda: os.path.exists(dst) and os.unlink(dst))
    return _DRV


FORBIDDEN = re.compile(r"\bsorry\b|\badmit\b|^\s*axiom\s|native_decide|bv_decide|implemented_by|\bunsafe\s|maxHeartbeats\s+0|ofReduceBool")
ALLOWED_AXIOMS = {"propext", "Classical.choice", "Quot.sound"}


def strip_lean_comments(txt):
    # remove nested block comments and line comments
    out = []
    i = 0
    depth = 0
    n = len(txt)
    while i < n:
        if txt.startswith("/-", i):
            depth += 1
            i += 2
        elif depth and txt.startswith("-/", i):
            depth -= 1
            i += 2
        elif depth:
            if txt[i] == "\n":
                out.append("\n")
            i += 1
        elif txt.startswith("--", i):
            while i < n and txt[i] != "\n":
                i += 1
        else:
            out.append(txt[i])
            i += 1
    return "".join(out)


def lean_sources():
    res = []
    for root, _, files in os.walk(os.path.join(LEAN, "LibfiberVerif")):
        for f in files:
            if f.endswith(".lean"):
                res.append(os.path.join(root, f))
    res.append(os.path.join(LEAN, "Main.lean"))
    return sorted(res)


def import_closure(mod):
    """source files of `mod` and everything of this library it imports, transitively"""
    seen = {}
    todo = [mod]
    while todo:
        m = todo.pop()
        if m in seen or not m.startswith("LibfiberVerif"):
            continue
        path = os.path.join(LEAN, *m.split(".")) + ".lean"
        seen[m] = path
        try:
            txt = strip_lean_comments(open(path).read())
        except OSError:
            continue
        for im in re.findall(r"^\s*import\s+(\S+)", txt, re.M):
            todo.append(im)
    return sorted(seen.values())


def forbidden_tokens(mod=None):
    hits = []
    files = lean_sources() if mod is None else sorted(set(
        import_closure(mod) + import_closure("LibfiberVerif.Driver") + [os.path.join(LEAN, "Main.lean")]))
    for p in files:
        try:
            txt = strip_lean_comments(open(p).read())
        except OSError:
            continue
        for ln, line in enumerate(txt.split("\n"), 1):
            if FORBIDDEN.search(line):
                hits.append("%s:%d: %s" % (os.path.relpath(p, VERIF), ln, line.strip()[:120]))
    return hits


def prop_theorems(pid):
    """theorems declared in Props/<pid>.lean, fully qualified."""
    p = os.path.join(LEAN, "LibfiberVerif", "Props", pid + ".lean")
    txt = strip_lean_comments(open(p).read())
    ns = []
    names = []
    for line in txt.split("\n"):
        m = re.match(r"\s*namespace\s+(\S+)", line)
        if m:
            ns.append(m.group(1))
            continue
        m = re.match(r"\s*end\s+(\S+)", line)
        if m and ns and ns[-1].split(".")[-1] == m.group(1).split(".")[-1]:
            ns.pop()
            continue
        m = re.match(r"\s*(?:protected\s+|private\s+)?theorem\s+(\S+)", line)
        if m:
            names.append(".".join(ns + [m.group(1)]))
    return names


def lean_obligations(pid, leanchecker=False, extra=()):
    """Build Props/<pid>.lean, audit axioms of every theorem in it, grep forbidden tokens.
    Returns dict(obligations=[{name, ok, axioms}], ok, log)."""
    mod = "LibfiberVerif.Props." + pid
    # extra property modules that belong to this property's obligations (e.g. the TSO
    # store-buffer theorems for C02/C14, the abstract-queue refinement for C03)
    extra_mods = ["LibfiberVerif.Props." + e for e in extra
                  if os.path.exists(os.path.join(LEAN, "LibfiberVerif", "Props", e + ".lean"))]
    res = {"module": mod, "obligations": [], "ok": True, "log": ""}
    with FileLock("lake"):
        r = sh(["lake", "build", mod] + extra_mods, cwd=LEAN, timeout=3600)
    if r.returncode != 0:
        res["ok"] = False
        res["log"] = r.stdout[-6000:]
        # which theorems failed: parse error lines
        res["failed_build"] = True
        errs = re.findall(r"error: (\S+\.lean):(\d+):\d+: (.*)", r.stdout)
        res["errors"] = ["%s:%s %s" % e for e in errs][:20]
        return res
    names = prop_theorems(pid)
    for e in extra:
        if os.path.exists(os.path.join(LEAN, "LibfiberVerif", "Props", e + ".lean")):
            names += prop_theorems(e)
    audit = "import %s\n" % mod + "".join("import %s\n" % m for m in extra_mods) + "".join("#print axioms %s\n" % n for n in names)
    ap = os.path.join(CACHE, "audit_%s_%d.lean" % (pid, os.getpid()))
    os.makedirs(CACHE, exist_ok=True)
    open(ap, "w").write(audit)
    r = sh(["lake", "env", "lean", ap], cwd=LEAN, timeout=1800)
    os.unlink(ap)
    out = r.stdout
    # parse "'name' depends on axioms: [a, b]" / "'name' does not depend on any axioms"
    found = {}
    for m in re.finditer(r"'(\S+)' depends on axioms: \[([^\]]*)\]", out, re.S):
        found[m.group(1)] = [a.strip() for a in m.group(2).replace("\n", " ").split(",") if a.strip()]
    for m in re.finditer(r"'(\S+)' does not depend on any axioms", out):
        found[m.group(1)] = []
    for n in names:
        ax = found.get(n)
        ok = ax is not None and all(a in ALLOWED_AXIOMS for a in ax)
        res["obligations"].append({"name": n, "ok": ok, "axioms": ax if ax is not None else ["<not found>"]})
        if not ok:
            res["ok"] = False
    hits = forbidden_tokens(mod)
    for m in extra_mods:
        hits += forbidden_tokens(m)
    hits = sorted(set(hits))
    res["forbidden"] = hits
    if hits:
        res["ok"] = False
    if leanchecker and res["ok"]:
        for m in extra_mods:
            r = sh(["lake", "env", "leanchecker", m], cwd=LEAN, timeout=3600)
            if r.returncode != 0:
                res["ok"] = False
                res["leanchecker"] = r.stdout[-2000:]
        r = sh(["lake", "env", "leanchecker", mod], cwd=LEAN, timeout=3600)
        res["leanchecker"] = "ok" if r.returncode == 0 else r.stdout[-2000:]
        if r.returncode != 0:
            res["ok"] = False
    return res


# ----------------------------------------------------------------------------- running cases

def run_case(exe, args, env, workdir, tag, timeout=60):
    """Run one instrumented scenario; returns dict(status, log, rc)."""
    os.makedirs(workdir, exist_ok=True)
    log = os.path.join(workdir, tag + ".log")
    e = {k: str(v) for k, v in env.items()}
    e["VR_LOG"] = log
    try:
        p = sh([exe] + [str(a) for a in args], env=e, timeout=timeout)
        rc = p.returncode
        out = p.stdout
    except subprocess.TimeoutExpired:
        rc = -9
        out = "TIMEOUT"
    status = "CRASH"
    if os.path.exists(log):
        try:
            with open(log, "rb") as f:
                f.seek(max(0, os.path.getsize(log) - 400))
                tail = f.read().decode(errors="replace")
            m = re.search(r"# status (\S+)", tail)
            if m:
                status = m.group(1)
        except OSError:
            pass
    if rc == -9:
        status = "TIMEOUT"
    return {"status": status, "rc": rc, "log": log, "out": out[-2000:]}


def drv(model, log, timeout=600):
    p = sh([verifdrv_path(), model, log], timeout=timeout)
    out = p.stdout
    v = {"validate_ok": False, "monitor_ok": False, "raw": out.strip()[-1500:]}
    m = re.search(r"VALIDATE OK model=\S+ events=(\d+)", out)
    if m:
        v["validate_ok"] = True
        v["events"] = int(m.group(1))
    m = re.search(r'VALIDATE DIVERGE model=\S+ event=(\d+) why="([^"]*)" line="([^"]*)"', out)
    if m:
        v["diverge"] = {"event": int(m.group(1)), "why": m.group(2), "line": m.group(3)}
    if "MONITOR OK" in out:
        v["monitor_ok"] = True
    m = re.search(r"MONITOR FAIL (.*)", out)
    if m:
        v["monitor_fail"] = m.group(1).strip()
    return v


def log_signature(log):
    """(sha1 of the (thread, kind, cell) sequence, #events, #thread switches inside ops, kinds histogram)"""
    h = hashlib.sha1()
    hist = {}
    n = 0
    last = None
    switches = 0
    casfail = 0
    open_ops = set()
    interleaved = False
    mo = {}
    funcs = set()
    with open(log) as f:
        for line in f:
            if line.startswith("#"):
                continue
            p = line.split()
            if len(p) < 4:
                continue
            n += 1
            tid, kind = p[0], p[3]
            if kind != "note":
                funcs.add(p[2])
            cell = p[4] if len(p) > 4 else ""
            if kind == "note":
                if len(p) > 4 and p[4] == "call":
                    open_ops.add(tid)
                elif len(p) > 4 and p[4] == "ret":
                    open_ops.discard(tid)
                key = "note " + " ".join(p[4:6])
            else:
                key = kind + " " + re.sub(r"\d+", "#", cell)
                if kind == "cas" and len(p) >= 9 and p[8] == "0":
                    casfail += 1
                if kind == "cas2" and p[-1] == "0":
                    casfail += 1
            hist[key] = hist.get(key, 0) + 1
            if p[-1].startswith("mo") and kind in ("ld", "st", "xchg", "fadd", "fsub", "fand", "for", "fxor", "cas"):
                mk = "%s %s %s" % (p[2], kind, re.sub(r"\d+", "#", cell))
                mo.setdefault(mk, set()).add(p[-1])
            if last is not None and tid != last:
                switches += 1
                if len(open_ops) >= 2 or (open_ops and tid not in open_ops) or (last in open_ops):
                    interleaved = True
            last = tid
            h.update(("%s %s %s\n" % (tid, kind, cell)).encode())
    return {"sig": h.hexdigest()[:16], "events": n, "switches": switches, "casfail": casfail,
            "interleaved": interleaved, "hist": hist, "mo": {k: sorted(v) for k, v in mo.items()},
            "funcs": sorted(funcs)}


def anchored_functions(pid):
    """function definitions in the files property <pid> is anchored in (properties.jsonl),
    taken from /repo's working tree: {name: file}.  Used for an informational coverage figure
    (which of them ever appear as the function of a logged event)."""
    out = {}
    files = []
    for line in open(os.path.join(VERIF, "properties.jsonl")):
        d = json.loads(line)
        if d["id"] == pid:
            files = d.get("anchors", {}).get("files", [])
    for rel in files:
        path = os.path.join(REPO, rel)
        if not os.path.isfile(path):
            continue
        txt = re.sub(r"/\*.*?\*/", "", open(path, errors="replace").read(), flags=re.S)
        txt = re.sub(r"//[^\n]*", "", txt)
        for m in re.finditer(r"^[A-Za-z_][\w \t\*]*?\b([A-Za-z_]\w*)\s*\([^;{}]*\)\s*\{", txt, flags=re.M):
            name = m.group(1)
            if name not in ("if", "while", "for", "switch", "return", "sizeof"):
                out.setdefault(name, rel)
    return out


# ----------------------------------------------------------------------------- known findings / verdict / evidence

def load_known():
    p = os.path.join(VERIF, "known_findings.json")
    if os.path.exists(p):
        return json.load(open(p))
    return {"findings": [], "fixed": []}


def write_evidence(pid, ev):
    d = os.path.join(VERIF, "evidence")
    os.makedirs(d, exist_ok=True)
    p = os.path.join(d, pid + ".json")
    tmp = p + ".tmp"
    json.dump(ev, open(tmp, "w"), indent=1, sort_keys=False)
    os.replace(tmp, p)
    return p


def write_replay(pid, name, obj):
    d = os.path.join(VERIF, "replays", pid)
    os.makedirs(d, exist_ok=True)
    p = os.path.join(d, name + ".json")
    json.dump(obj, open(p, "w"), indent=1)
    return p


def tail_lines(path, n=40):
    try:
        with open(path) as f:
            ls = f.readlines()
        return [l.rstrip("\n") for l in ls[-n:]]
    except OSError:
        return []


def head_lines(path, n=40):
    try:
        with open(path) as f:
            ls = []
            for l in f:
                ls.append(l.rstrip("\n"))
                if len(ls) >= n:
                    break
        return ls
    except OSError:
        return []


# ----------------------------------------------------------------------------- memory-order profile

MO_RANK = {"mo0": 0, "mo1": 1, "mo2": 2, "mo3": 2, "mo4": 3, "mo5": 4}


def mo_weaker(new, base):
    """is memory order `new` not at least as strong as `base`?  acquire (mo2) and release (mo3)
    are incomparable: replacing one by the other counts as weaker."""
    if new == base:
        return False
    if MO_RANK[new] > MO_RANK[base]:
        return False
    return True


def mo_profile_path(pid):
    return os.path.join(VERIF, "tools", "mo_profile", pid + ".json")


def mo_compare(pid, observed):
    """compare the memory orders seen at each atomic site (function, kind, cell) with the
    committed expectation; returns a list of human-readable weakenings"""
    p = mo_profile_path(pid)
    if not os.path.exists(p):
        return []
    base = json.load(open(p))
    bad = []
    for site, mos in observed.items():
        exp = base.get(site)
        if not exp:
            continue
        for m in mos:
            if all(mo_weaker(m, e) for e in exp):
                bad.append("%s: expected %s, saw %s" % (site, "/".join(exp), m))
    return sorted(set(bad))


def oracle_note(log_path, case):
    """generic `post` for oracle-only parts: the first `note ORACLE ...` line of the log"""
    try:
        with open(log_path) as f:
            for line in f:
                i = line.find(" note ORACLE ")
                if i >= 0:
                    return "oracle " + line[i + 13:].strip()[:200]
    except OSError:
        pass
    return None
