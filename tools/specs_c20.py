"""C20 — double-word-CAS containers: include/mpmc_lifo.h, include/dist_fifo.h, include/mpmc_stack.h.

(The fourth structure of C20, the multi-waiter signal of fiber_signal.h, needs the fiber
runtime; its part is appended to SPEC["C20"]["parts"] by whoever provides it — see
`add_part` below.)

All three harnesses keep a pool of 2-3 nodes in total and re-push a popped node right away,
so that a node cycles through the container while another thread still holds a stale
(counter, head) snapshot.
"""
from specs import sched_env, n_cases


def _owners(rng, nt, nn, only=None):
    return ",".join(str(only if only is not None else rng.randrange(nt)) for _ in range(nn))


def _c20_env(rng):
    env = sched_env(rng)
    # the interesting windows (snapshot .. CAS2) are 3-4 scheduling points wide: switch a lot
    if env["VR_SCHED"] == "rand":
        env["VR_SWITCH"] = rng.choice([2, 2, 3, 4])
    elif env["VR_SCHED"] == "freeze":
        env["VR_FREEZE_DEN"] = rng.choice([3, 6, 12])
        env["VR_FREEZE_LEN"] = rng.choice([10, 25, 60])
    else:
        env["VR_PCT_LEN"] = rng.choice([30, 80, 200])
    return env


# ------------------------------------------------------------------ mpmc_lifo.h

def gen_lifo(rng, tier):
    cases = []
    for _ in range(n_cases(tier, 260, 4000)):
        nt = rng.choice([2, 3, 3, 4])
        nn = rng.choice([2, 2, 3, 3, 4])
        nxt = 1
        threads = []
        for t in range(nt):
            ops = []
            for _ in range(rng.randrange(3, 9 if tier == "quick" else 14)):
                if rng.random() < 0.5:
                    ops.append("p%d" % nxt)
                    nxt += 1
                else:
                    ops.append("o")
            threads.append(",".join(ops))
        cases.append({"args": [_owners(rng, nt, nn), "|".join(threads)], "env": _c20_env(rng)})
    return cases


# ------------------------------------------------------------------ dist_fifo.h

def gen_distfifo(rng, tier):
    """script thread 0 is the one pusher (it pops too, re-pushing what it popped right away);
    the other threads pop and hand their node back to the pusher (g)"""
    cases = []
    for _ in range(n_cases(tier, 260, 4000)):
        nt = rng.choice([2, 3, 3, 4])
        nn = rng.choice([1, 2, 2, 3])          # plus the stub: 2-4 nodes cycle
        nxt = 1
        threads = []
        ops = []
        for _ in range(rng.randrange(4, 11 if tier == "quick" else 18)):
            if rng.random() < 0.6:
                ops.append("p%d" % nxt)
                nxt += 1
            else:
                ops.append("o")
        threads.append(",".join(ops))
        for t in range(1, nt):
            ops = []
            for _ in range(rng.randrange(3, 10 if tier == "quick" else 16)):
                ops.append("o" if rng.random() < 0.65 else "g")
            threads.append(",".join(ops))
        owners = ",".join(str(0 if rng.random() < 0.8 else rng.randrange(nt)) for _ in range(nn))
        cases.append({"args": [owners, "|".join(threads)], "env": _c20_env(rng)})
    return cases


# ------------------------------------------------------------------ mpmc_stack.h

def _stack_env(rng):
    """the window of a bounded push (load head .. CAS) is two scheduling points wide and a
    push_timeout only gives up when somebody else's push or flush lands in EVERY one of its
    windows: mostly the random scheduler with a switch at (almost) every point"""
    if rng.random() < 0.6:
        return {"VR_SEED": rng.randrange(1, 1 << 30), "VR_SCHED": "rand", "VR_BUDGET": 200000,
                "VR_SWITCH": rng.choice([1, 1, 2, 2, 3])}
    return _c20_env(rng)


def gen_stack(rng, tier):
    cases = []
    for _ in range(n_cases(tier, 260, 4000)):
        nt = rng.choice([2, 3, 3, 4])
        nn = rng.choice([2, 3, 3, 4])
        # a third of the cases are push storms (every thread mostly pushes): contention on head
        ppush = 0.85 if rng.random() < 0.33 else 0.6
        pto = rng.choice([0.25, 0.4, 0.6])
        nxt = 1
        threads = []
        for t in range(nt):
            ops = []
            for _ in range(rng.randrange(3, 9 if tier == "quick" else 14)):
                x = rng.random()
                if x < ppush:
                    # a minority of the pushes (over all cases) are mpmc_stack_push_timeout with
                    # a budget of 1-3 CAS attempts ("t<b>:<v>"); every push attempt, successful
                    # or not, carries a fresh value (a node whose push gave up stays with the
                    # thread and is pushed again by its next push op)
                    if rng.random() < pto:
                        ops.append("t%d:%d" % (rng.choice([1, 1, 1, 2, 2, 3]), nxt))
                    else:
                        ops.append("p%d" % nxt)
                    nxt += 1
                elif x < ppush + (1 - ppush) * 0.625:
                    ops.append("f")
                else:
                    ops.append("l")
            threads.append(",".join(ops))
        # storms need every thread to own a node
        owners = ",".join(str(t % nt) for t in range(max(nn, nt))) if ppush > 0.8 else _owners(rng, nt, nn)
        cases.append({"args": [owners, "|".join(threads)], "env": _stack_env(rng)})
    return cases


def post_stack(log_path, case):
    """log-level oracle for mpmc_stack_push_timeout (the API cannot observe the attempt budget):
    between `call pushto <v> <b>` and `ret pushto <r>` the thread makes at most b CAS attempts
    on head; r = 0 only after exactly b of them, all failed; r = 1 only right after a
    successful one; r is 0 or 1; no write to head (successful CAS) by an operation that
    reports 0"""
    cur = {}
    try:
        f = open(log_path)
    except OSError:
        return None
    with f:
        for line in f:
            p = line.split()
            if len(p) < 5 or line.startswith("#"):
                continue
            tid, kind = p[0], p[3]
            if kind == "note" and p[4:6] == ["call", "pushto"] and len(p) >= 8:
                cur[tid] = {"v": p[6], "b": int(p[7]), "att": 0, "ok": 0}
            elif kind == "cas" and p[4] == "head" and tid in cur and len(p) >= 9:
                c = cur[tid]
                c["att"] += 1
                c["ok"] += 1 if p[8] == "1" else 0
                if c["att"] > c["b"]:
                    return "oracle budget: push_timeout(value %s, tries %d) made CAS attempt number %d" % (
                        c["v"], c["b"], c["att"])
            elif kind == "note" and p[4:6] == ["ret", "pushto"] and tid in cur and len(p) >= 7:
                c = cur.pop(tid)
                r = p[6]
                if r not in ("0", "1"):
                    return "oracle badReturn: push_timeout(value %s) returned %s" % (c["v"], r)
                if r == "0" and c["ok"]:
                    return "oracle retryAfterPublish: push_timeout(value %s) returned MPMC_RETRY after its CAS succeeded" % c["v"]
                if r == "0" and c["att"] != c["b"]:
                    return "oracle gaveUpEarly: push_timeout(value %s, tries %d) returned MPMC_RETRY after %d CAS attempts" % (
                        c["v"], c["b"], c["att"])
                if r == "1" and not c["ok"]:
                    return "oracle successWithoutPublish: push_timeout(value %s) returned MPMC_SUCCESS without a successful CAS" % c["v"]
    return None


def add_part(part):
    """hook for the multi-signal part (fiber runtime): specs_c20.add_part({...})"""
    SPEC["C20"]["parts"].append(part)


SPEC = {
    "C20": {
        "extra_props": ("QueueHist",),
        "parts": [
            {"name": "lifo", "harness": "lifo", "model": "Lifo", "gen": gen_lifo},
            {"name": "distfifo", "harness": "distfifo", "model": "DistFifo", "gen": gen_distfifo},
            {"name": "stack", "harness": "stack", "model": "Stack", "gen": gen_stack, "post": post_stack},
        ],
        "trusted_base": [
            "64-bit wrap-around of the ABA counters not modelled (2^64 successful CAS2s unreachable)",
            "cmpxchg16b compares and swaps both words atomically (the real instruction runs; rt/shim.h only brackets it)",
        ],
        "assumptions": [
            "client: a thread pushes only a non-NULL node it owns (allocated by it or returned to it by a pop/flush/hand-over)",
            "client: dist_fifo has exactly one pushing thread (documented contract of dist_fifo.h)",
            "client: popped dist_fifo/lifo nodes stay readable (never unmapped) while other threads may hold stale snapshots (dist_fifo.h assumption 1)",
            "weak CAS of mpmc_stack_push / mpmc_stack_push_timeout does not fail spuriously on x86-64 (cmpxchg)",
            "client: mpmc_stack_push_timeout is called with tries >= 1 (tries is a size_t decremented before it is tested: tries = 0 wraps to SIZE_MAX attempts, i.e. behaves like the unbounded push)",
        ],
    },
}
