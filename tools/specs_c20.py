"""C20 — double-word-CAS containers: include/mpmc_lifo.h, include/dist_fifo.h, include/mpmc_stack.h.

(The fourth structure of C20, the multi-waiter signal of fiber_signal.h, needs the fiber
runtime; its part is appended to SPEC["C20"]["parts"] by whoever provides it — see
`add_part` below.)

All three harnesses keep a pool of 2-3 nodes in total and re-push a popped node right away,
so that a node cycles through the container while another thread still holds a stale
(counter, head) snapshot.
"""
from specs import sched_env, n_cases


def _owners(rng, nt, nn, only=None):
    return ",".join(str(only if only is not None else rng.randrange(nt)) for _ in range(nn))


def _c20_env(rng):
    env = sched_env(rng)
    # the interesting windows (snapshot .. CAS2) are 3-4 scheduling points wide: switch a lot
    if env["VR_SCHED"] == "rand":
        env["VR_SWITCH"] = rng.choice([2, 2, 3, 4])
    elif env["VR_SCHED"] == "freeze":
        env["VR_FREEZE_DEN"] = rng.choice([3, 6, 12])
        env["VR_FREEZE_LEN"] = rng.choice([10, 25, 60])
    else:
        env["VR_PCT_LEN"] = rng.choice([30, 80, 200])
    return env


# ------------------------------------------------------------------ mpmc_lifo.h

def gen_lifo(rng, tier):
    cases = []
    for _ in range(n_cases(tier, 260, 4000)):
        nt = rng.choice([2, 3, 3, 4])
        nn = rng.choice([2, 2, 3, 3, 4])
        nxt = 1
        threads = []
        for t in range(nt):
            ops = []
            for _ in range(rng.randrange(3, 9 if tier == "quick" else 14)):
                if rng.random() < 0.5:
                    ops.append("p%d" % nxt)
                    nxt += 1
                else:
                    ops.append("o")
            threads.append(",".join(ops))
        cases.append({"args": [_owners(rng, nt, nn), "|".join(threads)], "env": _c20_env(rng)})
    return cases


# ------------------------------------------------------------------ dist_fifo.h

def gen_distfifo(rng, tier):
    """script thread 0 is the one pusher (it pops too, re-pushing what it popped right away);
    the other threads pop and hand their node back to the pusher (g)"""
    cases = []
    for _ in range(n_cases(tier, 260, 4000)):
        nt = rng.choice([2, 3, 3, 4])
        nn = rng.choice([1, 2, 2, 3])          # plus the stub: 2-4 nodes cycle
        nxt = 1
        threads = []
        ops = []
        for _ in range(rng.randrange(4, 11 if tier == "quick" else 18)):
            if rng.random() < 0.6:
                ops.append("p%d" % nxt)
                nxt += 1
            else:
                ops.append("o")
        threads.append(",".join(ops))
        for t in range(1, nt):
            ops = []
            for _ in range(rng.randrange(3, 10 if tier == "quick" else 16)):
                ops.append("o" if rng.random() < 0.65 else "g")
            threads.append(",".join(ops))
        owners = ",".join(str(0 if rng.random() < 0.8 else rng.randrange(nt)) for _ in range(nn))
        cases.append({"args": [owners, "|".join(threads)], "env": _c20_env(rng)})
    return cases


# ------------------------------------------------------------------ mpmc_stack.h

def gen_stack(rng, tier):
    cases = []
    for _ in range(n_cases(tier, 260, 4000)):
        nt = rng.choice([2, 3, 3, 4])
        nn = rng.choice([2, 3, 3, 4])
        nxt = 1
        threads = []
        for t in range(nt):
            ops = []
            for _ in range(rng.randrange(3, 9 if tier == "quick" else 14)):
                x = rng.random()
                if x < 0.6:
                    ops.append("p%d" % nxt)
                    nxt += 1
                elif x < 0.85:
                    ops.append("f")
                else:
                    ops.append("l")
            threads.append(",".join(ops))
        cases.append({"args": [_owners(rng, nt, nn), "|".join(threads)], "env": _c20_env(rng)})
    return cases


def add_part(part):
    """hook for the multi-signal part (fiber runtime): specs_c20.add_part({...})"""
    SPEC["C20"]["parts"].append(part)


SPEC = {
    "C20": {
        "extra_props": ("QueueHist",),
        "parts": [
            {"name": "lifo", "harness": "lifo", "model": "Lifo", "gen": gen_lifo},
            {"name": "distfifo", "harness": "distfifo", "model": "DistFifo", "gen": gen_distfifo},
            {"name": "stack", "harness": "stack", "model": "Stack", "gen": gen_stack},
        ],
        "trusted_base": [
            "64-bit wrap-around of the ABA counters not modelled (2^64 successful CAS2s unreachable)",
            "cmpxchg16b compares and swaps both words atomically (the real instruction runs; rt/shim.h only brackets it)",
        ],
        "assumptions": [
            "client: a thread pushes only a non-NULL node it owns (allocated by it or returned to it by a pop/flush/hand-over)",
            "client: dist_fifo has exactly one pushing thread (documented contract of dist_fifo.h)",
            "client: popped dist_fifo/lifo nodes stay readable (never unmapped) while other threads may hold stale snapshots (dist_fifo.h assumption 1)",
            "weak CAS of mpmc_stack_push does not fail spuriously on x86-64 (cmpxchg)",
        ],
    },
}
