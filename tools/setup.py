#!/usr/bin/env python3
"""setup.py — MANIFEST.setup_cmd: build the Lean library (all models, proofs, property
theorems) and the verifdrv executable from files on disk.  Offline."""
import os
import sys

sys.path.insert(0, os.path.dirname(os.path.abspath(__file__)))
import vlib  # noqa: E402

r = vlib.lean_setup()
sys.stdout.write(r.stdout[-3000:])
sys.exit(r.returncode)
