#!/usr/bin/env python3
"""setup.py — MANIFEST.setup_cmd: build the Lean library (all models, proofs, property
theorems of the claimed checks) and the verifdrv executable from files on disk.  Offline."""
import json
import os
import sys

sys.path.insert(0, os.path.dirname(os.path.abspath(__file__)))
import vlib  # noqa: E402

r = vlib.lean_setup()
sys.stdout.write(r.stdout[-3000:])
rc = r.returncode
try:
    man = json.load(open(os.path.join(vlib.VERIF, "MANIFEST.json")))
    mods = ["LibfiberVerif.Props." + c["property_id"] for c in man.get("checks", [])]
except Exception:
    mods = []
for pid_mod in mods:
    spec_pre = None
    try:
        from specs import SPECS
        spec_pre = SPECS[pid_mod.split(".")[-1]].get("pre")
    except Exception:
        pass
    if spec_pre:
        try:
            spec_pre(vlib.REPO)
        except Exception as e:
            print("pre-step failed for %s: %s" % (pid_mod, e))
try:
    from specs import SPECS as _S
    for c in man.get("checks", []):
        for e in _S[c["property_id"]].get("extra_props", ()):
            m = "LibfiberVerif.Props." + e
            if m not in mods and os.path.exists(os.path.join(vlib.LEAN, "LibfiberVerif", "Props", e + ".lean")):
                mods.append(m)
except Exception:
    pass
if mods:
    with vlib.FileLock("lake"):
        r2 = vlib.sh(["lake", "build"] + mods, cwd=vlib.LEAN, timeout=7200)
    sys.stdout.write(r2.stdout[-3000:])
    # a failing property module is that property's problem (its check reports it), not setup's
sys.exit(rc)
