"""C07 — fiber read/write lock (src/fiber_rwlock.c + wait/wake in src/fiber_manager.c)."""
import re

from specs import sched_env, n_cases


def gen_script(rng, maxf, maxops, profile):
    """every acquisition (blocking or try) is immediately followed by `u` (a no-op when the
    try failed), no nested locking: deadlock-free by construction"""
    nf = rng.randrange(2, maxf + 1)
    # profiles shift the reader/writer mix so that hand-offs to both queues, reader batches
    # and try races are all common
    pr, pw, ptr, ptw = {"mixed": (0.35, 0.30, 0.12, 0.12),
                        "readers": (0.55, 0.15, 0.15, 0.05),
                        "writers": (0.20, 0.50, 0.05, 0.15)}[profile]
    fibers = []
    for _ in range(nf):
        ops = []
        for _ in range(rng.randrange(1, maxops + 1)):
            x = rng.random()
            if x < pr:
                ops += ["r", "u"]
            elif x < pr + pw:
                ops += ["w", "u"]
            elif x < pr + pw + ptr:
                ops += ["R", "u"]
            elif x < pr + pw + ptr + ptw:
                ops += ["W", "u"]
            else:
                ops += ["y"]
        fibers.append(",".join(ops))
    return "|".join(fibers)


def gen(rng, tier):
    cases = []
    quick = tier != "thorough"
    for _ in range(n_cases(tier, 360, 4500)):
        k = rng.choice([1, 2, 2, 3, 3])
        prof = rng.choice(["mixed", "mixed", "readers", "writers"])
        cases.append({"args": [k, gen_script(rng, 5 if quick else 6, 3 if quick else 5, prof)],
                      "env": sched_env(rng, budget=400000)})
    # crowds: one writer holds the lock while more than 1024 readers (or a few hundred writers and
    # readers) queue up behind it on one kernel thread; its unlock must admit every one of them
    for nread, nwrite in ([(1030, 0), (300, 40)] if quick else [(1030, 0), (1100, 3), (300, 40), (1025, 1), (600, 300)]):
        fibers = ["w,u"] + ["r,u"] * nread + ["w,u"] * nwrite
        tail = fibers[1:]
        rng.shuffle(tail)
        # the scheduler starts freshly created fibers last-created-first: the holder goes last
        cases.append({"args": [1, "|".join(tail + fibers[:1])], "timeout": 600,
                      "env": {"VR_SEED": rng.randrange(1, 1 << 30), "VR_SCHED": "rr", "VR_BUDGET": 30000000, "VR_MAXEV": 8000000}})
    return cases


def gen_word(rng, tier):
    """one operation on an arbitrary state word (also unreachable ones): conformance of the
    C bit-field computations with the model's lockNew / tryLegal / tryNew / unlockNew.
    The full grid of small field values (every branch of every operation, several times)
    plus random words with large fields."""
    words = [(wl, rc, wr, ww) for wl in (0, 1) for rc in (0, 1, 2) for wr in (0, 1, 3) for ww in (0, 1, 2)]
    big = [(1 << 21) - 2, (1 << 20) + 7, 5, 0, 1]
    # every field at the boundaries a narrowed field or mask would have (2^k - 1, 2^k, 2^k + 1), one
    # field at a time, with and without the other fields set
    for kbits in ([7, 8, 10, 11, 12, 15, 16, 20] if tier != "thorough" else range(2, 21)):
        for v in ((1 << kbits) - 1, 1 << kbits, (1 << kbits) + 1):
            for wl in (0, 1):
                words.append((wl, v, 0, 1))
                words.append((wl, 0, v, 0))
                words.append((wl, 1, v, 1))
                if v < (1 << 20):
                    words.append((wl, 0, 0, v))
                    words.append((wl, 2, 1, v))
    for _ in range(n_cases(tier, 8, 200)):
        # waiting_writers stays below 2^20: values with bit 63 set are logged as signed by the runtime
        words.append((rng.choice([0, 1]), rng.choice(big), rng.choice(big), rng.choice(big[1:])))
    cases = []
    for (wl, rc, wr, ww) in words:
        blob = wl | (rc << 1) | (wr << 22) | (ww << 43)
        for op in "rwRWuU":
            cases.append({"args": [1, "%s:%d" % (op, blob)],
                          "env": {"VR_SEED": rng.randrange(1, 1 << 30), "VR_SCHED": "rand", "VR_SWITCH": 3,
                                  "VR_BUDGET": 1500}})
    return cases


def post(log_path, case):
    """extra oracle on the harness's protected datum: a reader saw it change inside its
    critical section / two writers lost an update"""
    writes = 0
    last = None
    with open(log_path) as f:
        for line in f:
            if " note cs " not in line:
                continue
            if " cs torn " in line:
                return "oracle torn read inside a read-side critical section: " + line.strip()
            m = re.search(r" cs exit w (\d+)", line)
            if m:
                writes += 1
                last = int(m.group(1))
    if last is not None and last != writes:
        return "oracle lost update: %d write-side critical sections, protected counter = %d" % (writes, last)
    return None


import os as _os
import sys as _sys

_sys.path.insert(0, _os.path.join(_os.path.dirname(_os.path.dirname(_os.path.abspath(__file__))), "extract"))
import wake_extract  # noqa: E402


def pre(repo):
    """translator step (facts no trace shows): the manager's wake loops wait without bound for an
    announced waiter and wake exactly the number asked for"""
    return wake_extract.check(repo)


def _numeric(gen):
    """the lock word `rw` packs three 21-bit counts: with a crowd of waiters its value can coincide
    with a heap address; tell the runtime never to print it as a pointer"""
    def g(rng, tier):
        cs = gen(rng, tier)
        for c in cs:
            c["env"]["VR_NUMCELLS"] = "rw"
        return cs
    return g


SPEC = {
    "C07": {
        "pre": pre,
        "parts": [{"name": "rwlock", "harness": "rwlock", "model": "RwLock", "runtime": True, "gen": _numeric(gen),
                   "post": post,
                   "nontrivial": lambda s: (s["hist"].get("xchg RT", 0) + s["hist"].get("xchg WT", 0)) >= 1},
                  # the operation may legitimately wait for ever / pop an empty queue for ever here
                  {"name": "rwword", "harness": "rwword", "model": "RwWord", "runtime": True, "gen": _numeric(gen_word),
                   "ok_status": ("OK", "HANG", "BUDGET"),
                   "nontrivial": lambda s: s["hist"].get("cas rw", 0) >= 1}],
        "rule": "part rwword: one operation on a planted arbitrary state word, CAS operands and continuation compared with the model's pure word functions; part rwlock: cases = (script of 2-6 fibers doing rdlock/wrlock/tryrdlock/trywrlock each followed by the matching unlock, with a yield inside the critical section, 1-3 kernel threads, scheduler kind+seed) from VERIF_SEED; distinct = different (script, sha1 of access sequence); non-trivial = at least one waiter was enqueued on read_waiters or write_waiters",
        "trusted_base": [
            "waiter queues kept abstractly (ghost order + linked flags), validated against every logged access; adequacy for all interleavings with one consumer at a time is C15 (Mpsc.pop_is_next_in_order / empty_justified); that the rwlock never runs two consumers on one queue is C07's own theorem single_consumer",
            "scheduler traffic on fiber state words is skipped here and covered by the runtime model (C01/C02); a popped waiter resumes only after its waker called fiber_manager_schedule (checked on every trace via the `woken` ghost)"],
        "assumptions": [
            "client contract: unlock only by a holder, in the mode it holds; no nested locking",
            "fewer than 2^21 simultaneous holders/waiters (21-bit fields do not overflow): a CAS whose new word does not fit is not a model step"],
    },
}
