"""the hazard-pointer scale part (harness/hpscale.c), shared by C14 (its own property) and C13 (its
composition assumption); a module of its own because specs_c13 and specs_c14 import each other's parts"""
from specs import n_cases
import vlib


def gen_hp_scale(rng, tier):
    """(records, slots per record, spread addresses?, seed): the real scan on configurations the
    access-level harness cannot follow - every small K including the odd ones, more than 255 /
    65535 live hazard pointers, one record with very many slots, nodes gigabytes apart"""
    cfgs = [(r, k, 0) for k in range(1, 10) for r in (1, 2, 5)]
    cfgs += [(300, 256, 0), (1, 70000, 0), (256, 256, 0), (255, 257, 0), (3, 260, 0), (260, 3, 0), (1100, 64, 0)]
    cfgs += [(64, 5, 1), (7, 9, 1), (40, 100, 1), (2, 2, 1), (1, 3, 1), (500, 40, 1)]
    for _ in range(n_cases(tier, 10, 150)):
        cfgs.append((rng.randrange(1, 400), rng.randrange(1, 300), rng.choice([0, 0, 1]) if True else 0))
    out = []
    for (r, k, sp) in cfgs:
        if sp and r * k > 25000:
            sp = 0
        out.append({"args": [r, k, sp, rng.randrange(1, 1 << 30)], "timeout": 300,
                    "env": {"VR_SEED": 1, "VR_HANG": 4000000000, "VR_BUDGET": 4000000000, "VR_MAXEV": 8000000}})
    return out


HP_SCALE_PART = {"name": "hp-scale", "harness": "hpscale", "model": None, "gen": gen_hp_scale, "post": vlib.oracle_note}
