"""C08 — shimmed descriptor I/O (src/fiber_io.c over fiber_wait_for_event / the fd branch of the
poller / fiber_fd_closed in src/fiber_event_native.c).

Parts
  io       the REAL runtime + shims on real kernel objects (AF_UNIX socketpairs, pipes, loopback
           TCP) under the deterministic scheduler; every access to fd_info[fd].flags_ and
           wait_info[fd].{events,added,spinlock,waiters}, every underlying libc call of a shim
           (trampolines in the fibershim_* pointers) and every epoll_ctl is in the log and is
           replayed through the Lean model IoShim; `post` = API-level oracles + a differential
           comparison with a plain-pthread REFERENCE run of the same script (shims made transparent
           by fiber_io_lock_thread, runtime not started, ordinary blocking descriptors).
  io_asan  the same harness built natively with -fsanitize=address (no TSan instrumentation, no
           deterministic scheduler): bounds oracle for bad descriptors (oracle-only, no model).

Failure classes (first words of the message; `post` puts the classes that have a known-finding
entry LAST, and those entries are anchored with ^, so a known finding can never hide another class):
  oracle nonblocking-blocked   a call on an O_NONBLOCK / FIONBIO / MSG_DONTWAIT descriptor parked      (F-C08a, fixed)
  oracle blocking-eagain       a call on a descriptor in blocking mode returned -1/EAGAIN              (F-C08b, fixed)
  oracle oob                   an index into fd_info / wait_info outside [0, max_fd)                   (F-C08c, fixed)
  oracle bad-fd-crash          SIGSEGV inside a shim called with an invalid descriptor                 (F-C08c, fixed)
  oracle invalid-fd-noerror    an invalid descriptor did not yield an error return                     (F-C08c, fixed)
  oracle closed-eagain         a parked call woken by close() returned -1/EAGAIN (stale errno)         (F-C08d, fixed)
  oracle lost-wakeup           a ready / closed waiter is never resumed (every thread idle)            (F-C08h, fixed)
  oracle zerolen-blocked       a zero-length read/readv parked although the plain call returns at once (F-C08e, known)
  oracle fcntl-mode (..)       fcntl(F_SETFL, flags incl./excl. O_NONBLOCK) did not switch the mode    (F-C08f, known)
  oracle getfl-nonblock        F_GETFL shows the library's private O_NONBLOCK                          (F-C08f, known)
  oracle poll-starved          a ready waiter is never resumed because no kernel thread goes idle      (F-C08g, known)
  oracle errno-migration (..)  wrong result after the fiber resumed on ANOTHER kernel thread           (F-C08i, known)
  oracle close-race (..)       a call ENTERING while close() runs on another kernel thread             (F-C08j, known)
  oracle not-transparent       return value differs from the last underlying call's
  oracle ref-differs           canonical outcome differs from the plain blocking reference
  oracle data                  bytes lost / duplicated / reordered (status DATAERR)
"""
import os
import re
import subprocess
import threading

import vlib
from specs import sched_env, n_cases

EAGAIN, EBADF, EINPROGRESS, EPIPE = 11, 9, 115, 32

_exe = {}
_ref_cache = {}
_ref_lock = threading.Lock()


def build_io():
    old = os.environ.get("VR_SKIP_LIB")
    os.environ["VR_SKIP_LIB"] = "fiber_io.c,fiber_event_native.c"
    try:
        exe = vlib.build_harness("io", runtime=True, extra_srcs=("wrap_io.c", "wrap_event_native.c"),
                                 extra_defs=("-DVR_WRAP_IO",))
    finally:
        if old is None:
            os.environ.pop("VR_SKIP_LIB", None)
        else:
            os.environ["VR_SKIP_LIB"] = old
    _exe["io"] = exe
    return exe


def build_io_asan():
    """native AddressSanitizer build of the same harness + library (pinned defs, split stacks)"""
    H = os.path.join(vlib.VERIF, "harness")
    hfiles = [os.path.join(H, n) for n in ("io.c", "wrap_io.c", "wrap_io.h", "wrap_event_native.c")]
    key = vlib.hash_files(vlib.repo_files() + hfiles, extra="io_asan v2")
    out = os.path.join(vlib.CACHE, "h_io_asan_%s" % key)
    exe = os.path.join(out, "io_asan")
    with vlib.FileLock("build_io_asan"):
        if os.path.exists(exe):
            os.utime(out)
            _exe["io_asan"] = exe
            return exe
        tmp = out + ".tmp%d" % os.getpid()
        os.makedirs(tmp, exist_ok=True)
        fl = ["-O1", "-g", "-std=gnu11", "-w", "-fsanitize=address", "-fno-omit-frame-pointer", "-DIO_NATIVE",
              "-D" + vlib.GUARD] + vlib.PINNED_DEFS + ["-fsplit-stack", "-I" + os.path.join(vlib.REPO, "include"),
                                                       "-I" + os.path.join(vlib.REPO, "src"), "-I" + H,
                                                       "-I" + os.path.join(vlib.VERIF, "rt")]
        srcs = [os.path.join(vlib.REPO, "src", s) for s in vlib.LIB_SOURCES
                if s not in ("fiber_io.c", "fiber_event_native.c")]
        srcs += [os.path.join(H, n) for n in ("io.c", "wrap_io.c", "wrap_event_native.c")]
        objs = []
        for s in srcs:
            o = os.path.join(tmp, os.path.basename(s) + ".o")
            r = vlib.sh(["gcc"] + fl + ["-c", s, "-o", o])
            if r.returncode != 0:
                raise vlib.BuildError("asan compile failed: %s\n%s" % (s, r.stdout[-3000:]))
            objs.append(o)
        r = vlib.sh(["gcc", "-no-pie", "-fsplit-stack", "-fsanitize=address"] + objs +
                    ["-o", os.path.join(tmp, "io_asan"), "-lpthread", "-ldl"])
        if r.returncode != 0:
            raise vlib.BuildError("asan link failed:\n" + r.stdout[-3000:])
        import shutil
        shutil.rmtree(out, ignore_errors=True)
        os.rename(tmp, out)
    _exe["io_asan"] = exe
    return exe


# ----------------------------------------------------------------------------- log analysis

READS = {"read", "readv", "recv", "recvfrom", "recvmsg"}
WRITES = {"write", "writev", "send", "sendto", "sendmsg"}
XFER = READS | WRITES
BLOCKERS = XFER | {"accept", "connect"}
GUARD = re.compile(r"^(FIlo|FIhi|Wlo|Whi)")
IO_FUNCS = {"close", "fcntl", "ioctl", "should_block", "setup_socket", "pipe", "accept", "read", "readv", "recv",
            "recvfrom", "recvmsg", "write", "writev", "send", "sendto", "sendmsg", "connect", "socket",
            "socketpair", "fiber_fd_closed", "fiber_wait_for_event", "fiber_event_wake_waiters",
            "fiber_poll_events_internal", "fiber_spinlock_lock", "fiber_spinlock_unlock", "fiber_spinlock_trylock"}


def is_bad_fd(fd, maxfd):
    return fd < 0 or fd >= maxfd or fd == 60


def klass(name, r, e):
    if r < 0:
        return "E%d" % e
    if name in READS:
        return "eof" if r == 0 else "ok"
    if name in WRITES or name in ("accept", "socket"):
        return "ok"
    if name == "fcntl_getfl":
        return "nb%d" % (1 if r & 0o4000 else 0)
    return "r%d" % r


def run_ref(args):
    """plain-pthread reference run: {(t, i): [(name, r, errno), ...]} or None (deadlock / failure)"""
    key = tuple(args[2:])
    with _ref_lock:
        if key in _ref_cache:
            return _ref_cache[key]
    exe = _exe.get("io") or build_io()
    try:
        p = subprocess.run([exe, "r"] + [str(a) for a in args[1:]], stdout=subprocess.PIPE, stderr=subprocess.STDOUT,
                           text=True, timeout=20, env=dict(os.environ, VR_LOG=""))
        out = p.stdout
    except subprocess.TimeoutExpired:
        out = ""
    res = None
    if "# status OK" in out:
        res = {}
        for line in out.split("\n"):
            m = re.search(r"note ref (\d+) (\d+) (\S+) (-?\d+) (\d+)", line)
            if m:
                res.setdefault((int(m.group(1)), int(m.group(2))), []).append(
                    (m.group(3), int(m.group(4)), int(m.group(5))))
    with _ref_lock:
        _ref_cache[key] = res
    return res


def analyse(log_path, case, native=False):
    """returns list of failure messages (most specific first)"""
    fails = []
    status = "CRASH"
    maxfd = 20000
    mode_nb = {}        # fd -> user asked for non-blocking
    mode_seq = {}       # fd -> line number of the last mode change
    close_seq = {}      # fd -> line number of the last close() call
    closing = {}        # fd -> line of a close() call on the current incarnation of the number
    peer = {}
    inq = {}            # fd -> bytes readable
    wr_shut = set()
    closed = set()
    cur = {}            # fiber -> open call
    curop = {}          # fiber -> (t, i, opstr)
    got = {}            # (t, i) -> [(name, r, e)]
    ops_of = {}         # (t, i) -> opstr
    oob = []
    segv = None
    asan = None
    ln = 0
    try:
        f = open(log_path)
    except OSError:
        return ["status CRASH (no log)"], {}, {}, "CRASH"
    with f:
        for line in f:
            ln += 1
            if line.startswith("#"):
                m = re.match(r"# status (\S+)", line)
                if m:
                    status = m.group(1)
                continue
            p = line.split()
            if len(p) < 4:
                continue
            tid, fib, func, kind = int(p[0]), int(p[1]), p[2], p[3]
            if kind != "note":
                if len(p) > 4 and GUARD.match(p[4]) and func in IO_FUNCS:
                    oob.append("%s %s %s by fiber %d" % (func, kind, p[4], fib))
                if func == "fiber_wait_for_event" and fib in cur:
                    cur[fib]["waited"] = True
                if func == "should_block" and kind == "ld" and fib in cur and len(p) > 5:
                    cur[fib]["lastload"] = int(p[5])
                continue
            a = p[4:]
            if not a:
                continue
            if a[0] == "init" and len(a) > 3 and a[1] == "io":
                maxfd = int(a[3])
            elif a[0] == "obj":
                if a[1] == "S":
                    x, y = int(a[3]), int(a[5])
                    peer[x], peer[y] = y, x
                    inq[x] = inq[y] = 0
                elif a[1] == "P":
                    x, y = int(a[3]), int(a[5])
                    peer[y] = x
                    inq[x] = 0
            elif a[0] == "op":
                curop[fib] = (int(a[1]), int(a[2]), a[3])
                ops_of[(int(a[1]), int(a[2]))] = a[3]
            elif a[0] == "epctl":
                if func == "fiber_wait_for_event" and fib in cur:
                    cur[fib]["waited"] = True
                    cur[fib]["ctl"] = int(a[4])
                    cur[fib]["ctl_line"] = ln
            elif a[0] == "call":
                fd = int(a[2])
                if a[1] == "close":
                    close_seq[fd] = ln      # fiber_fd_closed wakes the waiters BEFORE the real close
                    closing[fd] = ln
                cur[fib] = {"name": a[1], "fd": fd, "n": int(a[3]), "dw": a[4] == "1", "line": ln,
                            "nb": mode_nb.get(fd, False), "waited": False, "sys": [], "op": curop.get(fib),
                            "tids": {tid}, "lastload": None, "ctl": None}
            elif a[0] == "sys":
                name = a[1]
                if name in ("socketpair", "pipe"):
                    x, y = int(a[2]), int(a[3])
                    if x >= 0:
                        if name == "socketpair":
                            peer[x], peer[y] = y, x
                            inq[x] = inq[y] = 0
                        else:
                            peer[y] = x
                            inq[x] = 0
                        for z in (x, y):
                            closing.pop(z, None)
                            mode_nb[z] = False
                            closed.discard(z)
                            wr_shut.discard(z)
                    continue
                fd, r = int(a[2]), int(a[3])
                e = int(a[4]) if len(a) > 4 else 0
                if name == "fcntl":
                    r, e = int(a[3]), int(a[4])
                c = cur.get(fib)
                if c is not None and (name == c["name"] or (name in ("fcntl", "ioctl") and c["name"].startswith(name))):
                    c["sys"].append((r, e))
                    c["tids"].add(tid)
                if name in WRITES and r > 0 and fd in peer:
                    inq[peer[fd]] = inq.get(peer[fd], 0) + r
                if name in READS and r > 0 and fd in inq:
                    inq[fd] -= r
                if name == "close" and r == 0:
                    closed.add(fd)
                    mode_nb.pop(fd, None)
                    mode_seq[fd] = ln
                if name in ("accept", "socket") and r >= 0:
                    closing.pop(r, None)
                    mode_nb[r] = False
                    closed.discard(r)
                    wr_shut.discard(r)
                    inq.pop(r, None)
                    peer.pop(r, None)
            elif a[0] == "ret":
                name, r, e = a[1], int(a[2]), int(a[3])
                c = cur.pop(fib, None)
                if c is None or c["name"] != name:
                    continue
                fd = c["fd"]
                if c["op"]:
                    got.setdefault(c["op"][:2], []).append((name, r, e))
                bad = is_bad_fd(fd, maxfd)
                where = "%s(fd %d) by fiber %d, op %s" % (name, fd, fib, c["op"][2] if c["op"] else "?")
                stable_mode = mode_seq.get(fd, 0) < c["line"]
                closed_during = close_seq.get(fd, 0) > c["line"] or fd in closing
                if name == "shutdown" and r == 0:
                    wr_shut.add(fd)
                # mode bookkeeping (what the USER asked for)
                if r == 0 and not bad and fd not in closed:
                    newmode = None
                    if name in ("fcntl_nb", "fcntl_nbo"):
                        newmode = True
                    elif name == "fcntl_bl":
                        newmode = False
                    elif name == "ioctl_fionbio":
                        newmode = c["n"] != 0
                    if newmode is not None:
                        mode_nb[fd] = newmode
                        mode_seq[fd] = ln
                if name == "fcntl_getfl" and r >= 0 and not bad and not native:
                    if bool(r & 0o4000) != mode_nb.get(fd, False) and mode_seq.get(fd, 0) < c["line"]:
                        fails.append("oracle getfl-nonblock F_GETFL=%#o while the user mode is %s: %s" % (
                            r, "non-blocking" if mode_nb.get(fd, False) else "blocking", where))
                if bad and name not in ("socket", "socketpair", "pipe"):
                    if r != -1:
                        fails.append("oracle invalid-fd-noerror returned %d: %s" % (r, where))
                    continue
                if name in ("read", "readv") and c["n"] == 0 and c["waited"] and not (c["nb"] or c["dw"]):
                    fails.append("oracle zerolen-blocked zero-length %s parked: %s" % (name, where))
                if name in BLOCKERS and not native:
                    nonblocking = c["nb"] or c["dw"]
                    if c["waited"] and nonblocking and (stable_mode or c["dw"]):
                        fails.append("oracle nonblocking-blocked parked in fiber_wait_for_event: %s%s" % (
                            where, " MSG_DONTWAIT" if c["dw"] else ""))
                    migrated = len(c["tids"]) > 1
                    if r == -1 and e == EAGAIN and not nonblocking and stable_mode:
                        if closed_during and (not c["waited"] or c["lastload"] == 0):
                            # the call ENTERED while another kernel thread was inside close(): it saw
                            # EAGAIN from the kernel and then flags already cleared
                            fails.append("oracle close-race (closed-eagain) returned -1/EAGAIN, the descriptor was being closed on another kernel thread: " + where)
                        elif closed_during:
                            fails.append("oracle closed-eagain returned -1/EAGAIN after the descriptor was closed: " + where)
                        elif migrated:
                            fails.append("oracle errno-migration (blocking-eagain) returned -1/EAGAIN in blocking mode after resuming on another kernel thread (kernel threads %s): %s" % (sorted(c["tids"]), where))
                        else:
                            fails.append("oracle blocking-eagain returned -1/EAGAIN in blocking mode: " + where)
                    # transparency: value = last underlying call's; earlier ones failed with EAGAIN
                    if name in XFER or name == "accept":
                        s = c["sys"]
                        if s:
                            wait_failed = closed_during and r == -1
                            if not wait_failed and (r, e if r < 0 else 0) != (s[-1][0], s[-1][1] if s[-1][0] < 0 else 0):
                                fails.append("oracle not-transparent returned (%d,%d), last underlying call (%d,%d): %s" % (
                                    r, e, s[-1][0], s[-1][1], where))
                            for (r0, e0) in s[:-1]:
                                if not (r0 == -1 and e0 == EAGAIN):
                                    if migrated:
                                        fails.append("oracle errno-migration (not-transparent) an underlying call returned (%d,%d) after the fiber resumed on another kernel thread and was discarded (kernel threads %s): %s" % (r0, e0, sorted(c["tids"]), where))
                                    else:
                                        fails.append("oracle not-transparent an earlier underlying call returned (%d,%d) and was discarded: %s" % (r0, e0, where))
                                    break
                        if name in XFER and r == 0 and c["n"] > 0 and name in WRITES:
                            fails.append("oracle not-transparent empty write: " + where)
            elif a[0] == "SEGV":
                segv = fib
            elif a[0] == "asan":
                asan = " ".join(a[1:])
            elif a[0] == "DATAERR":
                fails.append("oracle data " + " ".join(a[1:]))

    if oob:
        fails.insert(0, "oracle oob index outside [0,max_fd): " + "; ".join(oob[:3]))
    if asan is not None or status == "ASAN":
        c = None
        for fb, cc in cur.items():
            c = cc
        fails.insert(0, "oracle oob AddressSanitizer: %s during %s" % (asan, "%s(fd %d)" % (c["name"], c["fd"]) if c else "?"))
    if status == "SEGV" or segv is not None:
        c = cur.get(segv) if segv is not None else None
        if c is None and cur:
            c = list(cur.values())[-1]
        if c and is_bad_fd(c["fd"], maxfd):
            fails.insert(0 if not oob else 1, "oracle bad-fd-crash SIGSEGV in %s(fd %d)" % (c["name"], c["fd"]))
        else:
            fails.append("oracle crash SIGSEGV in %s" % (("%s(fd %d)" % (c["name"], c["fd"])) if c else "?"))
    elif status in ("HANG", "BUDGET", "TIMEOUT"):
        spinning = [fb for fb, o in curop.items() if o[2].startswith("spin") and fb not in cur]
        why = []
        for fb, c in cur.items():
            fd = c["fd"]
            if not c["waited"]:
                continue
            where = "%s(fd %d) by fiber %d, op %s" % (c["name"], fd, fb, c["op"][2] if c["op"] else "?")
            if (c["nb"] and mode_seq.get(fd, 0) < c["line"]) or c["dw"]:
                why.append("oracle nonblocking-blocked parked for ever: " + where)
            elif c["name"] in ("read", "readv") and c["n"] == 0:
                why.append("oracle zerolen-blocked zero-length %s parked: %s" % (c["name"], where))
            else:
                ready = fd in closed or (c["name"] in READS and (inq.get(fd, 0) > 0 or peer.get(fd) in closed or
                                                                 peer.get(fd) in wr_shut))
                discarded = [x for x in c["sys"][:-1] if not (x[0] == -1 and x[1] == EAGAIN)]
                if discarded and len(c["tids"]) > 1:
                    why.append("oracle errno-migration (not-transparent) underlying results %s discarded, the call never returns (kernel threads %s): %s" % (discarded[:3], sorted(c["tids"]), where))
                elif ready and spinning:
                    why.append("oracle poll-starved descriptor ready but no kernel thread ever polls (fibers %s only yield): %s" % (spinning, where))
                elif ready and (fd in closed or fd in closing) and c["ctl"] == 0 and c.get("ctl_line", 0) > closing.get(fd, 1 << 60):
                    why.append("oracle close-race (lost-wakeup) registered with epoll between fiber_fd_closed and the real close on another kernel thread, never resumed: " + where)
                elif ready:
                    why.append("oracle lost-wakeup descriptor ready/closed, waiter never resumed: " + where)
        if why:
            fails = why + fails
        else:
            fails.append("status %s (no fiber is parked on a ready descriptor; pending: %s)" % (
                status, ", ".join("%s(fd %d)" % (c["name"], c["fd"]) for c in cur.values()) or "none"))
    elif status == "DATAERR":
        if not any(x.startswith("oracle data") for x in fails):
            fails.append("oracle data byte stream corrupted")
    elif status != "OK" and not fails:
        fails.append("status " + status)
    return fails, got, ops_of, status


CANDIDATE_KNOWN = ("oracle errno-migration", "oracle zerolen-blocked", "oracle fcntl-mode", "oracle getfl-nonblock",
                   "oracle poll-starved", "oracle close-race")


def order(fails):
    """classes that have a known-finding entry go last, so that an anchored pattern can never
    hide a different failure of the same run"""
    return [x for x in fails if not x.startswith(CANDIDATE_KNOWN)] + [x for x in fails if x.startswith(CANDIDATE_KNOWN)]


def post_io(log_path, case):
    fails, got, ops_of, status = analyse(log_path, case)
    # fcntl mode idioms: judged through what a later transfer did (already in fails) -> rename
    kind = case.get("kind", "")
    if kind == "fcntl-mode":
        fails = [re.sub(r"^oracle (nonblocking-blocked|blocking-eagain)", "oracle fcntl-mode (\\1)", x) for x in fails]
    if kind == "zerolen":
        fails = [x for x in fails if x.startswith("oracle zerolen")] or fails
    # differential oracle: the same script with plain blocking libc calls
    if case.get("cmp") and status in ("OK", "HANG", "BUDGET") and not fails:
        ref = run_ref(case["args"])
        if ref is None:
            fails.append("oracle ref-timeout the plain-pthread reference run of this script did not finish (generator bug)")
        else:
            for key in sorted(set(ref) | set(got)):
                rs = [klass(*x) for x in ref.get(key, [])]
                gs = [klass(*x) for x in got.get(key, [])]
                op = ops_of.get(key, "?")
                if op.startswith(("ra", "wa")):
                    rs = ["total %d" % sum(x[1] for x in ref.get(key, []) if x[1] > 0)] + rs[-1:]
                    gs = ["total %d" % sum(x[1] for x in got.get(key, []) if x[1] > 0)] + gs[-1:]
                if op.startswith("acc") or op.startswith("conn") or op.startswith("sp") or op.startswith("pp"):
                    rs = ["ok" if x.startswith("r") or x == "ok" else x for x in rs]
                    gs = ["ok" if x.startswith("r") or x == "ok" else x for x in gs]
                if rs != gs:
                    fails.append("oracle ref-differs op %s of fiber %d: fibers %s, plain blocking calls %s" % (
                        op, key[0], gs, rs))
                    break
    fails = order(fails)
    return "; ".join(fails[:4]) if fails else None


def post_asan(log_path, case):
    fails, _, _, status = analyse(log_path, case, native=True)
    return "; ".join(fails[:3]) if fails else None


# ----------------------------------------------------------------------------- generators

BADS = ["N", "C", "M", "X", "H"]
RD1 = ["rd", "rv", "rc", "rf", "rm"]
WR1 = ["wr", "wv", "sn", "st", "sm"]
RD1D = ["rcd", "rfd", "rmd"]
WR1D = ["snd", "std", "smd"]


def ys(rng, lo=0, hi=4):
    return ["y"] * rng.randrange(lo, hi + 1)


def gen_stream(rng, big):
    """role-based, deadlock-free by construction: per stream one writer fiber (ends with
    shutdown/close of its end) and one drainer fiber (ends with read-to-EOF); optional helper
    readers/writers on the same descriptors (1-3 fibers blocked on one descriptor, same or
    different directions)."""
    use_pipe = rng.random() < 0.3
    sndbuf = rng.choice([0, 2304, 4096, 4096, 16384])
    fibers = []
    if use_pipe:
        setup = "P%d" % rng.choice([0, 4096, 4096, 8192])
        streams = [(1, 0, True)]     # (src ep, dst ep, close-with-cl)
    else:
        setup = "S%d" % sndbuf
        streams = [(0, 1, False)] + ([(1, 0, False)] if rng.random() < 0.6 else [])
    unit = rng.choice([10, 100, 1000, 5000, 20000]) if not big else rng.choice([20000, 66000, 150000])
    for (src, dst, use_cl) in streams:
        total = 0
        w = []
        for _ in range(rng.randrange(1, 5)):
            n = rng.randrange(1, unit + 1)
            if rng.random() < 0.5:
                w += ["wa%d_%d" % (src, n)]
            else:
                w += ["%s%d_%d" % (rng.choice(WR1), src, n)]
            w += ys(rng, 0, 2)
            total += n
        w += ["cl%d" % src if use_cl else "shw%d" % src]
        r = ys(rng, 0, 3)
        for _ in range(rng.randrange(0, 4)):
            r += ["%s%d_%d" % (rng.choice(RD1), dst, rng.randrange(1, unit + 1))] + ys(rng, 0, 1)
        r += ["ra%d_%d" % (dst, 100000000)]
        fibers += [",".join(w), ",".join(r)]
        # helpers: extra blocked readers / writers on the same descriptors
        for _ in range(rng.choice([0, 0, 1, 1, 2])):
            if rng.random() < 0.5:
                fibers.append(",".join(ys(rng, 0, 2) + ["%s%d_%d" % (rng.choice(RD1), dst, rng.randrange(1, unit + 1))
                                                         for _ in range(rng.randrange(1, 3))]))
            else:
                fibers.append(",".join(ys(rng, 0, 2) + ["%s%d_%d" % (rng.choice(WR1), src, rng.randrange(1, unit + 1))
                                                         for _ in range(rng.randrange(1, 3))]))
    rng.shuffle(fibers)
    return setup, "|".join(fibers[:12]), False


def gen_det(rng):
    """strictly alternating ping-pong between two fibers: every outcome is schedule-independent,
    so the whole run is compared op by op with the plain blocking reference"""
    setup = "S0"
    a, b = [], []
    for _ in range(rng.randrange(1, 5)):
        n = rng.randrange(1, 2000)
        a += ["%s0_%d" % (rng.choice(WR1), n), "ra0_%d" % n]
        b += ["ra1_%d" % n, "%s1_%d" % (rng.choice(WR1), n)]
    a += ["shw0", "rd0_5"]
    b += ["rd1_5", "shw1"]
    return setup, ",".join(a) + "|" + ",".join(b), True


def gen_badfd(rng):
    ops = []
    for _ in range(rng.randrange(1, 6)):
        b = rng.choice(BADS)
        k = rng.choice(RD1 + WR1 + RD1D + WR1D + ["cl", "nb", "nbo", "bl", "fio", "acc", "cx", "ra", "wa"])
        if k == "fio":
            ops.append("fio%s_%d" % (b, rng.choice([0, 1])))
        elif k == "acc":
            ops.append("acc%s_40" % b)
        elif k == "cx":
            ops.append("cx%s_9" % b)
        elif k in ("cl", "nb", "nbo", "bl"):
            ops.append(k + b)
        else:
            ops.append("%s%s_%d" % (k, b, rng.choice([0, 1, 100])))
    other = []
    if rng.random() < 0.5:
        other = ["wr0_10,shw0", "ra1_1000"]
    fibers = [",".join(ops)] + other
    rng.shuffle(fibers)
    return "S0", "|".join(fibers), True


def gen_nonblock(rng):
    """a descriptor switched to non-blocking (O_NONBLOCK / FIONBIO) or a MSG_DONTWAIT call must
    return at once: reader on an empty stream, or writer on a full buffer; optionally switched
    back to blocking with FIONBIO 0 afterwards"""
    how = rng.choice(["nb", "fio", "dw", "dw"])
    n = rng.randrange(1, 200)
    if rng.random() < 0.65:
        rd = rng.choice(RD1D) if how == "dw" else rng.choice(RD1)
        a = ys(rng, 0, 1)
        if how == "nb":
            a += ["nb1"]
        elif how == "fio":
            a += ["fio1_1"]
        a += ["%s1_%d" % (rd, n)] * rng.randrange(1, 3)
        if how == "dw":
            a += ["ra1_100000000"]
        elif rng.random() < 0.5:
            a += ["fio1_0", "ra1_100000000"]
        b = ys(rng, 1, 4) + ["wa0_%d" % n, "shw0"]
        return "S4096", ",".join(a) + "|" + ",".join(b), False
    wr = rng.choice(WR1D) if how == "dw" else rng.choice(WR1)
    a = []
    if how == "nb":
        a += ["nb0"]
    elif how == "fio":
        a += ["fio0_1"]
    a += ["%s0_300000" % wr] * rng.randrange(2, 4) + ["shw0"]
    b = ys(rng, 2, 5) + ["ra1_100000000"]
    return "S4096", ",".join(a) + "|" + ",".join(b), False


def gen_fcntl_mode(rng):
    """the F_GETFL/F_SETFL idioms"""
    n = rng.randrange(1, 100)
    if rng.random() < 0.5:
        a = ["nbo1", "%s1_%d" % (rng.choice(RD1), n)]
    else:
        a = [rng.choice(["nb1", "fio1_1", "nbo1"]), "bl1", "ra1_%d" % n]
    b = ys(rng, 2, 5) + ["wa0_%d" % n, "shw0"]
    return "S0", ",".join(a) + "|" + ",".join(b), False


def gen_accept(rng):
    k = rng.randrange(1, 4)
    fibers = []
    for j in range(k):
        fibers.append(",".join(ys(rng, 0, 1) + ["acc0_%d" % (32 + 2 * j), "ra%d_100" % (32 + 2 * j)]))
    c = ys(rng, 0, 3)
    for j in range(k):
        c += ["conn0_%d" % (33 + 2 * j), "wr%d_7" % (33 + 2 * j), "shw%d" % (33 + 2 * j)] + ys(rng, 0, 3)
    fibers.append(",".join(c))
    rng.shuffle(fibers)
    return "L", "|".join(fibers), False


def gen_close(rng):
    """1-3 fibers blocked on a descriptor that another fiber closes"""
    k = rng.randrange(1, 4)
    fibers = []
    full = rng.random() < 0.5
    for j in range(k):
        if full and rng.random() < 0.6:
            fibers.append("wa0_400000")
        else:
            fibers.append("%s0_10" % rng.choice(RD1))
    fibers.append(",".join(ys(rng, 2, 6) + ["cl0"]))
    rng.shuffle(fibers)
    return "S4096", "|".join(fibers), False


def gen_zerolen(rng):
    # (a zero-length recv/recvfrom/recvmsg on an empty stream socket blocks in the kernel too;
    #  read/readv return 0 at once)
    a = ["%s1_0" % rng.choice(["rd", "rv"])]
    b = ys(rng, 1, 3) + (["wr0_5"] if rng.random() < 0.5 else [])
    return "S0", ",".join(a) + "|" + ",".join(b), True


def gen_spin(rng):
    n = rng.randrange(1, 50)
    return "S0", "rd1_%d,set0|spin0|%s" % (n, ",".join(ys(rng, 0, 2) + ["wr0_%d" % n])), True


def gen_dyn(rng):
    """descriptors created by the shims at run time (socketpair / pipe), used, closed, re-created"""
    a = []
    for _ in range(rng.randrange(1, 3)):
        if rng.random() < 0.5:
            a += ["sp_32", "wr32_50", "ra33_50", "wr33_20", "ra32_20", "cl32", "rd33_5", "cl33"]
        else:
            a += ["pp_34", "wr35_50", "ra34_50", "cl35", "rd34_5", "cl34"]
    return "S0", ",".join(a) + "|" + "wr0_5,shw0|ra1_100", True


KINDS = [("stream", 30), ("streambig", 6), ("det", 8), ("badfd", 12), ("nonblock", 12), ("fcntl-mode", 6),
         ("accept", 10), ("close", 8), ("zerolen", 3), ("spin", 2), ("dyn", 5)]


def gen_io(rng, tier):
    cases = []
    total = n_cases(tier, 260, 3000)
    names = [k for k, w in KINDS for _ in range(w)]
    for _ in range(total):
        kind = rng.choice(names)
        if kind == "stream":
            setup, script, cmp_ = gen_stream(rng, False)
        elif kind == "streambig":
            setup, script, cmp_ = gen_stream(rng, True)
        elif kind == "det":
            setup, script, cmp_ = gen_det(rng)
        elif kind == "badfd":
            setup, script, cmp_ = gen_badfd(rng)
        elif kind == "nonblock":
            setup, script, cmp_ = gen_nonblock(rng)
        elif kind == "fcntl-mode":
            setup, script, cmp_ = gen_fcntl_mode(rng)
        elif kind == "accept":
            setup, script, cmp_ = gen_accept(rng)
        elif kind == "close":
            setup, script, cmp_ = gen_close(rng)
        elif kind == "zerolen":
            setup, script, cmp_ = gen_zerolen(rng)
        elif kind == "spin":
            setup, script, cmp_ = gen_spin(rng)
        else:
            setup, script, cmp_ = gen_dyn(rng)
        k = 1 if kind == "spin" else rng.choice([1, 1, 2, 2, 3])
        env = sched_env(rng, budget=600000 if kind != "streambig" else 1500000)
        while env["VR_SCHED"] == "pct":
            # strict priorities starve: a poller that keeps receiving EPOLLHUP for a descriptor
            # whose stale interest it re-arms never lets a lower-priority thread run
            env = sched_env(rng, budget=env["VR_BUDGET"])
        env["VR_HANG"] = 3000
        env["VR_AUTOTICK"] = 0
        env["VR_MAXEV"] = 1 << 21
        cases.append({"args": ["f", k, setup, script], "env": env, "kind": kind, "cmp": cmp_, "timeout": 120})
    return cases


def gen_asan(rng, tier):
    cases = []
    seen = set()
    # every shim on every kind of bad descriptor, once each, then random mixes
    singles = []
    for b in BADS:
        for k in RD1 + WR1 + RD1D + WR1D:
            singles.append("%s%s_8" % (k, b))
        singles += ["cl" + b, "nb" + b, "nbo" + b, "bl" + b, "fio%s_0" % b, "fio%s_1" % b, "acc%s_40" % b,
                    "cx%s_9" % b]
    for s in singles:
        cases.append({"args": ["f", 1, "S0", s], "env": {"ASAN_OPTIONS": "detect_leaks=0:abort_on_error=0"},
                      "kind": "badfd", "timeout": 10})
    for _ in range(n_cases(tier, 20, 200)):
        _, script, _ = gen_badfd(rng)
        script = max(script.split("|"), key=lambda f: sum(c in "NCMXH" for c in f))   # single fiber
        if script in seen:
            continue
        seen.add(script)
        cases.append({"args": ["f", 1, "S0", script], "env": {"ASAN_OPTIONS": "detect_leaks=0:abort_on_error=0"},
                      "kind": "badfd", "timeout": 10})
    return cases


def pre(repo):
    """translator: regenerate Gen/IoDecisions.lean from the current sources"""
    import importlib.util
    p = os.path.join(vlib.VERIF, "extract", "io_extract.py")
    if not os.path.exists(p):
        return
    spec = importlib.util.spec_from_file_location("io_extract", p)
    m = importlib.util.module_from_spec(spec)
    spec.loader.exec_module(m)
    m.generate(repo, os.path.join(vlib.LEAN, "LibfiberVerif", "Gen", "IoDecisions.lean"))


SPEC = {
    "C08": {
        "pre": pre,
        "parts": [
            {"name": "io", "harness": "io", "model": "IoShim", "runtime": True, "build": build_io, "gen": gen_io,
             "post": post_io, "ok_status": ("OK", "HANG", "BUDGET", "SEGV", "DATAERR"),
             "nontrivial": lambda s: sum(v for k, v in s["hist"].items() if k.startswith("note epctl")) >= 2},
            {"name": "io_asan", "harness": "io", "model": None, "build": build_io_asan, "gen": gen_asan,
             "post": post_asan, "ok_status": ("OK", "ASAN", "SEGV")},
            # "for every valid descriptor" / "what the plain call may return": descriptors at the top of
            # the descriptor range and fcntl commands with pointer arguments (oracle-only part)
            {"name": "io-extremes", "harness": "iocap", "model": None, "runtime": True,
             "gen": lambda rng, tier: [{"args": [m], "timeout": 300,
                                        "env": {"VR_SEED": rng.randrange(1, 1 << 30), "VR_SCHED": rng.choice(["rand", "rr"]),
                                                "VR_HANG": 3000000, "VR_BUDGET": 50000000}}
                                       for m in ("ptr", "high") for _ in range(2 if tier != "thorough" else 10)],
             "post": vlib.oracle_note, "ok_status": ("OK", "SKIP")},
        ],
        "rule": "cases = (scenario kind, kernel objects, per-fiber op script, 1-3 kernel threads, scheduler kind+seed) from VERIF_SEED; distinct = different (args, sha1 of the access sequence); non-trivial = at least one fiber parked in fiber_wait_for_event (an epoll registration besides the timer's)",
        "trusted_base": [
            "the Linux kernel's sockets, pipes and epoll (EPOLLONESHOT / MOD / DEL) are assumed by specification (KernelSpec in Model/IoShim.lean); the harness runs on the real ones",
            "underlying libc calls are observed through trampolines installed in the shims' own fibershim_* pointers (harness/wrap_io.c) and an executable-level definition of epoll_ctl; epoll_wait is the deterministic runtime's (timeout 0, idle scheduling point)",
            "scheduler traffic on fiber state words is skipped here and covered by the runtime model (C01/C02)",
            "the plain-pthread reference run is compared only on schedule-independent outcomes"],
        "assumptions": ["descriptors are created and closed through the shims (dup2/close_range are not shimmed)",
                        "RLIMIT_NOFILE is not changed after fiber_manager_init"],
    },
}
