"""C18 — fiber spinlock (src/fiber_spinlock.c): ticket lock with trylock, 32-bit wrap-around."""
from specs import sched_env, n_cases

M32 = 1 << 32


def gen_spin(rng, tier):
    cases = []
    max_ops = 6 if tier == "quick" else 10
    for _ in range(n_cases(tier, 360, 20000)):
        nt = rng.choice([2, 2, 3, 3, 4, 5])
        # mostly start just below the wrap-around so that both counters cross 2^32 within
        # a few acquisitions
        v0 = rng.choice([0, M32 - 3, M32 - 3, M32 - 1, M32 - 1, M32 - 2, rng.randrange(M32)])
        ptry = rng.choice([0.0, 0.3, 0.5, 0.8])
        threads = []
        for _t in range(nt):
            ops = []
            # every acquisition attempt is followed by `u` of the same thread (a no-op in the
            # harness when the trylock failed), so nothing is left locked and nobody unlocks
            # a lock it does not hold
            for _ in range(rng.randrange(1, max_ops // 2 + 1)):
                ops.append("t" if rng.random() < ptry else "l")
                ops.append("u")
            threads.append(",".join(ops))
        cases.append({"args": [v0, "|".join(threads)], "env": sched_env(rng, budget=100000)})
    return cases


SPEC = {
    "C18": {
        "parts": [{"name": "spin", "harness": "spin", "model": "Spin", "gen": gen_spin}],
        "trusted_base": [
            "32-bit ticket/users counters modelled modulo 2^32 with arbitrary initial value; "
            "theorems assume fewer than 2^32 tickets outstanding at any instant "
            "(implied by fewer than 2^32 threads: Spin.boundedRun_of_threads)",
            "harness supplies fiber_manager_get() (per-thread dummy manager; only spin_count is touched)"],
        "assumptions": [
            "unlock is only called by the holder (client contract; the model rejects anything else)",
            "weak CAS does not fail spuriously on x86-64 (cmpxchg)"],
    },
}
