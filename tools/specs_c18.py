"""C18 — fiber spinlock (src/fiber_spinlock.c): ticket lock with trylock, 32-bit wrap-around."""
import os
import sys

from specs import sched_env, n_cases

sys.path.insert(0, os.path.join(os.path.dirname(os.path.dirname(os.path.abspath(__file__))), "extract"))
import spin_extract  # noqa: E402


def pre(repo):
    """translator step (facts no trace shows): spin loop left only by its condition, 32-bit halves
    of a 64-bit word, loop-free trylock/unlock"""
    return spin_extract.check(repo)


M32 = 1 << 32


def gen_spin(rng, tier):
    cases = []
    max_ops = 6 if tier == "quick" else 10
    for _ in range(n_cases(tier, 360, 20000)):
        nt = rng.choice([2, 2, 3, 3, 4, 5])
        # mostly start just below the wrap-around so that both counters cross 2^32 within
        # a few acquisitions
        v0 = rng.choice([0, M32 - 3, M32 - 3, M32 - 1, M32 - 1, M32 - 2, rng.randrange(M32)])
        ptry = rng.choice([0.0, 0.3, 0.5, 0.8])
        threads = []
        for _t in range(nt):
            ops = []
            # every acquisition attempt is followed by `u` of the same thread (a no-op in the
            # harness when the trylock failed), so nothing is left locked and nobody unlocks
            # a lock it does not hold
            for _ in range(rng.randrange(1, max_ops // 2 + 1)):
                ops.append("t" if rng.random() < ptry else "l")
                ops.append("u")
            threads.append(",".join(ops))
        cases.append({"args": [v0, "|".join(threads)], "env": sched_env(rng, budget=100000)})
    return cases


def gen_spin_tso(rng, tier):
    """the same scripts replayed through the store-buffer machine Model/SpinTso (unbounded
    counters: the lock word starts far below 2^32), with the critical-section counter registered
    as the data cell the lock protects"""
    cases = []
    for c in gen_spin(rng, tier)[: n_cases(tier, 200, 4000)]:
        c["args"][0] = rng.choice([0, 0, 1, 7, 1000, rng.randrange(1 << 20)])
        c["env"] = dict(c["env"], VH_DATA=1)
        cases.append(c)
    return cases


def lock_discipline(log_path, case):
    """Oracle on the accesses to every spinlock cell of a whole-runtime log (`<fd>.lock` of the
    descriptor table, `lk` = sleep_spinlock): the client contract the C18 theorems assume of
    every caller - the lock is released only while it is held, exactly once per acquisition -
    checked for the library's own clients in src/fiber_event_native.c (direct unlocks and the
    unlock deferred to the next fiber's maintenance through manager->spinlock_to_unlock).
    A release that finds nobody holding the lock (ticket == users) would let `ticket` run ahead
    of `users`: the lock then reads as free while held, or as held for ever."""
    st = {}  # cell -> [ticket, users] (mod 2^32), learnt from the first access
    try:
        f = open(log_path)
    except OSError:
        return None
    with f:
        for line in f:
            p = line.split()
            if len(p) < 6 or p[3] == "note":
                continue
            kind, cell = p[3], p[4]
            base = cell.split("/")[0].split("+")[0]
            if not (base.endswith(".lock") or base == "lk"):
                continue
            try:
                if kind == "fadd" and cell == base + "+4/4":      # ticket draw: users++
                    old = int(p[5]) % M32
                    t = st.setdefault(base, [None, old])
                    t[1] = (old + 1) % M32
                elif kind == "st" and cell == base + "/4":        # release: ticket := x
                    x = int(p[5]) % M32
                    t = st.setdefault(base, [None, None])
                    if t[0] is not None and x != (t[0] + 1) % M32:
                        return "oracle lock-discipline: %s released to ticket %d, expected %d: %s" % (base, x, (t[0] + 1) % M32, line.strip())
                    if t[1] is not None and (t[1] - x) % M32 >= (1 << 31):
                        return "oracle lock-discipline: %s released while nobody holds it (ticket %d ahead of users %d): %s" % (base, x, t[1], line.strip())
                    t[0] = x
                elif kind == "ld" and cell == base + "/4":        # spin / unlock load of ticket
                    t = st.setdefault(base, [None, None])
                    if t[0] is None:
                        t[0] = int(p[5]) % M32
                elif kind == "cas" and cell == base and p[8] == "1":  # trylock took a ticket
                    d = int(p[7]) & ((1 << 64) - 1)
                    t = st.setdefault(base, [None, None])
                    t[0], t[1] = d % M32, (d >> 32) % M32
            except (ValueError, IndexError):
                continue
    return None


def _event_locks_part():
    """the library's own spinlock clients: C08's descriptor scenarios (close races, failed
    epoll_ctl, deferred unlocks) run on the real runtime; only the lock-discipline oracle
    decides here (what the I/O calls return is C08's business)"""
    import specs_c08
    src = [p for p in specs_c08.SPEC["C08"]["parts"] if p["name"] == "io"][0]

    def gen(rng, tier):
        cs = src["gen"](rng, tier)
        close = [c for c in cs if c.get("kind") in ("close", "badfd", "dyn")]
        rest = [c for c in cs if c.get("kind") not in ("close", "badfd", "dyn", "streambig")]
        n = 1500 if tier == "thorough" else 150
        return (close[: n] + rest[: n // 3])
    return {"name": "event-locks", "harness": "io", "model": None, "runtime": True, "build": src["build"], "gen": gen,
            "post": lock_discipline, "ok_status": ("OK", "HANG", "BUDGET", "SEGV", "DATAERR", "CRASH", "TIMEOUT", "STARVED")}


SPEC = {
    "C18": {
        "pre": pre,
        "extra_props": ("TsoSpin",),
        "parts": [{"name": "spin", "harness": "spin", "model": "Spin", "gen": gen_spin},
                  {"name": "spin-tso", "harness": "spin", "model": "SpinTso", "gen": gen_spin_tso},
                  _event_locks_part()],
        "trusted_base": [
            "32-bit ticket/users counters modelled modulo 2^32 with arbitrary initial value; "
            "theorems assume fewer than 2^32 tickets outstanding at any instant "
            "(implied by fewer than 2^32 threads: Spin.boundedRun_of_threads)",
            "harness supplies fiber_manager_get() (per-thread dummy manager; only spin_count is touched)"],
        "assumptions": [
            "unlock is only called by the holder (client contract; the model rejects anything else; for the library's own clients in fiber_event_native.c it is checked by the lock-discipline oracle of part event-locks)",
            "weak CAS does not fail spuriously on x86-64 (cmpxchg)"],
    },
}
