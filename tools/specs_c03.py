"""C03 — fiber mutex (src/fiber_mutex.c + wait/wake in src/fiber_manager.c)."""
from specs import sched_env, n_cases


def gen_script(rng, maxf, maxops):
    nf = rng.randrange(2, maxf + 1)
    fibers = []
    for _ in range(nf):
        ops = []
        for _ in range(rng.randrange(1, maxops + 1)):
            r = rng.random()
            if r < 0.55:
                ops += ["l", "u"]
            elif r < 0.85:
                ops += ["t", "u"]
            else:
                ops += ["y"]
        fibers.append(",".join(ops))
    return "|".join(fibers)


def gen(rng, tier):
    cases = []
    for _ in range(n_cases(tier, 300, 4000)):
        k = rng.choice([1, 2, 2, 3])
        cases.append({"args": [k, gen_script(rng, 5 if tier == "quick" else 6, 3 if tier == "quick" else 5)],
                      "env": sched_env(rng, budget=400000)})
    # crowds: 130-300 fibers contend for the mutex at once (the counter goes below -127 / -255)
    for nf in ([130, 260] if tier == "quick" else [129, 130, 257, 260, 300]):
        fibers = ["l,u"] * nf
        for _ in range(rng.randrange(0, 5)):
            fibers[rng.randrange(nf)] = rng.choice(["t,u,l,u", "l,u,l,u", "y,l,u"])
        cases.append({"args": [rng.choice([1, 2]), "|".join(fibers)], "timeout": 300,
                      "env": {"VR_SEED": rng.randrange(1, 1 << 30), "VR_SCHED": "rand", "VR_SWITCH": 4, "VR_BUDGET": 8000000, "VR_MAXEV": 6000000}})
    return cases


import os as _os
import sys as _sys

_sys.path.insert(0, _os.path.join(_os.path.dirname(_os.path.dirname(_os.path.abspath(__file__))), "extract"))
import wake_extract  # noqa: E402


def pre(repo):
    """translator step (facts no trace shows): the manager's wake loops wait without bound for an
    announced waiter and wake exactly the number asked for"""
    return wake_extract.check(repo)


SPEC = {
    "C03": {
        "pre": pre,
        "extra_props": ("AbsQueue",),
        "parts": [{"name": "mutex", "harness": "mutex", "model": "Mutex", "runtime": True, "gen": gen,
                   "nontrivial": lambda s: s["hist"].get("xchg tail", 0) >= 1}],
        "rule": "cases = (script of 2-6 fibers doing lock/trylock/unlock with a yield inside the critical section, 1-3 kernel threads, scheduler kind+seed) from VERIF_SEED; distinct = different (script, sha1 of access sequence); non-trivial = at least one contended lock (a waiter was enqueued)",
        "trusted_base": [
            "waiter queue kept abstractly (ghost order + linked flags), validated against every logged access; its adequacy for all interleavings is C15 (Mpsc.pop_is_next_in_order / empty_justified)",
            "scheduler traffic on fiber state words is skipped here and covered by the runtime model (C01/C02)"],
        "assumptions": ["client contract: unlock only by the owner; no recursive lock"],
    },
}
