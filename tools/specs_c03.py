"""C03 — fiber mutex (src/fiber_mutex.c + wait/wake in src/fiber_manager.c)."""
from specs import sched_env, n_cases


def gen_script(rng, maxf, maxops):
    nf = rng.randrange(2, maxf + 1)
    fibers = []
    for _ in range(nf):
        ops = []
        for _ in range(rng.randrange(1, maxops + 1)):
            r = rng.random()
            if r < 0.55:
                ops += ["l", "u"]
            elif r < 0.85:
                ops += ["t", "u"]
            else:
                ops += ["y"]
        fibers.append(",".join(ops))
    return "|".join(fibers)


def gen(rng, tier):
    cases = []
    for _ in range(n_cases(tier, 300, 4000)):
        k = rng.choice([1, 2, 2, 3])
        cases.append({"args": [k, gen_script(rng, 5 if tier == "quick" else 6, 3 if tier == "quick" else 5)],
                      "env": sched_env(rng, budget=400000)})
    return cases


SPEC = {
    "C03": {
        "extra_props": ("AbsQueue",),
        "parts": [{"name": "mutex", "harness": "mutex", "model": "Mutex", "runtime": True, "gen": gen,
                   "nontrivial": lambda s: s["hist"].get("xchg tail", 0) >= 1}],
        "rule": "cases = (script of 2-6 fibers doing lock/trylock/unlock with a yield inside the critical section, 1-3 kernel threads, scheduler kind+seed) from VERIF_SEED; distinct = different (script, sha1 of access sequence); non-trivial = at least one contended lock (a waiter was enqueued)",
        "trusted_base": [
            "waiter queue kept abstractly (ghost order + linked flags), validated against every logged access; its adequacy for all interleavings is C15 (Mpsc.pop_is_next_in_order / empty_justified)",
            "scheduler traffic on fiber state words is skipped here and covered by the runtime model (C01/C02)"],
        "assumptions": ["client contract: unlock only by the owner; no recursive lock"],
    },
}
