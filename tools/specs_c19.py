"""C19 — context switch (src/fiber_context.c): translator-driven Lean model + plain/ASan
differential and bounds harness for every stack strategy and switching back-end."""
import json
import os
import shutil
import stat
import sys

import vlib
from specs import n_cases

sys.path.insert(0, os.path.join(vlib.VERIF, "extract"))
import ctx_extract  # noqa: E402

_last = {}


def pre(repo):
    """translator: regenerate lean/LibfiberVerif/Gen/CtxAsm.lean from <repo>/src/fiber_context.c
    (written only when the content differs); raises on anything it does not understand."""
    import create_extract
    create_extract.check(repo)  # release-exactly-once where the context harness does not reach (src/fiber.c)
    x, changed = ctx_extract.generate(repo)
    _last["summary"] = ctx_extract.summary(x)
    _last["changed"] = changed
    return x


# ----------------------------------------------------------------------------- builds

RENAMES = ["-Dmalloc=vh_malloc", "-Dfree=vh_free", "-Dmmap=vh_mmap", "-Dmunmap=vh_munmap",
           "-D__splitstack_makecontext=vh_ss_make", "-D__splitstack_releasecontext=vh_ss_release"]
STRAT_DEF = {"malloc": "-DFIBER_STACK_MALLOC", "mmap": "-DFIBER_STACK_MMAP", "split": "-DFIBER_STACK_SPLIT"}


def flags_for(strategy, backend):
    f = ["-g", "-std=gnu11", "-w", "-DNDEBUG", STRAT_DEF[strategy]]
    if backend == "asm":
        f.append("-DFIBER_FAST_SWITCHING")
    if strategy == "split":
        # AddressSanitizer does not combine with split stacks: plain build, pinned-like (-O0)
        f += ["-O0", "-fsplit-stack"]
    else:
        f += ["-O1", "-fsanitize=address,undefined", "-fno-sanitize-recover=undefined"]
    return f


# all C19 builds live in ONE directory under the cache whose mtime is refreshed on every
# build, so vlib.prune_cache (newest-N directories) of concurrently running checks keeps it
C19_CACHE = os.path.join(vlib.CACHE, "c19")


def _touch_cache():
    os.makedirs(C19_CACHE, exist_ok=True)
    os.utime(C19_CACHE)


def _prune_own(keep):
    ds = [os.path.join(C19_CACHE, d) for d in os.listdir(C19_CACHE) if d.startswith("ctx_") and ".tmp" not in d]
    ds.sort(key=os.path.getmtime, reverse=True)
    for d in ds[keep:]:
        shutil.rmtree(d, ignore_errors=True)


def make_build(strategy, backend):
    def build():
        src = os.path.join(vlib.REPO, "src", "fiber_context.c")
        hsrc = os.path.join(vlib.VERIF, "harness", "ctx.c")
        inc = os.path.join(vlib.REPO, "include")
        files = [src, hsrc] + [os.path.join(inc, n) for n in sorted(os.listdir(inc)) if n.endswith(".h")]
        fl = flags_for(strategy, backend)
        key = vlib.hash_files(files, extra=repr(("ctx", strategy, backend, fl, RENAMES)))
        out = os.path.join(C19_CACHE, "ctx_%s_%s_%s" % (strategy, backend, key))
        exe = os.path.join(out, "ctx")
        with vlib.FileLock("build_ctx_%s_%s" % (strategy, backend)):
            _touch_cache()
            if os.path.exists(exe):
                os.utime(out)
                return exe
            tmp = out + ".tmp%d" % os.getpid()
            shutil.rmtree(tmp, ignore_errors=True)
            os.makedirs(tmp)
            cmds = [
                ["gcc"] + fl + RENAMES + ["-I" + inc, "-I" + os.path.join(vlib.REPO, "src"), "-c", src,
                                          "-o", os.path.join(tmp, "fiber_context.o")],
                ["gcc"] + fl + ["-I" + inc, "-c", hsrc, "-o", os.path.join(tmp, "ctx.o")],
                ["gcc"] + [x for x in fl if x.startswith(("-fsanitize", "-fsplit", "-g"))] +
                [os.path.join(tmp, "ctx.o"), os.path.join(tmp, "fiber_context.o"), "-o", os.path.join(tmp, "ctx"), "-lpthread"],
            ]
            for c in cmds:
                r = vlib.sh(c)
                if r.returncode != 0:
                    shutil.rmtree(tmp, ignore_errors=True)
                    raise vlib.BuildError("compile failed: %s\n%s" % (" ".join(c), r.stdout[-3000:]))
            shutil.rmtree(out, ignore_errors=True)
            os.rename(tmp, out)
            _prune_own(keep=18)
            return exe
    return build


def build_translator_report():
    """a tiny executable whose 'run' is: re-extract from the current tree and write what was
    extracted into the log (so the evidence file shows it), status OK / EXTRACT_ERROR"""
    _touch_cache()
    out = os.path.join(C19_CACHE, "translator")
    os.makedirs(out, exist_ok=True)
    exe = os.path.join(out, "report.py")
    body = '''#!/usr/bin/env python3
import os, sys
sys.path.insert(0, %r)
import ctx_extract
log = open(os.environ["VR_LOG"], "w")
try:
    x = ctx_extract.extract(%r)
    s = ctx_extract.summary(x)
    pretty = [p.replace("%%%%", "%%") for p in s["swap_instructions"]]
    W = lambda what, txt: log.write("0 0 ctx_extract note %%s %%s\\n" %% (what, txt))
    W("swapInstrs", " ; ".join(" ".join(p.split()) for p in pretty))
    W("swapInstrsLean", " , ".join(s["swap_instrs_lean"]))
    W("swapInputs", " ; ".join(s["swap_inputs"]))
    W("swapClobbers", " ".join(s["swap_clobbers"]))
    W("initOps", " , ".join(s["init_ops"]))
    W("initAssertMask", str(s["init_assert_mask"]))
    W("FIBER_MIN_STACK_SIZE", str(s["FIBER_MIN_STACK_SIZE"]))
    W("strategyMin", " ; ".join("%%s=%%s" %% kv for kv in sorted(s["strategy_min"].items())))
    W("strategyFree", " ; ".join("%%s=%%s" %% (k, ",".join(v)) for k, v in sorted(s["strategy_free"].items())))
    W("destroyShapes", " ; ".join(str(d) for d in s["destroy"]))
    log.write("# status OK\\n")
except Exception as e:
    log.write("0 0 ctx_extract note ORACLE extraction_failed %%s\\n" %% str(e).replace("\\n", " ")[:300])
    log.write("# status EXTRACT_ERROR\\n")
''' % (os.path.join(vlib.VERIF, "extract"), vlib.REPO)
    if not os.path.exists(exe) or open(exe).read() != body:
        open(exe, "w").write(body)
        os.chmod(exe, os.stat(exe).st_mode | stat.S_IXUSR | stat.S_IXGRP | stat.S_IXOTH)
    return exe


# ----------------------------------------------------------------------------- cases

SIZES = [1, 16, 100, 1024, 4096, 20000, 65536, 262144, 1048576]
# requests nobody can satisfy: the only correct outcome is FIBER_ERROR with nothing left allocated
# (not for split stacks: libgcc's __splitstack_makecontext aborts the process by itself there)
ABSURD = [(1 << 64) - 1, (1 << 64) - 17, (1 << 64) - 4000, (1 << 64) - 4097, 1 << 63, (1 << 63) - 1, 1 << 48, (1 << 56) + 12345]


def make_gen(strategy, backend, quick, thorough):
    def gen(rng, tier):
        cases = []
        n = n_cases(tier, quick, thorough)
        for i in range(n):
            if i < len(SIZES):
                size = SIZES[i]          # every listed size at least once, tiny ones first
            elif strategy != "split" and i < len(SIZES) + len(ABSURD):
                size = ABSURD[i - len(SIZES)]
            elif strategy != "split" and rng.random() < 0.04:
                size = rng.choice(ABSURD + [(1 << 64) - rng.randrange(1, 1 << 14)])
            else:
                size = rng.choice(SIZES + [rng.randrange(1, 300), rng.randrange(300, 70000), rng.randrange(1, 1 << 21)])
            k = rng.choice([1, 1, 2, 3, 5, 8, 16, 30])
            hops = rng.choice([2, 4, 8, 20, 60, 200] if tier == "quick" else [2, 4, 8, 20, 60, 200, 800, 3000])
            xthread = rng.choice([0, 0, 1])
            churn = rng.choice([0, 1])
            cases.append({"args": [k, size, hops, xthread, churn],
                          "env": {"VR_SEED": rng.randrange(1, 1 << 30)}, "timeout": 60})
        return cases
    return gen


def gen_translator(rng, tier):
    return [{"args": [], "env": {}}]


def post(log, case):
    """oracle lines written by the harness (or by its ASan report callback)"""
    bad = []
    try:
        with open(log, errors="replace") as f:
            for line in f:
                if " note ORACLE " in line:
                    bad.append(line.split(" note ORACLE ", 1)[1].strip())
    except OSError:
        return None
    if bad:
        return "oracle " + bad[0][:300] + (" (+%d more)" % (len(bad) - 1) if len(bad) > 1 else "")
    return None


def nontrivial(sig):
    h = sig["hist"]
    return h.get("note hop resume", 0) + h.get("note hop resume_small", 0) > 0 or h.get("note swapInstrs", 0) > 0


PARTS = [{"name": "translator", "build": build_translator_report, "model": None, "gen": gen_translator,
          "post": post, "nontrivial": nontrivial}]
for _s in ("malloc", "mmap", "split"):
    for _b in ("asm", "ucontext"):
        PARTS.append({"name": "ctx-%s-%s" % (_s, _b), "build": make_build(_s, _b), "model": None,
                      "gen": make_gen(_s, _b, 45 if _b == "asm" else 25, 700 if _b == "asm" else 300),
                      "post": post, "nontrivial": nontrivial})

def _guard_parts():
    """The resumption clause holds for a switch whose TARGET is a suspended context (Guard).  That
    the runtime (src/fiber_manager.c) only ever switches to fibers whose switch-out has completed
    is C01's theorem (Rt.switch_target_saved); its correspondence - the mixed-program and the
    signal harness followed by the runtime model - is re-run here, so that a manager that
    publishes a fiber before its context is saved is reported by this check too."""
    import specs_c01
    out = []
    for name, nq, nt in (("rt", 900, 6000), ("rt-signal", 80, 1000)):
        src = [p for p in specs_c01.SPEC["C01"]["parts"] if p["name"] == name][0]
        part = dict(src)
        part["name"] = "guard-" + name

        def gen(rng, tier, _g=src["gen"], _nq=nq, _nt=nt):
            cs = _g(rng, tier)
            rng.shuffle(cs)
            return cs[: (_nt if tier == "thorough" else _nq)]
        part["gen"] = gen
        out.append(part)
    return out


SPEC = {
    "C19": {
        "pre": pre,
        "parts": PARTS + _guard_parts(),
        "rule": "cases = (nfibers, requested stack size, hops, cross-thread phase, create/destroy churn, VR_SEED) per (stack strategy x "
                "switching back-end) executable; distinct = different (args, sha1 of the recorded hop/entry/init/destroy sequence); "
                "non-trivial = at least one suspended context was resumed (its planted registers, rsp and stack canaries compared)",
        "trusted_base": [
            "extract/ctx_extract.py (strict source slicing of src/fiber_context.c; emits data only; fails closed) — its output is "
            "lean/LibfiberVerif/Gen/CtxAsm.lean and the first sample below",
            "Model/Ctx.lean instruction semantics for leaq label / movq / pushq / popq / add $imm / jmp *reg over BitVec 64; "
            "memory as 8-byte cells keyed by address (exact for 8-byte aligned stack pointers)",
            "harness/ctx.c (plain / ASan+UBSan builds of the real fiber_context.c, not TSan-instrumented), gcc 12 libasan",
        ],
        "assumptions": [
            "client obligations (Guard): switch only to a suspended context, >= 56 bytes of room below rsp on the own stack, a fiber "
            "writes only its own stack; discharged for the runtime by C01 (theorem Rt.switch_target_saved; its correspondence is re-run here as parts guard-rt and guard-rt-signal)",
            "page size >= 4096; libgcc __splitstack_makecontext returns >= 3840 usable bytes (checked dynamically: every created "
            "context's frame must lie inside [ctx_stack, ctx_stack+ctx_stack_size))",
            "not modelled in Lean, differential harness only: swapcontext/makecontext back-end, __splitstack_* bookkeeping, x87/MXCSR/SSE state",
            "fiber_context_destroy is called at most once per initialised context (C04)",
        ],
    },
}
