"""C14 — hazard pointers (include/hazard_pointer.h, src/hazard_pointer.c)."""
from specs import sched_env, n_cases
import vlib

# ------------------------------------------------------------------ concurrent protocol runs


def gen_thread(rng, k, ng, nops, late, pscan):
    ops = []
    if late:
        # late joiner: an explicit `j` first makes "join only" a separate operation (thread
        # start itself is spread out by the scheduler)
        ops.append("j")
    held = set()
    for _ in range(nops):
        r = rng.random()
        if r < 0.30:
            s = rng.randrange(k)
            ops.append("a%d%d" % (rng.randrange(ng), s))
            held.add(s)
            if rng.random() < 0.5:
                # hold the protection while the other threads retire and scan
                ops.append("p%d" % rng.choice([3, 10, 30, 80]))
        elif r < 0.38 and held:
            ops.append("u%d" % rng.choice(sorted(held)))
        elif r < 0.48:
            s = rng.choice(sorted(held)) if held and rng.random() < 0.8 else rng.randrange(k)
            ops.append("r%d" % s)
            held.discard(s)
        elif r < 1.0 - pscan:
            ops.append("x%d%s" % (rng.randrange(ng), "f" if rng.random() < 0.92 else "n"))
        else:
            ops.append("s")
    return ",".join(ops)


def gen_hp(rng, tier):
    cases = []
    for _ in range(n_cases(tier, 1200, 12000)):
        k = rng.choice([1, 1, 2, 2, 3])
        nt = rng.choice([1, 2, 2, 3, 3, 4])
        # tiny arena: addresses collide in every order and nodes are recycled at once;
        # sometimes a larger one so that retired_count reaches 2*N*K and free() scans by itself
        arena = rng.choice([3, 4, 5, 3, 4, 5, 8, 14])
        ng = rng.choice([1, 2])
        hi = 9 if tier == "quick" else 16
        pscan = rng.choice([0.0, 0.08, 0.2])
        threads = []
        for t in range(nt):
            n = rng.randrange(3, hi)
            th = gen_thread(rng, k, ng, n, late=(t > 0 and rng.random() < 0.4), pscan=pscan)
            if rng.random() < 0.4:
                # retire-heavy tail: reaches the threshold (2*N*K) so the scan runs inside free()
                th += "," + ",".join("x%df" % rng.randrange(ng) for _ in range(rng.randrange(2, 2 * nt * k + 3)))
            threads.append(th)
        cases.append({"args": [k, arena, ng, "|".join(threads)], "env": sched_env(rng)})
    return cases


# ------------------------------------------------------------------ model-independent oracle on the log


def post_hp(log_path, case):
    """`garbage stays bounded`, checked directly on the log (independent of the Lean model, so it
    still speaks after a correspondence divergence): after every retire / explicit scan the
    harness logs `note retired_count <rec> <n>`; n must be below the record's current
    retire_threshold (tracked from the st/fadd events on thr<rec>), and after an operation that
    scanned, 2*n must not exceed it.  In the single-threaded drain phase (all slots released, then
    every record scanned) no garbage may be left."""
    thr = {}
    scanned = {}
    drain = False
    try:
        with open(log_path) as f:
            for line in f:
                p = line.split()
                if len(p) < 5 or p[0].startswith("#"):
                    continue
                kind, cell = p[3], p[4]
                if drain:
                    # every slot has been released: the final scan of each record must free everything
                    if kind == "note" and cell == "retired_count" and int(p[6]) != 0:
                        return "oracle garbage-left record %s keeps %s retired nodes although no slot is in use" % (p[5], p[6])
                    continue
                if kind == "st" and cell.startswith("thr"):
                    thr[int(cell[3:])] = int(p[5])
                elif kind == "fadd" and cell.startswith("thr"):
                    thr[int(cell[3:])] = int(p[5]) + int(p[6])
                elif kind == "note" and cell == "actas":
                    drain = True
                elif kind == "w" and cell.startswith("rc") and p[5] == "0":
                    scanned[int(cell[2:])] = True
                elif kind == "note" and cell == "retired_count":
                    r, n = int(p[5]), int(p[6])
                    if r in thr:
                        if n >= thr[r]:
                            return "oracle garbage-bound retired_count %d >= retire_threshold %d of record %d" % (n, thr[r], r)
                        if scanned.get(r) and 2 * n > thr[r]:
                            return "oracle garbage-bound after a scan 2*retired_count %d > retire_threshold %d of record %d" % (n, thr[r], r)
                    scanned[r] = False
    except (OSError, ValueError, IndexError):
        return None
    return None


# ------------------------------------------------------------------ binary_search differential


def gen_bs(rng, tier):
    cases = []
    for _ in range(n_cases(tier, 12, 120)):
        qs = []
        for _ in range(60):
            n = rng.randrange(0, 10)
            span = rng.choice([3, 6, 12, 40])
            hay = sorted(rng.randrange(1, span + 1) for _ in range(n))  # duplicates allowed
            r = rng.random()
            if hay and r < 0.5:
                needle = rng.choice(hay)
            elif hay and r < 0.6:
                needle = hay[0] - 1 if hay[0] > 0 else 0
            elif hay and r < 0.7:
                needle = hay[-1] + 1
            else:
                needle = rng.randrange(0, span + 2)
            qs.append("%d:%s" % (needle, ".".join(map(str, hay))))
        cases.append({"args": ["bs", ";".join(qs)], "env": {"VR_SEED": 1}})
    # exhaustive small part: every sorted haystack over {1,2,3} up to length 4, every needle 0..4
    import itertools
    qs = []
    for n in range(0, 5):
        for hay in itertools.combinations_with_replacement([1, 2, 3], n):
            for needle in range(0, 5):
                qs.append("%d:%s" % (needle, ".".join(map(str, hay))))
    for i in range(0, len(qs), 80):
        cases.append({"args": ["bs", ";".join(qs[i:i + 80])], "env": {"VR_SEED": 1}})
    return cases


def gen_hp_spread(rng, tier):
    """the dense-arena cases, and every third one again with the nodes > 2^32 bytes apart
    (all address patterns: pointer differences that do not fit in 32 bits)"""
    cases = gen_hp(rng, tier)
    out = []
    for i, c in enumerate(cases):
        out.append(c)
        if i % 3 == 0:
            e = dict(c["env"])
            e["VH_SPREAD"] = 1
            out.append({"args": c["args"], "env": e})
    return out


def _mpmc_part():
    from specs_c13 import SPEC as S13
    p = dict(S13["C13"]["parts"][0])
    p["name"] = "mpmc"
    g = p["gen"]
    p["gen"] = lambda rng, tier: g(rng, tier)[: (300 if tier != "thorough" else 3000)]
    return p


from parts_hpscale import gen_hp_scale, HP_SCALE_PART  # noqa: E402


SPEC = {
    "C14": {
        "extra_props": ("Tso",),
        "parts": [
            {"name": "hp", "harness": "hazard", "model": "Hp", "gen": gen_hp_spread, "post": post_hp},
            {"name": "bsearch", "harness": "hazard", "model": "Hp", "gen": gen_bs},
            # "no structure built on it dereferences a reclaimed node": the structure built on
            # it in this library is the MPMC FIFO (C13's model and poison-read oracle)
            _mpmc_part(),
            # scale and address patterns of the scan itself (oracle-only part, the real scan run
            # single-threaded on big configurations)
            HP_SCALE_PART,
        ],
        "trusted_base": [
            "qsort(plist) with hazard_pointer_compare yields the sorted permutation (libc, trusted)",
            "calloc/malloc/free (libc); the plist scratch area is private to its record",
            "harness/hazard.c client protocol = the API contract: a node is in at most one global cell, "
            "is retired once by the thread that unlinked it, and is re-published only after its reclamation callback ran",
            "node ids are ordered like the node addresses (nodes are elements of one array)",
            "store_load_barrier(): the model is sequentially consistent; the obligation checked is that the fence "
            "event follows the slot store in every acquire (x86-TSO argument in DESIGN.md §3)",
        ],
        "assumptions": [
            "one record per participating thread, all records with the same hazard_pointers_count K >= 1",
            "records are never destroyed while the structure is in use (destroy_all is not modelled)",
            "weak CAS does not fail spuriously on x86-64 (cmpxchg)",
        ],
    },
}
