"""C02 — every runnable fiber is run exactly once per wake-up.

Part `wsd`: the run queue itself, src/work_stealing_deque.c (Chase–Lev deque): one owner
(push_bottom / pop_bottom) + 1..3 thieves (steal) as plain pthreads on the real deque, with
a tiny initial array (log2 size 1 or 2) so the growth boundary is crossed within a few
pushes and the single-element race (owner pop vs steal) is common.

The whole-runtime half of C02 (quiescence: no runnable fiber left queued when every kernel
thread is idle) is a separate part: append it with
    SPEC["C02"]["parts"].append({...})
(from this file or from a `specs_c02_*.py` that imports SPEC from here — `specs.load_specs`
merges by property id, so prefer appending here).
"""
from specs import sched_env, n_cases
import vlib


def owner_ops(rng, n, nxt):
    """a mostly-valid owner script: pushes of distinct positive values and pops, biased so that
    the deque hovers around 0..3 elements (single-element race, growth at 1->2 and 3->4)"""
    ops = []
    depth = 0
    mode = rng.choice(["mixed", "mixed", "burst", "pingpong"])
    for i in range(n):
        if mode == "burst":
            push = i < (n + 1) // 2
        elif mode == "pingpong":
            push = i % 2 == 0
        else:
            push = rng.random() < (0.75 if depth < 2 else 0.45)
        if push:
            ops.append("p%d" % nxt[0])
            nxt[0] += 1
            depth += 1
        else:
            ops.append("o")
            depth = max(0, depth - 1)
    return ops


def gen_wsd(rng, tier):
    cases = []
    quick = tier != "thorough"
    for _ in range(n_cases(tier, 400, 6000)):
        k = rng.choice([1, 1, 1, 2])
        nthieves = rng.choice([1, 1, 2, 2, 3])
        nxt = [1]
        nown = rng.randrange(3, 11 if quick else 17)
        threads = [",".join(owner_ops(rng, nown, nxt))]
        for _ in range(nthieves):
            ns = rng.randrange(2, 7 if quick else 10)
            threads.append(",".join(["s"] * ns))
        args = [k, "|".join(threads)]
        if rng.random() < 0.2:
            # a long-lived run queue: indices start at 2^31 or 2^32
            args.append(rng.choice([1 << 31, 1 << 32]))
        cases.append({"args": args, "env": sched_env(rng)})
    # growth-heavy: the owner pushes 20-40 entries in a row into a 2-slot deque (four or five
    # growth steps, 2 -> 4 -> ... -> 64) while thieves steal, then pops what is left
    for _ in range(n_cases(tier, 60, 600)):
        nxt = 1
        npush = rng.randrange(18, 41)
        ops = []
        for _ in range(npush):
            ops.append("p%d" % nxt)
            nxt += 1
            if rng.random() < 0.1:
                ops.append("o")
        ops += ["o"] * rng.randrange(2, 8)
        threads = [",".join(ops)] + [",".join(["s"] * rng.randrange(3, 10)) for _ in range(rng.choice([1, 2, 2]))]
        cases.append({"args": [1, "|".join(threads)], "env": sched_env(rng, budget=400000)})
    return cases


def gen_wsd_scale(rng, tier):
    """(entries, thieves, seed): the real deque through every growth step up to beyond 2^20
    entries; exactly-once by bitmap"""
    cfgs = [(1000, 0), ((1 << 20) + 64, 0), ((1 << 20) + 64, 2), (300000, 2), (70000, 3), ((1 << 21) + 5, 1)]
    if tier == "thorough":
        cfgs += [((1 << 22) + 3, 2), ((1 << 16) + 1, 3), ((1 << 15) + 1, 2), (40000, 3)] + [(rng.randrange(1000, 3000000), rng.randrange(0, 4)) for _ in range(6)]
    return [{"args": [n, t, rng.randrange(1, 1 << 30)], "timeout": 600,
             "env": {"VR_SEED": rng.randrange(1, 1 << 30), "VR_SCHED": "rand", "VR_SWITCH": 3, "VR_HANG": 4000000000, "VR_BUDGET": 4000000000, "VR_MAXEV": 1000000}}
            for (n, t) in cfgs]


def gen_rt_scale(rng, tier):
    """(kernel threads, fibers, yields per fiber): tens of thousands of runnable fibers in one run
    queue (queue lengths beyond 2^15 and 2^16)"""
    cfgs = [(1, 1000, 1), (1, 40000, 1), (2, 70000, 0)]
    if tier == "thorough":
        cfgs += [(3, 33000, 2), (1, 66000, 1), (2, 131100, 0), (1, 32800, 3)]
    return [{"args": [k, n, y], "timeout": 900,
             "env": {"VR_SEED": rng.randrange(1, 1 << 30), "VR_SCHED": "rand", "VR_SWITCH": 3, "VR_MAXFIB": 300000,
                     "VR_HANG": 50000000, "VR_BUDGET": 4000000000, "VR_MAXEV": 60000000}}
            for (k, n, y) in cfgs]


def post_wsd(log, case):
    """oracles on the log that need no model: a retired array generation must not be released
    while the deque is in use; no operation may return the poison"""
    try:
        for line in open(log):
            if " ORACLE " in line:
                return "oracle " + line.split(" ORACLE ", 1)[1].strip()[:120]
            if "note ret" in line and "1515870810" in line:
                return "oracle poisoned value returned: " + line.strip()[:120]
    except OSError:
        pass
    return None


def _rt_part():
    from specs_c01 import PART_RT
    return PART_RT


SPEC = {
    "C02": {
        "extra_props": ("Tso", "TsoGrow", "QueueHist",),
        # second part: the whole runtime (model Rt, shared with C01): every schedule of a fiber
        # is consumed by exactly one switch to it; nothing is queued when all threads are idle
        "parts": [{"name": "wsd", "harness": "wsd", "model": "Wsd", "gen": gen_wsd, "post": post_wsd}, _rt_part(),
                  # scale (oracle-only parts): the real deque up to millions of entries, the real
                  # scheduler with tens of thousands of runnable fibers in one run queue
                  {"name": "wsd-scale", "harness": "wsdscale", "model": None, "gen": gen_wsd_scale, "post": vlib.oracle_note},
                  {"name": "rt-scale", "harness": "rtscale", "model": None, "runtime": True, "gen": gen_rt_scale, "post": vlib.oracle_note}],
        "trusted_base": [
            "runtime half: run queues as bags at the deque API (rqpush/rqpop/rqsteal call-site events) in model Rt; "
            "idle = the runtime's tick note (every kernel thread polled and found nothing for several rounds)",
            "64-bit wrap-around of top/bottom not modelled (2^63 pushes unreachable)",
            "harness/wsd.c routes the deque file's malloc through a zero-filling allocator that "
            "registers each array generation's slots (the C file itself is compiled unchanged)",
        ],
        "assumptions": [
            "client contract: only the owning kernel thread calls push_bottom/pop_bottom (enforced by the model's step)",
            "pushed values are not the sentinels WSD_EMPTY/WSD_ABORT",
            "weak CAS does not fail spuriously on x86-64 (cmpxchg)",
            "malloc does not fail",
        ],
    },
}
