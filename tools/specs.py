"""specs.py — per-property configuration of the correspondence runs: which harness, which
Lean model, how cases (script + schedule) are generated."""
import random

SCHEDS = ["rand", "rand", "pct", "freeze"]


def sched_env(rng, budget=200000):
    k = rng.choice(SCHEDS)
    env = {"VR_SEED": rng.randrange(1, 1 << 30), "VR_SCHED": k, "VR_BUDGET": budget}
    if k == "rand":
        env["VR_SWITCH"] = rng.choice([2, 3, 5])
    elif k == "pct":
        env["VR_PCT_D"] = rng.choice([1, 2, 3])
        env["VR_PCT_LEN"] = rng.choice([40, 120, 400])
    else:
        env["VR_FREEZE_DEN"] = rng.choice([6, 15, 40])
        env["VR_FREEZE_LEN"] = rng.choice([20, 80, 300])
    return env


def n_cases(tier, quick, thorough):
    """number of generated cases; the thorough tier is scaled by VERIF_THOROUGH_SCALE (default 3:
    tens of thousands of schedules per property, minutes of wall time on 16 cores)"""
    import os
    if tier == "thorough":
        return int(thorough * float(os.environ.get("VERIF_THOROUGH_SCALE", "3")))
    return quick



def load_specs():
    """collect SPEC dictionaries from tools/specs_*.py (one file per property)"""
    import glob
    import importlib
    import os
    specs = {}
    here = os.path.dirname(os.path.abspath(__file__))
    for p in sorted(glob.glob(os.path.join(here, "specs_*.py"))):
        m = importlib.import_module(os.path.basename(p)[:-3])
        specs.update(m.SPEC)
    return specs


class _Lazy(dict):
    def __missing__(self, k):
        self.update(load_specs())
        return dict.__getitem__(self, k)


SPECS = _Lazy()
