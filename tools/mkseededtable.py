#!/usr/bin/env python3
"""regenerate the seeded-change table in DESIGN.md from seeded/*/meta.json"""
import json
import os
import re

V = os.path.dirname(os.path.dirname(os.path.abspath(__file__)))
rows = []
for sid in sorted(os.listdir(os.path.join(V, "seeded"))):
    mp = os.path.join(V, "seeded", sid, "meta.json")
    if not os.path.exists(mp):
        continue
    m = json.load(open(mp))
    readme = os.path.join(V, "seeded", sid, "README.md")
    title = ""
    if os.path.exists(readme):
        for l in open(readme):
            if l.startswith("#"):
                title = l.lstrip("# ").strip()
                break
    det = m.get("detection") or {}
    cells = []
    for pid, d in det.items():
        how = (d.get("how") or [""])[0]
        how = re.sub(r"\s+", " ", how)[:110].replace("|", "\\|")
        cells.append("%s: %s%s" % (pid, d.get("status"), (" — " + how) if how else ""))
    rows.append("| %s | %s | %s |" % (sid, title[:90].replace("|", "\\|"), "<br>".join(cells)))
table = "| seeded change | what it is | checks |\n|---|---|---|\n" + "\n".join(rows)
p = os.path.join(V, "DESIGN.md")
s = open(p).read()
s = re.sub(r"<!-- SEEDED-TABLE-BEGIN -->.*<!-- SEEDED-TABLE-END -->",
           "<!-- SEEDED-TABLE-BEGIN -->\n" + table + "\n<!-- SEEDED-TABLE-END -->", s, flags=re.S)
open(p, "w").write(s)
print(len(rows), "rows")
