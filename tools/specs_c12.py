"""C12 — fiber barrier (src/fiber_barrier.c + wait/wake in src/fiber_manager.c)."""
from specs import sched_env, n_cases


def gen_script(rng, count, rounds):
    """one op list per fiber: `rounds` waits each (client assumption: exactly `count`
    participating fibers, all doing every round), optional yields between rounds"""
    fibers = []
    for _ in range(count):
        ops = []
        for _ in range(rounds):
            if rng.random() < 0.25:
                ops.append("y")
            ops.append("w")
        fibers.append(",".join(ops))
    return "|".join(fibers)


def gen(rng, tier):
    cases = []
    quick = tier != "thorough"
    for i in range(n_cases(tier, 360, 5000)):
        count = rng.choice([1, 2, 2, 3, 3, 3, 3, 4])
        rounds = rng.randrange(1, 5 if quick else 7)
        k = rng.choice([1, 2, 2, 3, 3])
        env = sched_env(rng, budget=60000)
        if i % 3 == 0:
            # the window "arrived (fetch_add done) but not yet enqueued" is what matters here:
            # freeze a kernel thread right after a store for a long stretch
            env = {"VR_SEED": env["VR_SEED"], "VR_SCHED": "freeze", "VR_BUDGET": 60000,
                   "VR_FREEZE_DEN": rng.choice([4, 6, 10, 15]), "VR_FREEZE_LEN": rng.choice([80, 300, 1000])}
        args = [k, gen_script(rng, count, rounds)]
        if i % 4 == 1:
            # a long-lived barrier: the arrival counter crosses 2^32 during the run
            args.append((1 << 32) - rng.randrange(0, 2 * count + 1))
        cases.append({"args": args, "env": env})
    # a barrier created for MANY more participants than ever arrive (count = fibers + 2^8, 2^16,
    # 2^24, ...): nobody may pass; a count that lost its upper bits lets them through
    for _ in range(n_cases(tier, 24, 200)):
        nf = rng.choice([1, 2, 3, 4])
        extra = rng.choice([1 << 8, 1 << 16, 1 << 16, 1 << 24, (1 << 31), (1 << 32) - 1 - nf, 5 << 16])
        cases.append({"args": [rng.choice([1, 2, 3]), gen_script(rng, nf, rng.randrange(1, 3)), 0, extra],
                      "env": sched_env(rng, budget=60000)})
    return cases


import os as _os
import sys as _sys

_sys.path.insert(0, _os.path.join(_os.path.dirname(_os.path.dirname(_os.path.abspath(__file__))), "extract"))
import wake_extract  # noqa: E402


def pre(repo):
    """translator step (facts no trace shows): the manager's wake loops wait without bound for an
    announced waiter and wake exactly the number asked for"""
    return wake_extract.check(repo)


SPEC = {
    "C12": {
        "pre": pre,
        "parts": [{"name": "barrier", "harness": "barrier", "model": "Barrier", "runtime": True, "gen": gen,
                   # BUDGET alone is inconclusive (a strict-priority schedule can starve a kernel
                   # thread for ever); the Lean end-of-log oracle `stuck` flags the runs that can
                   # definitely never complete ("stranded: ..."); HANG is always a failure
                   "ok_status": ("OK", "BUDGET"),
                   "nontrivial": lambda s: s["hist"].get("xchg tail", 0) >= 1 and s["switches"] > 0}],
        "rule": "cases = (a barrier announced for 2^8 .. 2^32-1 more participants than arrive, which nobody may pass; otherwise script: count = 1-4 fibers each doing 1-6 rounds of fiber_barrier_wait on one barrier with optional yields between rounds, 1-3 kernel threads, scheduler kind rand/pct/freeze + seed) from VERIF_SEED; distinct = different (script, sha1 of access sequence); non-trivial = at least one waiter was enqueued and the kernel threads interleaved",
        "trusted_base": [
            "waiter queue kept abstractly (ghost order + linked flags), validated against every logged access; its adequacy for all interleavings is C15 (Mpsc.pop_is_next_in_order / empty_justified)",
            "scheduler traffic on fiber state words is skipped here and covered by the runtime model (C01/C02)",
            "'all of them do return' is decided per run (status HANG, or the Lean end-of-log oracle `Barrier.stuck` on the model's final state: no fiber can ever move again; an exhausted budget alone is inconclusive under strict-priority schedules), not by a Lean liveness theorem; the Lean side proves the safety half (C12.pending_accounted, C12.no_stranded_*)",
            "number of waiter queues (1 = code as it is, 2 = docs/fix-C12.diff) is read by the harness from sizeof(fiber_barrier_t.waiters) at compile time and passed to the model in the init note"],
        "assumptions": ["client contract from the property: exactly `count` participating fibers, each taking part in every round"],
    },
}
