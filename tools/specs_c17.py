"""C17 — work queue (src/work_queue.c, include/work_queue.h over include/mpsc_fifo.h)."""
import os
import sys

from specs import sched_env, n_cases

sys.path.insert(0, os.path.join(os.path.dirname(os.path.dirname(os.path.abspath(__file__))), "extract"))
import wq_extract  # noqa: E402


def pre(repo):
    """translator step (facts no trace shows): 64-bit counters everywhere, unbounded wait loop"""
    return wq_extract.check(repo)


# ------------------------------------------------------------------ C17 work queue


def gen_wq(rng, tier):
    cases = []
    quick = tier != "thorough"
    for _ in range(n_cases(tier, 400, 5000)):
        nt = rng.choice([2, 2, 3, 3, 4, 5]) if quick else rng.choice([2, 3, 4, 5, 6, 7])
        nxt = 1
        threads = []
        for _t in range(nt):
            k = rng.randrange(1, 7 if quick else 13)
            think = rng.choice([0, 0, 3, 8, 20])
            ops = []
            for i in range(k):
                # think time between pushes: the worker then often decides "drained" while
                # other threads still have unannounced items
                if think and rng.random() < 0.7:
                    ops.append("y%d" % rng.randrange(1, think + 1))
                ops.append("p%d" % (nxt + i))
            threads.append(",".join(ops))
            nxt += k
        env = sched_env(rng)
        # the windows that matter are a few accesses wide (announce -> exchange -> link,
        # compare -> zero -> subtract): short freezes / dense switching cross them most often
        if env["VR_SCHED"] == "freeze":
            env["VR_FREEZE_DEN"] = rng.choice([3, 6, 15])
            env["VR_FREEZE_LEN"] = rng.choice([5, 20, 80])
        elif env["VR_SCHED"] == "rand":
            env["VR_SWITCH"] = rng.choice([2, 2, 3, 5])
        args = ["|".join(threads)]
        if rng.random() < 0.25:
            # a session that never drained: both counters just below 2^32 (or 2^31)
            args.append(rng.choice([(1 << 32) - 2, (1 << 32) - 1, (1 << 31) - 1]))
        if nxt > 2 and rng.random() < 0.3:
            # one work item (mostly not the first) carries a NULL payload in the real code: the
            # harness stores v - k, the runtime prints the data cells plus k (VR_BIAS)
            env = dict(env, VR_BIAS=".data:%d" % rng.randrange(2, nxt))
        cases.append({"args": args, "env": env})
    return cases


SPEC = {
    "C17": {
        "pre": pre,
        "parts": [{"name": "workqueue", "harness": "workqueue", "model": "WorkQueue", "gen": gen_wq}],
        "trusted_base": [
            "64-bit wrap-around of in_count/out_count not modelled (2^63 items unreachable)",
            "cpu_relax() is a scheduling point of the instrumented run but not a model step",
            "client-side preparation of an item (node->data := v before push, reading it after "
            "get_work) is done by the harness outside the access log; the model's callPush sets data[n] := v",
        ],
        "assumptions": [
            "client contract of work_queue.h: get_work is called only by the thread whose push "
            "returned WORK_QUEUE_START_WORKING, repeatedly until WORK_QUEUE_EMPTY; a node is pushed "
            "only while the client owns it (model: pc discipline and ghost Own)",
            "item values are non-zero (0 encodes EMPTY in the notes)",
        ],
    },
}
