#!/usr/bin/env python3
"""refresh_seeded.py [ids...] — re-run the checks against every kept seeded change and
update seeded/<id>/meta.json["detection"] (+ cross-detection by related properties)."""
import concurrent.futures as cf
import json
import os
import subprocess
import sys

VERIF = os.path.dirname(os.path.dirname(os.path.abspath(__file__)))
CROSS = {"C19-m1": ["C01"], "C19-w6m3": ["C04"], "C01-m3": ["C04"], "C14-m2": ["C13"], "C06-m3": ["C13"], "C01-m2": ["C11"]}


def one(sid):
    d = os.path.join(VERIF, "seeded", sid)
    meta = json.load(open(os.path.join(d, "meta.json")))
    pids = [meta["property"]] + CROSS.get(sid, [])
    out = subprocess.run([sys.executable, os.path.join(VERIF, "tools", "seeded.py"), os.path.join(d, "patch.diff")] + pids,
                         stdout=subprocess.PIPE, stderr=subprocess.DEVNULL, text=True).stdout
    det = None
    for line in out.strip().split("\n")[::-1]:
        if line.startswith("{"):
            try:
                det = json.loads(line)
                break
            except Exception:
                pass
    meta["detection"] = det
    json.dump(meta, open(os.path.join(d, "meta.json"), "w"), indent=1)
    return sid, {k: v["status"] for k, v in (det or {}).items()}


ids = sys.argv[1:] or sorted(os.listdir(os.path.join(VERIF, "seeded")))
with cf.ThreadPoolExecutor(3) as ex:
    for sid, st in ex.map(one, ids):
        print(sid, st)
