#!/usr/bin/env python3
"""keep_seeded.py <id> <property> <agent worktree> <mutation dir> [needs...]
Confirm a seeded change (confirm_seeded.py), run the property's check against it
(seeded.py), and if confirmed keep it as /verif/seeded/<id>/ with meta.json."""
import json
import os
import shutil
import subprocess
import sys

VERIF = os.path.dirname(os.path.dirname(os.path.abspath(__file__)))


def last_json(txt):
    i = txt.rfind("\n{")
    j = txt.find("{")
    for start in ([i + 1] if i >= 0 else []) + [j]:
        try:
            return json.loads(txt[start:])
        except Exception:
            continue
    return None


def main():
    sid, pid, wt, mdir = sys.argv[1:5]
    needs = " ".join(sys.argv[5:])
    c = subprocess.run([sys.executable, os.path.join(VERIF, "tools", "confirm_seeded.py"), wt, mdir],
                       stdout=subprocess.PIPE, stderr=subprocess.DEVNULL, text=True).stdout
    conf = last_json(c[c.find("{"):]) if "{" in c else None
    ok = bool(conf and conf.get("patch_applies") and conf.get("mutated_build_rc") == 0
              and all("100% tests passed" in x for x in conf.get("mutated_ctest", []))
              and conf.get("demo_clean", {}).get("fails") == 0
              and conf.get("demo_mutated", {}).get("fails", 0) > 0)
    s = subprocess.run([sys.executable, os.path.join(VERIF, "tools", "seeded.py"), os.path.join(mdir, "patch.diff"), pid],
                       stdout=subprocess.PIPE, stderr=subprocess.DEVNULL, text=True).stdout
    det = None
    for line in s.strip().split("\n")[::-1]:
        if line.startswith("{"):
            try:
                det = json.loads(line)
                break
            except Exception:
                pass
    readme = os.path.join(mdir, "README.md")
    meta = {"id": sid, "property": pid, "confirmed": ok, "confirmation": conf,
            "needs_to_manifest": needs or (open(readme).read()[:1500] if os.path.exists(readme) else ""),
            "what_i_ran": ["tools/confirm_seeded.py (fresh scratch worktree: patch applies, build, ctest x2, demo clean x5 / mutated x5)",
                           "tools/seeded.py patch.diff %s (check.py --tier quick against a scratch copy with the patch)" % pid],
            "detection": det}
    print(json.dumps({"id": sid, "confirmed": ok, "detection": det}, indent=1))
    if ok:
        dst = os.path.join(VERIF, "seeded", sid)
        shutil.rmtree(dst, ignore_errors=True)
        os.makedirs(dst)
        for f in os.listdir(mdir):
            p = os.path.join(mdir, f)
            if os.path.isfile(p) and os.path.getsize(p) < 200000 and not os.access(p, os.X_OK) or f.endswith(".sh"):
                shutil.copy(p, os.path.join(dst, f))
        json.dump(meta, open(os.path.join(dst, "meta.json"), "w"), indent=1)
    return 0


if __name__ == "__main__":
    sys.exit(main())
