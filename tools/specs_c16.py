"""C16 — lock-free ring buffer (include/lockfree_ring_buffer.h).

Script ops (harness/ring.c): p<v> trypush, o trypop, P<v> blocking push, O blocking pop,
z size query.  Optional third harness argument: the value both counters start at (`base`).

About 35% of the cases start the real ring with `high = low = base != 0` so that the counters
cross 2^32, 2^63, 2^64 - 2^32 (where rt/vrt.c starts printing values as negative numbers) or
2^64 during the run, or sit at a random 64-bit value.  The driver validates those logs against
the 64-bit machine Model/RingW.lean started at `base` (a wrong counter value anywhere is a
divergence); the API-level monitors and the size oracle do not depend on `base`.  Runs that take
`high` across 2^64 fail on the real code (finding F-C16 in known_findings.json: trypop's
`high > low` compares values) - the 64-bit machine describes exactly that behaviour, so these
runs must still validate (`known_must_validate`).

Blocking ops spin until they succeed, so a script must be deadlock-free under EVERY schedule.
`deadlock_free` is a static sufficient condition (sound for the real code because every
completed operation takes effect atomically at its CAS and a try-op may fail at any time):

  * a run can only get stuck with every unfinished thread spinning in a blocking pop on an
    EMPTY buffer, or every unfinished thread spinning in a blocking push on a FULL buffer
    (capacity >= 2, so not both);
  * for every "cut" that puts each thread either at its end or in front of one of its blocking
    pops (at least one thread unfinished), the operations before the cut leave at least
        #P - #O - #o >= 1   items (all try-pushes failing, all try-pops succeeding),
    so some spinning pop can complete;
  * for every cut that puts each thread at its end or in front of one of its blocking pushes,
    the operations before the cut leave at most   #P + #p - #O < capacity   items (all
    try-pushes succeeding, all try-pops failing), so some spinning push can complete.

Both conditions are sums over threads, so the worst cut is found thread by thread.  The
generator draws a script and demotes blocking ops (P -> p, O -> o) at the worst cut until the
condition holds: scripts are deadlock-free by construction.  `_selftest()` cross-checks the
condition against an exhaustive search of the API-level state space.
"""
import os
import sys

from specs import sched_env, n_cases

sys.path.insert(0, os.path.join(os.path.dirname(os.path.dirname(os.path.abspath(__file__))), "extract"))
import ring_extract  # noqa: E402
import vlib  # noqa: E402


def pre(repo):
    """translator step: fails closed (ExtractError = obligation broken) when the header's
    emptiness tests are in no known shape"""
    ring_extract.variant(repo)


def tree_variant():
    try:
        return ring_extract.variant(vlib.REPO)
    except ring_extract.ExtractError:
        return "asis"

# ------------------------------------------------------------------ deadlock freedom


def _cut_terms(ops, want):
    """all (value_pop_cut, value_push_cut, position) for cuts of one thread in front of a
    blocking op of kind `want`, plus the 'finished' cut (position None)"""
    nP = nO = np_ = no = 0
    out = []
    for i, op in enumerate(ops):
        k = op[0]
        if k == want:
            out.append((nP - nO - no, nP + np_ - nO, i))
        if k == "P":
            nP += 1
        elif k == "O":
            nO += 1
        elif k == "p":
            np_ += 1
        elif k == "o":
            no += 1
    fin = (nP - nO - no, nP + np_ - nO, None)
    return out, fin


def worst_cut(threads, cap):
    """None if the script is deadlock-free by the static condition, else (thread, position) of
    a blocking op to demote"""
    # stuck in pops: minimise the guaranteed number of items left
    for want, idx, bad in (("O", 0, lambda tot: tot < 1), ("P", 1, lambda tot: tot >= cap)):
        pick = min if want == "O" else max
        best = []   # per thread: best choice overall, best unfinished choice
        for ops in threads:
            cuts, fin = _cut_terms(ops, want)
            unf = pick(cuts, key=lambda c: c[idx]) if cuts else None
            allc = pick(cuts + [fin], key=lambda c: c[idx])
            best.append((allc, unf))
        for t, (_, unf) in enumerate(best):
            if unf is None:
                continue
            tot = unf[idx] + sum(b[0][idx] for u, b in enumerate(best) if u != t)
            if bad(tot):
                return (t, unf[2])
    return None


def make_deadlock_free(threads, cap):
    threads = [list(ops) for ops in threads]
    while True:
        w = worst_cut(threads, cap)
        if w is None:
            return threads
        t, i = w
        op = threads[t][i]
        threads[t][i] = ("p" + op[1:]) if op[0] == "P" else "o"


def _bfs_deadlock(threads, cap):
    """exhaustive API-level search (try-ops may fail at any time): can the script get stuck?"""
    n = len(threads)
    start = (tuple([0] * n), 0)
    seen = {start}
    todo = [start]
    while todo:
        pos, cnt = todo.pop()
        succ = []
        unfinished = 0
        for t in range(n):
            if pos[t] >= len(threads[t]):
                continue
            unfinished += 1
            k = threads[t][pos[t]][0]
            np_ = pos[:t] + (pos[t] + 1,) + pos[t + 1:]
            if k == "P":
                if cnt < cap:
                    succ.append((np_, cnt + 1))
            elif k == "O":
                if cnt > 0:
                    succ.append((np_, cnt - 1))
            elif k == "p":
                succ.append((np_, cnt))
                if cnt < cap:
                    succ.append((np_, cnt + 1))
            elif k == "o":
                succ.append((np_, cnt))
                if cnt > 0:
                    succ.append((np_, cnt - 1))
            else:
                succ.append((np_, cnt))
        if unfinished and not succ:
            return True
        for s in succ:
            if s not in seen:
                seen.add(s)
                todo.append(s)
    return False


def _selftest(n=3000, seed=7):
    import random
    rng = random.Random(seed)
    kept = 0
    for _ in range(n):
        cap = rng.choice([2, 4])
        threads = [[rng.choice(["P1", "O", "p1", "o", "z"]) for _ in range(rng.randrange(1, 6))]
                   for _ in range(rng.choice([2, 3]))]
        safe = make_deadlock_free(threads, cap)
        assert worst_cut(safe, cap) is None
        assert not _bfs_deadlock(safe, cap), (safe, cap)
        kept += any(op[0] in "PO" for ops in safe for op in ops)
    return kept, n


# ------------------------------------------------------------------ C16 ring buffer

def _blocking_script(rng, nt, cap, sizes, long_):
    """op kinds for a script built around blocking ops: as many guaranteed pushes (P) as
    blocking pops (O) or one more, few try ops (every `o` can steal an item a blocking pop
    waits for, every `p` can take the room a blocking push waits for), spread over the threads
    with a producer / consumer bias so that the blocking ops really wait for each other"""
    n_o = rng.randrange(0, 5 if long_ else 4)
    n_p = n_o + rng.choice([0, 0, 1]) if n_o else rng.randrange(1, cap + 1)
    n_tp = rng.choice([0, 0, 1, 2])
    n_to = rng.choice([0, 0, 0, 1])
    n_z = rng.randrange(1, 4) if sizes else 0
    bias = [rng.choice([0.15, 0.5, 0.85]) for _ in range(nt)]   # how much of a producer
    threads = [[] for _ in range(nt)]
    ops = ["P"] * n_p + ["O"] * n_o + ["p"] * n_tp + ["o"] * n_to + ["z"] * n_z
    rng.shuffle(ops)
    for op in ops:
        if op == "z":
            w = [1.0] * nt
        elif op in "Pp":
            w = bias
        else:
            w = [1.0 - b for b in bias]
        t = rng.choices(range(nt), weights=w)[0]
        threads[t].append(op)
    return [ops for ops in threads if ops] or [["z"]]


def pick_base(rng):
    """0 for ~65% of the cases; otherwise a value that makes the counters cross a power of two
    within the first few operations, or a random 64-bit value"""
    r = rng.random()
    if r < 0.65:
        return 0
    j = rng.randrange(1, 9)
    if r < 0.75:
        return (1 << 64) - j            # high crosses 2^64: finding F-C16 when >= j pushes succeed
    if r < 0.84:
        return (1 << 63) - j            # the sign bit of the counters themselves (not of the difference)
    if r < 0.92:
        return (1 << 32) - j            # size / power_of_2_mod are uint32_t
    if r < 0.96:
        return (1 << 64) - (1 << 32) - j   # rt/vrt.c prints values from here on as negative numbers
    return rng.randrange(1 << 33, (1 << 64) - (1 << 33))


def gen_ring(rng, tier):
    cases = []
    long_ = tier != "quick"
    for _ in range(n_cases(tier, 400, 6000)):
        k = rng.choice([1, 1, 2])
        nt = rng.choice([2, 2, 3, 4])
        # ~58% of the scripts may contain blocking ops (many lose all of them to the
        # deadlock rule: ~40% keep some), ~30% contain size queries, ~85% contain try ops
        blocking = rng.random() < 0.58
        sizes = rng.random() < 0.30
        if sizes and rng.random() < 0.35:
            # observer family: one thread only asks for the size, again and again, while 2-3
            # workers push and pop; this is what it takes to see `size` read a `low` that has
            # overtaken the `high` it read before (the clamp to 0), or a fill level changing
            # between its two loads
            kinds = [["z"] * rng.randrange(4, 9)]
            for _ in range(rng.choice([2, 3, 3])):
                ops = []
                for _ in range(rng.randrange(1, 4)):
                    blk = blocking and rng.random() < 0.5
                    pair = ["P" if blk else "p", "O" if blk and rng.random() < 0.5 else "o"]
                    ops += pair
                kinds.append(ops)
            rng.shuffle(kinds)
        elif blocking and rng.random() < 0.75:
            kinds = _blocking_script(rng, nt, 1 << k, sizes, long_)
        else:
            kinds = []
            for t in range(nt):
                ops = []
                for _ in range(rng.randrange(2, 10 if long_ else 7)):
                    if sizes and rng.random() < 0.2:
                        ops.append("z")
                        continue
                    push = rng.random() < 0.5
                    blk = blocking and rng.random() < 0.4
                    ops.append(("P" if blk else "p") if push else ("O" if blk else "o"))
                kinds.append(ops)
        if blocking:
            kinds = make_deadlock_free(kinds, 1 << k)
        nxt = 1
        threads = []
        for ops in kinds:
            out = []
            for op in ops:
                if op[0] in "pP":
                    out.append("%s%d" % (op[0], nxt))
                    nxt += 1
                else:
                    out.append(op[0])
            threads.append(",".join(out))
        base = pick_base(rng)
        args = [k, "|".join(threads), base, tree_variant()]
        # a run that takes `high` across 2^64 hangs in every blocking pop (F-C16): small budget
        env = sched_env(rng, budget=30000) if base >= (1 << 64) - 8 else sched_env(rng)
        cases.append({"args": args, "env": env})
    # many producers on a tiny ring that stays full: 4-7 threads of try-pushes / try-pops on 2 or
    # 4 slots, with a kernel thread parked inside trypush (between its loads and its claim /
    # between claim and write) while the others lap it: a pusher's `low` goes stale by 1 .. size-1
    # laps with the ring exactly full behind a claimed-but-unwritten slot
    for _ in range(n_cases(tier, 150, 1500)):
        k = rng.choice([1, 1, 2])
        nt = rng.randrange(4, 8)
        nxt = 1
        threads = []
        for t in range(nt):
            ops = []
            for _ in range(rng.randrange(3, 8)):
                if rng.random() < 0.6:
                    ops.append("p%d" % nxt)
                    nxt += 1
                else:
                    ops.append("o")
            threads.append(",".join(ops))
        env = {"VR_SEED": rng.randrange(1, 1 << 30), "VR_SCHED": "rand", "VR_SWITCH": rng.choice([2, 3]), "VR_BUDGET": 200000,
               "VR_STALL_FUNC": rng.choice(["lockfree_ring_buffer_trypush", "lockfree_ring_buffer_trypush", "lockfree_ring_buffer_trypop"]),
               "VR_STALL_LEN": rng.choice([40, 120, 400]), "VR_STALL_DEN": rng.choice([1, 2, 3])}
        if rng.random() < 0.4:
            env = sched_env(rng)
        cases.append({"args": [k, "|".join(threads), 0, tree_variant()], "env": env})
    return cases


def post_ring(log_path, case):
    """API-level oracle for `ret size n`, independent of the model: with
         lo = #pushes that had returned 1 before `call size` - #pops that were called before
              `ret size` and returned an item,
         hi = #pushes that were called before `ret size` and returned 1 - #pops that had
              returned an item before `call size`,
       every correct implementation reports max(lo, 0) <= n <= min(hi, capacity)
       (size reads `high`, then `low`; both only grow)."""
    cap = 1 << int(case["args"][0])
    notes = []
    with open(log_path) as f:
        for line in f:
            p = line.split()
            if len(p) >= 6 and p[3] == "note" and p[4] in ("call", "ret"):
                notes.append((int(p[0]), p[4], p[5].lstrip("b") if p[5] in ("bpush", "bpop") else p[5],
                              p[6:]))
    # pair calls with returns per thread
    ops = []     # [kind, call_pos, ret_pos, result]
    open_ = {}
    for pos, (t, cr, kind, rest) in enumerate(notes):
        if cr == "call":
            open_[t] = [kind, pos, None, None]
            ops.append(open_[t])
        elif t in open_ and open_[t][0] == kind:
            open_[t][2] = pos
            open_[t][3] = int(rest[0]) if rest else None
            del open_[t]
    for kind, c, r, n in ops:
        if kind != "size" or r is None:
            continue
        ok_push_done = sum(1 for k2, c2, r2, x2 in ops if k2 == "push" and r2 is not None and r2 < c and x2)
        ok_push_started = sum(1 for k2, c2, r2, x2 in ops if k2 == "push" and c2 < r and (r2 is None or x2))
        ok_pop_done = sum(1 for k2, c2, r2, x2 in ops if k2 == "pop" and r2 is not None and r2 < c and x2)
        ok_pop_started = sum(1 for k2, c2, r2, x2 in ops if k2 == "pop" and c2 < r and (r2 is None or x2))
        lo = max(ok_push_done - ok_pop_started, 0)
        hi = min(ok_push_started - ok_pop_done, cap)
        if not (lo <= n <= hi):
            return "size oracle: reported %d, every consistent value is in [%d, %d]" % (n, lo, hi)
    return None


def gen_cap(rng, tier):
    """every capacity exponent the constructor's assert admits (1 <= k < 32), once"""
    return [{"args": [k], "env": {"VR_SEED": 1}, "timeout": 120} for k in range(1, 32)]


SPEC = {
    "C16": {
        "pre": pre,
        "extra_props": ("QueueHist", "C16Wrap"),
        "parts": [{"name": "ring", "harness": "ring", "model": "Ring", "gen": gen_ring,
                   "post": post_ring, "known_must_validate": True},
                  # "for all capacities 2^k": the object must really have the 2^k slots the access-level
                  # model takes for granted (oracle-only part: allocation size, recorded capacity / mask,
                  # last and first slot usable)
                  {"name": "capacity", "harness": "ringcap", "model": None, "gen": gen_cap}],
        "trusted_base": ["64-bit wrap-around of high/low: Model/RingW.lean (the C arithmetic on 64-bit values, any "
                         "starting value) refines Model/Ring.lean (Props/C16Wrap.lean) provided no single call is "
                         "overlapped by 2^63 successful pushes or pops and - for the code as it is - high has not "
                         "crossed 2^64 (beyond that point trypop's `high > low` is wrong; repaired by fix commit 1470beb); which "
                         "comparison the header uses is extracted on every run (extract/ring_extract.py) and selects "
                         "the machine the log is validated against",
                         "the harness starts the counters at a non-zero base by an uninstrumented store after "
                         "lockfree_ring_buffer_create (harness/ring.c apply_base)",
                         "loads of high/low are attributed to the wrappers (push, pop, size) or to "
                         "trypush/trypop by the function name in the log line",
                         "cpu_relax() of the wrappers is made visible by a harness-local macro "
                         "(harness/ring.c), the primitive itself is unchanged"],
        "assumptions": ["values pushed are non-NULL (asserted by the C code)",
                        "weak CAS does not fail spuriously on x86-64 (cmpxchg)",
                        "callers of the blocking wrappers are deadlock-free (generated scripts are, "
                        "by construction); termination of a blocking call is not a theorem"],
    },
}
