"""C16 — lock-free ring buffer (include/lockfree_ring_buffer.h)."""
from specs import sched_env, n_cases

# ------------------------------------------------------------------ C16 ring buffer

def gen_ring(rng, tier):
    cases = []
    for _ in range(n_cases(tier, 400, 6000)):
        k = rng.choice([1, 1, 2])
        nt = rng.choice([2, 2, 3, 4])
        nxt = [1]
        threads = []
        for t in range(nt):
            ops = []
            for _ in range(rng.randrange(2, 7 if tier == "quick" else 10)):
                if rng.random() < 0.5:
                    ops.append("p%d" % nxt[0])
                    nxt[0] += 1
                else:
                    ops.append("o")
            threads.append(",".join(ops))
        cases.append({"args": [k, "|".join(threads)], "env": sched_env(rng)})
    return cases


SPEC = {
    "C16": {
        "extra_props": ("QueueHist",),
        "parts": [{"name": "ring", "harness": "ring", "model": "Ring", "gen": gen_ring}],
        "trusted_base": ["64-bit wrap-around of high/low not modelled (2^64 operations unreachable)"],
        "assumptions": ["values pushed are non-NULL (asserted by the C code)",
                        "weak CAS does not fail spuriously on x86-64 (cmpxchg)"],
    },
}
