#!/usr/bin/env python3
"""confirm_seeded.py <agent worktree> <mutation dir> — independently confirm a seeded change:
in a FRESH scratch worktree of /repo (outside /repo and /verif): the patch applies, the library
builds, the repository's test suite still passes with it, and the agent's demonstration fails
with the change and passes without it.  The scratch worktree is removed afterwards."""
import json
import os
import shutil
import subprocess
import sys
import tempfile


def sh(cmd, cwd=None, timeout=1800):
    try:
        p = subprocess.run(cmd, cwd=cwd, shell=True, stdout=subprocess.PIPE, stderr=subprocess.STDOUT,
                           text=True, timeout=timeout)
        return p.returncode, p.stdout
    except subprocess.TimeoutExpired as e:
        return 124, (e.stdout or "") if isinstance(e.stdout, str) else "TIMEOUT"


def main():
    agent_wt, mdir = os.path.abspath(sys.argv[1]), os.path.abspath(sys.argv[2])
    wt = tempfile.mkdtemp(prefix="cf_")
    os.rmdir(wt)
    res = {"mutation": mdir}
    rc, out = sh("git -C /repo worktree add -q --detach %s HEAD" % wt)
    if rc:
        print(out)
        return 2
    try:
        # same relative position as in the agent's worktree (build scripts use relative paths)
        demo_dir = os.path.join(wt, "mutations", os.path.basename(mdir))
        os.makedirs(os.path.dirname(demo_dir), exist_ok=True)
        shutil.copytree(mdir, demo_dir)

        def run_demo(tag):
            # the agent's build.sh has its own worktree paths baked in: retarget them
            rc, out = sh("for f in build.sh run.sh run_gdb.sh; do [ -f $f ] && sed -i 's#%s/mutations/%s#%s#g; s#%s#%s#g' $f; done; sh build.sh" % (
                agent_wt, os.path.basename(mdir), demo_dir, agent_wt, wt), cwd=demo_dir, timeout=600)
            if rc:
                return {"build_rc": rc, "out": out[-800:]}
            exe = "./run.sh" if os.path.exists(os.path.join(demo_dir, "run.sh")) else "./demo"
            if exe == "./run.sh" and "${1:-" in open(os.path.join(demo_dir, "run.sh")).read():
                exe = "./run.sh 1"  # the script's own repeat count: one demo run per invocation here
            if exe == "./demo" and not os.path.exists(os.path.join(demo_dir, "demo")):
                # the agent's build script put the binary elsewhere: take its -o argument
                import re
                m = re.findall(r"-o\s+(\S+)", open(os.path.join(demo_dir, "build.sh")).read())
                if m:
                    exe = m[-1]
            fails = 0
            runs = int(os.environ.get("CONFIRM_RUNS", "5"))
            last = ""
            for _ in range(runs):
                rc, out = sh("timeout 300 %s" % exe, cwd=demo_dir, timeout=400)
                if rc != 0:
                    fails += 1
                    last = out[-400:]
            return {"runs": runs, "fails": fails, "last_fail_output": last}

        rc, out = sh("cmake -G Ninja -S %s -B %s/_b -DFIBER_RUN_TESTS_WITH_BUILD=OFF >/dev/null && cmake --build %s/_b 2>&1 | tail -3" % (wt, wt, wt))
        res["clean_build_rc"] = rc
        res["demo_clean"] = run_demo("clean")
        rc, out = sh("git -C %s apply %s" % (wt, os.path.join(mdir, "patch.diff")))
        res["patch_applies"] = rc == 0
        if rc == 0:
            rc, out = sh("cmake --build %s/_b 2>&1 | tail -3" % wt)
            res["mutated_build_rc"] = rc
            passes = []
            for _ in range(2):
                rc, out = sh("ctest --test-dir %s/_b -j4 --timeout 900 2>&1" % wt)
                import re
                failed = re.findall(r"^\s*\d+ - (\S+) \(", out, re.M)
                still = []
                for t in failed:
                    # the suite has load-sensitive tests (test_wsd timing, test_io's fixed port):
                    # a test counts as failing only if it also fails alone, three times
                    ok1 = False
                    for _ in range(3):
                        rc1, _o = sh("ctest --test-dir %s/_b -R '^%s$' --timeout 900 2>&1 | grep -q '100%% tests passed'" % (wt, t))
                        if rc1 == 0:
                            ok1 = True
                            break
                    if not ok1:
                        still.append(t)
                passes.append(("100%% tests passed (failed under load but pass alone: %s)" % ",".join(failed)) if not still else "FAILED: " + ",".join(still))
            res["mutated_ctest"] = passes
            res["demo_mutated"] = run_demo("mutated")
    finally:
        sh("git -C /repo worktree remove --force %s" % wt)
        shutil.rmtree(wt, ignore_errors=True)
    print(json.dumps(res, indent=1))
    return 0


if __name__ == "__main__":
    sys.exit(main())
