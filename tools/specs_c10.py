"""C10 — fiber_yield fairness (src/fiber_scheduler_wsd.c, src/fiber_manager.c)."""
from specs import sched_env, n_cases


def gen_script(rng, maxf, maxops):
    nf = rng.randrange(2, maxf + 1)
    fibers = []
    has_f = [rng.random() < 0.6 for _ in range(nf)]
    for i in range(nf):
        ops = []
        for _ in range(rng.randrange(1, maxops + 1)):
            r = rng.random()
            later = [j for j in range(i + 1, nf) if has_f[j]]
            if r < 0.25 and later:
                ops.append("w%d" % rng.choice(later))   # only wait for later fibers: acyclic
            else:
                ops.append("y")
        if has_f[i]:
            ops.insert(rng.randrange(0, len(ops) + 1), "f")
            # nothing before `f` may wait on an earlier fiber (it never does) - fine
        fibers.append(",".join(ops))
    return "|".join(fibers)


def gen(rng, tier):
    cases = []
    for _ in range(n_cases(tier, 150, 1500)):
        # one kernel thread: deterministic, exact run-order validation against the model
        cases.append({"args": [1, gen_script(rng, 6, 7 if tier == "quick" else 12)],
                      "env": {"VR_SCHED": "rr", "VR_SEED": rng.randrange(1, 1 << 30), "VR_BUDGET": 300000}})
    for nf in ([300] if tier == "quick" else [257, 300, 520]):
        # more ready fibers than the initial deque capacity (256): size-triggered paths
        script = "|".join(["y,y"] * nf)
        cases.append({"args": [1, script], "env": {"VR_SCHED": "rr", "VR_SEED": 1, "VR_BUDGET": 3000000, "VR_MAXEV": 4000000}, "timeout": 300})
    for _ in range(n_cases(tier, 100, 1000)):
        # several kernel threads: stealing in play; starvation shows as STARVED / BUDGET
        cases.append({"args": [rng.choice([2, 3]), gen_script(rng, 6, 6)],
                      "env": sched_env(rng, budget=400000)})
    return cases


SPEC = {
    "C10": {
        "parts": [{"name": "yield", "harness": "yield", "model": "Sched", "runtime": True, "gen": gen,
                   "nontrivial": lambda s: s["hist"].get("switch #", 0) >= 6}],
        "rule": "cases = (script of 2-6 fibers mixing yield and yield-polling waits, 1-3 kernel threads, scheduler seed) from VERIF_SEED; distinct = different (script, sha1 of the access/switch sequence); non-trivial = at least 6 context switches",
        "trusted_base": [
            "run queues as lists (deque internals are C02's model Wsd); SAVING-skip does not occur in yield-only programs",
            "exact run-order validation on 1 kernel thread; with N>1 threads only the starvation oracle (wait loops must terminate) is applied"],
        "assumptions": ["scripts are deadlock-free by construction (a fiber only waits for a later-indexed fiber that does set its flag)"],
    },
}
