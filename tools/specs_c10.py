"""C10 — fiber_yield fairness (src/fiber_scheduler_wsd.c, src/fiber_manager.c)."""
from specs import sched_env, n_cases


def gen_script(rng, maxf, maxops):
    nf = rng.randrange(2, maxf + 1)
    fibers = []
    has_f = [rng.random() < 0.6 for _ in range(nf)]
    for i in range(nf):
        ops = []
        for _ in range(rng.randrange(1, maxops + 1)):
            r = rng.random()
            later = [j for j in range(i + 1, nf) if has_f[j]]
            if r < 0.25 and later:
                ops.append("w%d" % rng.choice(later))   # only wait for later fibers: acyclic
            else:
                ops.append("y")
        if has_f[i]:
            ops.insert(rng.randrange(0, len(ops) + 1), "f")
            # nothing before `f` may wait on an earlier fiber (it never does) - fine
        fibers.append(",".join(ops))
    return "|".join(fibers)


def gen_block_script(rng):
    """fibers that block and wake each other (2-party barriers: MPSC waiter queue; semaphore
    producer/consumer: MPMC waiter queue) next to pure yielders and a yield-polling fiber.
    Deadlock-free by construction: the two users of a barrier arrive equally often and do
    nothing else that blocks; every semaphore wait has its post in a fiber that never blocks."""
    fibers = []
    prim = 0
    for _ in range(rng.randrange(1, 3)):
        k = prim % 4
        prim += 1
        n = rng.randrange(2, 7) if rng.random() < 0.8 else rng.randrange(20, 40)
        if rng.random() < 0.6:
            for _side in range(2):
                ops = []
                for _ in range(n):
                    ops.append("b%d" % k)
                    if rng.random() < 0.25:
                        ops.append("y")
                fibers.append(ops)
        else:
            prod, cons = [], []
            for _ in range(n):
                prod.append("r%d" % k)
                if rng.random() < 0.4:
                    prod.append("y")
                cons.append("a%d" % k)
                if rng.random() < 0.2:
                    cons.append("y")
            fibers += [prod, cons]
    for _ in range(rng.randrange(1, 4)):
        fibers.append(["y"] * rng.randrange(2, 9))
    rng.shuffle(fibers)
    # one yielder-poller waiting for the last fiber to finish
    fibers[-1] = fibers[-1] + ["f"]
    if rng.random() < 0.5:
        fibers.insert(0, ["y", "w%d" % len(fibers), "y"])
    return "|".join(",".join(f) for f in fibers)


def gen(rng, tier):
    cases = []
    for _ in range(n_cases(tier, 100, 1000)):
        cases.append({"args": [1, gen_block_script(rng)],
                      "env": {"VR_SCHED": "rr", "VR_SEED": rng.randrange(1, 1 << 30), "VR_BUDGET": 300000}})
    for _ in range(n_cases(tier, 40, 400)):
        cases.append({"args": [rng.choice([2, 3]), gen_block_script(rng)], "env": sched_env(rng, budget=400000)})
    for _ in range(n_cases(tier, 150, 1500)):
        # one kernel thread: deterministic, exact run-order validation against the model
        cases.append({"args": [1, gen_script(rng, 6, 7 if tier == "quick" else 12)],
                      "env": {"VR_SCHED": "rr", "VR_SEED": rng.randrange(1, 1 << 30), "VR_BUDGET": 300000}})
    for nf in ([300] if tier == "quick" else [257, 300, 520]):
        # more ready fibers than the initial deque capacity (256): size-triggered paths
        script = "|".join(["y,y"] * nf)
        cases.append({"args": [1, script], "env": {"VR_SCHED": "rr", "VR_SEED": 1, "VR_BUDGET": 3000000, "VR_MAXEV": 4000000}, "timeout": 300})
    for _ in range(n_cases(tier, 100, 1000)):
        # several kernel threads: stealing in play; starvation shows as STARVED / BUDGET
        cases.append({"args": [rng.choice([2, 3]), gen_script(rng, 6, 6)],
                      "env": sched_env(rng, budget=400000)})
    return cases


SPEC = {
    "C10": {
        "parts": [{"name": "yield", "harness": "yield", "model": "Sched", "runtime": True, "gen": gen,
                   "nontrivial": lambda s: s["hist"].get("switch #", 0) >= 6}],
        "rule": "cases = (script of 2-6 fibers mixing yield and yield-polling waits, or pairs of fibers that block and wake each other through 2-party barriers / semaphores next to yielders, 1-3 kernel threads, scheduler seed) from VERIF_SEED; distinct = different (script, sha1 of the access/switch sequence); non-trivial = at least 6 context switches",
        "trusted_base": [
            "run queues as lists (deque internals are C02's model Wsd); SAVING-skip does not occur in yield-only programs",
            "on one kernel thread the harness announces who parks and who is woken (`block` / `sched <fiber>` notes from its own ghost count of barrier arrivals and semaphore units); a wrong announcement makes the run-order prediction diverge, it cannot hide a starvation",
            "exact run-order validation on 1 kernel thread; with N>1 threads only the starvation oracle (wait loops must terminate) is applied"],
        "assumptions": ["scripts are deadlock-free by construction (a fiber only waits for a later-indexed fiber that does set its flag)"],
    },
}
