"""C10 — fiber_yield fairness (src/fiber_scheduler_wsd.c, src/fiber_manager.c)."""
from specs import sched_env, n_cases


def gen_script(rng, maxf, maxops):
    nf = rng.randrange(2, maxf + 1)
    fibers = []
    has_f = [rng.random() < 0.6 for _ in range(nf)]
    for i in range(nf):
        ops = []
        for _ in range(rng.randrange(1, maxops + 1)):
            r = rng.random()
            later = [j for j in range(i + 1, nf) if has_f[j]]
            if r < 0.25 and later:
                ops.append("w%d" % rng.choice(later))   # only wait for later fibers: acyclic
            else:
                ops.append("y")
        if has_f[i]:
            ops.insert(rng.randrange(0, len(ops) + 1), "f")
            # nothing before `f` may wait on an earlier fiber (it never does) - fine
        fibers.append(",".join(ops))
    return "|".join(fibers)


def gen_block_script(rng):
    """fibers that block and wake each other (2-party barriers: MPSC waiter queue; semaphore
    producer/consumer: MPMC waiter queue) next to pure yielders and a yield-polling fiber.
    Deadlock-free by construction: the two users of a barrier arrive equally often and do
    nothing else that blocks; every semaphore wait has its post in a fiber that never blocks."""
    fibers = []
    prim = 0
    for _ in range(rng.randrange(1, 3)):
        k = prim % 4
        prim += 1
        n = rng.randrange(2, 7) if rng.random() < 0.8 else rng.randrange(20, 40)
        if rng.random() < 0.6:
            for _side in range(2):
                ops = []
                for _ in range(n):
                    ops.append("b%d" % k)
                    if rng.random() < 0.25:
                        ops.append("y")
                fibers.append(ops)
        else:
            prod, cons = [], []
            for _ in range(n):
                prod.append("r%d" % k)
                if rng.random() < 0.4:
                    prod.append("y")
                cons.append("a%d" % k)
                if rng.random() < 0.2:
                    cons.append("y")
            fibers += [prod, cons]
    for _ in range(rng.randrange(1, 4)):
        fibers.append(["y"] * rng.randrange(2, 9))
    rng.shuffle(fibers)
    # one yielder-poller waiting for the last fiber to finish
    fibers[-1] = fibers[-1] + ["f"]
    if rng.random() < 0.5:
        fibers.insert(0, ["y", "w%d" % len(fibers), "y"])
    return "|".join(",".join(f) for f in fibers)


def gen(rng, tier):
    """one kernel thread: deterministic, exact run-order validation against model `Sched`"""
    cases = []
    for _ in range(n_cases(tier, 100, 1000)):
        cases.append({"args": [1, gen_block_script(rng)],
                      "env": {"VR_SCHED": "rr", "VR_SEED": rng.randrange(1, 1 << 30), "VR_BUDGET": 300000}})
    for _ in range(n_cases(tier, 150, 1500)):
        cases.append({"args": [1, gen_script(rng, 6, 7 if tier == "quick" else 12)],
                      "env": {"VR_SCHED": "rr", "VR_SEED": rng.randrange(1, 1 << 30), "VR_BUDGET": 300000}})
    for nf in ([300] if tier == "quick" else [257, 300, 520]):
        # more ready fibers than the initial deque capacity (256): size-triggered paths
        script = "|".join(["y,y"] * nf)
        cases.append({"args": [1, script], "env": {"VR_SCHED": "rr", "VR_SEED": 1, "VR_BUDGET": 3000000, "VR_MAXEV": 4000000}, "timeout": 300})
    return cases


def gen_barrier_script(rng):
    """barrier-heavy: several pairs keep parking in state SAVING_STATE_TO_WAIT and waking each
    other across kernel threads, so fibers reach a run queue while their context is still being
    saved (skipped by fiber_scheduler_next) and load_balance is called with them in store_to"""
    fibers = []
    for k in range(rng.randrange(1, 4)):
        n = rng.randrange(3, 9)
        for _side in range(2):
            ops = []
            for _ in range(n):
                ops.append("b%d" % k)
                if rng.random() < 0.3:
                    ops.append("y")
            fibers.append(ops)
    for _ in range(rng.randrange(0, 3)):
        fibers.append(["y"] * rng.randrange(2, 7))
    rng.shuffle(fibers)
    return "|".join(",".join(f) for f in fibers)


def gen_n(rng, tier):
    """several kernel threads (2-4): work stealing in play; every run-queue event, context
    switch and scheduler access to a fiber state word is replayed through model `SchedN`;
    starvation also shows as STARVED / BUDGET"""
    cases = []
    for _ in range(n_cases(tier, 40, 400)):
        cases.append({"args": [rng.choice([2, 3, 4]), gen_block_script(rng)], "env": sched_env(rng, budget=400000)})
    # a thief whose own store_to is NOT empty (it holds skipped fibers) is rare (about 2 % of
    # these runs) and is the only situation in which it matters which of its deques the loot
    # goes to: many cheap cases, some with the parking fiber stalled inside its SAVING window
    for i in range(n_cases(tier, 300, 2000)):
        env = sched_env(rng, budget=400000)
        if i % 5 == 4:
            env = {"VR_SEED": rng.randrange(1, 1 << 30), "VR_SCHED": "rand", "VR_SWITCH": rng.choice([2, 3]),
                   "VR_BUDGET": 600000, "VR_STALL_FUNC": "fiber_manager_wait_in_mpsc_queue",
                   "VR_STALL_LEN": rng.choice([60, 200, 600]), "VR_STALL_DEN": rng.choice([1, 2, 3])}
        cases.append({"args": [rng.choice([2, 3, 4]), gen_barrier_script(rng)], "env": env})
    for _ in range(n_cases(tier, 100, 1000)):
        cases.append({"args": [rng.choice([2, 3, 4]), gen_script(rng, 6, 6)],
                      "env": sched_env(rng, budget=400000)})
    for i in range(n_cases(tier, 8, 40)):
        # many more stealable fibers than max_steal (50): a load_balance call that starts when the
        # victim holds > 100 fibers stops at its limit, not at `remote_count > local_count`
        script = "|".join(["y,y"] * rng.choice([200, 300, 400]))
        cases.append({"args": [2 if i % 4 else 3, script], "env": sched_env(rng, budget=3000000), "timeout": 300})
    return cases


def _rt_scale_part():
    """tens of thousands of ready fibers on one kernel thread (run-queue lengths beyond 2^15 and
    2^16): every one of them must get to run - C02's scale part, re-run here"""
    def gen(rng, tier):
        import importlib
        m = importlib.import_module("specs_c02")
        src = [p for p in m.SPEC["C02"]["parts"] if p["name"] == "rt-scale"][0]
        return src["gen"](rng, tier)
    import vlib
    return {"name": "rt-scale", "harness": "rtscale", "model": None, "runtime": True, "gen": gen, "post": vlib.oracle_note}


SPEC = {
    "C10": {
        "parts": [{"name": "yield", "harness": "yield", "model": "Sched", "runtime": True, "gen": gen,
                   "nontrivial": lambda s: s["hist"].get("switch #", 0) >= 6},
                  {"name": "yieldN", "harness": "yield", "model": "SchedN", "runtime": True, "gen": gen_n,
                   "nontrivial": lambda s: s["hist"].get("switch #", 0) >= 6}, _rt_scale_part()],
        "rule": "cases = (script of 2-6 fibers mixing yield and yield-polling waits, or pairs of fibers that block and wake each other through 2-party barriers / semaphores next to yielders, or 70-130 yielders, 1-4 kernel threads, scheduler seed) from VERIF_SEED; distinct = different (script, sha1 of the access/switch sequence); non-trivial = at least 6 context switches",
        "trusted_base": [
            "run queues as lists (deque internals are C02's model Wsd)",
            "on one kernel thread the harness announces who parks and who is woken (`block` / `sched <fiber>` notes from its own ghost count of barrier arrivals and semaphore units); a wrong announcement makes the run-order prediction diverge, it cannot hide a starvation",
            "exact run-order validation on 1 kernel thread (model Sched); with 2-4 kernel threads every rqpush / rqpop / rqsteal / switch line and every scheduler access to a fiber state word in fiber_manager_yield / fiber_scheduler_next / fiber_manager_do_maintenance is replayed through SchedN.step (steal = top of the victim's deque, loot onto the thief's schedule_from, at most 50 per load_balance call, load_balance only with an empty schedule_from), plus the bounded-bypass monitor of Props/C10 bypass_bound_from_store_to and the starvation oracle (wait loops must terminate)",
            "N threads: which physical deque (queue_one / queue_two) plays schedule_from is followed through the swaps of fiber_scheduler_next; while BOTH deques of a thread are empty the swaps leave no trace in the log and the next push defines the roles (so 'loot pushed onto store_to' is only seen when the thief's store_to is non-empty or on the second steal of a call)",
            "N threads: wake-ups performed by a thread in its maintenance loop (event poller, deferred unlock) are not in the model; the yield harness has none"],
        "assumptions": ["scripts are deadlock-free by construction (a fiber only waits for a later-indexed fiber that does set its flag)"],
    },
}
